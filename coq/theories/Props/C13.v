(* C13 — BasicAuth / KeyAuth: the handler runs only after the validator said yes.
   Statements only; proofs in Mw/AuthProofs.v.  [decode] = base64 oracle, [validator] = any function. *)
From Coq Require Import List Bool Ascii String.
From Echo Require Import Base.Sx Mw.Auth Mw.AuthProofs.
Import ListNotations.
Open Scope char_scope.
From Echo Require Import PropLemmas.C13.

Theorem C13_basic_sound : forall decode validator auth, fst (basic_auth decode validator auth) = Ran ->
  exists u p, decode (skipn 6 auth) = Some (u ++ ":" :: p) /\ no_colon u = true /\ validator u p = VTrue /\
              eq_fold (firstn 5 auth) basic_lit = true /\ 6 < List.length auth.
Proof. exact basic_sound. Qed.
Print Assumptions C13_basic_sound.

Theorem C13_basic_complete : forall decode validator auth u p,
  6 < List.length auth -> eq_fold (firstn 5 auth) basic_lit = true ->
  decode (skipn 6 auth) = Some (u ++ ":" :: p) -> no_colon u = true -> validator u p = VTrue ->
  fst (basic_auth decode validator auth) = Ran.
Proof. exact basic_complete. Qed.
Print Assumptions C13_basic_complete.

(* the validator is asked at most once, about the first-colon split of the decoded text *)
Theorem C13_basic_calls : forall decode validator auth,
  match snd (basic_auth decode validator auth) with
  | [] => True
  | [(u, p)] => exists cred, decode (skipn 6 auth) = Some cred /\ split_colon cred = Some (u, p)
  | _ => False end.
Proof. exact basic_calls. Qed.
Print Assumptions C13_basic_calls.

Theorem C13_basic_blocks : forall decode validator auth u p cred,
  decode (skipn 6 auth) = Some cred -> split_colon cred = Some (u, p) ->
  validator u p <> VTrue -> fst (basic_auth decode validator auth) <> Ran.
Proof. exact basic_blocks. Qed.
Print Assumptions C13_basic_blocks.

(* KeyAuth: the handler runs only for a key literally present at a configured location (scheme
   prefix removed) that the validator accepted; and always when there is one *)
Theorem C13_keyauth_sound : forall validator ls, fst (key_auth validator ls) = Ran ->
  exists l keys k, In l ls /\ extract l = inl keys /\ In k keys /\ validator k = VTrue /\ present l k.
Proof. exact C13_keyauth_sound_l. Qed.
Print Assumptions C13_keyauth_sound.

Theorem C13_keyauth_complete : forall validator ls l keys k, In l ls -> extract l = inl keys -> In k keys ->
  validator k = VTrue -> fst (key_auth validator ls) = Ran.
Proof. exact C13_keyauth_complete_l. Qed.
Print Assumptions C13_keyauth_complete.

(* every extracted value is literally present at its location *)
Theorem C13_extract_present : forall l keys k, extract l = inl keys -> In k keys -> present l k.
Proof. exact extract_present. Qed.
Print Assumptions C13_extract_present.

(* ---- tie to the source by proof: the request handler (innermost closure) of KeyAuthWithConfig, translated statement by
   statement from middleware/key_auth.go on every run (Gen/Src_keyauth.v, language Base/GoLoop.v: nested `for range` loops with
   `continue`, slices as values, calls whose results are a fixed function of their arguments for one request), behaves like the
   model's [key_auth] the theorems above are about - for EVERY list of lookups with whatever they find and EVERY validator
   (default error handling: no ErrorHandler): the keys handed to the validator, in order, are the model's calls; next is called
   exactly when the model says Ran; and the closure returns the result of next (200), 401 or 400 as the model's outcome says.
   An extractor, for one request, is what it finds ([ext_val]: the keys of [extract l], or its error). *)
From Coq Require Import String ZArith.
From Echo Require Import Base.GoLoop Gen.Src_keyauth Mw.KeyAuthSrc.

Theorem C13_source_keyauth_handler : forall validator ls,
  let '(st', ret) := GoLoop.run ksym (kpred validator) src_key_auth_handler_results src_key_auth_handler (start ls) in
  let '(o, calls) := key_auth validator ls in
  vkeys_of (events st') = calls /\
  called_next st' = (match o with Ran => true | Rejected _ => false end) /\
  ret = [VZ (match o with Ran => 200 | Rejected c => Z.of_nat c end)%Z].
Proof. exact src_key_auth_handler_spec. Qed.
Print Assumptions C13_source_keyauth_handler.

(* the request handler of BasicAuthWithConfig (Gen/Src_basicauth.v: an index loop over the decoded credentials, slicing and
   indexing as pure predicates): for EVERY Authorization value, base64 decoder and validator it behaves like the model's
   [basic_auth] - the scheme test on the first five bytes of a header longer than six, 400 when the rest is not base64, the
   split at the FIRST colon, one validator call with exactly (user, password), the handler only on (true, nil), the
   validator's own error handed on (9), 401 otherwise *)
From Echo Require Import Gen.Src_basicauth Mw.BasicAuthSrc.

Theorem C13_source_basicauth_handler : forall decode validator auth,
  let '(st', ret) := GoLoop.run (bsym auth) (bpred decode validator) src_basic_auth_handler_results src_basic_auth_handler BasicAuthSrc.start in
  let '(o, calls) := basic_auth decode validator auth in
  vpairs_of (events st') = calls /\
  BasicAuthSrc.called_next st' = (match o with Ran => true | Rejected _ => false end) /\
  ret = [VZ (match o with Ran => 200 | Rejected 0 => 9 | Rejected c => Z.of_nat c end)%Z].
Proof. exact src_basic_auth_handler_spec. Qed.
Print Assumptions C13_source_basicauth_handler.
