From Coq Require Import List Bool Ascii String Arith Lia.
From Echo Require Import Base.Sx Mw.Auth Bind.ParseNum Bind.BindData.
Import ListNotations.

(* the field reached by a path of field indices *)
Inductive at_path : ty -> path -> field -> Prop :=
| ap_here fs i fl : nth_error fs i = Some fl -> at_path (TStruct fs) [i] fl
| ap_deeper fs i st an tags ft p fl : nth_error fs i = Some (Field st an tags ft) -> at_path ft p fl ->
    at_path (TStruct fs) (i :: p) fl.

(* the field is settable, carries a non-empty tag for the source, and the data holds a key equal to it
   (exactly, or under strings.EqualFold); what is written are that key's values (the first one for a scalar), an
   empty text standing for the zero of a numeric kind ([stored]) *)
Definition supplied (fl : field) (s : source) (d : data) (vals : list str) : Prop :=
  match fl with Field st an tags ft =>
    st = true /\ tag_of tags s <> [] /\
    exists key all k, In (key, all) d /\ (key = tag_of tags s \/ eq_fold key (tag_of tags s) = true) /\
                    (vals = map (stored k) all \/ exists v r, all = v :: r /\ vals = [stored k v])
  end.

Lemma lookup_some d k v : lookup d k = Some v -> exists key, In (key, v) d /\ (key = k \/ eq_fold key k = true).
Proof.
  unfold lookup. destruct (find (fun kv => str_eqb (fst kv) k) d) as [kv|] eqn:E1.
  - intro H; inversion H; subst. apply find_some in E1 as [Hin He]. apply str_eqb_eq in He.
    exists (fst kv). split; [rewrite <- surjective_pairing; exact Hin|left; exact He].
  - destruct (find (fun kv => eq_fold (fst kv) k) d) as [kv|] eqn:E2; [|discriminate].
    intro H; inversion H; subst. apply find_some in E2 as [Hin He].
    exists (fst kv). split; [rewrite <- surjective_pairing; exact Hin|right; exact He].
Qed.

Lemma supplied_intro an tags ft s d all vals k : tag_of tags s <> [] -> lookup d (tag_of tags s) = Some all ->
  (vals = map (stored k) all \/ exists v r, all = v :: r /\ vals = [stored k v]) -> supplied (Field true an tags ft) s d vals.
Proof. intros Hne Hl Hv. destruct (lookup_some _ _ _ Hl) as [key [Hk Hke]]. unfold supplied.
  split; [reflexivity|]. split; [exact Hne|]. exists key, all, k. auto. Qed.

Definition inner_go (bind_rec : ty -> data -> source -> path -> result) (d : data) (s : source) (pre : path) :=
  fix go (fs : list field) (i : nat) : result :=
    match fs with
    | [] => Writes []
    | Field settable anon tags ft :: r =>
        let here :=
          if negb settable then Writes []
          else
            let name := tag_of tags s in
            match name with
            | [] => match ft with TStruct _ => bind_rec ft d s (pre ++ [i]) | _ => Writes [] end
            | _ => match ft, anon with
                   | TStruct _, true => Error
                   | _, _ =>
                     match lookup d name with
                     | None => Writes []
                     | Some vals =>
                         match ft with
                         | TScalar k => match vals with
                                        | v :: _ => if conv_ok k v then Writes [(pre ++ [i], [stored k v])] else Error
                                        | [] => Writes []
                                        end
                         | TSlice k => if forallb (conv_ok k) vals then Writes [(pre ++ [i], map (stored k) vals)] else Error
                         | TStruct _ => Error
                         end
                     end
                   end
            end in
        match here with
        | Error => Error
        | Writes w => cat (Writes w) (go r (S i))
        end
    end.

Lemma bind_ty_struct f fs d s pre : bind_ty (S f) (TStruct fs) d s pre = inner_go (bind_ty f) d s pre fs 0.
Proof. reflexivity. Qed.

(* ---------- a field is written only if it carries the source's tag and the data supplies that key *)
Theorem tag_only : forall f t d s pre ws, bind_ty f t d s pre = Writes ws ->
  forall p vals, In (p, vals) ws -> exists q fl, p = pre ++ q /\ at_path t q fl /\ supplied fl s d vals.
Proof.
  induction f as [|f IH]; intros t d s pre ws H p vals Hin; [inversion H; subst; contradiction|].
  destruct t as [k|k|fs]; try (inversion H; subst; contradiction).
  rewrite bind_ty_struct in H.
  assert (G : forall fs0 i ws0, inner_go (bind_ty f) d s pre fs0 i = Writes ws0 ->
            forall p vals, In (p, vals) ws0 ->
            exists j fl0, nth_error fs0 j = Some fl0 /\
              ((p = pre ++ [i + j] /\ supplied fl0 s d vals) \/
               (exists st an tags ft q fl, fl0 = Field st an tags ft /\ p = pre ++ (i + j) :: q /\ at_path ft q fl /\ supplied fl s d vals))).
  { induction fs0 as [|[st an tags ft] r IHr]; intros i ws0 H0 p0 vals0 Hin0; [inversion H0; subst; contradiction|].
    cbn [inner_go] in H0.
    match type of H0 with match ?h with _ => _ end = _ => destruct h as [w|] eqn:Eh end; [|discriminate].
    fold (inner_go (bind_ty f) d s pre) in H0.
    destruct (inner_go (bind_ty f) d s pre r (S i)) as [w2|] eqn:Er; [|discriminate].
    cbn [cat] in H0. inversion H0; subst ws0. apply in_app_or in Hin0 as [Hin0|Hin0].
    - (* written by this field *)
      exists 0, (Field st an tags ft). split; [reflexivity|]. rewrite Nat.add_0_r.
      destruct st; cbn [negb] in Eh; [|inversion Eh; subst; contradiction].
      destruct (tag_of tags s) as [|c0 tg] eqn:Et.
      + destruct ft as [k|k|fs1]; try (inversion Eh; subst; contradiction).
        destruct (IH _ _ _ _ _ Eh _ _ Hin0) as [q [fl [Ep [Hap Hs]]]]. right.
        exists true, an, tags, (TStruct fs1), q, fl. repeat split; auto. rewrite Ep, <- app_assoc. reflexivity.
      + left.
        destruct ft as [k|k|fs1].
        * destruct (lookup d (c0 :: tg)) as [all|] eqn:El; [|inversion Eh; subst; contradiction].
          destruct all as [|v r0]; [inversion Eh; subst; contradiction|].
          destruct (conv_ok k v); [|discriminate]. inversion Eh; subst. destruct Hin0 as [Hin0|[]]. inversion Hin0; subst.
          split; [reflexivity|]. apply (supplied_intro an tags (TScalar k) s d (v :: r0) _ k); [rewrite Et; discriminate|rewrite Et; exact El|right; eauto].
        * destruct (lookup d (c0 :: tg)) as [all|] eqn:El; [|inversion Eh; subst; contradiction].
          destruct (forallb (conv_ok k) all); [|discriminate]. inversion Eh; subst. destruct Hin0 as [Hin0|[]]. inversion Hin0; subst.
          split; [reflexivity|]. apply (supplied_intro an tags (TSlice k) s d all _ k); [rewrite Et; discriminate|rewrite Et; exact El|left; reflexivity].
        * destruct an; [discriminate|]. destruct (lookup d (c0 :: tg)); [discriminate|inversion Eh; subst; contradiction].
    - destruct (IHr (S i) w2 Er p0 vals0 Hin0) as [j [fl0 [Hn Hc]]]. exists (S j), fl0. split; [exact Hn|].
      replace (i + S j) with (S i + j) by lia. exact Hc. }
  destruct (G fs 0 ws H p vals Hin) as [j [fl0 [Hn [[Ep Hs]|[st [an [tags [ft [q [fl [E0 [Ep [Hap Hs]]]]]]]]]]]]]; cbn [Nat.add] in Ep.
  - exists [j], fl0. split; [exact Ep|]. split; [constructor; exact Hn|exact Hs].
  - exists (j :: q), fl. split; [exact Ep|]. split; [|exact Hs]. subst fl0. econstructor; eassumption.
Qed.

(* ---------- binding consults the data only through the tags of the destination *)
Fixpoint tags_of (s : source) (t : ty) : list str :=
  match t with
  | TStruct fs => (fix go (fs : list field) : list str :=
                     match fs with
                     | [] => []
                     | Field _ _ tags ft :: r => tag_of tags s :: tags_of s ft ++ go r
                     end) fs
  | _ => []
  end.

Theorem only_tags_matter : forall f t d1 d2 s pre,
  (forall name, In name (tags_of s t) -> lookup d1 name = lookup d2 name) ->
  bind_ty f t d1 s pre = bind_ty f t d2 s pre.
Proof.
  induction f as [|f IH]; intros t d1 d2 s pre H; [reflexivity|].
  destruct t as [k|k|fs]; try reflexivity. rewrite !bind_ty_struct.
  assert (G : forall fs0 i, (forall name, In name (tags_of s (TStruct fs0)) -> lookup d1 name = lookup d2 name) ->
            inner_go (bind_ty f) d1 s pre fs0 i = inner_go (bind_ty f) d2 s pre fs0 i).
  { induction fs0 as [|[st an tags ft] r IHr]; intros i H0; [reflexivity|]. cbn [inner_go].
    fold (inner_go (bind_ty f) d1 s pre). fold (inner_go (bind_ty f) d2 s pre).
    assert (Hr : forall name, In name (tags_of s (TStruct r)) -> lookup d1 name = lookup d2 name).
    { intros name Hn. apply H0. cbn [tags_of]. right. apply in_or_app. right. exact Hn. }
    rewrite (IHr (S i) Hr).
    assert (Ht : lookup d1 (tag_of tags s) = lookup d2 (tag_of tags s)) by (apply H0; cbn [tags_of]; left; reflexivity).
    assert (Hf : forall pre', bind_ty f ft d1 s pre' = bind_ty f ft d2 s pre').
    { intro pre'. apply IH. intros name Hn. apply H0. cbn [tags_of]. right. apply in_or_app. left. exact Hn. }
    destruct st; cbn [negb]; [|reflexivity].
    destruct (tag_of tags s) as [|c0 tg]; [destruct ft; try reflexivity; rewrite Hf; reflexivity|].
    rewrite Ht. reflexivity. }
  apply G. exact H.
Qed.

(* keys that match no tag of the destination (not even case-insensitively) cannot change the result *)
Lemma find_app_none {A} (f : A -> bool) l extra : (forall x, In x extra -> f x = false) -> find f (l ++ extra) = find f l.
Proof. intro H. induction l as [|a l IH]; simpl.
  - induction extra as [|e r IHe]; [reflexivity|]. simpl. rewrite (H e (or_introl eq_refl)). apply IHe. intros x Hx. apply H. right. exact Hx.
  - destruct (f a); [reflexivity|exact IH]. Qed.

Lemma lookup_extra d extra name : (forall kv, In kv extra -> eq_fold (fst kv) name = false) ->
  lookup (d ++ extra) name = lookup d name.
Proof.
  intro H. unfold lookup.
  assert (He : forall kv, In kv extra -> str_eqb (fst kv) name = false).
  { intros kv Hk. destruct (str_eqb (fst kv) name) eqn:E; [|reflexivity]. apply str_eqb_eq in E.
    specialize (H kv Hk). rewrite E in H. exfalso.
    assert (R : forall x, eq_fold x x = true) by (induction x as [|c x IHx]; simpl; [reflexivity|rewrite Ascii.eqb_refl; exact IHx]).
    rewrite R in H. discriminate. }
  rewrite (find_app_none _ d extra He), (find_app_none _ d extra H). reflexivity.
Qed.

Theorem irrelevant_keys t d extra s : d <> [] ->
  (forall name kv, In name (tags_of s t) -> In kv extra -> eq_fold (fst kv) name = false) ->
  bind_data t (d ++ extra) s = bind_data t d s.
Proof.
  intros Hne H. unfold bind_data. destruct d as [|x d']; [congruence|]. cbn [app].
  apply only_tags_matter. intros name Hn. apply (lookup_extra (x :: d') extra name). intros kv Hk. apply (H name kv Hn Hk).
Qed.

(* ---------- Bind: sources in the order path < query (GET/DELETE/HEAD only) < body; the final value of a
   field is that of the last source supplying it *)
Lemma find_app_some {A} (f : A -> bool) l1 l2 w : find f l1 = Some w -> find f (l1 ++ l2) = Some w.
Proof. induction l1 as [|a l1 IH]; intro H; [discriminate|]. simpl in *. destruct (f a); [exact H|apply IH; exact H]. Qed.
Lemma find_app_skip {A} (f : A -> bool) l1 l2 : find f l1 = None -> find f (l1 ++ l2) = find f l2.
Proof. induction l1 as [|a l1 IH]; intro H; [reflexivity|]. simpl in *. destruct (f a); [discriminate|apply IH; exact H]. Qed.

Lemma final_app_last ws1 ws2 p v : final ws2 p = Some v -> final (ws1 ++ ws2) p = Some v.
Proof.
  unfold final. rewrite rev_app_distr. intro H.
  destruct (find (at_p p) (rev ws2)) as [w|] eqn:E; [|discriminate].
  rewrite (find_app_some _ _ (rev ws1) _ E). exact H.
Qed.

Lemma final_app_first ws1 ws2 p : final ws2 p = None -> final (ws1 ++ ws2) p = final ws1 p.
Proof.
  unfold final. rewrite rev_app_distr. intro H.
  destruct (find (at_p p) (rev ws2)) as [w|] eqn:E; [discriminate|].
  rewrite (find_app_skip _ _ (rev ws1) E). reflexivity.
Qed.

Theorem bind_order t m params query d ws : bind t m params query (BForm d) = Bound ws ->
  exists w1 w2 w3, bind_data t params 0 = Writes w1 /\
    (if is_query_method m then bind_data t query 1 = Writes w2 else w2 = []) /\
    bind_data t d 2 = Writes w3 /\ ws = w1 ++ w2 ++ w3 /\
    forall p, final ws p = match final w3 p with Some v => Some v | None =>
                           match final w2 p with Some v => Some v | None => final w1 p end end.
Proof.
  unfold bind. destruct (bind_data t params 0) as [w1|] eqn:E1; [|discriminate].
  destruct (is_query_method m) eqn:Em.
  - destruct (bind_data t query 1) as [w2|] eqn:E2; [|discriminate].
    destruct (bind_data t d 2) as [w3|] eqn:E3; [|discriminate]. intro H; inversion H; subst.
    exists w1, w2, w3. repeat split; auto. intro p.
    destruct (final w3 p) as [v|] eqn:F3.
    + rewrite app_assoc. apply final_app_last. exact F3.
    + rewrite app_assoc, (final_app_first _ w3 p F3). destruct (final w2 p) as [v|] eqn:F2.
      * apply final_app_last. exact F2.
      * apply final_app_first. exact F2.
  - destruct (bind_data t d 2) as [w3|] eqn:E3; [|discriminate]. intro H; inversion H; subst.
    exists w1, [], w3. repeat split; auto. intro p. cbn [app].
    destruct (final w3 p) as [v|] eqn:F3.
    + apply final_app_last. exact F3.
    + rewrite (final_app_first _ w3 p F3). reflexivity.
Qed.

Theorem bind_status t m params query :
  (bind_data t params 0 <> Error -> (is_query_method m = true -> bind_data t query 1 <> Error) ->
   bind t m params query BUnsupported = Status 415) /\
  (forall b, bind_data t params 0 = Error -> bind t m params query b = Status 400) /\
  (forall d, bind_data t params 0 <> Error -> (is_query_method m = true -> bind_data t query 1 <> Error) ->
             bind_data t d 2 = Error -> bind t m params query (BForm d) = Status 400).
Proof.
  unfold bind. repeat split.
  - intros H1 H2. destruct (bind_data t params 0); [|congruence]. destruct (is_query_method m); [|reflexivity].
    destruct (bind_data t query 1); [reflexivity|exfalso; apply (H2 eq_refl); reflexivity].
  - intros b H. rewrite H. reflexivity.
  - intros d H1 H2 H3. destruct (bind_data t params 0); [|congruence]. destruct (is_query_method m).
    + destruct (bind_data t query 1); [rewrite H3; reflexivity|exfalso; apply (H2 eq_refl); reflexivity].
    + rewrite H3. reflexivity.
Qed.

(* ---------- map destinations *)
Lemma map_entries_in mode d kv : In kv (map_entries mode d) ->
  exists kv0, In kv0 d /\ fst kv = fst kv0 /\ (snd kv = snd kv0 \/ snd kv = firstn 1 (snd kv0)).
Proof.
  destruct mode; simpl; intro H.
  - apply in_map_iff in H as [kv0 [<- Hin]]. exists kv0. simpl. auto.
  - exists kv. auto.
  - destruct H.
Qed.

Theorem bind_map_from_sources mode m params query d kvs : bind_map mode m params query (BForm d) = MBound kvs ->
  forall kv, In kv kvs -> exists kv0,
    (In kv0 params \/ (is_query_method m = true /\ In kv0 query) \/ In kv0 d) /\
    fst kv = fst kv0 /\ (snd kv = snd kv0 \/ snd kv = firstn 1 (snd kv0)).
Proof.
  unfold bind_map. intro H; inversion H; subst; clear H. intros kv Hin.
  apply in_app_or in Hin as [Hin|Hin].
  - destruct (map_entries_in _ _ _ Hin) as [kv0 [H0 H1]]. exists kv0. tauto.
  - apply in_app_or in Hin as [Hin|Hin].
    + destruct (is_query_method m) eqn:Eq; [|destruct Hin].
      destruct (map_entries_in _ _ _ Hin) as [kv0 [H0 H1]]. exists kv0. tauto.
    + destruct (map_entries_in _ _ _ Hin) as [kv0 [H0 H1]]. exists kv0. tauto.
Qed.

Theorem bind_map_ignored m params query b kvs : bind_map MIgnored m params query b = MBound kvs -> kvs = [].
Proof. unfold bind_map. simpl. destruct (is_query_method m); destruct b; intro H; inversion H; reflexivity. Qed.
