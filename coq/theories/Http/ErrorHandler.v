(* Model of Echo.DefaultHTTPErrorHandler (echo.go), its single call site in ServeHTTP and
   middleware.Recover (recover.go), on top of the Response model.  (C07) *)
From Coq Require Import List ZArith Bool String.
From Echo Require Import Base.Sx Http.Response.
Import ListNotations.
Open Scope Z_scope.

Inductive msg := MStr (s : str) | MErr (s : str) | MJson (payload : str).
Inductive err :=
| Plain (txt : str)                                   (* errors.New / any non-HTTP error *)
| Wrapped (txt : str) (inner : err)                   (* fmt.Errorf("...%w", inner): not an *HTTPError *)
| HTTPErr (code : Z) (m : msg) (internal : option err).

(* the HTTP error whose code and message are reported: one level of direct internal HTTPError *)
Definition effective (e : err) : Z * msg :=
  match e with
  | HTTPErr _ _ (Some (HTTPErr c' m' _)) => (c', m')
  | HTTPErr c m _ => (c, m)
  | _ => (500, MStr (lit "Internal Server Error"%string))
  end.

(* response body: JSON object fields, or a raw serialised payload *)
Inductive body := BObject (message : str) (error : option str) | BRaw (payload : str) | BEmpty.

Definition body_of (debug : bool) (err_text : str) (m : msg) : body :=
  match m with
  | MStr s => BObject s (if debug then Some err_text else None)
  | MErr s => BObject s None
  | MJson p => BRaw p
  end.

Definition body_len (b : body) : Z := match b with BEmpty => 0 | _ => 1 end.   (* abstract size: written or not *)

(* DefaultHTTPErrorHandler on response state r; [err_text] = err.Error() of the ORIGINAL error *)
Definition handle (debug is_head : bool) (err_text : str) (e : err) (r : resp) : resp * option (Z * body) :=
  if committed r then (r, None)
  else let '(code, m) := effective e in
       if is_head then (step r (NoContent code), Some (code, BEmpty))
       else (step r (JSON code 1), Some (code, body_of debug err_text m)).

(* ServeHTTP: run the handler program, then (if it returned an error) the error handler, once *)
Definition serve (debug is_head : bool) (s0 : Z) (prog : list op) (result : option (err * str)) : resp * option (Z * body) :=
  let r := run s0 prog in
  match result with
  | None => (r, None)
  | Some (e, txt) => handle debug is_head txt e r
  end.

(* middleware.Recover: the panic value becomes an error and goes through c.Error *)
Inductive panic_val := PErr (e : err) (txt : str) | POther (printed : str).
Definition recovered (v : panic_val) : err * str :=
  match v with PErr e t => (e, t) | POther s => (Plain s, s) end.

(* what of an error may show in a non-debug response *)
Definition public (e : err) : err :=
  match e with
  | Plain _ => Plain []
  | Wrapped _ _ => Plain []
  | HTTPErr c m (Some (HTTPErr c' m' _)) => HTTPErr c m (Some (HTTPErr c' m' None))
  | HTTPErr c m _ => HTTPErr c m None
  end.
