From Coq Require Extraction.
From Coq Require Import ExtrOcamlBasic.
From Echo Require Import Glue.G01.
Extraction "extracted/m01.ml" G01.run_sx.
