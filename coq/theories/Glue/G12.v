From Coq Require Import List ZArith NArith Bool.
From Echo Require Import Base.Sx Mw.Auth Mw.Csrf Glue.G13.
Import ListNotations.
Open Scope Z_scope.
(* input: (0 method cookie-present cookie fresh (lookup ...))   -> (1 token) | (0 code)
          (1 n (byte ...))                                      -> #random-string *)
Definition run_sx (x : sx) : sx :=
  match as_Z (nth_sx 0 x) with
  | 0 =>
    let cookie := if as_bool (nth_sx 2 x) then Some (as_str (nth_sx 3 x)) else None in
    match csrf (as_str (nth_sx 1 x)) cookie (as_str (nth_sx 4 x)) (map dec_lookup (as_list (nth_sx 5 x))) with
    | Pass t => SL [SZ 1; SS t]
    | Reject c => SL [SZ 0; of_nat c]
    end
  | _ => SS (random_string (Z.to_nat (as_Z (nth_sx 1 x))) (map (fun b => Z.to_N (as_Z b)) (as_list (nth_sx 2 x))))
  end.
