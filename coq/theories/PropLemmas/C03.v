(* Proofs of the short corollaries stated in Props/C03.v (kept out of the statement file). *)
From Coq Require Import List Arith Bool Ascii String Permutation.
From Echo.Router Require Import Spec2 Fuel Refine Insert InsProof Walk Live Toks Build Sound Complete Allow Top Methods.
From Echo Require Import Gen.Src_methods.
Import ListNotations.

Lemma C03_matched_by_other_method_not_404_l : forall rs m m' p r, wf_table rs -> m' <> NF ->
  In r rs -> rt_m r = m' -> matchT (rt_toks r) p -> dispatch (build rs) m p <> Miss None.
Proof.
  intros rs m m' p r HWf Hm' Hin Hr HM H.
  pose proof (instance_404_method_indep rs m m' p HWf H) as H'.
  pose proof (instance_complete rs m' p r HWf Hm' Hin Hr HM) as F. rewrite H' in F. exact F.
Qed.

