From Coq Require Extraction.
From Coq Require Import ExtrOcamlBasic.
From Echo Require Import Glue.G04.
Extraction "extracted/m04.ml" G04.run_sx.
