package main

// Statement-level translation of short Go functions into the GoLite language of
// coq/theories/Base/GoLite.v.  Every construct that is not understood is an error (the output file is
// then reported as broken): the translator never guesses.

import (
	"fmt"
	"go/ast"
	"go/token"
	"strconv"
	"strings"
)

func init() {
	gens["Src_proxy.v"] = genGoLiteProxy
	gens["Src_bodylimit_fn.v"] = genGoLiteBodyLimit
	gens["Src_response.v"] = genGoLiteResponse
	gens["Src_context.v"] = genGoLiteContext
	gens["Src_echo.v"] = genGoLiteEcho
	gens["Src_mw_handlers.v"] = genGoLiteMiddleware
	gens["Src_gzip.v"] = genGoLiteGzip
	gens["Src_errorhandler.v"] = genGoLiteErrorHandler
	gens["Src_cors.v"] = genGoLoopCORS
	gens["Src_bind.v"] = genGoLiteBind
	gens["Src_keyauth.v"] = genGoLoopKeyAuth
	gens["Src_basicauth.v"] = genGoLoopBasicAuth
	gens["Src_staticdir.v"] = genGoLoopStaticDir
	gens["Src_group.v"] = genGoLoopGroup
	gens["Src_reverse.v"] = genGoLoopReverse
	gens["Src_slashmw.v"] = genGoLoopSlash
	gens["Src_ipextract.v"] = genGoLoopIP
	gens["Src_csrfcmp.v"] = genGoLoopCSRFCompare
	gens["Src_applymw.v"] = genGoLoopApplyMiddleware
	gens["Src_ratestore.v"] = genGoLiteRateStore
	gens["Src_servehttp.v"] = genGoLiteServeHTTP
	gens["Src_addtarget.v"] = genGoLoopAddTarget
	gens["Src_decompress.v"] = genGoLiteDecompress
	gens["Src_normpath.v"] = genGoLoopNormPath
	gens["Src_allowhandlers.v"] = genGoLiteAllowHandlers
}

// innerHandler finds the innermost function literal of shape func(c echo.Context) error inside fd.
func innerHandler(fd *ast.FuncDecl) *ast.FuncLit {
	var found *ast.FuncLit
	ast.Inspect(fd.Body, func(n ast.Node) bool {
		if fl, ok := n.(*ast.FuncLit); ok && len(fl.Type.Params.List) == 1 && lit(fl.Type.Params.List[0].Type) == "echo.Context" {
			found = fl
		}
		return true
	})
	return found
}

func goliteClosure(repo, file, fn, name string, cfg goliteCfg) (string, error) {
	f, err := parseFile(repo, file)
	if err != nil {
		return "", err
	}
	fd := findFunc(f, "", fn)
	if fd == nil {
		return "", fmt.Errorf("%s not found", fn)
	}
	fl := innerHandler(fd)
	if fl == nil {
		return "", fmt.Errorf("%s: no handler closure found", fn)
	}
	return goliteFunc(&ast.FuncDecl{Name: fd.Name, Type: fl.Type, Body: fl.Body}, name, cfg)
}

func genGoLiteMiddleware(repo string) (string, error) {
	a, err := goliteClosure(repo, "middleware/rate_limiter.go", "RateLimiterWithConfig", "rate_limiter_handler", goliteCfg{
		ignore: map[string]bool{}, cells: map[string]bool{}, tail: map[string]bool{"next": true},
		extern: map[string]bool{"config.Skipper": true, "config.IdentifierExtractor": true, "config.Store.Allow": true}})
	if err != nil {
		return "", err
	}
	b, err := goliteClosure(repo, "middleware/body_limit.go", "BodyLimitWithConfig", "body_limit_handler", goliteCfg{
		ignore: map[string]bool{}, cells: map[string]bool{}, tail: map[string]bool{"next": true},
		extern: map[string]bool{"config.Skipper": true}})
	if err != nil {
		return "", err
	}
	return goliteHeader + "(* the request handlers (innermost closures) of RateLimiterWithConfig (middleware/rate_limiter.go) and BodyLimitWithConfig\n   (middleware/body_limit.go).  Skipper, identifier extractor and the store are external (answers from the input stream);\n   calling next is an event. *)\n" + a + b, nil
}

func genGoLiteEcho(repo string) (string, error) {
	f, err := parseFile(repo, "echo.go")
	if err != nil {
		return "", err
	}
	fd := findFunc(f, "*Echo", "findRouter")
	if fd == nil {
		return "", fmt.Errorf("Echo.findRouter not found")
	}
	s, err := goliteFunc(fd, "find_router", goliteCfg{ignore: map[string]bool{}, cells: map[string]bool{"len(e.routers)": true}, extern: map[string]bool{}})
	if err != nil {
		return "", err
	}
	return goliteHeader + "(* echo.go: Echo.findRouter - which router serves a Host value.  The lookup e.routers[host] is external: (router, ok) come from the input stream. *)\n" + s, nil
}

type goliteCfg struct {
	ignore map[string]bool // calls without effect on the modelled state (mutex)
	extern map[string]bool // calls whose results come from outside (input stream)
	cells  map[string]bool // call expressions read as cells ("len(b.targets)")
	consts map[string]string
	recv   string
	locals map[string]bool
	tail   map[string]bool // return f(...): f is called (an event) and its result returned
	loop   bool            // emit the GoLoop dialect (Base/GoLoop.v): values are integers or strings, range loops, break, pure predicates
	pure   map[string]bool // pure functions of the environment: calls become EPred
	strs   map[string]bool // expressions (by spelling) known to be strings: `+` on them is concatenation
	pcall  map[string]bool // functions whose results are a fixed function of their arguments during one request (an extractor, the
	// validator): `xs := f(args)` becomes SCallP - results from the interpreter's pred, the call is recorded as an event
	strfn map[string]bool      // functions known to return a string (for the type-test cells of a field set from their result)
	objs  map[string][]string  // local variables holding a pointer to a struct, with the fields that are read: scalar-replaced into cells "v.f"
	grow  map[string][2]string // external call -> (cell, amount cell): the call makes the cell grow (bytes.Buffer.Write: Len() grows by len(b))
	pre   []string             // external calls met inside an expression: hoisted in front of the statement
	ntmp  int
}

func (g *goliteCfg) z(n string) string {
	if g.loop {
		return "EV (VZ " + n + ")"
	}
	return "EZ " + n
}

func (g *goliteCfg) str(s string) string { return "\"" + strings.ReplaceAll(s, "\"", "\"\"") + "\"" }

func (g *goliteCfg) expr(e ast.Expr) (string, error) {
	switch v := e.(type) {
	case *ast.ParenExpr:
		return g.expr(v.X)
	case *ast.BasicLit:
		if v.Kind == token.INT {
			return g.z(v.Value), nil
		}
		if v.Kind == token.CHAR && g.loop {
			r, _, _, err := strconv.UnquoteChar(v.Value[1:len(v.Value)-1], '\'')
			if err != nil {
				return "", err
			}
			return g.z(strconv.Itoa(int(r))), nil
		}
		if v.Kind == token.STRING {
			if g.loop {
				s, err := strconv.Unquote(v.Value)
				if err != nil {
					return "", err
				}
				return "EV (VS (lit " + g.str(s) + "))", nil
			}
			return "ESym " + g.str(v.Value), nil
		}
	case *ast.Ident:
		switch v.Name {
		case "true":
			return g.z("1"), nil
		case "false":
			return g.z("0"), nil
		case "nil":
			return "ESym \"nil\"", nil
		}
		if g.locals[v.Name] {
			return "EVar " + g.str(v.Name), nil
		}
		return "ESym " + g.str(v.Name), nil
	case *ast.SelectorExpr:
		n := lit(v)
		if strings.HasPrefix(n, g.recv+".") || g.cells[n] {
			return "EField " + g.str(n), nil
		}
		if id, ok := v.X.(*ast.Ident); ok && g.objs[id.Name] != nil {
			return "EField " + g.str(n), nil
		}
		if id, ok := v.X.(*ast.Ident); ok && g.loop && g.locals[id.Name] && g.pure["."+v.Sel.Name] {
			// a field of a local value (the range variable `route`): a pure projection
			return fmt.Sprintf("EPred %s [EVar %s]", g.str("."+v.Sel.Name), g.str(id.Name)), nil
		}
		return "ESym " + g.str(n), nil
	case *ast.FuncLit:
		return "ESym \"func literal\"", nil // a closure handed on as a value (translated on its own where a theorem needs it)
	case *ast.CompositeLit:
		return "ESym " + g.str(lit(v)), nil // a constructed value (a map literal handed on): named by its Go spelling
	case *ast.SliceExpr:
		if g.loop && v.Max == nil {
			x, err := g.expr(v.X)
			if err != nil {
				return "", err
			}
			switch {
			case v.Low == nil && v.High != nil:
				hi, err := g.expr(v.High)
				if err != nil {
					return "", err
				}
				return fmt.Sprintf("EPred \"slice_to\" [%s; %s]", x, hi), nil
			case v.Low != nil && v.High == nil:
				lo, err := g.expr(v.Low)
				if err != nil {
					return "", err
				}
				return fmt.Sprintf("EPred \"slice_from\" [%s; %s]", x, lo), nil
			}
		}
	case *ast.IndexExpr:
		if g.cells[lit(v)] {
			return "EField " + g.str(lit(v)), nil // a map lookup read as a cell (`req.Header[HeaderXForwardedFor]`)
		}
		if g.loop {
			x, err := g.expr(v.X)
			if err != nil {
				return "", err
			}
			i, err := g.expr(v.Index)
			if err != nil {
				return "", err
			}
			return fmt.Sprintf("EPred \"index\" [%s; %s]", x, i), nil
		}
	case *ast.TypeAssertExpr:
		return g.expr(v.X)
	case *ast.StarExpr:
		n := lit(v)
		if g.cells[n] {
			return "EField " + g.str(n), nil
		}
	case *ast.CallExpr:
		n := lit(v)
		fn := lit(v.Fun)
		if (fn == "int64" || fn == "int" || fn == "int32" || ((fn == "string" || fn == "[]byte") && g.loop)) && len(v.Args) == 1 {
			return g.expr(v.Args[0])
		}
		if g.cells[n] {
			return "EField " + g.str(n), nil
		}
		if ie, ok := v.Fun.(*ast.IndexExpr); ok && g.loop && g.pure["apply"] {
			// fs[i](args): an element of a slice of functions applied - a pure function of the element and the arguments
			if id, ok := ie.X.(*ast.Ident); ok && g.locals[id.Name] {
				f, err := g.expr(ie)
				if err != nil {
					return "", err
				}
				args, _ := g.exprs(v.Args)
				return fmt.Sprintf("EPred \"apply\" (%s :: %s)", f, args), nil
			}
		}
		if g.pure[fn] {
			args, _ := g.exprs(v.Args)
			if v.Ellipsis.IsValid() {
				return fmt.Sprintf("EPred %s %s", g.str(fn+"..."), args), nil // f(a, b...): the last argument is spread
			}
			return fmt.Sprintf("EPred %s %s", g.str(fn), args), nil
		}
		if se, ok := v.Fun.(*ast.SelectorExpr); ok && g.pure["."+se.Sel.Name] {
			// a pure method of a local value (a compiled pattern): the receiver is the first argument
			if id, ok := se.X.(*ast.Ident); ok && g.locals[id.Name] {
				args, _ := g.exprs(append([]ast.Expr{id}, v.Args...))
				return fmt.Sprintf("EPred %s %s", g.str("."+se.Sel.Name), args), nil
			}
		}
		if g.extern[fn] {
			g.ntmp++
			t := fmt.Sprintf("tmp%d", g.ntmp)
			g.locals[t] = true
			args, _ := g.exprs(v.Args)
			g.pre = append(g.pre, fmt.Sprintf("SCall [%s] %s %s", g.str(t), g.str(fn), args))
			return "EVar " + g.str(t), nil
		}
		return "", fmt.Errorf("call %s in an expression is not understood", n)
	case *ast.UnaryExpr:
		if _, isLit := v.X.(*ast.CompositeLit); isLit && v.Op == token.AND {
			return "ESym " + g.str(lit(v)), nil // a constructed value handed on: named by its spelling
		}
		if v.Op == token.NOT {
			x, err := g.expr(v.X)
			if err != nil {
				return "", err
			}
			return "ENot (" + x + ")", nil
		}
	case *ast.BinaryExpr:
		a, err := g.expr(v.X)
		if err != nil {
			return "", err
		}
		b, err := g.expr(v.Y)
		if err != nil {
			return "", err
		}
		switch v.Op {
		case token.ADD:
			if g.loop && (isStringy(v.X) || isStringy(v.Y) || g.strs[lit(v.X)] || g.strs[lit(v.Y)]) {
				return fmt.Sprintf("EPred \"concat\" [%s; %s]", a, b), nil
			}
			return fmt.Sprintf("EAdd (%s) (%s)", a, b), nil
		case token.SUB:
			return fmt.Sprintf("ESub (%s) (%s)", a, b), nil
		case token.LAND:
			return fmt.Sprintf("EAnd (%s) (%s)", a, b), nil
		case token.LOR:
			return fmt.Sprintf("EOr (%s) (%s)", a, b), nil
		case token.LSS:
			return fmt.Sprintf("ECmp CLt (%s) (%s)", a, b), nil
		case token.LEQ:
			return fmt.Sprintf("ECmp CLe (%s) (%s)", a, b), nil
		case token.GTR:
			return fmt.Sprintf("ECmp CGt (%s) (%s)", a, b), nil
		case token.GEQ:
			return fmt.Sprintf("ECmp CGe (%s) (%s)", a, b), nil
		case token.EQL:
			return fmt.Sprintf("ECmp CEq (%s) (%s)", a, b), nil
		case token.NEQ:
			return fmt.Sprintf("ECmp CNe (%s) (%s)", a, b), nil
		}
	}
	return "", fmt.Errorf("expression %s (%T) is not understood", lit(e), e)
}

func (g *goliteCfg) exprs(es []ast.Expr) (string, error) {
	var out []string
	for _, e := range es {
		// arguments that are not integers (byte slices, closures) are passed as opaque symbols
		x, err := g.expr(e)
		if err != nil {
			x = "ESym " + g.str(lit(e))
		}
		out = append(out, x)
	}
	return "[" + strings.Join(out, "; ") + "]", nil
}

func (g *goliteCfg) assignTo(lhs ast.Expr, rhs string) (string, error) {
	switch v := lhs.(type) {
	case *ast.Ident:
		g.locals[v.Name] = true
		return fmt.Sprintf("SSet %s (%s)", g.str(v.Name), rhs), nil
	case *ast.SelectorExpr:
		return fmt.Sprintf("SFSet %s (%s)", g.str(lit(v)), rhs), nil
	case *ast.StarExpr:
		return g.assignTo(v.X, rhs)
	case *ast.IndexExpr:
		if id, ok := v.X.(*ast.Ident); !(ok && g.locals[id.Name]) {
			// m[k] = e on a map outside the function (the store's visitors): an observable store
			return fmt.Sprintf("SEmit %s [%s]", g.str(lit(lhs)+" ="), rhs), nil
		}
		// xs[i] = e on a local slice: slices are values, the local gets the updated slice
		if id, ok := v.X.(*ast.Ident); ok && g.loop && g.locals[id.Name] {
			ix, err := g.expr(v.Index)
			if err != nil {
				return "", err
			}
			return fmt.Sprintf("SSet %s (EPred \"set_index\" [EVar %s; %s; %s])", g.str(id.Name), g.str(id.Name), ix, rhs), nil
		}
	}
	return "", fmt.Errorf("assignment target %s is not understood", lit(lhs))
}

func (g *goliteCfg) block(stmts []ast.Stmt) (string, error) {
	var out []string
	for _, s := range stmts {
		xs, err := g.stmt(s)
		if err != nil {
			return "", err
		}
		out = append(out, xs...)
	}
	return "[" + strings.Join(out, ";\n    ") + "]", nil
}

// stmt translates one statement; external calls met inside its expressions (hoisted into g.pre) are emitted in front of it,
// in evaluation order - none is ever dropped.
func (g *goliteCfg) stmt(s ast.Stmt) ([]string, error) {
	saved := g.pre
	g.pre = nil
	out, err := g.stmtInner(s)
	if len(g.pre) > 0 {
		out = append(append([]string(nil), g.pre...), out...)
	}
	g.pre = saved
	return out, err
}

func (g *goliteCfg) stmtInner(s ast.Stmt) ([]string, error) {
	switch v := s.(type) {
	case *ast.EmptyStmt:
		return nil, nil
	case *ast.DeferStmt:
		if g.ignore[lit(v.Call.Fun)] {
			return nil, nil
		}
		return []string{fmt.Sprintf("SEmit %s []", g.str("defer "+lit(v.Call)))}, nil
	case *ast.ExprStmt:
		ce, ok := v.X.(*ast.CallExpr)
		if !ok {
			return nil, fmt.Errorf("expression statement %s is not understood", lit(v.X))
		}
		fn := lit(ce.Fun)
		if g.ignore[fn] {
			return nil, nil
		}
		args, _ := g.exprs(ce.Args)
		if g.extern[fn] {
			return []string{fmt.Sprintf("SCall [] %s %s", g.str(fn), args)}, nil
		}
		return []string{fmt.Sprintf("SEmit %s %s", g.str(fn), args)}, nil
	case *ast.DeclStmt:
		gd, ok := v.Decl.(*ast.GenDecl)
		if !ok {
			break
		}
		var out []string
		for _, sp := range gd.Specs {
			vs, ok := sp.(*ast.ValueSpec)
			if !ok {
				return nil, fmt.Errorf("declaration is not understood")
			}
			if gd.Tok == token.CONST {
				for i, n := range vs.Names {
					g.consts[n.Name] = lit(vs.Values[i])
				}
				continue
			}
			for _, n := range vs.Names {
				g.locals[n.Name] = true
				if len(vs.Values) == 0 {
					out = append(out, fmt.Sprintf("SSet %s (%s)", g.str(n.Name), g.z("0")))
				} else {
					return nil, fmt.Errorf("initialised var declaration is not understood")
				}
			}
		}
		return out, nil
	case *ast.IncDecStmt:
		x, err := g.expr(v.X)
		if err != nil {
			return nil, err
		}
		op := "EAdd"
		if v.Tok == token.DEC {
			op = "ESub"
		}
		a, err := g.assignTo(v.X, fmt.Sprintf("%s (%s) (%s)", op, x, g.z("1")))
		return []string{a}, err
	case *ast.AssignStmt:
		if out, ok, err := g.objAssign(v); ok {
			return out, err
		}
		if len(v.Rhs) == 1 {
			if ce, ok := v.Rhs[0].(*ast.CallExpr); ok && g.pcall[lit(ce.Fun)] {
				var xs []string
				for _, l := range v.Lhs {
					id, ok := l.(*ast.Ident)
					if !ok {
						return nil, fmt.Errorf("results of %s must go to plain variables", lit(ce.Fun))
					}
					g.locals[id.Name] = true
					xs = append(xs, g.str(id.Name))
				}
				args, _ := g.exprs(ce.Args)
				if id, ok := ce.Fun.(*ast.Ident); ok && g.locals[id.Name] {
					// a function VALUE held in a local (the loop variable): which one it is is the first argument
					a2, _ := g.exprs(append([]ast.Expr{id}, ce.Args...))
					args = a2
				}
				return []string{fmt.Sprintf("SCallP [%s] %s %s", strings.Join(xs, "; "), g.str(lit(ce.Fun)), args)}, nil
			}
			if ce, ok := v.Rhs[0].(*ast.CallExpr); ok && g.extern[lit(ce.Fun)] {
				var xs []string
				for _, l := range v.Lhs {
					id, ok := l.(*ast.Ident)
					if !ok {
						return nil, fmt.Errorf("results of %s must go to plain variables", lit(ce.Fun))
					}
					g.locals[id.Name] = true
					xs = append(xs, g.str(id.Name))
				}
				args, _ := g.exprs(ce.Args)
				out := []string{fmt.Sprintf("SCall [%s] %s %s", strings.Join(xs, "; "), g.str(lit(ce.Fun)), args)}
				if gr, ok := g.grow[lit(ce.Fun)]; ok {
					out = append(out, fmt.Sprintf("SFSet %s (EAdd (EField %s) (EField %s))", g.str(gr[0]), g.str(gr[0]), g.str(gr[1])))
				}
				return out, nil
			}
		}
		if len(v.Lhs) == 2 && len(v.Rhs) == 1 {
			// v, ok := X.(T): the dynamic type is outside the function - value and ok come from the input stream
			if ta, ok := v.Rhs[0].(*ast.TypeAssertExpr); ok {
				var xs []string
				for _, l := range v.Lhs {
					id, ok := l.(*ast.Ident)
					if !ok {
						return nil, fmt.Errorf("results of a type assertion must go to plain variables")
					}
					g.locals[id.Name] = true
					xs = append(xs, g.str(id.Name))
				}
				return []string{fmt.Sprintf("SCall [%s] %s []", strings.Join(xs, "; "), g.str(lit(ta)))}, nil
			}
			// v, ok := m[k]: the map is outside the function - its answer comes from the input stream
			if ie, ok := v.Rhs[0].(*ast.IndexExpr); ok {
				var xs []string
				for _, l := range v.Lhs {
					id, ok := l.(*ast.Ident)
					if !ok {
						return nil, fmt.Errorf("results of a map lookup must go to plain variables")
					}
					g.locals[id.Name] = true
					xs = append(xs, g.str(id.Name))
				}
				return []string{fmt.Sprintf("SCall [%s] %s []", strings.Join(xs, "; "), g.str(lit(ie)))}, nil
			}
		}
		if len(v.Lhs) != len(v.Rhs) {
			return nil, fmt.Errorf("assignment %s is not understood", lit(v.Lhs[0]))
		}
		var out []string
		for i := range v.Lhs {
			r, err := g.expr(v.Rhs[i])
			if err != nil {
				_, isCall := v.Rhs[i].(*ast.CallExpr)
				if ta, isTA := v.Rhs[i].(*ast.TypeAssertExpr); isTA {
					_, isCall = ta.X.(*ast.CallExpr)
				}
				if !isCall {
					return nil, err
				}
				r = "ESym " + g.str(lit(v.Rhs[i])) // a constructed object (make(...), NewX(...)): named by its Go spelling
			}
			switch v.Tok {
			case token.ADD_ASSIGN, token.SUB_ASSIGN:
				l, err := g.expr(v.Lhs[i])
				if err != nil {
					return nil, err
				}
				op := "EAdd"
				if v.Tok == token.SUB_ASSIGN {
					op = "ESub"
				}
				if g.loop && v.Tok == token.ADD_ASSIGN && (isStringy(v.Rhs[i]) || g.strs[lit(v.Lhs[i])]) {
					r = fmt.Sprintf("EPred \"concat\" [%s; %s]", l, r) // s += "..." on a string
				} else {
					r = fmt.Sprintf("%s (%s) (%s)", op, l, r)
				}
			case token.ASSIGN, token.DEFINE:
			default:
				return nil, fmt.Errorf("assignment operator %s is not understood", v.Tok)
			}
			a, err := g.assignTo(v.Lhs[i], r)
			if err != nil {
				return nil, err
			}
			out = append(out, a)
		}
		return out, nil
	case *ast.ReturnStmt:
		var es []string
		if len(v.Results) == 1 {
			if ce, ok := v.Results[0].(*ast.CallExpr); ok && g.tail[lit(ce.Fun)] {
				args, _ := g.exprs(ce.Args)
				return []string{fmt.Sprintf("SEmit %s %s", g.str(lit(ce.Fun)), args), fmt.Sprintf("SRet [ESym %s]", g.str("result of "+lit(ce.Fun)))}, nil
			}
		}
		for _, r := range v.Results {
			x, err := g.expr(r)
			if err != nil {
				// returned objects (a target, the receiver) are named by their Go spelling
				x = "ESym " + g.str(lit(r))
				if ie, ok := r.(*ast.IndexExpr); ok {
					ix, ierr := g.expr(ie.Index)
					if ierr != nil {
						return nil, ierr
					}
					x = ix // an element of a list: its index
				}
			}
			es = append(es, x)
		}
		return []string{"SRet [" + strings.Join(es, "; ") + "]"}, nil
	case *ast.SwitchStmt:
		// switch X { case A, B: ...; default: ... }: an if-chain on X == A || X == B, in source order (no fallthrough)
		if v.Init != nil || v.Tag == nil {
			return nil, fmt.Errorf("switch with an init statement or without a tag is not understood")
		}
		tag, err := g.expr(v.Tag)
		if err != nil {
			return nil, err
		}
		chain := "[]"
		for i := len(v.Body.List) - 1; i >= 0; i-- {
			cc := v.Body.List[i].(*ast.CaseClause)
			for _, st := range cc.Body {
				if bs, ok := st.(*ast.BranchStmt); ok && bs.Tok == token.FALLTHROUGH {
					return nil, fmt.Errorf("fallthrough is not understood")
				}
			}
			body, err := g.block(cc.Body)
			if err != nil {
				return nil, err
			}
			if cc.List == nil {
				if i != len(v.Body.List)-1 {
					return nil, fmt.Errorf("default case must come last")
				}
				chain = body
				continue
			}
			cond := ""
			for _, ce := range cc.List {
				x, err := g.expr(ce)
				if err != nil {
					return nil, err
				}
				eq := fmt.Sprintf("ECmp CEq (%s) (%s)", tag, x)
				if cond == "" {
					cond = eq
				} else {
					cond = fmt.Sprintf("EOr (%s) (%s)", cond, eq)
				}
			}
			chain = fmt.Sprintf("[SIf (%s)\n    %s\n    %s]", cond, body, chain)
		}
		return []string{"SIf (" + g.z("1") + ")\n    " + chain + "\n    []"}, nil
	case *ast.TypeSwitchStmt:
		// switch m := X.(type) { case T1: ...; case T2: ... }: the cases are tried in order; "X is a T" is a cell "X.(T)"
		var ta *ast.TypeAssertExpr
		bind := ""
		switch as := v.Assign.(type) {
		case *ast.AssignStmt:
			if len(as.Lhs) != 1 || len(as.Rhs) != 1 {
				return nil, fmt.Errorf("type switch is not understood")
			}
			t, ok := as.Rhs[0].(*ast.TypeAssertExpr)
			if !ok {
				return nil, fmt.Errorf("type switch is not understood")
			}
			ta = t
			x, err := g.expr(ta.X)
			if err != nil {
				return nil, err
			}
			if bind, err = g.assignTo(as.Lhs[0], x); err != nil {
				return nil, err
			}
		case *ast.ExprStmt:
			t, ok := as.X.(*ast.TypeAssertExpr)
			if !ok {
				return nil, fmt.Errorf("type switch is not understood")
			}
			ta = t
		default:
			return nil, fmt.Errorf("type switch is not understood")
		}
		chain := "[]"
		for i := len(v.Body.List) - 1; i >= 0; i-- {
			cc := v.Body.List[i].(*ast.CaseClause)
			body, err := g.block(cc.Body)
			if err != nil {
				return nil, err
			}
			if cc.List == nil {
				if i != len(v.Body.List)-1 {
					return nil, fmt.Errorf("default case must come last")
				}
				chain = body
				continue
			}
			if len(cc.List) != 1 {
				return nil, fmt.Errorf("type switch case with several types is not understood")
			}
			chain = fmt.Sprintf("[SIf (EField %s)\n    %s\n    %s]", g.str(lit(ta.X)+".("+lit(cc.List[0])+")"), body, chain)
		}
		out := []string{"SIf (" + g.z("1") + ")\n    " + chain + "\n    []"}
		if bind != "" {
			out = append([]string{bind}, out...)
		}
		return out, nil
	case *ast.IfStmt:
		var pre []string
		if v.Init != nil {
			p, err := g.stmt(v.Init)
			if err != nil {
				return nil, err
			}
			pre = p
		}
		g.pre = nil
		c, err := g.expr(v.Cond)
		if err != nil {
			return nil, err
		}
		pre = append(pre, g.pre...)
		g.pre = nil
		t, err := g.block(v.Body.List)
		if err != nil {
			return nil, err
		}
		e := "[]"
		switch el := v.Else.(type) {
		case nil:
		case *ast.BlockStmt:
			if e, err = g.block(el.List); err != nil {
				return nil, err
			}
		case *ast.IfStmt:
			xs, err := g.stmt(el)
			if err != nil {
				return nil, err
			}
			e = "[" + strings.Join(xs, "; ") + "]"
		}
		return append(pre, fmt.Sprintf("SIf (%s)\n    %s\n    %s", c, t, e)), nil
	case *ast.BranchStmt:
		if g.loop && v.Tok == token.BREAK && v.Label == nil {
			return []string{"SBreak"}, nil
		}
		if g.loop && v.Tok == token.CONTINUE && v.Label == nil {
			return []string{"SCont"}, nil
		}
		return nil, fmt.Errorf("%s is not understood", v.Tok)
	case *ast.RangeStmt:
		if g.loop {
			// for _, x := range L { ... }: L is a list cell
			k, isK := v.Key.(*ast.Ident)
			x, isX := v.Value.(*ast.Ident)
			if isK && isX && k.Name != "_" {
				// for i, x := range L: an index loop over the length L has on entry, x = L[i] at the head of every iteration
				// (L is evaluated once by Go; here L[i] is read from the current L - the same as long as the body does not go on
				// after changing L, which a theorem about the translated body has to show)
				g.locals[k.Name] = true
				g.locals[x.Name] = true
				lx, err := g.expr(v.X)
				if err != nil {
					return nil, err
				}
				body, err := g.block(v.Body.List)
				if err != nil {
					return nil, err
				}
				head := fmt.Sprintf("SSet %s (EPred \"index\" [%s; EVar %s])", g.str(x.Name), lx, g.str(k.Name))
				body = "[" + head + ";\n    " + strings.TrimPrefix(body, "[")
				return []string{fmt.Sprintf("SForTo %s (EPred \"len\" [%s])\n    %s", g.str(k.Name), lx, body)}, nil
			}
			if !isK || k.Name != "_" || !isX {
				return nil, fmt.Errorf("range loop over %s: only `for _, x := range` and `for i, x := range` are understood", lit(v.X))
			}
			g.locals[x.Name] = true
			body, err := g.block(v.Body.List)
			if err != nil {
				return nil, err
			}
			return []string{fmt.Sprintf("SRange %s %s\n    %s", g.str(x.Name), g.str(lit(v.X)), body)}, nil
		}
		// only: for _, fn := range <receiver field> { fn() }  (a list of hooks run in order)
		if len(v.Body.List) == 1 {
			if es, ok := v.Body.List[0].(*ast.ExprStmt); ok {
				if ce, ok := es.X.(*ast.CallExpr); ok && len(ce.Args) == 0 && lit(ce.Fun) == lit(v.Value) {
					return []string{fmt.Sprintf("SEmit %s []", g.str("range "+lit(v.X)))}, nil
				}
			}
		}
		return nil, fmt.Errorf("range loop over %s is not understood", lit(v.X))
	case *ast.ForStmt:
		if g.loop {
			// for i := 0; i < E; i++ { ... }
			init, okI := v.Init.(*ast.AssignStmt)
			cond, okC := v.Cond.(*ast.BinaryExpr)
			post, okP := v.Post.(*ast.IncDecStmt)
			if okI && okC && okP && init.Tok == token.DEFINE && len(init.Lhs) == 1 && lit(init.Rhs[0]) == "0" &&
				cond.Op == token.LSS && lit(cond.X) == lit(init.Lhs[0]) && post.Tok == token.INC && lit(post.X) == lit(init.Lhs[0]) {
				iv := lit(init.Lhs[0])
				g.locals[iv] = true
				hi, err := g.expr(cond.Y)
				if err != nil {
					return nil, err
				}
				body, err := g.block(v.Body.List)
				if err != nil {
					return nil, err
				}
				return []string{fmt.Sprintf("SForTo %s (%s)\n    %s", g.str(iv), hi, body)}, nil
			}
			// any other for [init]; cond; [post] { body } whose condition bounds a counter from above (`i < E` or `i < E && ...`): the
			// counter may be moved by the body too.  SWhile with fuel E + 1 (read on entry); running out of fuel is a result no
			// function returns, so a loop that does not advance cannot satisfy a theorem.
			var out []string
			if v.Init != nil {
				xs, err := g.stmt(v.Init)
				if err != nil {
					return nil, err
				}
				out = append(out, xs...)
			}
			if v.Cond == nil {
				return nil, fmt.Errorf("for loop without a condition is not understood")
			}
			bound := v.Cond
			for {
				be, ok := bound.(*ast.BinaryExpr)
				if ok && be.Op == token.LAND {
					bound = be.X
					continue
				}
				break
			}
			be, ok := bound.(*ast.BinaryExpr)
			if !ok || (be.Op != token.LSS && !(be.Op == token.GEQ && lit(be.Y) == "0")) {
				return nil, fmt.Errorf("for loop: the condition %s starts neither with `i < E` nor with `i >= 0`", lit(v.Cond))
			}
			var hi string
			var err error
			if be.Op == token.LSS {
				hi, err = g.expr(be.Y)
			} else {
				// a counter running DOWN to 0: at most (its value on entry) + 1 iterations; the fuel is that + 1 as for `i < E`
				hi, err = g.expr(be.X)
				if err == nil {
					hi = fmt.Sprintf("EAdd (%s) (%s)", hi, g.z("1"))
				}
			}
			if err != nil {
				return nil, err
			}
			c, err := g.expr(v.Cond)
			if err != nil {
				return nil, err
			}
			postS := "[]"
			if v.Post != nil {
				xs, err := g.stmt(v.Post)
				if err != nil {
					return nil, err
				}
				postS = "[" + strings.Join(xs, "; ") + "]"
			}
			body, err := g.block(v.Body.List)
			if err != nil {
				return nil, err
			}
			return append(out, fmt.Sprintf("SWhile (EAdd (%s) (%s)) (%s)\n    %s\n    %s", hi, g.z("1"), c, body, postS)), nil
		}
		// only: for i := 0; i < len(X); i++ { X[i] = "" }   (blanking a slice)
		if len(v.Body.List) == 1 {
			if as, ok := v.Body.List[0].(*ast.AssignStmt); ok && len(as.Lhs) == 1 && len(as.Rhs) == 1 && lit(as.Rhs[0]) == `""` {
				if ie, ok := as.Lhs[0].(*ast.IndexExpr); ok && v.Cond != nil && strings.Contains(lit(v.Cond), "len("+lit(ie.X)+")") {
					return []string{fmt.Sprintf("SEmit %s []", g.str("blank "+lit(ie.X)))}, nil
				}
			}
		}
		return nil, fmt.Errorf("for loop is not understood")
	}
	return nil, fmt.Errorf("statement %T is not understood", s)
}

// goliteFunc renders one function as "Definition src_<name>_results / src_<name>".
func goliteFunc(fd *ast.FuncDecl, name string, cfg goliteCfg) (string, error) {
	cfg.locals = map[string]bool{}
	if cfg.consts == nil {
		cfg.consts = map[string]string{}
	}
	if fd.Recv != nil && len(fd.Recv.List) == 1 && len(fd.Recv.List[0].Names) == 1 {
		cfg.recv = fd.Recv.List[0].Names[0].Name
	}
	for _, p := range fd.Type.Params.List {
		for _, n := range p.Names {
			cfg.locals[n.Name] = true
		}
	}
	var results []string
	if fd.Type.Results != nil {
		for _, p := range fd.Type.Results.List {
			for _, n := range p.Names {
				cfg.locals[n.Name] = true
				results = append(results, cfg.str(n.Name))
			}
		}
	}
	body, err := cfg.block(fd.Body.List)
	if err != nil {
		return "", fmt.Errorf("%s: %v", name, err)
	}
	return fmt.Sprintf("Definition src_%s_results : list string := [%s].\nDefinition src_%s : list stmt :=\n   %s.\n\n", name, strings.Join(results, "; "), name, body), nil
}

const goliteHeader = "(* GENERATED by go/gen (golite.go) - do not edit *)\nFrom Coq Require Import List String ZArith.\nFrom Echo Require Import Base.GoLite.\nImport ListNotations.\nOpen Scope string_scope.\nOpen Scope Z_scope.\n\n"

func genGoLiteProxy(repo string) (string, error) {
	f, err := parseFile(repo, "middleware/proxy.go")
	if err != nil {
		return "", err
	}
	fd := findFunc(f, "*roundRobinBalancer", "Next")
	if fd == nil {
		return "", fmt.Errorf("roundRobinBalancer.Next not found")
	}
	s, err := goliteFunc(fd, "rr_next", goliteCfg{
		ignore: map[string]bool{"b.mutex.Lock": true, "b.mutex.Unlock": true},
		cells:  map[string]bool{"len(b.targets)": true, "c.Get(lastIdxKey)": true},
		extern: map[string]bool{}})
	if err != nil {
		return "", err
	}
	return goliteHeader + "(* middleware/proxy.go: roundRobinBalancer.Next.  Cells: len(b.targets), b.i, c.Get(lastIdxKey) (the per-request\n   \"_round_robin_last_index\", the symbol nil when unset); c.Set(lastIdxKey, i) is an event; a returned target is its index. *)\n" + s, nil
}

func genGoLiteBodyLimit(repo string) (string, error) {
	f, err := parseFile(repo, "middleware/body_limit.go")
	if err != nil {
		return "", err
	}
	out := goliteHeader + "(* middleware/body_limit.go: limitedReader.Read and Reset.  r.reader.Read(b) is external: its (n, err) come from the input stream. *)\n"
	for _, nm := range []string{"Read", "Reset"} {
		fd := findFunc(f, "*limitedReader", nm)
		if fd == nil {
			return "", fmt.Errorf("limitedReader.%s not found", nm)
		}
		s, err := goliteFunc(fd, "limited_"+strings.ToLower(nm), goliteCfg{ignore: map[string]bool{}, cells: map[string]bool{},
			extern: map[string]bool{"r.reader.Read": true}})
		if err != nil {
			return "", err
		}
		out += s
	}
	return out, nil
}

func genGoLiteResponse(repo string) (string, error) {
	f, err := parseFile(repo, "response.go")
	if err != nil {
		return "", err
	}
	out := goliteHeader + "(* response.go: Response.WriteHeader, Write, Flush, reset.  The underlying writer's Write is external (n, err from the\n   input stream); hooks, the underlying WriteHeader / Flush and the logger are events. *)\n"
	for _, nm := range []string{"WriteHeader", "Write", "Flush", "reset"} {
		fd := findFunc(f, "*Response", nm)
		if fd == nil {
			return "", fmt.Errorf("Response.%s not found", nm)
		}
		s, err := goliteFunc(fd, "response_"+strings.ToLower(nm), goliteCfg{ignore: map[string]bool{}, cells: map[string]bool{"errors.Is(err,http.ErrNotSupported)": true},
			extern: map[string]bool{"r.Writer.Write": true, "http.NewResponseController(r.Writer).Flush": true}})
		if err != nil {
			return "", err
		}
		out += s
	}
	return out, nil
}

func genGoLiteContext(repo string) (string, error) {
	f, err := parseFile(repo, "context.go")
	if err != nil {
		return "", err
	}
	fd := findFunc(f, "*context", "Reset")
	if fd == nil {
		return "", fmt.Errorf("context.Reset not found")
	}
	s, err := goliteFunc(fd, "context_reset", goliteCfg{ignore: map[string]bool{}, cells: map[string]bool{"len(c.pvalues)": true, "*c.echo.maxParam": true}, extern: map[string]bool{}})
	if err != nil {
		return "", err
	}
	return goliteHeader + "(* context.go: context.Reset - what a recycled context forgets *)\n" + s, nil
}

// deferredClosure finds the body of `defer func() { ... }()` inside a function literal.
func deferredClosure(fl *ast.FuncLit) *ast.FuncLit {
	var found *ast.FuncLit
	ast.Inspect(fl.Body, func(n ast.Node) bool {
		if ds, ok := n.(*ast.DeferStmt); ok {
			if dl, ok := ds.Call.Fun.(*ast.FuncLit); ok && found == nil {
				found = dl
			}
		}
		return true
	})
	return found
}

func genGoLiteGzip(repo string) (string, error) {
	f, err := parseFile(repo, "middleware/compress.go")
	if err != nil {
		return "", err
	}
	out := goliteHeader + "(* middleware/compress.go: gzipResponseWriter.WriteHeader, Write, Flush and the deferred finaliser of the Gzip handler.\n   Cells: the writer's fields, w.buffer.Len(), len(b), header lookups.  The pooled buffer is bytes.Buffer: its Write is\n   external and makes w.buffer.Len() grow by len(b) (assumed of the library).  Header changes, writes to the gzip stream and\n   to the underlying writer are events. *)\n"
	cells := map[string]bool{"w.buffer.Len()": true, "len(b)": true, "w.Header().Get(echo.HeaderContentType)": true,
		"res.Header().Get(echo.HeaderContentEncoding)": true}
	for _, nm := range []string{"WriteHeader", "Write", "Flush"} {
		fd := findFunc(f, "*gzipResponseWriter", nm)
		if fd == nil {
			return "", fmt.Errorf("gzipResponseWriter.%s not found", nm)
		}
		s, err := goliteFunc(fd, "gzip_"+strings.ToLower(nm), goliteCfg{ignore: map[string]bool{}, cells: cells,
			extern: map[string]bool{"w.buffer.Write": true, "w.Writer.Write": true, "http.NewResponseController(w.ResponseWriter).Flush": true},
			grow:   map[string][2]string{"w.buffer.Write": {"w.buffer.Len()", "len(b)"}},
			tail:   map[string]bool{"w.Writer.Write": true}})
		if err != nil {
			return "", err
		}
		out += s
	}
	fd := findFunc(f, "", "GzipWithConfig")
	if fd == nil {
		return "", fmt.Errorf("GzipWithConfig not found")
	}
	fl := innerHandler(fd)
	if fl == nil {
		return "", fmt.Errorf("GzipWithConfig: no handler closure found")
	}
	dl := deferredClosure(fl)
	if dl == nil {
		return "", fmt.Errorf("GzipWithConfig: no deferred finaliser found")
	}
	s, err := goliteFunc(&ast.FuncDecl{Name: fd.Name, Type: dl.Type, Body: dl.Body}, "gzip_finish", goliteCfg{ignore: map[string]bool{}, cells: cells,
		recv: "grw", extern: map[string]bool{}})
	if err != nil {
		return "", err
	}
	return out + s, nil
}

// objAssign: assignments whose target is a scalar-replaced object variable (cfg.objs).
//
//	v = w                  (w another object variable): every field cell is copied
//	v = &T{f: e, ...}      the listed fields are set, the others zeroed
//	v, ok := X.(*T)        ok comes from outside (a type test); the field cells are copied from the object "X.(*T)"
func (g *goliteCfg) objAssign(v *ast.AssignStmt) ([]string, bool, error) {
	id, isID := v.Lhs[0].(*ast.Ident)
	if !isID || g.objs[id.Name] == nil {
		return nil, false, nil
	}
	fields := g.objs[id.Name]
	var out []string
	switch {
	case len(v.Lhs) == 1 && len(v.Rhs) == 1:
		switch r := v.Rhs[0].(type) {
		case *ast.Ident:
			if g.objs[r.Name] == nil {
				return nil, true, fmt.Errorf("%s = %s: the source is not an object variable", id.Name, r.Name)
			}
			for _, f := range fields {
				out = append(out, fmt.Sprintf("SFSet %s (EField %s)", g.str(id.Name+"."+f), g.str(r.Name+"."+f)))
			}
			return out, true, nil
		case *ast.UnaryExpr:
			cl, ok := r.X.(*ast.CompositeLit)
			if r.Op != token.AND || !ok {
				break
			}
			set := map[string]string{}
			for _, el := range cl.Elts {
				kv, ok := el.(*ast.KeyValueExpr)
				if !ok {
					return nil, true, fmt.Errorf("%s: positional struct literal is not understood", id.Name)
				}
				x, err := g.expr(kv.Value)
				if err != nil {
					x = "ESym " + g.str(lit(kv.Value))
				}
				set[lit(kv.Key)] = x
			}
			// type-test cells "F.(string)" of a field set from a string literal or a function known to return a string
			for _, el := range cl.Elts {
				kv := el.(*ast.KeyValueExpr)
				isStr := false
				if bl, ok := kv.Value.(*ast.BasicLit); ok && bl.Kind == token.STRING {
					isStr = true
				}
				if ce, ok := kv.Value.(*ast.CallExpr); ok && g.strfn[lit(ce.Fun)] {
					isStr = true
				}
				if isStr {
					set[lit(kv.Key)+".(string)"] = "EZ 1"
				}
			}
			for _, f := range fields {
				x, ok := set[f]
				if !ok {
					x = "EZ 0"
				}
				out = append(out, fmt.Sprintf("SFSet %s (%s)", g.str(id.Name+"."+f), x))
			}
			return out, true, nil
		}
	case len(v.Lhs) == 2 && len(v.Rhs) == 1:
		ta, isTA := v.Rhs[0].(*ast.TypeAssertExpr)
		okID, isOK := v.Lhs[1].(*ast.Ident)
		if !isTA || !isOK {
			break
		}
		src := lit(ta)
		g.locals[okID.Name] = true
		out = append(out, fmt.Sprintf("SCall [%s] %s []", g.str(okID.Name), g.str(src)))
		for _, f := range fields {
			out = append(out, fmt.Sprintf("SFSet %s (EField %s)", g.str(id.Name+"."+f), g.str(src+"."+f)))
		}
		return out, true, nil
	}
	return nil, true, fmt.Errorf("assignment to the object variable %s is not understood", id.Name)
}

func genGoLiteErrorHandler(repo string) (string, error) {
	f, err := parseFile(repo, "echo.go")
	if err != nil {
		return "", err
	}
	fd := findFunc(f, "*Echo", "DefaultHTTPErrorHandler")
	if fd == nil {
		return "", fmt.Errorf("Echo.DefaultHTTPErrorHandler not found")
	}
	flds := []string{"Code", "Message", "Internal", "Message.(string)", "Message.(json.Marshaler)", "Message.(error)"}
	s, err := goliteFunc(fd, "default_error_handler", goliteCfg{ignore: map[string]bool{},
		cells: map[string]bool{"c.Response().Committed": true, "c.Request().Method": true},
		objs:  map[string][]string{"he": flds, "herr": flds}, strfn: map[string]bool{"http.StatusText": true},
		extern: map[string]bool{"c.NoContent": true, "c.JSON": true}})
	if err != nil {
		return "", err
	}
	return goliteHeader + "(* echo.go: Echo.DefaultHTTPErrorHandler.  The error values are scalar-replaced: the cells \"he.Code\", \"he.Message\",\n   \"he.Internal\" and the type tests \"he.Message.(string)\" ... of the HTTPError the variable points to; a type assertion\n   of X to a pointer to HTTPError answers ok from the input stream and its fields are the cells named after the assertion.\n   c.NoContent and c.JSON are external calls (events; their error result comes from the input stream). *)\n" + s, nil
}

const goloopHeader = "(* GENERATED by go/gen (golite.go, GoLoop dialect) - do not edit *)\nFrom Coq Require Import List String ZArith.\nFrom Echo Require Import Base.Sx Base.GoLoop.\nImport ListNotations.\nOpen Scope string_scope.\nOpen Scope Z_scope.\n\n"

func genGoLoopCORS(repo string) (string, error) {
	s, err := goliteClosure(repo, "middleware/cors.go", "CORSWithConfig", "cors_handler", goliteCfg{loop: true,
		ignore: map[string]bool{}, cells: map[string]bool{},
		tail:   map[string]bool{"next": true, "c.NoContent": true},
		pure:   map[string]bool{"len": true, "strings.Contains": true, "matchSubdomain": true, ".MatchString": true},
		extern: map[string]bool{"config.Skipper": true, "config.AllowOriginFunc": true}})
	if err != nil {
		return "", err
	}
	return goloopHeader + "(* middleware/cors.go: the request handler (innermost closure) of CORSWithConfig.  The configuration and the values\n   computed by the constructor (allowMethods, exposeHeaders, hasCustomAllowMethods ...) are named constants; the request's\n   Origin and method are constants of one run; config.AllowOrigins and allowOriginPatterns are list cells; len,\n   strings.Contains, matchSubdomain and a pattern's MatchString are pure predicates; header changes are events. *)\n" + s, nil
}

func genGoLiteBind(repo string) (string, error) {
	f, err := parseFile(repo, "bind.go")
	if err != nil {
		return "", err
	}
	out := goliteHeader + "(* bind.go: DefaultBinder.Bind (which sources are consulted, in which order) and DefaultBinder.BindBody (which decoder a\n   Content-Type selects).  The binders and decoders themselves are external calls (events; their error comes from the input\n   stream); the media type computed from the Content-Type header comes from the input stream too. *)\n"
	ext := map[string]bool{"b.BindPathParams": true, "b.BindQueryParams": true, "strings.Cut": true, "strings.TrimSpace": true,
		"c.Echo().JSONSerializer.Deserialize": true, "xml.NewDecoder(req.Body).Decode": true, "c.FormParams": true, "c.MultipartForm": true, "b.bindData": true}
	for _, nm := range []string{"Bind", "BindBody", "BindQueryParams", "BindHeaders"} {
		fd := findFunc(f, "*DefaultBinder", nm)
		if fd == nil {
			return "", fmt.Errorf("DefaultBinder.%s not found", nm)
		}
		s, err := goliteFunc(fd, "binder_"+strings.ToLower(nm), goliteCfg{ignore: map[string]bool{}, extern: ext,
			cells: map[string]bool{"c.Request().Method": true, "req.ContentLength": true}, tail: map[string]bool{"b.BindBody": true}})
		if err != nil {
			return "", err
		}
		out += s
	}
	return out, nil
}

func genGoLoopKeyAuth(repo string) (string, error) {
	s, err := goliteClosure(repo, "middleware/key_auth.go", "KeyAuthWithConfig", "key_auth_handler", goliteCfg{loop: true,
		ignore: map[string]bool{}, cells: map[string]bool{},
		tail:   map[string]bool{"next": true},
		pure:   map[string]bool{},
		pcall:  map[string]bool{"extractor": true, "config.Validator": true},
		extern: map[string]bool{"config.Skipper": true, "config.ErrorHandler": true}})
	if err != nil {
		return "", err
	}
	return goloopHeader + "(* middleware/key_auth.go: the request handler (innermost closure) of KeyAuthWithConfig.  The extractors built by the\n   constructor are a list cell; what an extractor finds and what the validator answers are fixed functions of their arguments\n   for one request (SCallP: results from the interpreter's pred, every call recorded). *)\n" + s, nil
}

func genGoLoopBasicAuth(repo string) (string, error) {
	s, err := goliteClosure(repo, "middleware/basic_auth.go", "BasicAuthWithConfig", "basic_auth_handler", goliteCfg{loop: true,
		ignore: map[string]bool{}, cells: map[string]bool{},
		tail:   map[string]bool{"next": true},
		pure:   map[string]bool{"len": true, "strings.EqualFold": true, "strconv.Quote": true},
		pcall:  map[string]bool{"base64.StdEncoding.DecodeString": true, "config.Validator": true},
		extern: map[string]bool{"config.Skipper": true}})
	if err != nil {
		return "", err
	}
	return goloopHeader + "(* middleware/basic_auth.go: the request handler (innermost closure) of BasicAuthWithConfig.  Slicing, indexing, len and\n   strings.EqualFold are pure predicates; base64 decoding and the validator are fixed functions of their arguments (SCallP). *)\n" + s, nil
}

// isStringy: an expression that is visibly a string (a string literal, or a concatenation containing one)
func isStringy(e ast.Expr) bool {
	switch v := e.(type) {
	case *ast.BasicLit:
		return v.Kind == token.STRING
	case *ast.ParenExpr:
		return isStringy(v.X)
	case *ast.BinaryExpr:
		return v.Op == token.ADD && (isStringy(v.X) || isStringy(v.Y))
	}
	return false
}

func genGoLoopStaticDir(repo string) (string, error) {
	f, err := parseFile(repo, "echo_fs.go")
	if err != nil {
		return "", err
	}
	fd := findFunc(f, "", "StaticDirectoryHandler")
	if fd == nil {
		return "", fmt.Errorf("StaticDirectoryHandler not found")
	}
	var fl *ast.FuncLit
	ast.Inspect(fd.Body, func(n ast.Node) bool {
		if x, ok := n.(*ast.FuncLit); ok && fl == nil {
			fl = x
		}
		return true
	})
	if fl == nil {
		return "", fmt.Errorf("StaticDirectoryHandler: no handler closure found")
	}
	s, err := goliteFunc(&ast.FuncDecl{Name: fd.Name, Type: fl.Type, Body: fl.Body}, "static_dir_handler", goliteCfg{loop: true,
		ignore: map[string]bool{}, cells: map[string]bool{},
		tail:   map[string]bool{"c.Redirect": true, "fsFile": true},
		pure:   map[string]bool{"len": true, "strings.TrimPrefix": true, "filepath.Clean": true, "filepath.ToSlash": true, "sanitizeURI": true, ".IsDir": true},
		pcall:  map[string]bool{"url.PathUnescape": true, "fs.Stat": true},
		extern: map[string]bool{}})
	if err != nil {
		return "", err
	}
	return goloopHeader + "(* echo_fs.go: the handler returned by StaticDirectoryHandler (Echo.Static, Group.Static, StaticFS).  Unescaping and fs.Stat are\n   fixed functions of their arguments (SCallP); TrimPrefix, Clean, ToSlash, sanitizeURI, len, indexing and concatenation are pure. *)\n" + s, nil
}

func genGoLoopGroup(repo string) (string, error) {
	f, err := parseFile(repo, "group.go")
	if err != nil {
		return "", err
	}
	out := goloopHeader + "(* group.go: Group.Use, Group.Group, Group.Add, Group.RouteNotFound.  Middleware slices are VALUES (lists of ids): make and\n   append are pure, so what a theorem says about them is which middlewares a chain holds - not whether two slices share a backing\n   array (that is the correspondence's business).  Registrations (echo.add, RouteNotFound, the sub-group's Use) are events. *)\n"
	flds := []string{"host", "prefix", "echo"}
	for _, nm := range []string{"Use", "Group", "Add", "RouteNotFound"} {
		fd := findFunc(f, "*Group", nm)
		if fd == nil {
			return "", fmt.Errorf("Group.%s not found", nm)
		}
		s, err := goliteFunc(fd, "group_"+strings.ToLower(nm), goliteCfg{loop: true, ignore: map[string]bool{}, cells: map[string]bool{},
			pure:   map[string]bool{"make": true, "append": true, "len": true},
			strs:   map[string]bool{"g.prefix": true, "prefix": true, "path": true},
			objs:   map[string][]string{"sg": flds},
			tail:   map[string]bool{"g.echo.add": true, "g.Add": true},
			extern: map[string]bool{}})
		if err != nil {
			return "", err
		}
		out += s
	}
	return out, nil
}

func genGoLoopReverse(repo string) (string, error) {
	f, err := parseFile(repo, "router.go")
	if err != nil {
		return "", err
	}
	fd := findFunc(f, "*Router", "Reverse")
	if fd == nil {
		return "", fmt.Errorf("Router.Reverse not found")
	}
	s, err := goliteFunc(fd, "reverse", goliteCfg{loop: true, ignore: map[string]bool{}, cells: map[string]bool{},
		pure:   map[string]bool{"len": true, "fmt.Sprintf": true, ".Name": true, ".Path": true},
		extern: map[string]bool{}})
	if err != nil {
		return "", err
	}
	return goloopHeader + "(* router.go: Router.Reverse.  r.routes is a list cell of (Name, Path) values; len, indexing, the projections and fmt.Sprintf are\n   pure; the writes to the buffer (uri.WriteString, uri.WriteByte) are events, and what is returned is the buffer's content. *)\n" + s, nil
}

func genGoLoopSlash(repo string) (string, error) {
	out := goloopHeader + "(* middleware/slash.go: the request handlers (innermost closures) of AddTrailingSlashWithConfig and RemoveTrailingSlashWithConfig.\n   strings.HasSuffix, sanitizeURI, len, slicing and concatenation are pure; url.Path, c.QueryString() and config.RedirectCode are\n   constants of one request; the writes to req.RequestURI and url.Path are cells; c.Redirect and next are events. *)\n"
	for _, fn := range [][2]string{{"AddTrailingSlashWithConfig", "add_slash_handler"}, {"RemoveTrailingSlashWithConfig", "remove_slash_handler"}} {
		s, err := goliteClosure(repo, "middleware/slash.go", fn[0], fn[1], goliteCfg{loop: true,
			ignore: map[string]bool{}, cells: map[string]bool{},
			tail:   map[string]bool{"next": true, "c.Redirect": true},
			pure:   map[string]bool{"len": true, "strings.HasSuffix": true, "sanitizeURI": true},
			strs:   map[string]bool{"path": true, "uri": true, "qs": true},
			extern: map[string]bool{"config.Skipper": true}})
		if err != nil {
			return "", err
		}
		out += s
	}
	return out, nil
}

func genGoLoopIP(repo string) (string, error) {
	f, err := parseFile(repo, "ip.go")
	if err != nil {
		return "", err
	}
	out := goloopHeader + "(* ip.go: the extractor closures returned by ExtractIPFromRealIPHeader and ExtractIPFromXFFHeader.  The header lookups are cells;\n   extractIP, net.ParseIP, checker.trust, ip.String and the strings functions are pure; slices are values (ips[i] = e updates the local). *)\n"
	for _, fn := range [][2]string{{"ExtractIPFromRealIPHeader", "realip_extractor"}, {"ExtractIPFromXFFHeader", "xff_extractor"}} {
		fd := findFunc(f, "", fn[0])
		if fd == nil {
			return "", fmt.Errorf("%s not found", fn[0])
		}
		var fl *ast.FuncLit
		ast.Inspect(fd.Body, func(n ast.Node) bool {
			if x, ok := n.(*ast.FuncLit); ok && fl == nil {
				fl = x
			}
			return true
		})
		if fl == nil {
			return "", fmt.Errorf("%s: no extractor closure found", fn[0])
		}
		s, err := goliteFunc(&ast.FuncDecl{Name: fd.Name, Type: fl.Type, Body: fl.Body}, fn[1], goliteCfg{loop: true,
			ignore: map[string]bool{}, extern: map[string]bool{},
			cells:  map[string]bool{"req.Header[HeaderXForwardedFor]": true, "req.Header.Get(HeaderXRealIP)": true},
			pure: map[string]bool{"len": true, "extractIP": true, "net.ParseIP": true, "checker.trust": true, ".String": true, "append": true,
				"strings.Split": true, "strings.Join": true, "strings.TrimSpace": true, "strings.TrimPrefix": true, "strings.TrimSuffix": true}})
		if err != nil {
			return "", err
		}
		out += s
	}
	return out, nil
}

func genGoLoopCSRFCompare(repo string) (string, error) {
	f, err := parseFile(repo, "middleware/csrf.go")
	if err != nil {
		return "", err
	}
	fd := findFunc(f, "", "validateCSRFToken")
	if fd == nil {
		return "", fmt.Errorf("validateCSRFToken not found")
	}
	s, err := goliteFunc(fd, "validate_csrf_token", goliteCfg{loop: true, ignore: map[string]bool{}, extern: map[string]bool{}, cells: map[string]bool{},
		pure: map[string]bool{"subtle.ConstantTimeCompare": true, "len": true}})
	if err != nil {
		return "", err
	}
	return goloopHeader + "(* middleware/csrf.go: validateCSRFToken - the comparison of the cookie's token with a client token.  subtle.ConstantTimeCompare is pure\n   (1 for equal byte strings of equal length, else 0); []byte(s) is the string's bytes. *)\n" + s, nil
}

func genGoLoopApplyMiddleware(repo string) (string, error) {
	f, err := parseFile(repo, "echo.go")
	if err != nil {
		return "", err
	}
	fd := findFunc(f, "", "applyMiddleware")
	if fd == nil {
		return "", fmt.Errorf("applyMiddleware not found")
	}
	s, err := goliteFunc(fd, "apply_middleware", goliteCfg{loop: true, ignore: map[string]bool{}, extern: map[string]bool{}, cells: map[string]bool{},
		pure: map[string]bool{"len": true, "apply": true}})
	if err != nil {
		return "", err
	}
	return goloopHeader + "(* echo.go: applyMiddleware - the loop that wraps a handler in a list of middleware (used for a route's chain, for Echo.Use\n   and for Echo.Pre).  Applying a middleware to a handler is pure: it yields the wrapped handler. *)\n" + s, nil
}

func genGoLiteRateStore(repo string) (string, error) {
	f, err := parseFile(repo, "middleware/rate_limiter.go")
	if err != nil {
		return "", err
	}
	fd := findFunc(f, "*RateLimiterMemoryStore", "Allow")
	if fd == nil {
		return "", fmt.Errorf("RateLimiterMemoryStore.Allow not found")
	}
	s, err := goliteFunc(fd, "store_allow", goliteCfg{
		ignore: map[string]bool{"store.mutex.Lock": true, "store.mutex.Unlock": true},
		extern: map[string]bool{"store.timeNow": true, "limiter.AllowN": true},
		cells:  map[string]bool{"now.Sub(store.lastCleanup)": true}})
	if err != nil {
		return "", err
	}
	return goliteHeader + "(* middleware/rate_limiter.go: RateLimiterMemoryStore.Allow.  The map lookup, the clock and the visitor's token bucket are external\n   (input stream); the store into the map and the sweep are events; limiter.lastSeen is a cell. *)\n" + s, nil
}

func genGoLiteServeHTTP(repo string) (string, error) {
	f, err := parseFile(repo, "echo.go")
	if err != nil {
		return "", err
	}
	fd := findFunc(f, "*Echo", "ServeHTTP")
	if fd == nil {
		return "", fmt.Errorf("Echo.ServeHTTP not found")
	}
	cfg := func() goliteCfg {
		return goliteCfg{ignore: map[string]bool{}, cells: map[string]bool{},
			extern: map[string]bool{"e.pool.Get": true, "h": true, "c.Handler": true}, tail: map[string]bool{"h": true}}
	}
	out := goliteHeader + "(* echo.go: Echo.ServeHTTP and the closure it builds when Pre middleware is installed.  The pool, the handler chain (its error) and\n   c.Handler() are external; Reset, the router lookup, the error handler and the return of the context to the pool are events. *)\n"
	s, err := goliteFunc(fd, "serve_http", cfg())
	if err != nil {
		return "", err
	}
	out += s
	var fl *ast.FuncLit
	ast.Inspect(fd.Body, func(n ast.Node) bool {
		if x, ok := n.(*ast.FuncLit); ok && fl == nil {
			fl = x
		}
		return true
	})
	if fl == nil {
		return "", fmt.Errorf("Echo.ServeHTTP: the routing closure for Pre middleware was not found")
	}
	s, err = goliteFunc(&ast.FuncDecl{Name: fd.Name, Recv: fd.Recv, Type: fl.Type, Body: fl.Body}, "serve_http_routed", cfg())
	if err != nil {
		return "", err
	}
	return out + s, nil
}

func genGoLoopAddTarget(repo string) (string, error) {
	f, err := parseFile(repo, "middleware/proxy.go")
	if err != nil {
		return "", err
	}
	out := goloopHeader + "(* middleware/proxy.go: commonBalancer.AddTarget and RemoveTarget.  b.targets is a list cell (ranged over) and a field (read,\n   assigned); a target is a value with a Name; append, slicing and indexing are pure; the mutex is outside the model (the balancer\n   operations are taken as atomic). *)\n"
	for _, nm := range [][2]string{{"AddTarget", "add_target"}, {"RemoveTarget", "remove_target"}} {
		fd := findFunc(f, "*commonBalancer", nm[0])
		if fd == nil {
			return "", fmt.Errorf("commonBalancer.%s not found", nm[0])
		}
		s, err := goliteFunc(fd, nm[1], goliteCfg{loop: true, extern: map[string]bool{}, cells: map[string]bool{},
			ignore: map[string]bool{"b.mutex.Lock": true, "b.mutex.Unlock": true},
			pure:   map[string]bool{".Name": true, ".URL": true, "append": true, "len": true}})
		if err != nil {
			return "", err
		}
		out += s
	}
	return out, nil
}

func genGoLiteDecompress(repo string) (string, error) {
	s, err := goliteClosure(repo, "middleware/decompress.go", "DecompressWithConfig", "decompress_handler", goliteCfg{
		ignore: map[string]bool{}, tail: map[string]bool{"next": true},
		cells:  map[string]bool{"c.Request().Header.Get(echo.HeaderContentEncoding)": true},
		extern: map[string]bool{"config.Skipper": true, "pool.Get": true, "gr.Reset": true}})
	if err != nil {
		return "", err
	}
	return goliteHeader + "(* middleware/decompress.go: the request handler (innermost closure) of DecompressWithConfig.  The skipper, the pool, the type test\n   of what the pool returned and gzip.Reader.Reset are external (input stream); the deferred calls, the replacement of the request\n   body and next are events; the Content-Encoding header is a cell. *)\n" + s, nil
}

func genGoLoopNormPath(repo string) (string, error) {
	f, err := parseFile(repo, "router.go")
	if err != nil {
		return "", err
	}
	fd := findFunc(f, "", "normalizePathSlash")
	if fd == nil {
		return "", fmt.Errorf("normalizePathSlash not found")
	}
	s, err := goliteFunc(fd, "normalize_path_slash", goliteCfg{loop: true, ignore: map[string]bool{}, extern: map[string]bool{}, cells: map[string]bool{},
		pure: map[string]bool{"len": true}, strs: map[string]bool{"path": true}})
	if err != nil {
		return "", err
	}
	return goloopHeader + "(* router.go: normalizePathSlash - what Router.add and Router.insert make of a registered pattern before anything else looks at it. *)\n" + s, nil
}

// funcLitOfVar finds `var name = func(...) ... {...}` at package level.
func funcLitOfVar(f *ast.File, name string) *ast.FuncLit {
	for _, d := range f.Decls {
		gd, ok := d.(*ast.GenDecl)
		if !ok || gd.Tok != token.VAR {
			continue
		}
		for _, sp := range gd.Specs {
			vs, ok := sp.(*ast.ValueSpec)
			if !ok {
				continue
			}
			for i, n := range vs.Names {
				if n.Name == name && i < len(vs.Values) {
					if fl, ok := vs.Values[i].(*ast.FuncLit); ok {
						return fl
					}
				}
			}
		}
	}
	return nil
}

func genGoLiteAllowHandlers(repo string) (string, error) {
	fe, err := parseFile(repo, "echo.go")
	if err != nil {
		return "", err
	}
	fr, err := parseFile(repo, "router.go")
	if err != nil {
		return "", err
	}
	out := goliteHeader + "(* echo.go: MethodNotAllowedHandler; router.go: the closure returned by optionsMethodHandler.  The value kept in the context under\n   ContextKeyHeaderAllow and whether it is a string come from the input stream; header changes and NoContent are events. *)\n"
	fl := funcLitOfVar(fe, "MethodNotAllowedHandler")
	if fl == nil {
		return "", fmt.Errorf("MethodNotAllowedHandler not found")
	}
	s, err := goliteFunc(&ast.FuncDecl{Name: ast.NewIdent("MethodNotAllowedHandler"), Type: fl.Type, Body: fl.Body}, "method_not_allowed_handler",
		goliteCfg{ignore: map[string]bool{}, extern: map[string]bool{}, cells: map[string]bool{}})
	if err != nil {
		return "", err
	}
	out += s
	fd := findFunc(fr, "", "optionsMethodHandler")
	if fd == nil {
		return "", fmt.Errorf("optionsMethodHandler not found")
	}
	var fl2 *ast.FuncLit
	ast.Inspect(fd.Body, func(n ast.Node) bool {
		if x, ok := n.(*ast.FuncLit); ok && fl2 == nil {
			fl2 = x
		}
		return true
	})
	if fl2 == nil {
		return "", fmt.Errorf("optionsMethodHandler: no closure found")
	}
	s, err = goliteFunc(&ast.FuncDecl{Name: fd.Name, Type: fl2.Type, Body: fl2.Body}, "options_method_handler",
		goliteCfg{ignore: map[string]bool{}, extern: map[string]bool{}, cells: map[string]bool{}, tail: map[string]bool{"c.NoContent": true}})
	if err != nil {
		return "", err
	}
	return out + s, nil
}
