From Coq Require Extraction.
From Coq Require Import ExtrOcamlBasic.
From Echo Require Import Glue.G15.
Extraction "extracted/m15.ml" G15.run_sx.
