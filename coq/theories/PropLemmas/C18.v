(* Proofs of the short corollaries stated in Props/C18.v (kept out of the statement file). *)
From Coq Require Import List ZArith Bool.
From Echo Require Import Mw.RateLimit Mw.RateLimitProofs.
Import ListNotations.
Open Scope Z_scope.

Lemma C18_store_refines_spec_l : forall a b B E, 0 <= a -> 0 < b -> 0 <= B -> 0 <= E -> B * b <= a * E ->
  forall (ident : Type) (id_eqb : ident -> ident -> bool), (forall x y, id_eqb x y = true <-> x = y) ->
  forall evs now0, ev_sorted_from ident now0 evs ->
  store_run a b B E ident id_eqb (store0 ident now0) evs = spec_run a b B ident id_eqb (fun _ => None) evs.
Proof. intros a b B E Ha Hb HB HE HEr ident id_eqb Hspec evs now0 Hs.
  eapply store_refines_spec; eauto. apply Sim0. Qed.

Lemma C18_isolation_l : forall a b B E, 0 <= a -> 0 < b -> 0 <= B -> 0 <= E -> B * b <= a * E ->
  forall (ident : Type) (id_eqb : ident -> ident -> bool), (forall x y, id_eqb x y = true <-> x = y) ->
  forall x evs now0, ev_sorted_from ident now0 evs ->
  sub_answers ident id_eqb x evs (store_run a b B E ident id_eqb (store0 ident now0) evs) =
  match sub_history ident id_eqb x evs with
  | [] => []
  | t0 :: _ => run a b B (fresh b B t0) (sub_history ident id_eqb x evs)
  end.
Proof. intros; eapply store_per_identifier; eauto. Qed.

Lemma C18_window_l : forall a b B, 0 <= a -> 0 < b -> 0 <= B ->
  forall pre win now0 t1, sorted_from now0 pre -> lastt now0 pre <= t1 -> sorted_from t1 win ->
  count (run a b B (final a b B (fresh b B now0) pre) win) * b <= B * b + a * (lastt t1 win - t1).
Proof. intros a b B Ha Hb HB. exact (every_window a b B Ha Hb HB). Qed.

Lemma C18_middleware_l : forall admitted, middleware admitted = if admitted then (0, true) else (429, false).
Proof. reflexivity. Qed.

