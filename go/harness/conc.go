package main

// Concurrent stage ("-conc"): the theorems are about sequential models in which every store / balancer /
// context operation is ATOMIC.  This stage validates that assumption on the implementation: it runs the
// operations from many goroutines under the race detector (the binary is built with -race) and checks the
// outcome against what ANY serial order of the same operations gives (the scenarios are built so that this
// is order independent), plus the absence of panics.  A data race reported by the detector, a panic, or a
// count that no serial order explains is a violation; the report is the failing schedule.

import (
	"bytes"
	"compress/gzip"
	"encoding/json"
	"fmt"
	"io"
	"math/rand"
	"net/http"
	"net/http/httptest"
	"net/url"
	"os"
	"runtime"
	"strings"
	"sync"
	"sync/atomic"
	"time"

	"github.com/labstack/echo/v4"
	"github.com/labstack/echo/v4/middleware"
	"golang.org/x/time/rate"
)

type concResult struct {
	Scenarios int            `json:"scenarios"`
	Ops       int            `json:"ops"`
	Failures  []string       `json:"failures"`
	Dist      map[string]int `json:"dist"`
}

var concs = map[string]func(rng *rand.Rand, rounds int, res *concResult){
	"C05": concC05,
	"C14": concC14,
	"C15": concC15,
	"C18": concC18,
	"C19": concC19,
	"C20": concC20,
}

func runConc(prop string, seed int64, rounds int) {
	f := concs[prop]
	res := &concResult{Dist: map[string]int{}}
	if f == nil {
		fmt.Fprintln(os.Stderr, "no concurrent stage for", prop)
		os.Exit(2)
	}
	func() {
		defer func() {
			if r := recover(); r != nil {
				res.Failures = append(res.Failures, fmt.Sprintf("panic in the main goroutine: %v", r))
			}
		}()
		f(rand.New(rand.NewSource(seed)), rounds, res)
	}()
	b, _ := json.Marshal(res)
	fmt.Println(string(b))
}

func (r *concResult) fail(format string, a ...interface{}) {
	if len(r.Failures) < 20 {
		r.Failures = append(r.Failures, fmt.Sprintf(format, a...))
	}
}

// parallel runs g goroutines and converts a panic in any of them into a failure.
func parallel(res *concResult, g int, what string, body func(k int)) {
	var wg sync.WaitGroup
	var mu sync.Mutex
	for k := 0; k < g; k++ {
		wg.Add(1)
		go func(k int) {
			defer wg.Done()
			defer func() {
				if r := recover(); r != nil {
					mu.Lock()
					res.fail("%s: goroutine %d panicked: %v", what, k, r)
					mu.Unlock()
				}
			}()
			body(k)
		}(k)
	}
	wg.Wait()
}

// ---------------------------------------------------------------- C18
// Phases with a frozen clock: within a phase no time passes, so for every identifier the number of admitted
// calls is the same in every serial order: min(calls, whole tokens available).  The expected numbers come
// from a second store driven serially with the same per-identifier call counts.
func concC18(rng *rand.Rand, rounds int, res *concResult) {
	for it := 0; it < rounds; it++ {
		r := []float64{1, 2, 5, 0.5, 10}[rng.Intn(5)]
		burst := 1 + rng.Intn(8)
		// ExpiresIn*rate >= burst (the property's precondition: otherwise expiry legitimately refills faster than the rate)
		expires := time.Duration(int(float64(burst)/r)+1+rng.Intn(3)) * time.Second
		mk := func() (*middleware.RateLimiterMemoryStore, *int64) {
			s := middleware.NewRateLimiterMemoryStoreWithConfig(middleware.RateLimiterMemoryStoreConfig{Rate: rate.Limit(r), Burst: burst, ExpiresIn: expires})
			var now int64 = 1_000_000_000_000
			s.VerifSetClock(func() time.Time { return time.Unix(0, atomic.LoadInt64(&now)) })
			return s, &now
		}
		conc, cnow := mk()
		serial, snow := mk()
		ids := []string{"a", "b", "c", "d", "e", "f"}[:1+rng.Intn(6)]
		g := 4 + rng.Intn(13)
		desc := fmt.Sprintf("rate=%v burst=%d expires=%v ids=%v goroutines=%d", r, burst, expires, ids, g)
		for ph := 0; ph < 4; ph++ {
			adv := int64(rng.Intn(8)) * 250_000_000 // multiples of 1/4 s: exact in float64
			if adv > int64(expires) {
				adv = int64(expires) // every identifier is asked for in every phase, so none is idle longer than ExpiresIn here
			}
			if rng.Intn(4) == 0 {
				// idle identifiers expire; long enough to refill a kept bucket completely, so that it does not matter
				// which identifier's call runs the cleanup first (kept-and-refilled and dropped-and-fresh agree)
				adv = int64(expires) + int64(float64(burst)/r+2)*1_000_000_000
			}
			atomic.AddInt64(cnow, adv)
			atomic.AddInt64(snow, adv)
			per := 1 + rng.Intn(12)
			calls := make([][]string, g) // goroutine -> identifiers it asks for
			want := map[string]int{}
			total := map[string]int{}
			for k := range calls {
				for j := 0; j < per; j++ {
					id := ids[rng.Intn(len(ids))]
					calls[k] = append(calls[k], id)
					total[id]++
				}
			}
			for i, id := range ids {
				if total[id] == 0 {
					calls[i%g] = append(calls[i%g], id)
					total[id]++
				}
			}
			for _, id := range ids {
				for j := 0; j < total[id]; j++ {
					if ok, _ := serial.Allow(id); ok {
						want[id]++
					}
				}
			}
			var mu sync.Mutex
			got := map[string]int{}
			parallel(res, g, "C18 "+desc, func(k int) {
				loc := map[string]int{}
				for _, id := range calls[k] {
					ok, err := conc.Allow(id)
					if err != nil {
						panic(err)
					}
					if ok {
						loc[id]++
					}
					if k%3 == 0 {
						runtime.Gosched()
					}
				}
				mu.Lock()
				for id, c := range loc {
					got[id] += c
				}
				mu.Unlock()
			})
			res.Ops += g * per
			for _, id := range ids {
				if got[id] != want[id] {
					res.fail("C18 %s phase %d (clock advanced by %v, %d calls for %q from %d goroutines): %d admitted, every serial order admits %d", desc, ph, time.Duration(adv), total[id], id, g, got[id], want[id])
				}
			}
		}
		res.Scenarios++
		res.Dist[fmt.Sprintf("c18_goroutines_%02d", g)]++
	}
}

// ---------------------------------------------------------------- C19
func concC19(rng *rand.Rand, rounds int, res *concResult) {
	mkT := func(n string) *middleware.ProxyTarget { return &middleware.ProxyTarget{Name: n} }
	e := echo.New()
	for it := 0; it < rounds; it++ {
		n := 1 + rng.Intn(5)
		var init []*middleware.ProxyTarget
		for i := 0; i < n; i++ {
			init = append(init, mkT(fmt.Sprintf("t%d", i)))
		}
		b := middleware.NewRoundRobinBalancer(init)
		g := 4 + rng.Intn(9)
		per := 50 + rng.Intn(200)
		desc := fmt.Sprintf("targets=%d goroutines=%d calls/goroutine=%d", n, g, per)
		if it%5 == 4 {
			// (c) overlapping requests through the proxy middleware itself: one target refuses connections, one answers;
			// with one retry every request must be relayed from the live one, with its own path and its own body
			live := httptest.NewServer(http.HandlerFunc(func(w http.ResponseWriter, r *http.Request) {
				b, _ := io.ReadAll(r.Body)
				w.Header().Set("X-Saw-Path", r.URL.Path)
				w.WriteHeader(http.StatusCreated)
				w.Write(append([]byte("echo:"), b...))
			}))
			du, _ := url.Parse("http://" + reservedDeadAddr())
			lu, _ := url.Parse(live.URL)
			pe := echo.New()
			pe.Logger.SetOutput(io.Discard)
			pe.Use(middleware.ProxyWithConfig(middleware.ProxyConfig{RetryCount: 1,
				Balancer: middleware.NewRoundRobinBalancer([]*middleware.ProxyTarget{{Name: "dead", URL: du}, {Name: "live", URL: lu}})}))
			var bad atomic.Value
			pg, pper := 4+rng.Intn(5), 10+rng.Intn(15)
			parallel(res, pg, "C19 proxy "+desc, func(k int) {
				for j := 0; j < pper; j++ {
					id := fmt.Sprintf("%d-%d", k, j)
					req := httptest.NewRequest(http.MethodPost, "/p/"+id, strings.NewReader("body-"+id))
					rec := httptest.NewRecorder()
					pe.ServeHTTP(rec, req)
					if rec.Code != http.StatusCreated || rec.Body.String() != "echo:body-"+id || rec.Header().Get("X-Saw-Path") != "/p/"+id {
						bad.Store(fmt.Sprintf("request %s (one dead and one live target, RetryCount 1) got status %d body %q upstream-path %q", id, rec.Code, rec.Body.String(), rec.Header().Get("X-Saw-Path")))
					}
				}
			})
			live.Close()
			if v := bad.Load(); v != nil {
				res.fail("C19 goroutines=%d: %v", pg, v)
			}
			res.Dist["c19_proxy_overlapping"]++
			res.Ops += pg * pper
			res.Scenarios++
			continue
		}
		if rng.Intn(2) == 0 {
			// (a) fixed list: all calls together are one cyclic sequence, so per-target counts differ by at most one
			var mu sync.Mutex
			cnt := map[string]int{}
			parallel(res, g, "C19 fair "+desc, func(k int) {
				loc := map[string]int{}
				for j := 0; j < per; j++ {
					// a fresh context per call: a context that has been routed once counts as a retry
					c := e.NewContext(httptest.NewRequest("GET", "/", nil), httptest.NewRecorder())
					t := b.Next(c)
					if t == nil {
						panic("Next returned nil on a non-empty balancer")
					}
					loc[t.Name]++
				}
				mu.Lock()
				for k, v := range loc {
					cnt[k] += v
				}
				mu.Unlock()
			})
			mn, mx := 1<<30, 0
			for _, t := range init {
				if cnt[t.Name] < mn {
					mn = cnt[t.Name]
				}
				if cnt[t.Name] > mx {
					mx = cnt[t.Name]
				}
			}
			if mx-mn > 1 {
				res.fail("C19 %s: %d concurrent Next calls over a fixed list gave counts %v (differ by more than one)", desc, g*per, cnt)
			}
			res.Dist["c19_fair"]++
		} else {
			// (b) goroutines 0..g-2 route; the last one adds and removes targets x0..x3 meanwhile
			var removed, added sync.Map
			final := map[string]bool{}
			parallel(res, g, "C19 mutate "+desc, func(k int) {
				if k == g-1 {
					lr := rand.New(rand.NewSource(int64(it)))
					for j := 0; j < per; j++ {
						nm := fmt.Sprintf("x%d", lr.Intn(4))
						if lr.Intn(2) == 0 {
							added.Store(nm, true)
							if b.AddTarget(mkT(nm)) == final[nm] {
								panic(fmt.Sprintf("AddTarget(%s) returned %v while present=%v", nm, !final[nm], final[nm]))
							}
							final[nm] = true
						} else {
							if b.RemoveTarget(nm) != final[nm] {
								panic(fmt.Sprintf("RemoveTarget(%s) returned %v while present=%v", nm, !final[nm], final[nm]))
							}
							final[nm] = false
							removed.Store(nm, true)
						}
					}
					return
				}
				for j := 0; j < per; j++ {
					c := e.NewContext(httptest.NewRequest("GET", "/", nil), httptest.NewRecorder())
					t := b.Next(c)
					if t == nil {
						panic("Next returned nil although the initial targets are never removed")
					}
					if strings.HasPrefix(t.Name, "x") {
						if _, ok := added.Load(t.Name); !ok {
							panic("Next returned a target that was never added: " + t.Name)
						}
					}
				}
			})
			// afterwards (quiescent): exactly the initial targets and the x's whose last operation was Add
			c := e.NewContext(httptest.NewRequest("GET", "/", nil), httptest.NewRecorder())
			seen := map[string]bool{}
			for j := 0; j < 4*(n+4); j++ {
				c = e.NewContext(httptest.NewRequest("GET", "/", nil), httptest.NewRecorder())
				if t := b.Next(c); t != nil {
					seen[t.Name] = true
				}
			}
			for nm, present := range final {
				if present != seen[nm] {
					res.fail("C19 %s: after the run target %s present=%v by its last operation, but Next visits it=%v", desc, nm, present, seen[nm])
				}
			}
			for _, t := range init {
				if !seen[t.Name] {
					res.fail("C19 %s: initial target %s is no longer visited", desc, t.Name)
				}
			}
			res.Dist["c19_mutate"]++
		}
		res.Ops += g * per
		res.Scenarios++
	}
}

// ---------------------------------------------------------------- C05
// Concurrent requests through ONE instance: every handler writes request-specific state into its context,
// yields, and must still read exactly its own state; on entry the context must look fresh.
func concC05(rng *rand.Rand, rounds int, res *concResult) {
	for it := 0; it < rounds; it++ {
		e := echo.New()
		e.Logger.SetOutput(io.Discard)
		var bad atomic.Value
		h := func(c echo.Context) error {
			id := c.Request().Header.Get("X-Req")
			if v := c.Get("owner"); v != nil {
				bad.Store(fmt.Sprintf("request %s starts with store value owner=%v", id, v))
			}
			if c.Response().Committed || c.Response().Size != 0 || c.Response().Status != http.StatusOK {
				bad.Store(fmt.Sprintf("request %s starts with a used response (status %d size %d)", id, c.Response().Status, c.Response().Size))
			}
			if q := c.QueryParam("q"); q != id {
				bad.Store(fmt.Sprintf("request %s reads query q=%q", id, q))
			}
			want := ""
			if len(c.ParamNames()) > 0 {
				want = c.Param(c.ParamNames()[0])
			}
			c.Set("owner", id)
			for i := 0; i < 3; i++ {
				runtime.Gosched()
				if v, _ := c.Get("owner").(string); v != id {
					bad.Store(fmt.Sprintf("request %s reads store value owner=%q", id, v))
				}
				if len(c.ParamNames()) > 0 && c.Param(c.ParamNames()[0]) != want {
					bad.Store(fmt.Sprintf("request %s: parameter changed from %q to %q while it was being served", id, want, c.Param(c.ParamNames()[0])))
				}
			}
			if want != "" && want != "v"+id {
				bad.Store(fmt.Sprintf("request %s saw parameter value %q", id, want))
			}
			return c.String(http.StatusOK, "body-"+id)
		}
		e.GET("/a/:x", h)
		e.GET("/b/:y/c/:z", h)
		e.GET("/s", h)
		// a custom not-found route with a parameter, reached through the best-match node (values are kept in a snapshot)
		e.POST("/files/:id", h)
		e.RouteNotFound("/files/:id", func(c echo.Context) error {
			id := c.Request().Header.Get("X-Req")
			for i := 0; i < 3; i++ {
				if got := c.Param("id"); got != "v"+id {
					bad.Store(fmt.Sprintf("request %s: the not-found route /files/:id saw id=%q", id, got))
				}
				runtime.Gosched()
			}
			return c.String(http.StatusNotFound, "nf-"+id)
		})
		g := 4 + rng.Intn(13)
		per := 20 + rng.Intn(60)
		parallel(res, g, "C05", func(k int) {
			for j := 0; j < per; j++ {
				id := fmt.Sprintf("%d-%d", k, j)
				p := []string{"/a/v" + id, "/b/v" + id + "/c/w", "/s", "/missing/" + id, "/files/v" + id}[(k+j)%5]
				if k == 0 && j == per/2 {
					// a route with more parameters than any so far, registered while traffic runs (documented as unsupported for
					// routing races, so it goes to its own instance path only through the serialised Add)
				}
				req := httptest.NewRequest("GET", p+"?q="+id, nil)
				req.Header.Set("X-Req", id)
				rec := httptest.NewRecorder()
				e.ServeHTTP(rec, req)
				if strings.HasPrefix(p, "/files/") {
					if rec.Code != 404 || rec.Body.String() != "nf-"+id {
						bad.Store(fmt.Sprintf("request %s for %s answered %d %q", id, p, rec.Code, rec.Body.String()))
					}
				} else if strings.HasPrefix(p, "/missing") {
					if rec.Code != 404 {
						bad.Store(fmt.Sprintf("request %s for %s answered %d", id, p, rec.Code))
					}
				} else if rec.Code != 200 || rec.Body.String() != "body-"+id {
					bad.Store(fmt.Sprintf("request %s got status %d body %q", id, rec.Code, rec.Body.String()))
				}
			}
		})
		if v := bad.Load(); v != nil {
			res.fail("C05 goroutines=%d: %v", g, v)
		}
		res.Ops += g * per
		res.Scenarios++
	}
}

// ---------------------------------------------------------------- C14
func concC14(rng *rand.Rand, rounds int, res *concResult) {
	for it := 0; it < rounds; it++ {
		limit := 8 + rng.Intn(64)
		e := echo.New()
		e.Logger.SetOutput(io.Discard)
		e.Use(middleware.BodyLimit(fmt.Sprintf("%dB", limit)))
		e.POST("/", func(c echo.Context) error {
			b, err := io.ReadAll(c.Request().Body)
			if err != nil {
				return err
			}
			return c.Blob(http.StatusOK, "application/octet-stream", b)
		})
		g := 4 + rng.Intn(13)
		per := 20 + rng.Intn(40)
		var bad atomic.Value
		parallel(res, g, "C14", func(k int) {
			lr := rand.New(rand.NewSource(int64(it*1000 + k)))
			for j := 0; j < per; j++ {
				n := lr.Intn(2 * limit)
				body := bytes.Repeat([]byte{byte('a' + k%26)}, n)
				req := httptest.NewRequest("POST", "/", struct{ io.Reader }{bytes.NewReader(body)}) // unknown length: the reader path
				req.ContentLength = -1
				rec := httptest.NewRecorder()
				e.ServeHTTP(rec, req)
				switch {
				case n <= limit && (rec.Code != 200 || !bytes.Equal(rec.Body.Bytes(), body)):
					bad.Store(fmt.Sprintf("limit %d: a body of %d bytes came back as status %d with %d bytes (another request's bytes or count?)", limit, n, rec.Code, rec.Body.Len()))
				case n > limit && rec.Code != http.StatusRequestEntityTooLarge:
					bad.Store(fmt.Sprintf("limit %d: a body of %d bytes was answered %d", limit, n, rec.Code))
				}
			}
		})
		if v := bad.Load(); v != nil {
			res.fail("C14 goroutines=%d: %v", g, v)
		}
		res.Ops += g * per
		res.Scenarios++
	}
}

// ---------------------------------------------------------------- C15
func concC15(rng *rand.Rand, rounds int, res *concResult) {
	for it := 0; it < rounds; it++ {
		minLen := []int{0, 0, 64, 256}[rng.Intn(4)]
		e := echo.New()
		e.Logger.SetOutput(io.Discard)
		e.Use(middleware.GzipWithConfig(middleware.GzipConfig{MinLength: minLen}))
		e.GET("/", func(c echo.Context) error {
			var n, parts int
			fmt.Sscanf(c.QueryParam("n"), "%d", &n)
			fmt.Sscanf(c.QueryParam("parts"), "%d", &parts)
			body := bytes.Repeat([]byte(c.QueryParam("b")), n)
			c.Response().Header().Set(echo.HeaderContentType, "text/plain")
			for i := 0; i < parts; i++ {
				lo, hi := len(body)*i/parts, len(body)*(i+1)/parts
				if _, err := c.Response().Write(body[lo:hi]); err != nil {
					return err
				}
				if i%2 == 0 {
					c.Response().Flush()
				}
			}
			return nil
		})
		g := 4 + rng.Intn(13)
		per := 20 + rng.Intn(40)
		var bad atomic.Value
		parallel(res, g, "C15", func(k int) {
			lr := rand.New(rand.NewSource(int64(it*1000 + k)))
			for j := 0; j < per; j++ {
				n := lr.Intn(600)
				parts := 1 + lr.Intn(4)
				ch := string(rune('a' + k%26))
				req := httptest.NewRequest("GET", fmt.Sprintf("/?n=%d&parts=%d&b=%s", n, parts, ch), nil)
				req.Header.Set("Accept-Encoding", "gzip")
				rec := httptest.NewRecorder()
				e.ServeHTTP(rec, req)
				got := rec.Body.Bytes()
				if rec.Header().Get("Content-Encoding") == "gzip" {
					zr, err := gzip.NewReader(bytes.NewReader(got))
					if err != nil {
						bad.Store(fmt.Sprintf("n=%d parts=%d: response labelled gzip does not start a gzip stream: %v", n, parts, err))
						continue
					}
					got, err = io.ReadAll(zr)
					if err != nil {
						bad.Store(fmt.Sprintf("n=%d parts=%d: gzip stream is truncated or corrupt: %v", n, parts, err))
						continue
					}
				}
				if want := strings.Repeat(ch, n); string(got) != want {
					bad.Store(fmt.Sprintf("n=%d parts=%d byte %q: the client decodes %d bytes %.20q", n, parts, ch, len(got), got))
				}
			}
		})
		if v := bad.Load(); v != nil {
			res.fail("C15 minLength=%d goroutines=%d: %v", minLen, g, v)
		}
		res.Ops += g * per
		res.Scenarios++
	}
}

// ---------------------------------------------------------------- C20
// Reverse routing from many goroutines at once: every call must return the instance of ITS pattern with ITS values,
// and requesting that URL must reach that route with those values.
func concC20(rng *rand.Rand, rounds int, res *concResult) {
	for it := 0; it < rounds; it++ {
		e := echo.New()
		e.Logger.SetOutput(io.Discard)
		pats := []string{"/users/:id", "/a/:x/b/:y", "/files/*", "/v1/:kind/:name/actions", "/static/:a/*"}
		for i, p := range pats {
			p := p
			e.GET(p, func(c echo.Context) error {
				return c.String(http.StatusOK, p+"|"+strings.Join(c.ParamValues(), "|"))
			}).Name = fmt.Sprintf("r%d", i)
		}
		g := 4 + rng.Intn(13)
		per := 50 + rng.Intn(150)
		var bad atomic.Value
		parallel(res, g, "C20", func(k int) {
			for j := 0; j < per; j++ {
				i := (k + j) % len(pats)
				v1, v2 := fmt.Sprintf("g%dn%d", k, j), fmt.Sprintf("w%d-%d", j, k)
				want := strings.NewReplacer(":id", v1, ":x", v1, ":y", v2, ":kind", v1, ":name", v2, ":a", v1).Replace(pats[i])
				args := []interface{}{v1, v2}
				if strings.HasSuffix(pats[i], "*") {
					tail := v2
					if pats[i] == "/files/*" {
						tail = v1
					}
					want = strings.TrimSuffix(want, "*") + tail
				}
				n := strings.Count(pats[i], ":") + strings.Count(pats[i], "*")
				got := e.Reverse(fmt.Sprintf("r%d", i), args[:n]...)
				if got != want {
					bad.Store(fmt.Sprintf("Reverse(%s, %v) = %q while other goroutines reverse other routes; the pattern instance is %q", pats[i], args[:n], got, want))
					continue
				}
				rec := httptest.NewRecorder()
				e.ServeHTTP(rec, httptest.NewRequest("GET", got, nil))
				wantBody := pats[i] + "|" + strings.Join([]string{v1, v2}[:n], "|")
				if pats[i] == "/files/*" {
					wantBody = pats[i] + "|" + v1
				}
				if rec.Code != 200 || rec.Body.String() != wantBody {
					bad.Store(fmt.Sprintf("GET %s answered %d %q, expected the route %s with its values (%q)", got, rec.Code, rec.Body.String(), pats[i], wantBody))
				}
			}
		})
		if v := bad.Load(); v != nil {
			res.fail("C20 goroutines=%d: %v", g, v)
		}
		res.Ops += g * per
		res.Scenarios++
	}
}
