From Coq Require Import List ZArith.
From Echo Require Import Base.Sx Http.Response.
Import ListNotations.
Open Scope Z_scope.
(* input: (s0 (op ...)); ops: (0 c) WriteHeader, (1 k) Write, (2) Flush, (3 h) Before, (4 h) After,
   (5 c k) JSON, (6 c k) Blob/String/Stream, (7 c) NoContent, (8 c) Redirect
   output: ((status size committed wire_status|-1 wire_bytes header_writes) per step) (event log) *)
Definition dec_op (x : sx) : op :=
  let a := as_Z (nth_sx 1 x) in let b := as_Z (nth_sx 2 x) in
  match as_Z (nth_sx 0 x) with
  | 0 => WriteHeader a | 1 => Write a | 2 => Flush | 3 => Before (Z.to_nat a) | 4 => After (Z.to_nat a)
  | 5 => JSON a b | 6 => Blob a b | 7 => NoContent a | _ => Redirect a
  end.
Definition enc_state (r : resp) : sx :=
  SL [SZ (status r); SZ (size r); of_bool (committed r);
      SZ (match w_status (wr r) with Some s => s | None => -1 end);
      SZ (w_bytes (wr r)); of_nat (w_hdr_calls (wr r))].
Definition enc_ev (e : ev) : sx :=
  match e with
  | EvBefore h a b => SL [SZ 0; of_nat h; of_bool a; of_bool b]
  | EvHeader c => SL [SZ 1; SZ c]
  | EvBody k => SL [SZ 2; SZ k]
  | EvAfter h => SL [SZ 3; of_nat h]
  end.
Definition run_sx (x : sx) : sx :=
  let s0 := as_Z (nth_sx 0 x) in
  let ops := map dec_op (as_list (nth_sx 1 x)) in
  SL [SL (map enc_state (trace (resp_init s0) ops)); SL (map enc_ev (log (Response.run s0 ops)))].
