(* C19 — proxy: targets chosen among the balancer's current targets, cyclic rotation, bounded
   retries.  Statements only; proofs in Mw/ProxyProofs.v.  Each balancer operation is one atomic
   step (mutex); byte-faithful relaying is httputil.ReverseProxy's (see DESIGN: partial). *)
From Coq Require Import List Arith Bool.
From Echo Require Import Mw.Proxy Mw.ProxyProofs Mw.ProxyFair.
Import ListNotations.
From Echo Require Import PropLemmas.C19.

(* whatever the history left in the balancer, the index Next returns is within the current list
   (no index panic) and Next does not change the list *)
Theorem C19_in_range : forall T s last s' last' i, next T s last = (s', last', Some i) ->
  i < length (targets T s) /\ targets T s' = targets T s.
Proof. exact next_in_range. Qed.
Print Assumptions C19_in_range.

Theorem C19_member : forall T s last s' last' i, next T s last = (s', last', Some i) ->
  exists t, nth_error (targets T s) i = Some t /\ In t (targets T s).
Proof. exact next_member. Qed.
Print Assumptions C19_member.

(* Next yields nothing only for an empty balancer *)
Theorem C19_none_iff_empty : forall T s last s' last', next T s last = (s', last', None) <->
  targets T s = [] /\ s' = s /\ last' = last.
Proof. exact next_none_iff. Qed.
Print Assumptions C19_none_iff_empty.

(* an added target is a member; a removed one is gone (names are unique), others stay *)
Theorem C19_add_member : forall T eqb, (forall a b, eqb a b = true <-> a = b) ->
  forall s t, In t (targets T (fst (add T eqb s t))).
Proof. exact add_member. Qed.
Print Assumptions C19_add_member.

Theorem C19_remove_gone : forall T eqb, (forall a b, eqb a b = true <-> a = b) ->
  forall s t, NoDup (targets T s) -> ~ In t (targets T (fst (remove T eqb s t))).
Proof. exact remove_gone. Qed.
Print Assumptions C19_remove_gone.

Theorem C19_remove_keeps_others : forall T eqb, (forall a b, eqb a b = true <-> a = b) ->
  forall s t u, NoDup (targets T s) -> In u (targets T s) -> u <> t -> In u (targets T (fst (remove T eqb s t))).
Proof. exact remove_keeps_others. Qed.
Print Assumptions C19_remove_keeps_others.

Theorem C19_names_stay_unique : forall T eqb, (forall a b, eqb a b = true <-> a = b) ->
  forall s t, NoDup (targets T s) ->
  NoDup (targets T (fst (add T eqb s t))) /\ NoDup (targets T (fst (remove T eqb s t))).
Proof. exact C19_names_stay_unique_l. Qed.
Print Assumptions C19_names_stay_unique.

(* round-robin visits a fixed list of n >= 2 targets cyclically: the k first attempts pick
   idx, idx+1, ... modulo n *)
Theorem C19_cyclic : forall T k s n, length (targets T s) = n -> 2 <= n -> idx T s <= n ->
  firsts T s k = map (fun j => (idx T s + j) mod n) (seq 0 k).
Proof. exact firsts_cyclic. Qed.
Print Assumptions C19_cyclic.

(* fairness: after ANY number k of first attempts over a fixed list, per-target counts differ by at most one *)
Theorem C19_fair : forall T (s : st T) n k p q, length (targets T s) = n -> 2 <= n -> idx T s <= n -> p < n -> q < n ->
  count_occ Nat.eq_dec (firsts T s k) p <= count_occ Nat.eq_dec (firsts T s k) q + 1.
Proof. exact round_robin_fair. Qed.
Print Assumptions C19_fair.

(* retries: at most RetryCount+1 attempts, each at a current target; a relayed response comes
   from exactly one (alive) target after only failed attempts; 502 only if every attempt failed *)
Theorem C19_retry_bounds : forall T alive r s last s' is ok, attempt T r s last alive = (s', is, ok) ->
  length is <= S r /\ targets T s' = targets T s /\
  Forall (fun i => i < length (targets T s)) is /\
  (ok = true -> exists pre i t, is = pre ++ [i] /\ nth_error (targets T s) i = Some t /\ alive t = true /\
                 Forall (fun j => exists u, nth_error (targets T s) j = Some u /\ alive u = false) pre) /\
  (ok = false -> Forall (fun j => exists u, nth_error (targets T s) j = Some u /\ alive u = false) is).
Proof. exact attempt_bounds. Qed.
Print Assumptions C19_retry_bounds.

(* round-robin: on the next target - every retry goes to the successor (cyclically) of the target that just
   failed, never to the same one again *)
Theorem C19_retry_next : forall T alive r s last s' is ok, 2 <= length (targets T s) ->
  attempt T r s last alive = (s', is, ok) -> steps_ok (length (targets T s)) is.
Proof. exact attempt_steps. Qed.
Print Assumptions C19_retry_next.

From Coq Require Import String ZArith.
From Echo Require Import Base.GoLite Gen.Src_proxy Mw.ProxySrc.

(* ---- the tie to the source by proof: roundRobinBalancer.Next, translated statement by statement from
   middleware/proxy.go on every run (Gen/Src_proxy.v; language Base/GoLite.v), computes the model's [next]: the same
   chosen index (or nil), the same global index afterwards, and the per-request index is recorded exactly when there
   are two or more targets *)
Theorem C19_source_next : forall (sym : string -> Z), sym "nil" = (-1)%Z -> forall T (s : st T) last,
  let n := List.length (targets T s) in
  let '(st1, ret) := GoLite.run sym src_rr_next_results src_rr_next (rr_state n (idx T s) last) in
  let '(s', last', o) := next T s last in
  ret = [enc o] /\
  GoLite.get (fields st1) "b.i" = Z.of_nat (idx T s') /\
  events st1 = (if 2 <=? n then [("c.Set", [sym "lastIdxKey"; enc o])] else [])%nat.
Proof. exact src_rr_next_is_next. Qed.
Print Assumptions C19_source_next.


(* ---- commonBalancer.AddTarget itself, from its statement-level translation (Gen/Src_addtarget.v, re-translated from
   middleware/proxy.go on every run): for every target list and new target, refused exactly when one of that NAME is there -
   whatever its URL -, otherwise appended at the end and nothing else changed: the model's [add] *)
From Coq Require Import ZArith String.
From Echo Require Import Base.Sx Base.GoLoop Gen.Src_addtarget Mw.AddTargetSrc.
Theorem C19_source_add_target : forall (l : list (str * Z)) (t : str * Z),
  let st := {| GoLoop.locals := [("target"%string, tv t); ("t"%string, VZ 0%Z)]; GoLoop.fields := [("b.targets"%string, VL (map tv l))];
               GoLoop.lists := [("b.targets"%string, map tv l)]; GoLoop.events := []; GoLoop.inputs := [] |} in
  let '(st', ret) := GoLoop.run tsym tpred src_add_target_results src_add_target st in
  if existsb (same_name t) l
  then ret = [VZ 0%Z] /\ GoLoop.get (GoLoop.fields st') "b.targets" = VL (map tv l)
  else ret = [VZ 1%Z] /\ GoLoop.get (GoLoop.fields st') "b.targets" = VL (map tv (l ++ [t])).
Proof. exact AddTargetSrc.C19_source_add_target. Qed.
Print Assumptions C19_source_add_target.

(* RemoveTarget, from the same re-translated file: the FIRST target of that name is cut out, all others keep their place and
   order ([rm] - the model's [remove1] read on names); false and nothing changed when there is none *)
Theorem C19_source_remove_target : forall (l : list (str * Z)) (n : str),
  let st := {| GoLoop.locals := [("name"%string, VS n); ("i"%string, VZ 0%Z); ("t"%string, VZ 0%Z)]; GoLoop.fields := [("b.targets"%string, VL (map tv l))];
               GoLoop.lists := []; GoLoop.events := []; GoLoop.inputs := [] |} in
  let '(st', ret) := GoLoop.run tsym tpred src_remove_target_results src_remove_target st in
  match rm n l with
  | Some r => ret = [VZ 1%Z] /\ GoLoop.get (GoLoop.fields st') "b.targets" = VL (map tv r)
  | None => ret = [VZ 0%Z] /\ GoLoop.get (GoLoop.fields st') "b.targets" = VL (map tv l)
  end.
Proof. exact AddTargetSrc.C19_source_remove_target. Qed.
Print Assumptions C19_source_remove_target.
