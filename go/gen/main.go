// Command gen is the translator for table-shaped code: it reads labstack/echo's current
// source with go/ast and writes Gallina definitions (coq/theories/Gen/Src_*.v).  It
// understands a deliberately tiny subset and fails loudly (per output file, in report.json)
// when the source no longer has the expected shape.
package main

import (
	"encoding/json"
	"flag"
	"fmt"
	"go/ast"
	"go/parser"
	"go/token"
	"os"
	"path/filepath"
	"strings"
)

type genFn func(repo string) (string, error)

var gens = map[string]genFn{}

var fset = token.NewFileSet()

func parseFile(repo, rel string) (*ast.File, error) {
	return parser.ParseFile(fset, filepath.Join(repo, rel), nil, 0)
}

func findFunc(f *ast.File, recv, name string) *ast.FuncDecl {
	for _, d := range f.Decls {
		fd, ok := d.(*ast.FuncDecl)
		if !ok || fd.Name.Name != name {
			continue
		}
		r := ""
		if fd.Recv != nil && len(fd.Recv.List) == 1 {
			r = lit(fd.Recv.List[0].Type)
		}
		if r == recv {
			return fd
		}
	}
	return nil
}

func lit(e ast.Expr) string {
	switch v := e.(type) {
	case *ast.BasicLit:
		return v.Value
	case *ast.Ident:
		return v.Name
	case *ast.SelectorExpr:
		return lit(v.X) + "." + v.Sel.Name
	case *ast.StarExpr:
		return "*" + lit(v.X)
	case *ast.ArrayType:
		return "[]" + lit(v.Elt)
	case *ast.CallExpr:
		args := make([]string, len(v.Args))
		for i, a := range v.Args {
			args[i] = lit(a)
		}
		return lit(v.Fun) + "(" + strings.Join(args, ",") + ")"
	case *ast.SliceExpr:
		lo, hi := "", ""
		if v.Low != nil {
			lo = lit(v.Low)
		}
		if v.High != nil {
			hi = lit(v.High)
		}
		return lit(v.X) + "[" + lo + ":" + hi + "]"
	case *ast.IndexExpr:
		return lit(v.X) + "[" + lit(v.Index) + "]"
	case *ast.TypeAssertExpr:
		return lit(v.X) + ".(" + lit(v.Type) + ")"
	case *ast.ParenExpr:
		return "(" + lit(v.X) + ")"

	case *ast.BinaryExpr:
		return lit(v.X) + v.Op.String() + lit(v.Y)
	case *ast.UnaryExpr:
		return v.Op.String() + lit(v.X)
	case *ast.CompositeLit:
		elts := make([]string, len(v.Elts))
		for i, a := range v.Elts {
			elts[i] = lit(a)
		}
		t := ""
		if v.Type != nil {
			t = lit(v.Type)
		}
		return t + "{" + strings.Join(elts, ",") + "}"
	case *ast.KeyValueExpr:
		return lit(v.Key) + ":" + lit(v.Value)
	}
	return fmt.Sprintf("<%T>", e)
}

// cmpZ renders a Go comparison `a OP b` as a Gallina boolean over Z.
func cmpZ(op token.Token, a, b string) (string, error) {
	switch op {
	case token.GTR:
		return fmt.Sprintf("(%s <? %s)", b, a), nil
	case token.GEQ:
		return fmt.Sprintf("(%s <=? %s)", b, a), nil
	case token.LSS:
		return fmt.Sprintf("(%s <? %s)", a, b), nil
	case token.LEQ:
		return fmt.Sprintf("(%s <=? %s)", a, b), nil
	case token.EQL:
		return fmt.Sprintf("(%s =? %s)", a, b), nil
	case token.NEQ:
		return fmt.Sprintf("(negb (%s =? %s))", a, b), nil
	}
	return "", fmt.Errorf("unsupported comparison operator %s", op)
}

func main() {
	repo := flag.String("repo", "/repo", "echo source tree")
	out := flag.String("out", "", "output directory")
	flag.Parse()
	os.MkdirAll(*out, 0o755)
	report := map[string]string{}
	for name, g := range gens {
		txt, err := func() (s string, err error) {
			defer func() {
				if r := recover(); r != nil {
					err = fmt.Errorf("translator panic: %v", r)
				}
			}()
			return g(*repo)
		}()
		if err != nil {
			report[name] = err.Error()
			continue
		}
		report[name] = ""
		if err := os.WriteFile(filepath.Join(*out, name), []byte(txt), 0o644); err != nil {
			report[name] = err.Error()
		}
	}
	rj, _ := json.MarshalIndent(report, "", " ")
	os.WriteFile(filepath.Join(*out, "report.json"), rj, 0o644)
}
