From Coq Require Extraction.
From Coq Require Import ExtrOcamlBasic.
From Echo Require Import Glue.G07.
Extraction "extracted/m07.ml" G07.run_sx.
