From Coq Require Extraction.
From Coq Require Import ExtrOcamlBasic.
From Echo Require Import Glue.G05.
Extraction "extracted/m05.ml" G05.run_sx.
