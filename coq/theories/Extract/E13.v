From Coq Require Extraction.
From Coq Require Import ExtrOcamlBasic.
From Echo Require Import Glue.G13.
Extraction "extracted/m13.ml" G13.run_sx.
