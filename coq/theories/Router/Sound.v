From Coq Require Import List Arith Bool Ascii String Lia Permutation.
Import ListNotations.
From Echo.Router Require Import Spec2.
Open Scope char_scope.

(* ---------- C01 on the specification: a found route is an instance of the path ---------- *)
Fixpoint subst (ts : list tok) (vals : list str) : option str :=
  match ts with
  | [] => match vals with [] => Some [] | _ => None end
  | TLit c :: r => option_map (cons c) (subst r vals)
  | _ :: r => match vals with v :: vs => option_map (app v) (subst r vs) | [] => None end
  end.

Lemma subst_snoc_lit : forall pre vals c x, subst pre vals = Some c -> subst (pre ++ [TLit x]) vals = Some (c ++ [x]).
Proof.
  induction pre as [|t pre IH]; intros vals c x H.
  - destruct vals; simpl in H; inversion H; subst. reflexivity.
  - destruct t; simpl in *.
    + destruct (subst pre vals) as [l|] eqn:E; simpl in H; inversion H; subst. rewrite (IH vals l x E). reflexivity.
    + destruct vals as [|v vs]; [discriminate|]. destruct (subst pre vs) as [l|] eqn:E; simpl in H; inversion H; subst.
      rewrite (IH vs l x E). simpl. rewrite app_assoc. reflexivity.
    + destruct vals as [|v vs]; [discriminate|]. destruct (subst pre vs) as [l|] eqn:E; simpl in H; inversion H; subst.
      rewrite (IH vs l x E). simpl. rewrite app_assoc. reflexivity.
Qed.

Lemma subst_snoc_val : forall pre vals c t v, t <> TLit "a" -> (forall x, t <> TLit x) ->
  subst pre vals = Some c -> subst (pre ++ [t]) (vals ++ [v]) = Some (c ++ v).
Proof.
  induction pre as [|t0 pre IH]; intros vals c t v _ Ht H.
  - destruct vals; simpl in H; inversion H; subst. destruct t; simpl; [exfalso; eapply Ht; reflexivity| |]; rewrite app_nil_r; reflexivity.
  - destruct t0; simpl in *.
    + destruct (subst pre vals) as [l|] eqn:E; simpl in H; inversion H; subst. rewrite (IH vals l t v) by auto. reflexivity.
    + destruct vals as [|v0 vs]; [discriminate|]. destruct (subst pre vs) as [l|] eqn:E; simpl in H; inversion H; subst.
      simpl. rewrite (IH vs l t v) by auto. simpl. rewrite app_assoc. reflexivity.
    + destruct vals as [|v0 vs]; [discriminate|]. destruct (subst pre vs) as [l|] eqn:E; simpl in H; inversion H; subst.
      simpl. rewrite (IH vs l t v) by auto. simpl. rewrite app_assoc. reflexivity.
Qed.

Lemma take_drop_seg p : take_seg p ++ drop_seg p = p.
Proof. induction p as [|c p IH]; simpl; [reflexivity|]. destruct (Ascii.eqb c "/"); simpl; [reflexivity|]. rewrite IH. reflexivity. Qed.

Lemma take_seg_noslash p : ~ In "/" (take_seg p).
Proof. induction p as [|c p IH]; simpl; [tauto|]. destruct (Ascii.eqb c "/") eqn:E; simpl; [tauto|].
  intros [H|H]; [subst; rewrite Ascii.eqb_refl in E; discriminate|auto]. Qed.

Lemma in_terminals pre ls r : live_ok pre ls -> In r (terminals ls) -> r_toks r = pre.
Proof. unfold terminals, live_ok. intros Hok Hin. apply in_map_iff in Hin. destruct Hin as [x [<- Hx]].
  apply filter_In in Hx. destruct Hx as [Hx Ht]. rewrite Forall_forall in Hok. rewrite (Hok x Hx).
  unfold is_term in Ht. destruct (snd x); [apply app_nil_r|discriminate]. Qed.

Lemma find_m_in' rs m r : find_m rs m = Some r -> In r rs.
Proof. intros H. apply find_m_in in H. tauto. Qed.

Theorem search_sound : forall f m pre ls p vals best r v consumed,
  live_ok pre ls -> any_last ls -> subst pre vals = Some consumed ->
  search f m pre ls p vals best = Found r v ->
  subst (r_toks r) v = Some (consumed ++ p).
Proof.
  induction f as [|f IH]; intros m pre ls p vals best r v consumed Hok Hal Hs H; [discriminate|].
  cbn [search] in H.
  (* end check *)
  destruct (end_check m pre (terminals ls) p vals best) as [r0 v0|b0] eqn:E0; cbn [orelse] in H.
  { inversion H; subst. unfold end_check in E0. destruct p; [|discriminate].
    rewrite app_nil_r.
    assert (Hin : In r (terminals ls)).
    { destruct (is_handler (terminals ls)).
      - destruct (find_m (terminals ls) m) eqn:Ef; inversion E0; subst. eapply find_m_in'; eauto.
      - destruct (find_m (terminals ls) NF) eqn:Ef; inversion E0; subst. eapply find_m_in'; eauto. }
    assert (v = vals).
    { destruct (is_handler (terminals ls)).
      - destruct (find_m (terminals ls) m); inversion E0; reflexivity.
      - destruct (find_m (terminals ls) NF); inversion E0; reflexivity. }
    subst v. rewrite (in_terminals pre ls r Hok Hin). exact Hs. }
  (* static *)
  match type of H with orelse ?X _ = _ => destruct X as [r1 v1|b1] eqn:E1 end; cbn [orelse] in H.
  { inversion H; subst. destruct p as [|c p']; [discriminate|]. cbn zeta in E1.
    destruct (nonempty (advance (TLit c) ls)); [|discriminate].
    pose proof (IH m (pre ++ [TLit c]) (advance (TLit c) ls) p' vals b0 r v (consumed ++ [c])
                   (advance_ok _ _ _ Hok) (advance_any_last _ _ Hal) (subst_snoc_lit _ _ _ c Hs) E1) as HH.
    rewrite <- app_assoc in HH. exact HH. }
  (* param *)
  match type of H with orelse ?X _ = _ => destruct X as [r2 v2|b2] eqn:E2 end; cbn [orelse] in H.
  { inversion H; subst. destruct p as [|c p']; [discriminate|]. cbn zeta in E2.
    destruct (nonempty (advance TParam ls)); [|discriminate].
    set (leaf := forallb is_term (advance TParam ls)) in *.
    pose proof (IH m (pre ++ [TParam]) (advance TParam ls) (if leaf then [] else drop_seg (c :: p'))
                   (vals ++ [if leaf then c :: p' else take_seg (c :: p')]) b1 r v
                   (consumed ++ (if leaf then c :: p' else take_seg (c :: p')))
                   (advance_ok _ _ _ Hok) (advance_any_last _ _ Hal)
                   (subst_snoc_val pre vals consumed TParam _ ltac:(discriminate) ltac:(discriminate) Hs) E2) as HH.
    rewrite <- app_assoc in HH. destruct leaf; [rewrite app_nil_r in HH; exact HH|]. rewrite take_drop_seg in HH. exact HH. }
  (* any *)
  unfold any_step in H. destruct (nonempty (advance TAny ls)); [|discriminate]. cbn zeta in H.
  assert (Hterm : forall r', In r' (map fst (advance TAny ls)) -> r_toks r' = pre ++ [TAny]).
  { intros r' Hin. apply in_map_iff in Hin. destruct Hin as [x [<- Hx]].
    pose proof (advance_ok TAny pre ls Hok) as Hok'. unfold live_ok in Hok'. rewrite Forall_forall in Hok'.
    rewrite (Hok' x Hx), (advance_any_nil ls Hal x Hx). apply app_nil_r. }
  destruct (find_m (map fst (advance TAny ls)) m) eqn:Ef.
  - inversion H; subst. rewrite (Hterm r (find_m_in' _ _ _ Ef)).
    apply subst_snoc_val; auto; discriminate.
  - destruct (find_m (map fst (advance TAny ls)) NF) eqn:Ef2; [|discriminate].
    inversion H; subst. rewrite (Hterm r (find_m_in' _ _ _ Ef2)).
    apply subst_snoc_val; auto; discriminate.
Qed.
Print Assumptions search_sound.

(* top level: a route found for path p rebuilds p from its pattern and the observed values *)
Corollary spec_sound f m ls p r v :
  live_ok [] ls -> any_last ls -> search f m [] ls p [] None = Found r v -> subst (r_toks r) v = Some p.
Proof. intros. eapply (search_sound f m [] ls p [] None r v []); eauto. Qed.
