From Coq Require Import List Bool Ascii String Arith Lia.
From Echo Require Import Base.Sx Net.Xff Mw.CorsProofs Mw.PathClean.
Import ListNotations.
Open Scope char_scope.

Definition plain (x : str) : Prop := bad_elem x = false.

Lemma plain_not_trivial x : plain x -> trivial_seg x = false /\ str_eqb x dotdot = false.
Proof. unfold plain, bad_elem, trivial_seg. intro H. apply orb_false_iff in H as [H H3]. apply orb_false_iff in H as [H1 H2].
  rewrite H1, H2. auto. Qed.

(* rooted cleaning: the stack only ever holds plain elements: never "", "." or ".." *)
Lemma rooted_step_plain stack x : Forall plain stack -> Forall plain (step_seg true stack x).
Proof.
  intro H. unfold step_seg. destruct (trivial_seg x) eqn:Et; [exact H|].
  destruct (str_eqb x dotdot) eqn:Ed.
  - destruct stack as [|top r]; [constructor|]. inversion H as [|? ? Ht Hr]; subst.
    destruct (plain_not_trivial top Ht) as [_ E]. rewrite E. exact Hr.
  - constructor; [|exact H]. unfold plain, bad_elem. unfold trivial_seg in Et. rewrite Et, Ed. reflexivity.
Qed.

Lemma rooted_fold_plain : forall xs stack, Forall plain stack -> Forall plain (fold_left (step_seg true) xs stack).
Proof. induction xs as [|x r IH]; intros stack H; [exact H|]. apply IH. apply rooted_step_plain. exact H. Qed.

Theorem clean_rooted_elems xs : Forall plain (clean_elems true xs).
Proof. unfold clean_elems. apply Forall_rev. apply rooted_fold_plain. constructor. Qed.

(* pushing plain elements: they simply pile up *)
Lemma fold_plain_push rooted : forall ys stack, Forall plain ys ->
  fold_left (step_seg rooted) ys stack = rev ys ++ stack.
Proof.
  induction ys as [|y r IH]; intros stack H; [reflexivity|]. inversion H as [|? ? Hy Hr]; subst.
  cbn [fold_left]. unfold step_seg at 2. destruct (plain_not_trivial y Hy) as [E1 E2]. rewrite E1, E2.
  rewrite (IH _ Hr). cbn [rev]. rewrite <- app_assoc. reflexivity.
Qed.

Lemma fold_app {A B} (f : A -> B -> A) l1 l2 a : fold_left f (l1 ++ l2) a = fold_left f l2 (fold_left f l1 a).
Proof. apply fold_left_app. Qed.

(* joining a plain root with a plain rooted tail: root's elements stay in front *)
Theorem join_plain_elems rooted (root tail : list str) : Forall plain root -> Forall plain tail ->
  clean_elems rooted (root ++ [] :: tail) = root ++ tail.
Proof.
  intros Hr Ht. unfold clean_elems. rewrite fold_app, (fold_plain_push rooted root [] Hr). cbn [fold_left].
  unfold step_seg at 2. cbn [trivial_seg str_eqb orb]. rewrite (fold_plain_push rooted tail _ Ht).
  rewrite app_nil_r, rev_app_distr, !rev_involutive. reflexivity.
Qed.

(* ---------- split / join *)
Definition no_slash (x : str) : Prop := forallb (fun c => negb (Ascii.eqb c slash)) x = true.

Lemma split_on_pass : forall x s acc, no_slash x -> split_on slash (x ++ s) acc = split_on slash s (rev x ++ acc).
Proof.
  induction x as [|c x IH]; intros s acc H; [reflexivity|]. unfold no_slash in H. simpl in H.
  apply andb_true_iff in H as [Hc Hx]. apply negb_true_iff in Hc. cbn [app split_on]. rewrite Hc.
  rewrite (IH s (c :: acc) Hx). cbn [rev]. rewrite <- app_assoc. reflexivity.
Qed.

Lemma split_join : forall l, l <> [] -> Forall no_slash l -> segs (join slash l) = l.
Proof.
  unfold segs. induction l as [|x l IH]; intros Hne Hf; [congruence|]. inversion Hf as [|? ? Hx Hl]; subst.
  destruct l as [|y l'].
  - simpl. rewrite <- (app_nil_r x) at 1. rewrite (split_on_pass x [] [] Hx). simpl. rewrite app_nil_r, rev_involutive. reflexivity.
  - rewrite join_cons. rewrite (split_on_pass x _ [] Hx). cbn [split_on]. rewrite Ascii.eqb_refl.
    rewrite app_nil_r, rev_involutive. f_equal. apply IH; [discriminate|exact Hl].
Qed.

(* elements produced by splitting never contain a slash *)
Lemma split_on_no_slash : forall s acc, no_slash (rev acc) -> Forall no_slash (split_on slash s acc).
Proof.
  induction s as [|c r IH]; intros acc H; simpl.
  - constructor; [exact H|constructor].
  - destruct (Ascii.eqb c slash) eqn:E.
    + constructor; [exact H|]. apply IH. reflexivity.
    + apply IH. cbn [rev]. unfold no_slash in *. rewrite forallb_app, H. simpl. rewrite E. reflexivity.
Qed.

Lemma clean_elems_no_slash rooted xs : Forall no_slash xs -> Forall no_slash (clean_elems rooted xs).
Proof.
  intro H. unfold clean_elems. apply Forall_rev.
  assert (G : forall ys stack, Forall no_slash ys -> Forall no_slash stack -> Forall no_slash (fold_left (step_seg rooted) ys stack)).
  { induction ys as [|y r IH]; intros stack Hy Hs; [exact Hs|]. inversion Hy; subst. apply IH; [assumption|].
    unfold step_seg. destruct (trivial_seg y); [exact Hs|]. destruct (str_eqb y dotdot).
    - destruct stack as [|top r']; [destruct rooted; [constructor|constructor; [assumption|constructor]]|].
      inversion Hs; subst. destruct (str_eqb top dotdot); [constructor; assumption|assumption].
    - constructor; assumption. }
  apply G; [exact H|constructor].
Qed.

(* the elements of a cleaned rooted path, read back from the string *)
Theorem clean_rooted_string p :
  let c := clean (slash :: p) in
  exists es, c = slash :: join slash es /\ Forall plain es /\ Forall no_slash es /\
             es = clean_elems true (segs (slash :: p)).
Proof.
  cbv zeta. unfold clean. cbn [is_rooted]. rewrite Ascii.eqb_refl. unfold render.
  exists (clean_elems true (segs (slash :: p))). split; [reflexivity|]. split; [apply clean_rooted_elems|].
  split; [|reflexivity]. apply clean_elems_no_slash. unfold segs. apply split_on_no_slash. reflexivity.
Qed.

Lemma split_app : forall a acc b, split_on slash (a ++ slash :: b) acc = split_on slash a acc ++ split_on slash b [].
Proof.
  induction a as [|c a IH]; intros acc b.
  - cbn [app split_on]. rewrite Ascii.eqb_refl. reflexivity.
  - cbn [app split_on]. destruct (Ascii.eqb c slash); [rewrite IH; reflexivity|apply IH].
Qed.

Lemma plain_nonempty x : plain x -> x <> [].
Proof. intros H E. subst. discriminate. Qed.

Lemma join_head_not_slash es : es <> [] -> Forall plain es -> Forall no_slash es -> is_rooted (join slash es) = false.
Proof.
  intros Hne Hp Hn. destruct es as [|x r]; [congruence|]. inversion Hp as [|? ? Hx _]; inversion Hn as [|? ? Hnx _]; subst.
  destruct x as [|c x]; [exfalso; exact (plain_nonempty [] Hx eq_refl)|].
  unfold no_slash in Hnx. simpl in Hnx. apply andb_true_iff in Hnx as [Hc _]. apply negb_true_iff in Hc.
  destruct r; simpl; exact Hc.
Qed.

Lemma is_rooted_app a b : a <> [] -> is_rooted (a ++ b) = is_rooted a.
Proof. destruct a; [congruence|reflexivity]. Qed.

Lemma join_nonempty es : es <> [] -> Forall plain es -> join slash es <> [].
Proof. intros Hne Hp. destruct es as [|x r]; [congruence|]. inversion Hp as [|? ? Hx _]; subst.
  destruct x as [|c x]; [exfalso; exact (plain_nonempty [] Hx eq_refl)|]. destruct r; discriminate. Qed.

Lemma clean_nonempty p : p <> [] -> clean p = render (is_rooted p) (clean_elems (is_rooted p) (segs p)).
Proof. destruct p; [congruence|reflexivity]. Qed.

(* ---------- the Static middleware never leaves its root (lexically): the name handed to the file
   system consists of the root's elements followed by plain elements only *)
Theorem mw_contained root_elems p : root_elems <> [] -> Forall plain root_elems -> Forall no_slash root_elems ->
  let root := join slash root_elems in
  exists tail, mw_name root p = join slash (root_elems ++ tail) /\ Forall plain tail /\
               segs (mw_name root p) = root_elems ++ tail.
Proof.
  intros Hne Hp Hn. cbv zeta.
  destruct (clean_rooted_string p) as [es [Ec [Hpe [Hne' _]]]].
  exists es. unfold mw_name. rewrite Ec. unfold join2.
  set (root := join slash root_elems).
  assert (Hroot_seg : segs root = root_elems) by (apply split_join; assumption).
  assert (Hroot_ne : root <> []) by (apply join_nonempty; assumption).
  assert (Hnr : is_rooted (root ++ slash :: slash :: join slash es) = false).
  { rewrite is_rooted_app by exact Hroot_ne. apply join_head_not_slash; assumption. }
  assert (Hcl : clean (root ++ slash :: slash :: join slash es) = join slash (root_elems ++ es)).
  { rewrite clean_nonempty by (destruct root; [congruence|discriminate]).
    rewrite Hnr. unfold segs. rewrite split_app. fold (segs root). rewrite Hroot_seg.
    cbn [split_on]. rewrite Ascii.eqb_refl. cbn [rev].
    assert (Hce : clean_elems false (root_elems ++ [] :: split_on slash (join slash es) []) = root_elems ++ es).
    { destruct es as [|e0 er].
      - cbn [join split_on rev]. unfold clean_elems. rewrite fold_app, (fold_plain_push false root_elems [] Hp).
        cbn [fold_left]. unfold step_seg. cbn [trivial_seg str_eqb orb]. rewrite !app_nil_r, rev_involutive. reflexivity.
      - fold (segs (join slash (e0 :: er))). rewrite split_join by (auto; discriminate).
        apply join_plain_elems; assumption. }
    rewrite Hce. unfold render. destruct (root_elems ++ es) eqn:E1; [destruct root_elems; [congruence|discriminate]|reflexivity]. }
  rewrite Hcl. split; [reflexivity|]. split; [exact Hpe|].
  apply split_join; [destruct root_elems; [congruence|discriminate]|apply Forall_app; split; assumption].
Qed.

(* StaticDirectoryHandler: a name reaches the file system only if it is "." or made of plain elements;
   everything else (any "..", leading "/", empty element) is answered 404 *)
Theorem route_contained p name : route_served p = Some name ->
  name = dot \/ Forall plain (segs name).
Proof.
  unfold route_served, route_name. destruct (valid_path (clean (trim_slash p))) eqn:E; [|discriminate]. intro H; inversion H; subst.
  unfold valid_path in E. apply orb_true_iff in E as [E|E]; [left; apply str_eqb_eq; exact E|right].
  apply negb_true_iff in E. apply Forall_forall. intros x Hx. unfold plain.
  destruct (bad_elem x) eqn:Eb; [|reflexivity]. exfalso.
  assert (existsb bad_elem (segs (clean (trim_slash p))) = true) by (apply existsb_exists; exists x; auto). congruence.
Qed.
