(* C15 — Gzip is transparent to handler and client.  Statements only; proofs in Mw/GzipProofs.v.
   The gzip codec is abstract: a stream decodes to exactly the bytes fed to it iff it was closed
   (DEFLATE itself is compress/gzip's).  Requests with Accept-Encoding lacking gzip bypass the writer.
   Decompress (request side) and real concurrency are checked differentially only (partial). *)
From Coq Require Import List Arith Bool.
From Echo Require Import Mw.Gzip Mw.GzipProofs.
Import ListNotations.
From Echo Require Import PropLemmas.C15.

(* for every handler program over {WriteHeader, Write chunk, Flush}, every MinLength, every content of
   the recycled buffer and whether or not the handler had set a Content-Length: a client undoing the
   advertised Content-Encoding recovers exactly the bytes written, with the status the handler chose;
   Content-Encoding: gzip is present exactly when the body is a gzip stream; no Content-Length survives
   next to it; every Write reports the length of its chunk *)
Theorem C15_roundtrip : forall minlen pooled cl ops,
  let '(w, ns) := request minlen pooled cl ops in
  decode w = Some (payload ops) /\ w_status w = chosen_status ops /\
  (w_ce w = true <-> w_gz_open w = true) /\ (w_ce w = true -> w_cl w = false) /\
  ns = map op_count ops.
Proof. exact roundtrip. Qed.
Print Assumptions C15_roundtrip.

(* recycled buffers never leak bytes between requests *)
Theorem C15_pool_clean : forall minlen p1 p2 cl ops, request minlen p1 cl ops = request minlen p2 cl ops.
Proof. exact pool_clean. Qed.
Print Assumptions C15_pool_clean.

(* body-less responses stay empty (as decoded) *)
Theorem C15_bodyless_empty : forall minlen pooled cl ops, payload ops = [] ->
  decode (fst (request minlen pooled cl ops)) = Some [].
Proof. exact C15_bodyless_empty_l. Qed.
Print Assumptions C15_bodyless_empty.

(* non-vacuity: threshold crossed by the second chunk, flush before any body, header only *)
Example C15_example :
  decode (fst (request 5 [9;9] true [WriteHeader 201; Write [1;2;3]; Write [4;5;6]; Flush; Write [7]])) = Some [1;2;3;4;5;6;7] /\
  snd (request 5 [] false [Write [1;2;3]; Write [4;5;6]]) = [3; 3] /\
  w_ce (fst (request 5 [] false [Flush])) = true /\ w_ce (fst (request 5 [] false [WriteHeader 204])) = false /\
  w_ce (fst (request 5 [] false [Write [1]])) = false.
Proof. vm_compute. repeat split. Qed.

(* Decompress: bodies that are not labelled gzip reach the handler untouched, whatever they contain (also bytes that
   happen to look like a gzip stream); a labelled body is what the gzip reader makes of it *)
Theorem C15_decompress_untouched : forall sent gunzip, decompress false sent gunzip = Some sent.
Proof. exact decompress_untouched. Qed.
Print Assumptions C15_decompress_untouched.

Theorem C15_decompress_gzip : forall sent gunzip, sent <> [] -> decompress true sent gunzip = gunzip sent.
Proof. exact decompress_gzip. Qed.
Print Assumptions C15_decompress_gzip.


(* ---- tie to the source by proof: the bodies of gzipResponseWriter.WriteHeader / Write / Flush and of the deferred
   finaliser of the Gzip handler, translated statement by statement from middleware/compress.go on every run
   (Gen/Src_gzip.v, language Base/GoLite.v), REFINE the model the theorems above are about: run on the cells of any model
   state g (cz = the integer in the cell w.code), and with the events they emit (header changes, status line, writes to the
   gzip stream and to the wire) replayed on g, they give exactly g_write_header / g_write / g_flush / finish. *)
From Coq Require Import String ZArith.
From Echo Require Import Base.GoLite Gen.Src_gzip Mw.GzipSrc.

Theorem C15_source_writeheader : forall minlen g cz0 cz ctype,
  code g = Z.to_nat cz0 ->
  let st := {| locals := [("code"%string, cz)]; fields := cells "w" minlen g cz0 [] ctype; events := []; inputs := [] |} in
  let '(st', _) := GoLite.run gsym src_gzip_writeheader_results src_gzip_writeheader st in
  after "w" [] g st' = g_write_header g (Z.to_nat cz).
Proof. exact src_gzip_writeheader_refines. Qed.
Print Assumptions C15_source_writeheader.

(* the chunk b is passed on as an opaque value; bytes.Buffer.Write takes all of it, the gzip stream reports no error *)
Theorem C15_source_write : forall minlen g cz b ctype,
  code g = Z.to_nat cz ->
  let st := {| locals := [("b"%string, 7%Z)]; fields := cells "w" minlen g cz b ctype; events := [];
               inputs := [[zn (List.length b); 0%Z]; [0%Z; 0%Z]] |} in
  let '(st', ret) := GoLite.run gsym src_gzip_write_results src_gzip_write st in
  after "w" b g st' = fst (g_write minlen g b) /\
  (exceeded g = false -> ret = [zn (List.length b); 0%Z]).
Proof. exact src_gzip_write_refines. Qed.
Print Assumptions C15_source_write.

Theorem C15_source_flush : forall minlen g cz ctype,
  code g = Z.to_nat cz ->
  let st := {| locals := []; fields := cells "w" minlen g cz [] ctype; events := []; inputs := [[0%Z; 0%Z]; [0%Z]] |} in
  let '(st', _) := GoLite.run gsym src_gzip_flush_results src_gzip_flush st in
  after "w" [] g st' = g_flush g.
Proof. exact src_gzip_flush_refines. Qed.
Print Assumptions C15_source_flush.

(* the finaliser: what is on the wire afterwards is the model's [finish]; the stream is closed before buffer and writer go
   back to their pools *)
Theorem C15_source_finish : forall minlen g cz ctype,
  code g = Z.to_nat cz ->
  let st := {| locals := []; fields := cells "grw" minlen g cz [] ctype; events := []; inputs := [] |} in
  let '(st', _) := GoLite.run gsym src_gzip_finish_results src_gzip_finish st in
  out (fst (fold_left apply_fin (events st') (g, false))) = finish g /\
  map fst (skipn (List.length (events st') - 3) (events st')) = ["w.Close"; "bpool.Put"; "pool.Put"]%string.
Proof. exact src_gzip_finish_refines. Qed.
Print Assumptions C15_source_finish.

(* ---- the Decompress request handler, from its statement-level translation (Gen/Src_decompress.v, re-translated from
   middleware/decompress.go on every run): only Content-Encoding EXACTLY gzip gets another body; the body is replaced by the
   pooled reader only after Reset accepted the original; an empty body (io.EOF) is handed on untouched, any other Reset error is
   returned without running next; the reader returns to the pool whenever it was taken, is closed only after a successful Reset,
   and nothing else is called on it *)
From Coq Require Import ZArith String.
From Echo Require Import Base.GoLite Gen.Src_decompress Mw.DecompressSrc.
Theorem C15_source_decompress_handler : forall sym, sym "nil"%string = 0%Z -> sym "io.EOF"%string <> 0%Z -> forall skip ce pooled gr ok err,
  let '(st', ret) := GoLite.run sym src_decompress_handler_results src_decompress_handler (DecompressSrc.start skip ce pooled gr ok err) in
  if (negb (skip =? 0) || negb (ce =? sym "GZIPEncoding"%string))%Z
  then DecompressSrc.names st' = ["config.Skipper"; "next"]%string /\ body_of st' = 0%Z /\ ret = [sym "result of next"%string]
  else if ((ok =? 0) || (gr =? 0))%Z
  then DecompressSrc.names st' = taken /\ body_of st' = 0%Z /\ ret = [sym "echo.NewHTTPError(http.StatusInternalServerError,i.(error).Error())"%string]
  else if (err =? 0)%Z
  then DecompressSrc.names st' = (prepared ++ ["defer gr.Close()"; "next"]%string)%list /\ body_of st' = gr /\ ret = [sym "result of next"%string]
  else if (err =? sym "io.EOF"%string)%Z
  then DecompressSrc.names st' = (prepared ++ ["next"%string])%list /\ body_of st' = 0%Z /\ ret = [sym "result of next"%string]
  else DecompressSrc.names st' = prepared /\ body_of st' = 0%Z /\ ret = [err].
Proof. exact DecompressSrc.C15_source_decompress_handler. Qed.
Print Assumptions C15_source_decompress_handler.
