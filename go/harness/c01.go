package main

import (
	"fmt"
	"math/rand"
	"strings"
)

func init() {
	props["C01"] = &propRunner{gen: genC01, rule: "route tables of 1-8 routes over a segment alphabet built to share prefixes (a, ab, ba, :x, a:x, *, a*, empty segment, trailing slash; methods GET/POST/custom/RouteNotFound) x 8 request paths derived from the patterns (instantiated, extended, truncated, %2F with RawPath) x methods; the handler records c.Path(), ParamNames, ParamValues; non-trivial = request served by a route with >= 1 parameter/wildcard in a table of >= 3 routes, or reached through a RouteNotFound route; distinct by (table, method, path). Two recorded witnesses of the known escaped-colon collision run first."}
}

func rKnownCollisions(emit func(Case), completeness bool) {
	ws := []struct {
		rs   []rRoute
		m, p string
		what string
	}{
		{[]rRoute{{"POST", "/:y"}, {"GET", `/\:`}}, "GET", "/bba", "GET /bba"},
		{[]rRoute{{"GET", `/a/\:x`}, {"GET", "/a/:id"}}, "GET", "/a/b", "GET /a/b"},
	}
	if completeness {
		// known finding D11 witness (C02 only)
		rs := []rRoute{{"GET", "/:section/us/:name"}, {rNF, "/v1/us/*"}}
		srv := rBuild(rs, []int{0, 1})
		o := srv.serve("GET", "/v1/us/x")
		ok, why := true, ""
		if o.status == 200 && rs[o.id].method == rNF {
			ok, why = false, "route GET /:section/us/:name matches the path but the custom not-found route /v1/us/* answered"
		}
		emit(Case{In: L(I(0), rTableSx(rs), S("GET"), S("/v1/us/x")), Out: o.sx(), Ok: ok, Why: why, Key: "known:router.nf_wildcard_preempts",
			Human: fmt.Sprintf("table [%s] GET /v1/us/x -> %s", rShowTable(rs), o)})
	}
	for _, w := range ws {
		srv := rBuild(w.rs, []int{0, 1})
		o := srv.serve(w.m, w.p)
		ok, why := rCheck(w.rs, w.m, w.p, o)
		if ok && completeness {
			for _, r := range w.rs {
				if r.method == w.m && rMatch(r.pattern, w.p) && o.status != 200 {
					ok, why = false, fmt.Sprintf("route %s %s matches the path but the request was answered %s", r.method, r.pattern, o)
				}
			}
		}
		emit(Case{In: L(I(0), rTableSx(w.rs), S(w.m), S(w.p)), Out: o.sx(), Ok: ok, Why: why, Key: "known:router.colon_collision",
			Human: fmt.Sprintf("table [%s] %s -> %s", rShowTable(w.rs), w.what, o)})
	}
}

func genC01(rng *rand.Rand, n int, emit func(Case), dist map[string]int) {
	rKnownCollisions(emit, false)
	reqMethods := []string{"GET", "POST", "GET", "PUT", "PURGE", "OPTIONS", "DELETE"}
	for it := 0; it < n; {
		rs := rGenTable(rng, 8)
		ids := make([]int, len(rs))
		for i := range ids {
			ids[i] = i
		}
		srv := rBuild(rs, ids)
		for _, path := range rGenPaths(rng, rs, 8) {
			if it >= n {
				break
			}
			it++
			m := reqMethods[rng.Intn(len(reqMethods))]
			if rng.Intn(2) == 0 {
				m = rs[rng.Intn(len(rs))].method
				if m == rNF {
					m = "GET"
				}
			}
			o := srv.serve(m, path)
			ok, why := rCheck(rs, m, path, o)
			if ok && o.status == 200 {
				if _, _, slashOK := rSubst(rs[o.id].pattern, o.vals); !slashOK {
					ok, why = false, fmt.Sprintf("route %q: a parameter followed by more pattern text holds a '/': %q", rs[o.id].pattern, o.vals)
				}
				if o.path != rs[o.id].pattern && o.path != "/"+rs[o.id].pattern {
					ok, why = false, fmt.Sprintf("handler of %q observes c.Path()=%q", rs[o.id].pattern, o.path)
				}
			}
			cs := Case{In: L(I(0), rTableSx(rs), S(m), S(rRouterPath(path))), Out: o.sx(), Ok: ok, Why: why,
				Human: fmt.Sprintf("table [%s] %s %s -> %s", rShowTable(rs), m, path, o)}
			if o.status == 200 && (len(o.vals) > 0 && len(rs) >= 3 || rs[o.id].method == rNF) {
				cs.Key = fmt.Sprintf("%s|%s|%s", rShowTable(rs), m, path)
			}
			dist[fmt.Sprintf("status_%d", o.status)]++
			dist[fmt.Sprintf("table_size_%d", len(rs))]++
			if strings.Contains(path, "%2F") {
				dist["rawpath_requests"]++
			}
			emit(cs)
		}
	}
}
