(* The statement-level translation of validateCSRFToken (Gen/Src_csrfcmp.v, regenerated from middleware/csrf.go on every run):
   for every pair of byte strings it answers exactly whether they are EQUAL - the test [str_eqb token] the model's token loop
   makes (Mw/Csrf.v).  A comparison that looks at a prefix, a bounded window or folded case is not this function.  (C12) *)
From Coq Require Import List ZArith Bool String Ascii.
From Echo Require Import Base.Sx Base.GoLoop Gen.Src_csrfcmp.
Import ListNotations.
Open Scope Z_scope.

(* crypto/subtle.ConstantTimeCompare: 1 if the two slices have equal contents (and so equal length), 0 otherwise *)
Definition cpred (f : string) (args : list val) : val :=
  if String.eqb f "subtle.ConstantTimeCompare" then match args with [VS a; VS b] => VZ (if str_eqb a b then 1 else 0) | _ => VZ 0 end
  else if String.eqb f "len" then match args with [VS s] => VZ (Z.of_nat (List.length s)) | _ => VZ 0 end
  else VZ 0.
Definition csym (s : string) : val := VZ 0.
Definition start (token client : str) : state :=
  {| locals := [("token"%string, VS token); ("clientToken"%string, VS client)]; fields := []; lists := []; events := []; inputs := [] |}.

Theorem C12_source_validate_token : forall token client,
  snd (run csym cpred src_validate_csrf_token_results src_validate_csrf_token (start token client)) = [b2v (str_eqb token client)].
Proof.
  intros token client. unfold run, src_validate_csrf_token, src_validate_csrf_token_results, start.
  cbn [exec exec_s eval get locals map String.eqb Ascii.eqb Bool.eqb cpred snd as_z val_eqb].
  destruct (str_eqb token client); reflexivity.
Qed.
Print Assumptions C12_source_validate_token.

Example validate_src_example :
  snd (run csym cpred src_validate_csrf_token_results src_validate_csrf_token (start (lit "TokenAb") (lit "TokenAbx"))) = [VZ 0]
  /\ snd (run csym cpred src_validate_csrf_token_results src_validate_csrf_token (start (lit "TokenAb") (lit "TokenAb"))) = [VZ 1].
Proof. split; vm_compute; reflexivity. Qed.
