(* The statement-level translation of Echo.ServeHTTP and of the closure it builds for Pre middleware (Gen/Src_servehttp.v,
   regenerated from echo.go on every run, language Base/GoLite.v).  For every pooled context, handler chain and error:
   - the context taken from the pool is Reset with THIS request and writer before anything else looks at it, and it goes back
     to the pool exactly once, last, whether the chain failed or not (C05: what a recycled context carries is decided by Reset);
   - the error handler runs exactly when the chain returns an error, once, with that error (C07);
   - without Pre middleware the route is looked up before the chain is built; with Pre middleware ServeHTTP itself does NOT
     look the route up - the lookup sits inside the closure the Pre chain wraps, so it sees what Pre middleware made of the
     request (C04: Pre before routing).  *)
From Coq Require Import List ZArith Bool String Lia.
From Echo Require Import Base.GoLite Gen.Src_servehttp.
Import ListNotations.
Open Scope Z_scope.

Section Src.
Variable sym : string -> Z.
Hypothesis sym_nil : sym "nil" = 0.
Variables (pre ctx r w hv err : Z).      (* e.premiddleware (0 = nil), the pooled context, request, writer, c.Handler(), the chain's error (0 = nil) *)

Definition start : state :=
  {| locals := [("r", r); ("w", w)]; fields := [("e.premiddleware", pre)]; events := [];
     inputs := if pre =? 0 then [[ctx]; [hv]; [err]] else [[ctx]; [err]] |}.

Ltac golite := repeat (cbn [exec exec_s eval get put assign locals fields events inputs String.eqb Ascii.eqb Bool.eqb
                            map tl app negb andb orb fst snd]; rewrite ?truthy_b2z).

Definition ev_get : string * list Z := ("e.pool.Get", []).
Definition ev_reset : string * list Z := ("c.Reset", [r; w]).
Definition ev_find : string * list Z := ("e.findRouter(r.Host).Find", [sym "r.Method"; sym "GetPath(r)"; ctx]).
Definition ev_handler : string * list Z := ("c.Handler", []).
Definition ev_chain : string * list Z := ("h", [ctx]).
Definition ev_error : string * list Z := ("e.HTTPErrorHandler", [err; ctx]).
Definition ev_put : string * list Z := ("e.pool.Put", [ctx]).

Theorem src_serve_http_spec :
  events (fst (run sym src_serve_http_results src_serve_http start)) =
  ([ev_get; ev_reset] ++ (if pre =? 0 then [ev_find; ev_handler] else []) ++ [ev_chain] ++
   (if err =? 0 then [] else [ev_error]) ++ [ev_put])%list.
Proof.
  unfold run, src_serve_http, src_serve_http_results, start. rewrite ?sym_nil.
  destruct (pre =? 0) eqn:Ep; golite; rewrite ?sym_nil, ?Ep; unfold truthy; golite; rewrite ?sym_nil;
    destruct (err =? 0) eqn:Ee; golite; reflexivity.
Qed.
End Src.

(* the closure wrapped by the Pre chain: the lookup, then the route's handler wrapped by Echo.Use middleware, then the call *)
Theorem C04_source_routed_closure : forall sym ctx hv,
  events (fst (run sym src_serve_http_routed_results src_serve_http_routed
                 {| locals := [("c", ctx)]; fields := []; events := []; inputs := [[hv]] |})) =
  [("e.findRouter(r.Host).Find", [sym "r.Method"; sym "GetPath(r)"; ctx]); ("c.Handler", []); ("h", [ctx])].
Proof. intros. reflexivity. Qed.
Print Assumptions C04_source_routed_closure.

Theorem C05_source_serve_http : forall sym, sym "nil" = 0 -> forall pre ctx r w hv err,
  events (fst (run sym src_serve_http_results src_serve_http (start pre ctx r w hv err))) =
  ([ev_get; ev_reset r w] ++ (if pre =? 0 then [ev_find sym ctx; ev_handler] else []) ++ [ev_chain ctx] ++
   (if err =? 0 then [] else [ev_error ctx err]) ++ [ev_put ctx])%list.
Proof. exact src_serve_http_spec. Qed.
Print Assumptions C05_source_serve_http.
