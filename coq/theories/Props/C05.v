(* C05 — requests are isolated from each other under context recycling.
   Statements only; proofs in Http/ContextProofs.v.  Sequential histories on a recycled context are
   proved; for concurrent requests the model's argument is that ServeHTTP takes a context out of the pool
   for exactly one request (Get ... Put), so in-flight contexts are distinct objects and each request's
   observations are those of its own context (the Go memory model, sync.Pool internals and data races
   are not modelled: partial, see DESIGN). *)
From Coq Require Import List Arith Bool.
From Echo Require Import Base.Sx Http.Context Http.ContextProofs.
Import ListNotations.

(* after Reset a recycled context is observationally a new one: path parameters, matched route, query
   cache, stored values, logger, response status/size/committed flag and hooks *)
Theorem C05_reset_fresh : forall c r maxp, observe (reset c r maxp) = observe (new_context r maxp).
Proof. exact reset_fresh. Qed.
Print Assumptions C05_reset_fresh.

(* registering routes with more parameters between requests never leaves a too short value array *)
Theorem C05_array_long_enough : forall c r maxp,
  maxp <= List.length (c_pvalues (reset c r maxp)) /\ is_blank (c_pvalues (reset c r maxp)) = true.
Proof. exact array_long_enough. Qed.
Print Assumptions C05_array_long_enough.

(* what a handler observes at its start does not depend on which context was recycled for it *)
Theorem C05_start_observation_indep : forall c c' r maxp m,
  match m with Some x => List.length (m_values x) <= maxp /\ List.length (m_names x) = List.length (m_values x) | None => True end ->
  observe (find (reset c r maxp) m) = observe (find (reset c' r maxp) m).
Proof. exact start_observation_indep. Qed.
Print Assumptions C05_start_observation_indep.

(* every history of requests and handler programs (storing values, replacing the logger, registering
   hooks, overwriting parameters, writing or not writing a response) with registrations in between
   (maxParam may differ per event): the i-th observation is that of a brand-new context *)
Theorem C05_history : forall evs c,
  Forall (fun e => let '(r, maxp, m, prog) := e in
          match m with Some x => List.length (m_values x) <= maxp /\ List.length (m_names x) = List.length (m_values x) | None => True end) evs ->
  history c evs = map (fun e => let '(r, maxp, m, prog) := e in observe (find (new_context r maxp) m)) evs.
Proof. exact history_isolated. Qed.
Print Assumptions C05_history.

(* the values read are exactly the ones routing wrote, with no residue behind them *)
Theorem C05_values_exact : forall c r maxp x,
  List.length (m_values x) <= maxp -> List.length (m_names x) = List.length (m_values x) ->
  o_values (observe (find (reset c r maxp) (Some x))) = m_values x /\
  o_rest_blank (observe (find (reset c r maxp) (Some x))) = true.
Proof. exact values_exact. Qed.
Print Assumptions C05_values_exact.
