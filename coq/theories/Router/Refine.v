From Coq Require Import List Arith Bool Ascii String Lia Permutation.
Import ListNotations.
From Echo.Router Require Import Spec2 Fuel.
Open Scope char_scope.

Inductive kind := KS | KP | KA.
Definition rmeth := (list str * nat)%type.

Inductive node := Node (k : kind) (pfx : str) (ms : list (str * rmeth)) (nf : option rmeth)
                       (st : list node) (pc ac : option node).

Definition n_kind n := match n with Node k _ _ _ _ _ _ => k end.
Definition n_pfx n := match n with Node _ p _ _ _ _ _ => p end.
Definition n_ms n := match n with Node _ _ ms _ _ _ _ => ms end.
Definition n_nf n := match n with Node _ _ _ nf _ _ _ => nf end.
Definition n_st n := match n with Node _ _ _ _ st _ _ => st end.
Definition n_pc n := match n with Node _ _ _ _ _ pc _ => pc end.
Definition n_ac n := match n with Node _ _ _ _ _ _ ac => ac end.

Definition edge (n : node) : list tok :=
  match n_kind n with KS => map TLit (n_pfx n) | KP => [TParam] | KA => [TAny] end.

Definition mk_route (m : str) (pre : list tok) (rm : rmeth) : route :=
  {| r_method := m; r_toks := pre; r_names := fst rm; r_id := snd rm |}.

Definition own_routes (pre : list tok) (ms : list (str * rmeth)) (nf : option rmeth) : list route :=
  map (fun x => mk_route (fst x) pre (snd x)) ms ++
  match nf with Some rm => [mk_route NF pre rm] | None => [] end.
Definition own (pre : list tok) (n : node) : live :=
  map (fun r => (r, [])) (own_routes pre (n_ms n) (n_nf n)).

Definition prepend (e : list tok) (x : lentry) : lentry := (fst x, e ++ snd x).

Definition opt_list {A} (o : option A) : list A := match o with Some a => [a] | None => [] end.

Fixpoint den_node (pre : list tok) (n : node) {struct n} : live :=
  match n with
  | Node k pfx ms nf st pc ac =>
    map (fun r => (r, [])) (own_routes pre ms nf) ++
    (fix go (l : list node) : live :=
       match l with
       | [] => []
       | ch :: l' => map (prepend (edge ch)) (den_node (pre ++ edge ch) ch) ++ go l'
       end) st ++
    match pc with Some ch => map (prepend (edge ch)) (den_node (pre ++ edge ch) ch) | None => [] end ++
    match ac with Some ch => map (prepend (edge ch)) (den_node (pre ++ edge ch) ch) | None => [] end
  end.

Definition den_edge (pre : list tok) (ch : node) : live :=
  map (prepend (edge ch)) (den_node (pre ++ edge ch) ch).

Lemma den_node_eq pre n :
  den_node pre n = own pre n ++ flat_map (den_edge pre) (n_st n) ++
                   flat_map (den_edge pre) (opt_list (n_pc n)) ++ flat_map (den_edge pre) (opt_list (n_ac n)).
Proof.
  destruct n as [k pfx ms nf st pc ac]. cbn [den_node n_st n_pc n_ac own n_ms n_nf].
  apply f_equal.
  assert (E : (fix go (l : list node) : live :=
       match l with
       | [] => []
       | ch :: l' => map (prepend (edge ch)) (den_node (pre ++ edge ch) ch) ++ go l'
       end) st = flat_map (den_edge pre) st).
  { induction st as [|ch st IH]; simpl; [reflexivity|]. rewrite IH. reflexivity. }
  rewrite E. apply f_equal.
  destruct pc, ac; simpl; rewrite ?app_nil_r; reflexivity.
Qed.

Definition label (n : node) : option ascii := hd_error (n_pfx n).
Definition has_label (c : ascii) (n : node) : bool :=
  match label n with Some l => Ascii.eqb l c | None => false end.

Fixpoint strip (pfx p : str) : option str :=
  match pfx, p with
  | [], _ => Some p
  | x :: pfx', y :: p' => if Ascii.eqb x y then strip pfx' p' else None
  | _ :: _, [] => None
  end.

Definition node_is_leaf (n : node) : bool :=
  match n_st n, n_pc n, n_ac n with [], None, None => true | _, _, _ => false end.

Fixpoint find_node (m : str) (pre : list tok) (n : node) (p : str) (vals : list str) (best : option (list tok)) {struct n} : res :=
  match n with
  | Node k pfx ms nf st pc ac =>
    orelse (end_check m pre (own_routes pre ms nf) p vals best) (fun best =>
    orelse (match p with
            | c :: _ =>
              (fix look (l : list node) : res :=
                 match l with
                 | [] => Miss best
                 | ch :: l' =>
                   if has_label c ch then
                     match strip (n_pfx ch) p with
                     | Some p' => find_node m (pre ++ edge ch) ch p' vals best
                     | None => Miss best
                     end
                   else look l'
                 end) st
            | [] => Miss best end) (fun best =>
    orelse (match p, pc with
            | _ :: _, Some ch =>
              let leaf := node_is_leaf ch in
              find_node m (pre ++ edge ch) ch (if leaf then [] else drop_seg p) (vals ++ [if leaf then p else take_seg p]) best
            | _, _ => Miss best end) (fun best =>
    match ac with
    | Some ch => any_step m pre (own (pre ++ [TAny]) ch) p vals best
    | None => Miss best end)))
  end.

(* ---------- unfolding equation ---------- *)
Definition static_step (rec : node -> str -> res) (st : list node) (p : str) (best : option (list tok)) : res :=
  match p with
  | c :: _ =>
    match List.find (has_label c) st with
    | Some ch => match strip (n_pfx ch) p with Some p' => rec ch p' | None => Miss best end
    | None => Miss best end
  | [] => Miss best end.

Lemma find_node_eq m pre n p vals best :
  find_node m pre n p vals best =
  orelse (end_check m pre (own_routes pre (n_ms n) (n_nf n)) p vals best) (fun best =>
  orelse (static_step (fun ch p' => find_node m (pre ++ edge ch) ch p' vals best) (n_st n) p best) (fun best =>
  orelse (match p, n_pc n with
          | _ :: _, Some ch =>
            let leaf := node_is_leaf ch in
            find_node m (pre ++ edge ch) ch (if leaf then [] else drop_seg p) (vals ++ [if leaf then p else take_seg p]) best
          | _, _ => Miss best end) (fun best =>
  match n_ac n with
  | Some ch => any_step m pre (own (pre ++ [TAny]) ch) p vals best
  | None => Miss best end))).
Proof.
  destruct n as [k pfx ms nf st pc ac]. cbn [find_node n_ms n_nf n_st n_pc n_ac].
  apply orelse_ext; [reflexivity|]. intros b0. apply orelse_ext; [|reflexivity].
  unfold static_step. destruct p as [|c p']; [reflexivity|].
  induction st as [|ch st IH]; [reflexivity|].
  cbn [List.find]. destruct (has_label c ch); [reflexivity|]. exact IH.
Qed.

(* ---------- well-formedness ---------- *)
Definition live_nonempty (n : node) : Prop := forall pre, den_node pre n <> [].

Inductive WF : node -> Prop :=
| WF_intro : forall k pfx ms nf st pc ac,
    pfx <> [] ->
    (k = KA -> st = [] /\ pc = None /\ ac = None) ->
    NoDup (map fst ms) -> ~ In NF (map fst ms) ->
    Forall (fun ch => WF ch /\ n_kind ch = KS /\ live_nonempty ch) st ->
    NoDup (map label st) ->
    (forall ch, pc = Some ch -> WF ch /\ n_kind ch = KP /\ live_nonempty ch) ->
    (forall ch, ac = Some ch -> WF ch /\ n_kind ch = KA /\ live_nonempty ch) ->
    WF (Node k pfx ms nf st pc ac).

(* ---------- advance over prepended sets ---------- *)
Lemma advance_app t a b : advance t (a ++ b) = advance t a ++ advance t b.
Proof. unfold advance. apply flat_map_app. Qed.

Lemma advance_own t pre n : advance t (own pre n) = [].
Proof. unfold own, advance. induction (own_routes pre (n_ms n) (n_nf n)); simpl; auto. Qed.

Lemma advance_prepend_cons t t' e (ls : live) :
  advance t (map (prepend (t' :: e)) ls) = if tok_eqb t' t then map (prepend e) ls else [].
Proof.
  unfold advance. induction ls as [|x ls IH]; simpl.
  - destruct (tok_eqb t' t); reflexivity.
  - unfold adv1 at 1. simpl. destruct (tok_eqb t' t) eqn:E; simpl.
    + rewrite IH. reflexivity.
    + exact IH.
Qed.

Lemma prepend_nil ls : map (prepend []) ls = ls.
Proof. induction ls as [|x ls IH]; simpl; [reflexivity|]. rewrite IH. destruct x; reflexivity. Qed.

Lemma terminals_app a b : terminals (a ++ b) = terminals a ++ terminals b.
Proof. unfold terminals. rewrite filter_app, map_app. reflexivity. Qed.

Lemma terminals_own pre n : terminals (own pre n) = own_routes pre (n_ms n) (n_nf n).
Proof. unfold own, terminals. induction (own_routes pre (n_ms n) (n_nf n)); simpl; auto. f_equal. assumption. Qed.

Lemma terminals_prepend e ls : e <> [] -> terminals (map (prepend e) ls) = [].
Proof. intros He. unfold terminals. induction ls as [|x ls IH]; simpl; [reflexivity|].
  unfold is_term at 1. simpl. destruct e; [congruence|]. simpl. exact IH. Qed.

Lemma edge_nonempty ch : n_pfx ch <> [] -> edge ch <> [].
Proof. unfold edge. destruct (n_kind ch); try discriminate. destruct (n_pfx ch); simpl; congruence. Qed.

Lemma terminals_flat pre l : Forall (fun ch => n_pfx ch <> []) l -> terminals (flat_map (den_edge pre) l) = [].
Proof. induction 1 as [|ch l H _ IH]; simpl; [reflexivity|].
  rewrite terminals_app, IH, app_nil_r. unfold den_edge. apply terminals_prepend. apply edge_nonempty. exact H. Qed.

(* ---------- node-level facts ---------- *)
Lemma WF_pfx n : WF n -> n_pfx n <> [].
Proof. inversion 1; subst; simpl; assumption. Qed.

Lemma WF_st n : WF n -> Forall (fun ch => WF ch /\ n_kind ch = KS /\ live_nonempty ch) (n_st n).
Proof. inversion 1; subst; simpl; assumption. Qed.
Lemma WF_labels n : WF n -> NoDup (map label (n_st n)).
Proof. inversion 1; subst; simpl; assumption. Qed.
Lemma WF_pc n ch : WF n -> n_pc n = Some ch -> WF ch /\ n_kind ch = KP /\ live_nonempty ch.
Proof. inversion 1; subst; simpl; auto. Qed.
Lemma WF_ac n ch : WF n -> n_ac n = Some ch -> WF ch /\ n_kind ch = KA /\ live_nonempty ch.
Proof. inversion 1; subst; simpl; auto. Qed.
Lemma WF_any_leaf n : WF n -> n_kind n = KA -> n_st n = [] /\ n_pc n = None /\ n_ac n = None.
Proof. inversion 1; subst; simpl; auto. Qed.

Lemma st_pfx n : WF n -> Forall (fun ch => n_pfx ch <> []) (n_st n).
Proof. intros H. eapply Forall_impl; [|apply WF_st; exact H]. simpl. intros ch [Hw _]. apply WF_pfx. exact Hw. Qed.

Lemma opt_pfx (o : option node) : (forall ch, o = Some ch -> WF ch) -> Forall (fun ch => n_pfx ch <> []) (opt_list o).
Proof. destruct o; simpl; intros H; constructor; auto. apply WF_pfx. apply H. reflexivity. Qed.

Lemma terminals_den pre n : WF n -> terminals (den_node pre n) = own_routes pre (n_ms n) (n_nf n).
Proof.
  intros H. rewrite den_node_eq, !terminals_app, terminals_own.
  rewrite (terminals_flat pre (n_st n)) by (apply st_pfx; exact H).
  rewrite (terminals_flat pre (opt_list (n_pc n))) by (apply opt_pfx; intros ch E; apply (WF_pc n ch H E)).
  rewrite (terminals_flat pre (opt_list (n_ac n))) by (apply opt_pfx; intros ch E; apply (WF_ac n ch H E)).
  rewrite !app_nil_r. reflexivity.
Qed.

Lemma den_edge_static pre ch : n_kind ch = KS -> 
  den_edge pre ch = map (prepend (map TLit (n_pfx ch))) (den_node (pre ++ map TLit (n_pfx ch)) ch).
Proof. unfold den_edge, edge. intros ->. reflexivity. Qed.
Lemma den_edge_param pre ch : n_kind ch = KP -> den_edge pre ch = map (prepend [TParam]) (den_node (pre ++ [TParam]) ch).
Proof. unfold den_edge, edge. intros ->. reflexivity. Qed.
Lemma den_edge_any pre ch : n_kind ch = KA -> den_edge pre ch = map (prepend [TAny]) (den_node (pre ++ [TAny]) ch).
Proof. unfold den_edge, edge. intros ->. reflexivity. Qed.

Lemma advance_edge_static t pre ch : n_kind ch = KS -> n_pfx ch <> [] ->
  advance t (den_edge pre ch) =
  match n_pfx ch with
  | l :: rest => if tok_eqb (TLit l) t then map (prepend (map TLit rest)) (den_node (pre ++ map TLit (n_pfx ch)) ch) else []
  | [] => [] end.
Proof. intros Hk Hp. rewrite den_edge_static by assumption. destruct (n_pfx ch) as [|l rest]; [congruence|].
  simpl map. apply advance_prepend_cons. Qed.

Lemma has_label_spec c ch l rest : n_pfx ch = l :: rest -> has_label c ch = Ascii.eqb l c.
Proof. unfold has_label, label. intros ->. reflexivity. Qed.

Lemma advance_lit_statics c pre (st : list node) :
  Forall (fun ch => n_kind ch = KS /\ n_pfx ch <> []) st -> NoDup (map label st) ->
  advance (TLit c) (flat_map (den_edge pre) st) =
  match List.find (has_label c) st with
  | Some ch => map (prepend (map TLit (tl (n_pfx ch)))) (den_node (pre ++ map TLit (n_pfx ch)) ch)
  | None => [] end.
Proof.
  induction st as [|ch st IH]; intros HF HN; [reflexivity|].
  inversion HF as [|? ? [Hk Hp] HF']; subst. simpl in HN. inversion HN as [|? ? Hnot HN']; subst.
  cbn [flat_map List.find]. rewrite advance_app, (advance_edge_static _ _ _ Hk Hp).
  destruct (n_pfx ch) as [|l rest] eqn:E; [congruence|].
  rewrite (has_label_spec c ch l rest E). cbn [tok_eqb].
  destruct (Ascii.eqb l c) eqn:El.
  - (* others contribute nothing *)
    assert (Hrest : advance (TLit c) (flat_map (den_edge pre) st) = []).
    { rewrite (IH HF' HN'). destruct (List.find (has_label c) st) as [ch'|] eqn:Ef; [|reflexivity].
      exfalso. apply find_some in Ef. destruct Ef as [Hin Hl].
      apply Hnot. apply in_map_iff. exists ch'. split; [|assumption].
      unfold has_label in Hl. unfold label at 2. rewrite E. simpl.
      destruct (label ch') eqn:L; [|discriminate]. apply Ascii.eqb_eq in Hl. apply Ascii.eqb_eq in El. congruence. }
    rewrite Hrest, app_nil_r. rewrite E. simpl. reflexivity.
  - simpl. apply IH; assumption.
Qed.

Lemma advance_edge_kind t pre ch e0 : edge ch = [e0] -> 
  advance t (den_edge pre ch) = if tok_eqb e0 t then den_node (pre ++ [e0]) ch else [].
Proof. unfold den_edge. intros ->. rewrite advance_prepend_cons, prepend_nil. reflexivity. Qed.

Lemma advance_statics_nonlit t pre (st : list node) :
  (forall c, t <> TLit c) -> Forall (fun ch => n_kind ch = KS /\ n_pfx ch <> []) st ->
  advance t (flat_map (den_edge pre) st) = [].
Proof.
  intros Ht. induction 1 as [|ch st [Hk Hp] _ IH]; [reflexivity|].
  cbn [flat_map]. rewrite advance_app, IH, app_nil_r, (advance_edge_static _ _ _ Hk Hp).
  destruct (n_pfx ch) as [|l rest]; [reflexivity|].
  destruct (tok_eqb (TLit l) t) eqn:E; [|reflexivity]. apply tok_eqb_eq in E. exfalso. apply (Ht l). auto.
Qed.

Lemma st_kind_pfx n : WF n -> Forall (fun ch => n_kind ch = KS /\ n_pfx ch <> []) (n_st n).
Proof. intros H. eapply Forall_impl; [|apply WF_st; exact H]. simpl. intros ch [Hw [Hk _]]. split; auto. apply WF_pfx; auto. Qed.

Lemma edge_param ch : n_kind ch = KP -> edge ch = [TParam].
Proof. unfold edge. intros ->. reflexivity. Qed.
Lemma edge_any ch : n_kind ch = KA -> edge ch = [TAny].
Proof. unfold edge. intros ->. reflexivity. Qed.

Lemma adv_lit c pre n : WF n ->
  advance (TLit c) (den_node pre n) =
  match List.find (has_label c) (n_st n) with
  | Some ch => map (prepend (map TLit (tl (n_pfx ch)))) (den_node (pre ++ map TLit (n_pfx ch)) ch)
  | None => [] end.
Proof.
  intros H. rewrite den_node_eq, !advance_app, advance_own. cbn [app].
  rewrite (advance_lit_statics c pre (n_st n) (st_kind_pfx n H) (WF_labels n H)).
  assert (P : advance (TLit c) (flat_map (den_edge pre) (opt_list (n_pc n))) = []).
  { destruct (n_pc n) as [ch|] eqn:E; [|reflexivity]. simpl. rewrite app_nil_r.
    destruct (WF_pc n ch H E) as [_ [Hk _]]. rewrite (advance_edge_kind _ _ _ _ (edge_param ch Hk)). reflexivity. }
  assert (A : advance (TLit c) (flat_map (den_edge pre) (opt_list (n_ac n))) = []).
  { destruct (n_ac n) as [ch|] eqn:E; [|reflexivity]. simpl. rewrite app_nil_r.
    destruct (WF_ac n ch H E) as [_ [Hk _]]. rewrite (advance_edge_kind _ _ _ _ (edge_any ch Hk)). reflexivity. }
  rewrite P, A, !app_nil_r. reflexivity.
Qed.

Lemma adv_param pre n : WF n ->
  advance TParam (den_node pre n) = match n_pc n with Some ch => den_node (pre ++ [TParam]) ch | None => [] end.
Proof.
  intros H. rewrite den_node_eq, !advance_app, advance_own. cbn [app].
  rewrite (advance_statics_nonlit TParam pre (n_st n)) by (try discriminate; apply st_kind_pfx; exact H).
  assert (A : advance TParam (flat_map (den_edge pre) (opt_list (n_ac n))) = []).
  { destruct (n_ac n) as [ch|] eqn:E; [|reflexivity]. simpl. rewrite app_nil_r.
    destruct (WF_ac n ch H E) as [_ [Hk _]]. rewrite (advance_edge_kind _ _ _ _ (edge_any ch Hk)). reflexivity. }
  rewrite A, app_nil_r. cbn [app].
  destruct (n_pc n) as [ch|] eqn:E; [|reflexivity]. simpl. rewrite app_nil_r.
  destruct (WF_pc n ch H E) as [_ [Hk _]]. rewrite (advance_edge_kind _ _ _ _ (edge_param ch Hk)). reflexivity.
Qed.

Lemma adv_any pre n : WF n ->
  advance TAny (den_node pre n) = match n_ac n with Some ch => den_node (pre ++ [TAny]) ch | None => [] end.
Proof.
  intros H. rewrite den_node_eq, !advance_app, advance_own. cbn [app].
  rewrite (advance_statics_nonlit TAny pre (n_st n)) by (try discriminate; apply st_kind_pfx; exact H).
  assert (P : advance TAny (flat_map (den_edge pre) (opt_list (n_pc n))) = []).
  { destruct (n_pc n) as [ch|] eqn:E; [|reflexivity]. simpl. rewrite app_nil_r.
    destruct (WF_pc n ch H E) as [_ [Hk _]]. rewrite (advance_edge_kind _ _ _ _ (edge_param ch Hk)). reflexivity. }
  rewrite P. cbn [app].
  destruct (n_ac n) as [ch|] eqn:E; [|reflexivity]. simpl. rewrite app_nil_r.
  destruct (WF_ac n ch H E) as [_ [Hk _]]. rewrite (advance_edge_kind _ _ _ _ (edge_any ch Hk)). reflexivity.
Qed.

Lemma den_any_leaf pre ch : WF ch -> n_kind ch = KA -> den_node pre ch = own pre ch.
Proof. intros H Hk. rewrite den_node_eq. destruct (WF_any_leaf ch H Hk) as [-> [-> ->]]. simpl. rewrite app_nil_r. reflexivity. Qed.

Lemma nonempty_map {A B} (f : A -> B) l : nonempty (map f l) = nonempty l.
Proof. destruct l; reflexivity. Qed.
Lemma nonempty_true {A} (l : list A) : l <> [] -> nonempty l = true.
Proof. destruct l; simpl; congruence. Qed.

Lemma forallb_term_own pre n : forallb is_term (own pre n) = true.
Proof. unfold own. induction (own_routes pre (n_ms n) (n_nf n)); simpl; auto. Qed.

Lemma forallb_term_prepend e ls : e <> [] -> ls <> [] -> forallb is_term (map (prepend e) ls) = false.
Proof. intros He Hl. destruct ls as [|x ls]; [congruence|]. simpl. unfold is_term at 1. simpl.
  destruct e; [congruence|]. reflexivity. Qed.

Lemma leaf_den pre ch : WF ch -> forallb is_term (den_node pre ch) = node_is_leaf ch.
Proof.
  intros H. rewrite den_node_eq, !forallb_app, forallb_term_own. cbn [andb].
  unfold node_is_leaf.
  destruct (n_st ch) as [|c1 st] eqn:Est.
  - destruct (n_pc ch) as [c2|] eqn:Epc.
    + simpl. rewrite app_nil_r. unfold den_edge at 1.
      destruct (WF_pc ch c2 H Epc) as [Hw [_ Hl]].
      rewrite forallb_term_prepend; [reflexivity| apply edge_nonempty, WF_pfx, Hw | apply Hl].
    + destruct (n_ac ch) as [c3|] eqn:Eac; [|reflexivity].
      simpl. rewrite app_nil_r. unfold den_edge at 1.
      destruct (WF_ac ch c3 H Eac) as [Hw [_ Hl]].
      rewrite forallb_term_prepend; [reflexivity| apply edge_nonempty, WF_pfx, Hw | apply Hl].
  - pose proof (WF_st ch H) as Hs. rewrite Est in Hs. inversion Hs as [|? ? [Hw [_ Hl]] _]; subst.
    cbn [flat_map]. rewrite forallb_app. unfold den_edge at 1.
    rewrite forallb_term_prepend; [reflexivity| apply edge_nonempty, WF_pfx, Hw | apply Hl].
Qed.

(* ---------- chain lemma (compressed edges) ---------- *)
Lemma strip_nil p : strip [] p = Some p. Proof. destruct p; reflexivity. Qed.

Lemma search_empty f m pre p vals best : search f m pre [] p vals best = Miss best.
Proof. destruct f; [reflexivity|]. cbn. unfold end_check, any_step. simpl. destruct p; reflexivity. Qed.

Lemma search_chain : forall pi f m pre ls p vals best, ls <> [] ->
  search (List.length pi + f) m pre (map (prepend (map TLit pi)) ls) p vals best =
  match strip pi p with
  | Some p' => search f m (pre ++ map TLit pi) ls p' vals best
  | None => Miss best end.
Proof.
  induction pi as [|c pi IH]; intros f m pre ls p vals best Hne.
  - cbn [List.length plus map]. rewrite prepend_nil, app_nil_r. destruct p; reflexivity.
  - cbn [List.length plus map]. cbn [search].
    rewrite terminals_prepend by discriminate.
    assert (E0 : end_check m pre [] p vals best = Miss best).
    { unfold end_check. destruct p; reflexivity. }
    rewrite E0. cbn [orelse].
    assert (EP : advance TParam (map (prepend (TLit c :: map TLit pi)) ls) = []) by (rewrite advance_prepend_cons; reflexivity).
    assert (EA : advance TAny (map (prepend (TLit c :: map TLit pi)) ls) = []) by (rewrite advance_prepend_cons; reflexivity).
    rewrite EP, EA. unfold any_step. cbn [nonempty].
    destruct p as [|d p'].
    + reflexivity.
    + cbn zeta. rewrite advance_prepend_cons. cbn [tok_eqb strip].
      destruct (Ascii.eqb c d) eqn:Ecd.
      * apply Ascii.eqb_eq in Ecd. subst d. rewrite nonempty_map, (nonempty_true ls Hne).
        rewrite (IH f m (pre ++ [TLit c]) ls p' vals best Hne).
        rewrite <- app_assoc. cbn [app].
        destruct (strip pi p') as [p''|]; [|reflexivity].
        destruct (search f m (pre ++ TLit c :: map TLit pi) ls p'' vals best); reflexivity.
      * reflexivity.
Qed.

(* ---------- height ---------- *)
Fixpoint height (n : node) : nat :=
  match n with
  | Node _ _ _ _ st pc ac =>
    S ((fix hs (l : list node) : nat := match l with [] => 0 | c :: l' => Nat.max (height c) (hs l') end) st
       + match pc with Some c => height c | None => 0 end
       + match ac with Some c => height c | None => 0 end)
  end.

Lemma height_st n ch : In ch (n_st n) -> height ch < height n.
Proof. destruct n as [k pfx ms nf st pc ac]. simpl. intros Hin.
  assert (height ch <= (fix hs (l : list node) : nat := match l with [] => 0 | c :: l' => Nat.max (height c) (hs l') end) st).
  { induction st as [|c st IH]; [destruct Hin|]. destruct Hin as [->|Hin]; [lia|]. specialize (IH Hin). lia. }
  lia. Qed.
Lemma height_pc n ch : n_pc n = Some ch -> height ch < height n.
Proof. destruct n as [k pfx ms nf st pc ac]. simpl. intros ->. lia. Qed.

(* ---------- enough for children ---------- *)
Lemma enough_app f a b : enough f (a ++ b) <-> enough f a /\ enough f b.
Proof. unfold enough. apply Forall_app. Qed.

Lemma enough_prepend f e ls : enough f (map (prepend e) ls) -> ls <> [] -> 
  List.length e <= f /\ enough (f - List.length e) ls.
Proof. unfold enough. intros H Hne. rewrite Forall_map in H. split.
  - destruct ls as [|x ls]; [congruence|]. inversion H; subst. simpl in *. rewrite app_length in *. lia.
  - eapply Forall_impl; [|exact H]. simpl. intros a. rewrite app_length. lia. Qed.

Lemma enough_child_static f pre n ch : enough f (den_node pre n) -> In ch (n_st n) ->
  enough f (den_edge pre ch).
Proof. rewrite den_node_eq. intros H Hin. apply enough_app in H. destruct H as [_ H]. apply enough_app in H. destruct H as [H _].
  unfold enough in *. rewrite Forall_forall in *. intros x Hx. apply H. apply in_flat_map. exists ch. auto. Qed.

(* ---------- main refinement: tree search = spec search on the denotation ---------- *)
Lemma find_in_st c st ch : List.find (has_label c) st = Some ch -> In ch st /\ has_label c ch = true.
Proof. apply find_some. Qed.

Theorem find_search : forall h n, height n <= h -> WF n ->
  forall f m pre p vals best, 0 < f -> enough f (den_node pre n) ->
  find_node m pre n p vals best = search f m pre (den_node pre n) p vals best.
Proof.
  induction h as [|h IH]; intros n Hh Hwf f m pre p vals best Hf He.
  { destruct n; simpl in Hh; lia. }
  destruct f as [|f]; [lia|]. clear Hf.
  rewrite find_node_eq. cbn [search].
  rewrite (terminals_den pre n Hwf).
  apply orelse_ext; [reflexivity|]. intros b0.
  apply orelse_ext.
  { (* static *)
    unfold static_step. destruct p as [|c p0]; [reflexivity|]. cbn zeta.
    rewrite (adv_lit c pre n Hwf).
    destruct (List.find (has_label c) (n_st n)) as [ch|] eqn:Ef; [|reflexivity].
    destruct (find_in_st _ _ _ Ef) as [Hin Hlab].
    pose proof (WF_st n Hwf) as Hst. rewrite Forall_forall in Hst. destruct (Hst ch Hin) as [Hwc [Hkc Hlc]].
    pose proof (WF_pfx ch Hwc) as Hpc.
    destruct (n_pfx ch) as [|l rest] eqn:Epf; [congruence|].
    rewrite (has_label_spec c ch l rest Epf) in Hlab. apply Ascii.eqb_eq in Hlab. subst l.
    cbn [tl]. rewrite nonempty_map, (nonempty_true _ (Hlc _)).
    (* fuel split *)
    pose proof (enough_child_static _ _ _ _ He Hin) as Hec.
    rewrite den_edge_static in Hec by assumption. rewrite Epf in Hec.
    destruct (enough_prepend _ _ _ Hec (Hlc _)) as [Hlen Hen].
    rewrite map_length in Hlen, Hen. cbn [List.length] in Hlen, Hen.
    replace f with (List.length rest + (f - List.length rest)) at 1 by lia.
    rewrite (search_chain rest (f - List.length rest) m (pre ++ [TLit c]) _ p0 vals b0 (Hlc _)).
    cbn [strip]. rewrite Ascii.eqb_refl.
    destruct (strip rest p0) as [p'|]; [|reflexivity].
    rewrite <- app_assoc. cbn [app].
    assert (Eedge : edge ch = TLit c :: map TLit rest).
    { unfold edge. rewrite Hkc, Epf. reflexivity. }
    rewrite Eedge. cbn [map] in Hen |- *.
    assert (Hen' : enough (f - List.length rest) (den_node (pre ++ TLit c :: map TLit rest) ch)).
    { replace (f - List.length rest) with (S f - S (List.length rest)) by lia. exact Hen. }
    apply IH; [ pose proof (height_st n ch Hin); lia | exact Hwc | | exact Hen' ].
    destruct (den_node (pre ++ TLit c :: map TLit rest) ch) eqn:Ed; [exfalso; apply (Hlc _ Ed)|].
    inversion Hen'; subst. lia. }
  intros b1. apply orelse_ext.
  { (* param *)
    destruct p as [|c p0]; [reflexivity|]. cbn zeta.
    rewrite (adv_param pre n Hwf).
    destruct (n_pc n) as [ch|] eqn:Epc; [|reflexivity].
    destruct (WF_pc n ch Hwf Epc) as [Hwc [Hkc Hlc]].
    rewrite (nonempty_true _ (Hlc _)).
    rewrite (leaf_den _ ch Hwc). rewrite (edge_param ch Hkc).
    assert (Hen : enough f (den_node (pre ++ [TParam]) ch)).
    { pose proof (advance_enough TParam f _ He) as H0. rewrite (adv_param pre n Hwf), Epc in H0. exact H0. }
    apply IH; [ pose proof (height_pc n ch Epc); lia | exact Hwc | | exact Hen ].
    destruct (den_node (pre ++ [TParam]) ch) eqn:Ed; [exfalso; apply (Hlc _ Ed)|]. inversion Hen; subst. lia. }
  intros b2.
  rewrite (adv_any pre n Hwf).
  destruct (n_ac n) as [ch|] eqn:Eac.
  - destruct (WF_ac n ch Hwf Eac) as [Hwc [Hkc Hlc]]. rewrite (den_any_leaf _ ch Hwc Hkc). reflexivity.
  - unfold any_step. reflexivity.
Qed.
Print Assumptions find_search.
