package main

import (
	"fmt"
	"math/rand"
	"net/http"
	"net/http/httptest"
	"strings"

	"github.com/labstack/echo/v4"
	"github.com/labstack/echo/v4/middleware"
)

func init() {
	props["C11"] = &propRunner{gen: genC11, rule: "allow-lists of 1-3 entries (literals, '*', patterns with '*'/'?' in any label, scheme or port, regex metacharacters) x credentials/unsafe-wildcard flags x origins derived from the patterns as look-alikes (wildcards instantiated, labels added/removed, suffix/prefix extensions, dots replaced, '?' deleted, bare parent) x GET/POST/OPTIONS, several requests through one middleware instance; non-trivial = the origin is neither empty nor literally in the list and the list is not just '*' (a pattern decision is needed); distinct by (list, flags, origin, method)"}
}

// the property's reading of a pattern: '*' any run, '?' one character, whole string
func c11Glob(p, s string) bool {
	if p == "" {
		return s == ""
	}
	if p[0] == '*' {
		for i := 0; i <= len(s); i++ {
			if c11Glob(p[1:], s[i:]) {
				return true
			}
		}
		return false
	}
	if s == "" {
		return false
	}
	if p[0] == '?' || p[0] == s[0] {
		return c11Glob(p[1:], s[1:])
	}
	return false
}

func genC11(rng *rand.Rand, n int, emit func(Case), dist map[string]int) {
	pats := []string{"*", "https://example.com", "http://localhost:8080", "https://*.example.com", "https://*.example.com:8443",
		"https://a.*.example.com", "https://*.example.*", "http?://example.com", "https://example.co?", "https://app?.example.com",
		"https://*.example.com:808?", "http*://example.com", "https://ex+ample.com", "https://(a).example.com", "https://a.b.example.com",
		"https://*.*.example.com", "https://api-*.example.com", "https://*", "*://example.com", "https://[::1]:*", "https://exa$mple.com",
		"https://*.example.com.", "https://*example.com", "https://x.*", "null", "https://sub.*.example.com:*"}
	labels := []string{"a", "b", "evil", "x", "www", "api-1", "a.b", "", "example", "com", "evil.com", "attacker.example", "1"}
	for it := 0; it < n; {
		var list []string
		for k := 1 + rng.Intn(3); k > 0; k-- {
			list = append(list, pats[rng.Intn(len(pats))])
		}
		if rng.Intn(12) == 0 {
			list = nil
		}
		creds := rng.Intn(2) == 0
		unsafe := rng.Intn(3) == 0
		ccfg := middleware.CORSConfig{AllowOrigins: list, AllowCredentials: creds, UnsafeWildcardOriginWithAllowCredentials: unsafe}
		useFunc := rng.Intn(6) == 0
		fnAllows := func(o string) bool { return strings.Contains(o, "example.com") && !strings.Contains(o, "evil") }
		if useFunc {
			// the allow-list as a function: it alone decides (the AllowOrigins list is then not consulted)
			ccfg.AllowOriginFunc = func(o string) (bool, error) { return fnAllows(o), nil }
			dist["instances_with_allow_origin_func"]++
		}
		mw := middleware.CORSWithConfig(ccfg)
		if !useFunc && len(list) == 0 && !creds && !unsafe && rng.Intn(2) == 0 {
			mw = middleware.CORS() // the short constructor: the default configuration allows every origin
		}
		e := echo.New()
		ran := false
		h := mw(func(c echo.Context) error { ran = true; return c.String(200, "ok") })
		stacked := !useFunc && rng.Intn(6) == 0
		if stacked {
			// a permissive CORS instance on the server (e.Use) in front of this stricter one (on a group): the inner instance
			// still decides for itself.  Judged for non-preflight requests (the outer one answers preflights by itself).
			inner := h
			h = middleware.CORS()(inner)
			dist["instances_behind_a_permissive_outer_cors"]++
		}
		eff := list
		if len(eff) == 0 {
			eff = []string{"*"}
		}
		var usedOrigins []string
		for q := 0; q < 6 && it < n; q++ {
			it++
			// origin: derived from a pattern of the list (look-alike) or unrelated
			base := eff[rng.Intn(len(eff))]
			if base == "*" || rng.Intn(5) == 0 {
				base = pats[1+rng.Intn(len(pats)-1)]
			}
			inst := func(p string) string {
				var sb strings.Builder
				for i := 0; i < len(p); i++ {
					switch p[i] {
					case '*':
						sb.WriteString(labels[rng.Intn(len(labels))])
					case '?':
						sb.WriteByte("sx1."[rng.Intn(4)])
					default:
						sb.WriteByte(p[i])
					}
				}
				return sb.String()
			}
			origin := inst(base)
			switch rng.Intn(18) {
			case 12, 13:
				// letter case changed in the HOST only (scheme kept): the whole host, or one label
				if i := strings.Index(origin, "://"); i >= 0 {
					host := origin[i+3:]
					if rng.Intn(2) == 0 {
						host = strings.ToUpper(host)
					} else {
						ls := strings.Split(host, ".")
						k := rng.Intn(len(ls))
						ls[k] = strings.ToUpper(ls[k])
						host = strings.Join(ls, ".")
					}
					origin = origin[:i+3] + host
					dist["origin_host_case_changed"]++
				}
			case 14:
				// characters that only FOLD to the configured ones (Kelvin sign, long s)
				// (not against a list with a `?` pattern: echo's `?` is one CHARACTER - regexp `.` -, the model's one byte; they agree on
				// ASCII origins only, see DESIGN 9.4)
				hasQM := false
				for _, p := range eff {
					hasQM = hasQM || strings.Contains(p, "?")
				}
				if i := strings.Index(origin, "://"); i >= 0 && !hasQM {
					host := strings.NewReplacer("k", "\u212a", "s", "\u017f").Replace(origin[i+3:])
					origin = origin[:i+3] + host
					dist["origin_host_unicode_fold"]++
				}
			case 0:
				origin += ".evil.com"
			case 1:
				origin = strings.Replace(origin, "://", "://evil.", 1)
			case 2:
				origin = strings.Replace(origin, ".", "x", 1)
			case 3:
				origin = strings.Replace(inst(strings.Replace(base, "*.", "", 1)), "?", "", -1) // bare parent
			case 4:
				origin = inst(strings.Replace(base, "?", "", 1)) // '?' position missing
			case 5:
				origin = base // pattern text itself
			case 6:
				origin = ""
			case 7:
				origin = strings.Replace(origin, "https://", "http://", 1)
			case 8:
				origin = strings.ToUpper(origin)
			case 9:
				origin = origin + ":8443"
			case 10:
				origin = "https://" + strings.Repeat("a.", 130) + "example.com" // long host
			case 11:
				origin = strings.Replace(origin, "://", ":", 1)
			}
			if len(usedOrigins) > 0 && rng.Intn(3) == 0 {
				// the same origin again through the same middleware instance: the answer must not depend on history
				origin = usedOrigins[rng.Intn(len(usedOrigins))]
				dist["repeated_origin_on_one_instance"]++
			}
			usedOrigins = append(usedOrigins, origin)
			list, eff := list, eff
			if useFunc {
				// for the reference and the model the function is the one-element list it stands for
				list = []string{"https://never.invalid"}
				if fnAllows(origin) {
					list = []string{origin}
				}
				eff = list
			}
			method := []string{http.MethodGet, http.MethodPost, http.MethodOptions, http.MethodOptions}[rng.Intn(4)]
			if stacked && method == http.MethodOptions {
				method = http.MethodGet
			}
			req := httptest.NewRequest(method, "/", nil)
			if origin != "" || rng.Intn(2) == 0 {
				req.Header.Set(echo.HeaderOrigin, origin)
			}
			rec := httptest.NewRecorder()
			c := recycledContext(e, req, rec)
			ran = false
			err := h(c)
			status := 0
			if err != nil {
				if he, ok := err.(*echo.HTTPError); ok {
					status = he.Code
				} else {
					status = 500
				}
			} else if !ran {
				status = rec.Code
			}
			acaoVals := rec.Header()[echo.HeaderAccessControlAllowOrigin]
			acao, hasACAO := "", len(acaoVals) > 0
			if hasACAO {
				acao = acaoVals[0]
			}
			acac := len(rec.Header()[echo.HeaderAccessControlAllowCredentials]) > 0
			if stacked && !ran && status == http.StatusUnauthorized {
				// the inner instance refused: the Allow-Origin on the response is the OUTER instance's, not its decision
				acao, hasACAO = "", false
			}
			preflight := method == http.MethodOptions
			// ---- the property, evaluated on the implementation's response alone
			ok, why := true, ""
			allowed := false
			for _, p := range eff {
				if p == "*" || p == origin || c11Glob(p, origin) {
					allowed = true
				}
			}
			if hasACAO {
				starOK := acao == "*"
				if starOK {
					found := false
					for _, p := range eff {
						found = found || p == "*"
					}
					starOK = found
				}
				if !(starOK || (acao == origin && allowed)) {
					ok, why = false, fmt.Sprintf("Access-Control-Allow-Origin %q emitted for Origin %q which allow-list %q does not allow", acao, origin, eff)
				}
			}
			if acac && (!hasACAO || !creds) {
				ok, why = false, "Access-Control-Allow-Credentials without an allowed origin or while disabled"
			}
			if !preflight && origin != "" && !allowed && ran {
				ok, why = false, fmt.Sprintf("non-preflight request from disallowed origin %q reached the handler", origin)
			}
			if preflight && (ran || status != 204) {
				ok, why = false, fmt.Sprintf("preflight answered %d, handler ran=%v", status, ran)
			}
			in := L(LS(list), B(creds), B(unsafe), B(preflight), S(origin))
			cs := Case{In: in, Out: L(B(hasACAO), S(acao), B(acac), I(status), B(ran)), Ok: ok, Why: why,
				Human: fmt.Sprintf("AllowOrigins=%q credentials=%v unsafeWildcard=%v %s Origin=%q -> ACAO=%q(present=%v) ACAC=%v status=%d handler-ran=%v", list, creds, unsafe, method, origin, acao, hasACAO, acac, status, ran)}
			lit := false
			onlyStar := true
			for _, p := range eff {
				lit = lit || p == origin
				onlyStar = onlyStar && p == "*"
			}
			if origin != "" && !lit && !onlyStar {
				cs.Key = Show(in)
			}
			dist["method_"+method]++
			if hasACAO {
				dist["acao_emitted"]++
			}
			emit(cs)
		}
	}
}
