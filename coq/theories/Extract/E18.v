From Coq Require Extraction.
From Coq Require Import ExtrOcamlBasic.
From Echo Require Import Glue.G18.
Extraction "extracted/m18.ml" G18.run_sx.
