(* Model of echo.Response (response.go) and of the context helpers that drive it
   (context.go: JSON/String/Blob/NoContent/Redirect/Stream) over a net/http ResponseWriter. (C06) *)
From Coq Require Import List ZArith Bool.
Import ListNotations.
Open Scope Z_scope.

(* underlying writer obeying the net/http contract: the first WriteHeader wins; Write/Flush
   without a header send an implicit 200 *)
Record wire := { w_status : option Z; w_bytes : Z; w_hdr_calls : nat }.
Definition wire0 : wire := {| w_status := None; w_bytes := 0; w_hdr_calls := 0 |}.
Definition w_header (w : wire) (c : Z) : wire :=
  {| w_status := match w_status w with Some s => Some s | None => Some c end;
     w_bytes := w_bytes w; w_hdr_calls := S (w_hdr_calls w) |}.
Definition w_implicit (w : wire) : wire :=
  match w_status w with
  | Some _ => w
  | None => {| w_status := Some 200; w_bytes := w_bytes w; w_hdr_calls := w_hdr_calls w |}
  end.
Definition w_write (w : wire) (k : Z) : wire :=
  let w' := w_implicit w in
  {| w_status := w_status w'; w_bytes := w_bytes w' + k; w_hdr_calls := w_hdr_calls w' |}.
Definition w_flush (w : wire) : wire := w_implicit w.

(* what hooks and the writer see, in order.  A before-hook records the Committed flag and
   whether a status line is already on the wire at the moment it runs. *)
Inductive ev :=
| EvBefore (h : nat) (seen_committed seen_wire : bool)
| EvHeader (c : Z)
| EvBody (k : Z)
| EvAfter (h : nat).

Record resp := { status : Z; size : Z; committed : bool; before : list nat; after : list nat;
                 wr : wire; log : list ev }.
Definition resp_init (s0 : Z) : resp :=
  {| status := s0; size := 0; committed := false; before := []; after := []; wr := wire0; log := [] |}.

Definition is_some {A} (o : option A) : bool := match o with Some _ => true | None => false end.

(* Response.WriteHeader *)
Definition write_header (r : resp) (c : Z) : resp :=
  if committed r then r
  else {| status := c; size := size r; committed := true; before := before r; after := after r;
          wr := w_header (wr r) c;
          log := log r ++ map (fun h => EvBefore h (committed r) (is_some (w_status (wr r)))) (before r)
                       ++ [EvHeader c] |}.

Definition commit_if_needed (r : resp) : resp :=
  if committed r then r else write_header r (if status r =? 0 then 200 else status r).

(* Response.Write of n bytes of which the underlying writer accepts k (k < n: it reports an error) *)
Definition write (r : resp) (k : Z) : resp :=
  let r1 := commit_if_needed r in
  {| status := status r1; size := size r1 + k; committed := committed r1; before := before r1;
     after := after r1; wr := w_write (wr r1) k;
     log := log r1 ++ [EvBody k] ++ map EvAfter (after r1) |}.

(* Response.Flush: commits first *)
Definition flush (r : resp) : resp :=
  let r1 := commit_if_needed r in
  {| status := status r1; size := size r1; committed := committed r1; before := before r1;
     after := after r1; wr := w_flush (wr r1); log := log r1 |}.

(* context.json: presets Status only while uncommitted *)
Definition preset (r : resp) (c : Z) : resp :=
  if committed r then r
  else {| status := c; size := size r; committed := false; before := before r; after := after r;
          wr := wr r; log := log r |}.

Inductive op :=
| WriteHeader (c : Z) | Write (k : Z) | Flush | Before (h : nat) | After (h : nat)
| JSON (c k : Z)            (* c.JSON / JSONPretty: one serializer write *)
| Blob (c k : Z)            (* c.String / Blob / HTML / JSONBlob / Stream: WriteHeader(c); Write *)
| NoContent (c : Z)
| Redirect (c : Z).         (* valid codes 300..308, otherwise an error and no effect *)

Definition step (r : resp) (o : op) : resp :=
  match o with
  | WriteHeader c => write_header r c
  | Write k => write r k
  | Flush => flush r
  | Before h => {| status := status r; size := size r; committed := committed r;
                   before := before r ++ [h]; after := after r; wr := wr r; log := log r |}
  | After h => {| status := status r; size := size r; committed := committed r;
                  before := before r; after := after r ++ [h]; wr := wr r; log := log r |}
  | JSON c k => write (preset r c) k
  | Blob c k => write (write_header r c) k
  | NoContent c => write_header r c
  | Redirect c => if (c <? 300) || (308 <? c) then r else write_header r c
  end.

Definition run_from (r : resp) (ops : list op) : resp := fold_left step ops r.
Definition run (s0 : Z) (ops : list op) : resp := run_from (resp_init s0) ops.

(* states after every step, for the correspondence check *)
Fixpoint trace (r : resp) (ops : list op) : list resp :=
  match ops with [] => [] | o :: t => let r' := step r o in r' :: trace r' t end.

Definition op_ok (o : op) : Prop :=
  match o with Write k | JSON _ k | Blob _ k => 0 <= k | _ => True end.
