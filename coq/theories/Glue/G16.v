From Coq Require Import List ZArith Bool.
From Echo Require Import Base.Sx Mw.PathClean.
Import ListNotations.
(* input: (0 p) path.Clean | (1 root p) Static middleware name | (2 p) StaticDirectoryHandler name | (3 a b) path.Join
   output: #string | (1 #name) / (0 #) for (2) *)
Definition run_sx (x : sx) : sx :=
  match as_Z (nth_sx 0 x) with
  | 0%Z => SS (clean (as_str (nth_sx 1 x)))
  | 1%Z => SS (mw_name (as_str (nth_sx 1 x)) (as_str (nth_sx 2 x)))
  | 2%Z => SL [of_bool (valid_path (route_name (as_str (nth_sx 1 x)))); SS (route_name (as_str (nth_sx 1 x)))]
  | _ => SS (join2 (as_str (nth_sx 1 x)) (as_str (nth_sx 2 x)))
  end.
