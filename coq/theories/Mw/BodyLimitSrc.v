(* The statement-level translation of limitedReader.Read / Reset (Gen/Src_bodylimit_fn.v, regenerated from
   middleware/body_limit.go on every run) computes exactly the model's [rd] / [reset].  (C14) *)
From Coq Require Import List ZArith Bool String Lia.
From Echo Require Import Base.GoLite Gen.Src_bodylimit Gen.Src_bodylimit_fn Mw.BodyLimit.
Import ListNotations.
Open Scope Z_scope.

Section Src.
Variable sym : string -> Z.
Let e413 := sym "echo.ErrStatusRequestEntityTooLarge".

(* one Read: the wrapped reader answers (n, e); the counter was cnt *)
Definition read_state (cnt L n e : Z) (rest : env) : state :=
  {| locals := []; fields := ("r.read", cnt) :: ("r.limit", L) :: rest; events := []; inputs := [[n; e]] |}.

Theorem src_read_is_rd cnt L n e rest :
  let '(st', ret) := run sym src_limited_read_results src_limited_read (read_state cnt L n e rest) in
  get (fields st') "r.read" = cnt + n /\
  get (fields st') "r.limit" = L /\
  ret = [n; if read_over (cnt + n) L then e413 else e] /\
  events st' = [("r.reader.Read", [0])].
Proof.
  unfold run, src_limited_read, src_limited_read_results, read_state, read_over.
  golite_cases; repeat split; try reflexivity; try lia.
Qed.

Theorem src_reset_is_reset cnt L rest :
  let st := {| locals := [("reader", 0)]; fields := ("r.read", cnt) :: ("r.limit", L) :: rest; events := []; inputs := [] |} in
  let '(st', _) := run sym src_limited_reset_results src_limited_reset st in
  get (fields st') "r.read" = reset_count cnt /\ get (fields st') "r.limit" = L.
Proof.
  unfold run, src_limited_reset, src_limited_reset_results, reset_count.
  golite_cases; repeat split; try reflexivity; try lia.
Qed.
End Src.
