From Coq Require Import List Arith Bool Lia.
From Echo Require Import Mw.Gzip.
Import ListNotations.

(* the state after a prefix of the program that wrote [written] so far, first status [st] *)
Definition Inv (g : grw) (written : bytes) (st : option nat) : Prop :=
  (committed g = false -> st = None /\ wrote_header g = false /\ exceeded g = false /\ written = [] /\ wrote_body g = false) /\
  (committed g = true -> st = Some (code g) /\ wrote_header g = true /\ h_cl g = false) /\
  (exceeded g = false -> out g = wire0 /\ buffer g = written /\ h_ce g = false /\ (wrote_body g = false -> written = [])) /\
  (exceeded g = true ->
     w_status (out g) = Some (code g) /\ w_ce (out g) = true /\ w_cl (out g) = false /\ w_plain (out g) = [] /\
     w_gz (out g) = written /\ w_gz_open (out g) = true /\ w_gz_closed (out g) = false /\ h_ce g = true).

Lemma Inv0 pooled cl : Inv (grw0 pooled cl) [] None.
Proof. unfold Inv, grw0. simpl. repeat split; intros; try discriminate; auto. Qed.

Definition first_status (st : option nat) (c : nat) : option nat := match st with Some s => Some s | None => Some c end.

Lemma Inv_commit g written st c : Inv g written st -> Inv (commit g c) written (first_status st c) /\ committed (commit g c) = true.
Proof.
  intros [H1 [H2 [H3 H4]]]. unfold commit. destruct (committed g) eqn:Ec.
  - destruct (H2 eq_refl) as [-> R]. split; [|exact Ec]. unfold Inv. rewrite Ec. simpl. tauto.
  - destruct (H1 eq_refl) as [-> [Hw [He [-> Hb]]]]. destruct (H3 He) as [Ho [Hbuf [Hce _]]].
    split; [|reflexivity]. unfold Inv, g_write_header. simpl. rewrite He.
    repeat split; intros; try discriminate; auto.
Qed.

Lemma start_gzip_spec g written : committed g = true -> wrote_header g = true -> h_cl g = false ->
  out g = wire0 -> buffer g = written ->
  let g' := start_gzip g in
  exceeded g' = true /\ committed g' = true /\ wrote_header g' = true /\ code g' = code g /\ h_cl g' = false /\
  wrote_body g' = wrote_body g /\
  w_status (out g') = Some (code g) /\ w_ce (out g') = true /\ w_cl (out g') = false /\ w_plain (out g') = [] /\
  w_gz (out g') = written /\ w_gz_open (out g') = true /\ w_gz_closed (out g') = false /\ h_ce g' = true.
Proof.
  intros Hc Hw Hcl Ho Hb. unfold start_gzip. cbn [wrote_header]. rewrite Hw.
  unfold gz_write, implicit, upd_out, send_header. cbn. rewrite Ho. cbn. rewrite Hb, Hcl. repeat split; auto.
Qed.

Lemma Inv_write minlen g written st b : Inv g written st -> committed g = true ->
  Inv (fst (g_write minlen g b)) (written ++ b) st /\ snd (g_write minlen g b) = List.length b /\
  committed (fst (g_write minlen g b)) = true.
Proof.
  intros [H1 [H2 [H3 H4]]] Hc. destruct (H2 Hc) as [Hst [Hw Hcl]]. unfold g_write. cbn [exceeded].
  destruct (exceeded g) eqn:Ee.
  - destruct (H4 eq_refl) as [A1 [A2 [A3 [A4 [A5 [A6 [A7 A8]]]]]]].
    cbn [fst snd]. split; [|split; [reflexivity|]].
    + unfold Inv, gz_write, implicit, upd_out, send_header. cbn. rewrite A1. cbn. rewrite ?Ee, ?Hc.
      repeat split; intros; try discriminate; auto. rewrite A5. reflexivity.
    + unfold gz_write, implicit, upd_out. cbn. exact Hc.
  - destruct (H3 eq_refl) as [Ho [Hbuf [Hce Hwb]]]. cbn [buffer wrote_header wrote_body code h_ce h_cl committed out].
    destruct (Nat.leb minlen (List.length (buffer g ++ b))) eqn:El; cbn [fst snd].
    + split; [|split; [reflexivity|]].
      * pose proof (start_gzip_spec
          {| wrote_header := wrote_header g; wrote_body := true; exceeded := false; code := code g; buffer := buffer g ++ b;
             h_ce := h_ce g; h_cl := h_cl g; committed := committed g; out := out g |} (written ++ b)) as S.
        cbn [committed wrote_header h_cl out buffer code wrote_body] in S.
        specialize (S Hc Hw Hcl Ho ltac:(rewrite Hbuf; reflexivity)). cbv zeta in S.
        destruct S as [S1 [S2 [S3 [S4 [S5 [S6 [S7 [S8 [S9 [S10 [S11 [S12 [S13 S14]]]]]]]]]]]]].
        unfold Inv. rewrite ?S1, ?S2. repeat split; intros; try discriminate; auto; try (rewrite S4; auto).
      * pose proof (start_gzip_spec
          {| wrote_header := wrote_header g; wrote_body := true; exceeded := false; code := code g; buffer := buffer g ++ b;
             h_ce := h_ce g; h_cl := h_cl g; committed := committed g; out := out g |} (written ++ b)) as S.
        cbn [committed wrote_header h_cl out buffer code wrote_body] in S.
        specialize (S Hc Hw Hcl Ho ltac:(rewrite Hbuf; reflexivity)). cbv zeta in S. tauto.
    + split; [|split; [reflexivity|exact Hc]].
      unfold Inv. cbn. rewrite ?Hc. repeat split; intros; try discriminate; auto. rewrite Hbuf. reflexivity.
Qed.

Lemma Inv_flush g written st : Inv g written st -> committed g = true ->
  Inv (g_flush g) written st /\ committed (g_flush g) = true.
Proof.
  intros [H1 [H2 [H3 H4]]] Hc. destruct (H2 Hc) as [Hst [Hw Hcl]]. unfold g_flush.
  destruct (exceeded g) eqn:Ee.
  - destruct (H4 eq_refl) as [A1 [A2 [A3 [A4 [A5 [A6 [A7 A8]]]]]]].
    unfold implicit, upd_out, send_header. rewrite A1. cbn. split; [|exact Hc].
    unfold Inv. cbn. rewrite ?Ee, ?Hc. repeat split; intros; try discriminate; auto.
  - destruct (H3 eq_refl) as [Ho [Hbuf [Hce Hwb]]].
    pose proof (start_gzip_spec g written Hc Hw Hcl Ho Hbuf) as S. cbv zeta in S.
    remember (start_gzip g) as g' eqn:Eg. clear Eg.
    destruct S as [S1 [S2 [S3 [S4 [S5 [S6 [S7 [S8 [S9 [S10 [S11 [S12 [S13 S14]]]]]]]]]]]]].
    assert (Ei : implicit g' = upd_out g' (out g')).
    { unfold implicit, send_header. rewrite S7. reflexivity. }
    rewrite Ei. split; [|exact S2].
    unfold Inv, upd_out. cbn [committed wrote_header exceeded wrote_body code buffer h_ce h_cl out].
    rewrite S1, S2. repeat split; intros; try discriminate; auto; try (rewrite S4; auto).
Qed.

Definition op_payload (o : op) : bytes := match o with Write b => b | _ => [] end.
Definition op_status (o : op) : nat := match o with WriteHeader c => c | _ => 200 end.
Definition op_count (o : op) : nat := match o with Write b => List.length b | _ => 0 end.

Lemma Inv_step minlen g written st o : Inv g written st ->
  Inv (fst (step minlen g o)) (written ++ op_payload o) (first_status st (op_status o)) /\
  snd (step minlen g o) = op_count o.
Proof.
  intro HI. destruct o as [c|b|]; cbn [step op_payload op_status op_count fst snd].
  - rewrite app_nil_r. split; [apply Inv_commit; exact HI|reflexivity].
  - destruct (Inv_commit g written st 200 HI) as [HI' Hc].
    destruct (Inv_write minlen _ _ _ b HI' Hc) as [A [B _]]. split; assumption.
  - rewrite app_nil_r. destruct (Inv_commit g written st 200 HI) as [HI' Hc].
    destruct (Inv_flush _ _ _ HI' Hc) as [A _]. split; [exact A|reflexivity].
Qed.

Lemma first_status_chosen : forall ops st, fold_left (fun s o => first_status s (op_status o)) ops st =
  match st with Some s => Some s | None => chosen_status ops end.
Proof.
  induction ops as [|o r IH]; intro st; [destruct st; reflexivity|]. cbn [fold_left]. rewrite IH.
  destruct st as [s|]; [reflexivity|]. destruct o; reflexivity.
Qed.

Lemma Inv_run minlen : forall ops g written st, Inv g written st ->
  Inv (fst (run minlen g ops)) (written ++ payload ops) (fold_left (fun s o => first_status s (op_status o)) ops st) /\
  snd (run minlen g ops) = map op_count ops.
Proof.
  induction ops as [|o r IH]; intros g written st HI.
  - simpl. rewrite app_nil_r. split; [exact HI|reflexivity].
  - cbn [run]. destruct (step minlen g o) as [g1 n] eqn:Es.
    destruct (Inv_step minlen g written st o HI) as [H1 H2]. rewrite Es in H1, H2. cbn [fst snd] in H1, H2.
    destruct (run minlen g1 r) as [g2 ns] eqn:Er.
    destruct (IH g1 _ _ H1) as [H3 H4]. rewrite Er in H3, H4. cbn [fst snd] in *.
    split.
    + cbn [fold_left]. replace (written ++ payload (o :: r)) with ((written ++ op_payload o) ++ payload r); [exact H3|].
      rewrite <- app_assoc. destruct o; reflexivity.
    + cbn [map]. rewrite H2, H4. reflexivity.
Qed.

(* transparency, for every program, threshold, pooled buffer content and Content-Length state *)
Theorem roundtrip minlen pooled cl ops :
  let '(w, ns) := request minlen pooled cl ops in
  decode w = Some (payload ops) /\ w_status w = chosen_status ops /\
  (w_ce w = true <-> w_gz_open w = true) /\ (w_ce w = true -> w_cl w = false) /\
  ns = map op_count ops.
Proof.
  unfold request. destruct (run minlen (grw0 pooled cl) ops) as [g ns] eqn:Er.
  destruct (Inv_run minlen ops (grw0 pooled cl) [] None (Inv0 pooled cl)) as [HI Hn].
  rewrite Er in HI, Hn. cbn [fst snd app] in HI, Hn. rewrite first_status_chosen in HI.
  destruct HI as [H1 [H2 [H3 H4]]]. split; [|split; [|split; [|split; [|exact Hn]]]]; unfold finish.
  - destruct (exceeded g) eqn:Ee.
    + destruct (H4 eq_refl) as [A1 [A2 [A3 [A4 [A5 [A6 [A7 A8]]]]]]].
      rewrite andb_false_r. cbn [negb]. unfold implicit, upd_out, send_header. rewrite A1. cbn.
      unfold decode. cbn. rewrite A2, A4, A5. reflexivity.
    + destruct (H3 eq_refl) as [Ho [Hb [Hce Hwb]]]. destruct (wrote_body g) eqn:Ewb; cbn [negb andb].
      * destruct (committed g) eqn:Ec; [|destruct (H1 eq_refl) as [_ [_ [_ [_ F]]]]; discriminate].
        destruct (H2 eq_refl) as [_ [Hw Hcl]]. rewrite Hw.
        unfold implicit, upd_out, send_header. cbn. rewrite Ho. cbn. unfold decode. cbn. rewrite Hce, Hb. reflexivity.
      * rewrite (Hwb eq_refl). destruct (wrote_header g); cbn [wrote_header code out];
          unfold send_header; cbn; rewrite Ho; cbn; unfold decode; cbn; reflexivity.
  - destruct (exceeded g) eqn:Ee.
    + destruct (H4 eq_refl) as [A1 _]. rewrite andb_false_r. cbn [negb]. unfold implicit, upd_out, send_header. rewrite A1. cbn.
      destruct (committed g) eqn:Ec; [destruct (H2 eq_refl) as [Hs _]; rewrite ?A1; symmetry; exact Hs|destruct (H1 eq_refl) as [_ [_ [F _]]]; discriminate].
    + destruct (H3 eq_refl) as [Ho [Hb [Hce Hwb]]].
      destruct (committed g) eqn:Ec.
      * destruct (H2 eq_refl) as [Hs [Hw Hcl]]. rewrite Hw.
        destruct (wrote_body g); cbn [negb andb wrote_header code out]; unfold implicit, upd_out, send_header; cbn; rewrite Ho; cbn; symmetry; exact Hs.
      * destruct (H1 eq_refl) as [Hs [Hw [_ [_ Hwb']]]]. rewrite Hwb', Hw. cbn. rewrite Ho. cbn. symmetry; exact Hs.
  - destruct (exceeded g) eqn:Ee.
    + destruct (H4 eq_refl) as [A1 [A2 _]]. rewrite andb_false_r. cbn [negb]. unfold implicit, upd_out, send_header. rewrite A1. cbn.
      rewrite A2. tauto.
    + destruct (H3 eq_refl) as [Ho [Hb [Hce Hwb]]].
      destruct (wrote_body g); cbn [negb andb]; destruct (wrote_header g); cbn [wrote_header code out];
        unfold implicit, upd_out, send_header; cbn; rewrite ?Ho; cbn; rewrite ?Hce; split; intro; discriminate.
  - destruct (exceeded g) eqn:Ee.
    + destruct (H4 eq_refl) as [A1 [A2 [A3 _]]]. rewrite andb_false_r. cbn [negb]. unfold implicit, upd_out, send_header. rewrite A1. cbn.
      intros _. exact A3.
    + destruct (H3 eq_refl) as [Ho [Hb [Hce Hwb]]].
      destruct (wrote_body g); cbn [negb andb]; destruct (wrote_header g); cbn [wrote_header code out];
        unfold implicit, upd_out, send_header; cbn; rewrite ?Ho; cbn; rewrite ?Hce; intro; discriminate.
Qed.

(* recycled buffers never leak bytes: the response does not depend on what the pooled buffer held *)
Theorem pool_clean minlen p1 p2 cl ops : request minlen p1 cl ops = request minlen p2 cl ops.
Proof. reflexivity. Qed.

(* ---------- Decompress *)
Lemma decompress_untouched sent gunzip : decompress false sent gunzip = Some sent.
Proof. reflexivity. Qed.
Lemma decompress_gzip sent gunzip : sent <> [] -> decompress true sent gunzip = gunzip sent.
Proof. intro H. unfold decompress. destruct sent; [congruence|reflexivity]. Qed.

