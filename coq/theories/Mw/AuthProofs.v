From Coq Require Import List Bool Ascii String Arith NArith Lia.
From Echo Require Import Base.Sx Mw.Auth.
Import ListNotations.
Open Scope char_scope.

Definition no_colon (u : str) : bool := forallb (fun c => negb (Ascii.eqb c ":")) u.

Lemma split_colon_some : forall s u p, split_colon s = Some (u, p) -> s = u ++ ":" :: p /\ no_colon u = true.
Proof.
  induction s as [|c r IH]; intros u p H; simpl in H; [discriminate|].
  destruct (Ascii.eqb c ":") eqn:E.
  - apply Ascii.eqb_eq in E. subst c. inversion H; subst. split; reflexivity.
  - destruct (split_colon r) as [[u' p']|] eqn:Er; [|discriminate]. inversion H; subst.
    destruct (IH u' p eq_refl) as [-> Hn]. split; [reflexivity|]. simpl. rewrite E. exact Hn.
Qed.

Lemma split_colon_first : forall u p, no_colon u = true -> split_colon (u ++ ":" :: p) = Some (u, p).
Proof.
  induction u as [|c r IH]; intros p H; simpl; [reflexivity|].
  simpl in H. apply andb_true_iff in H as [Hc Hr]. apply negb_true_iff in Hc. rewrite Hc.
  rewrite (IH p Hr). reflexivity.
Qed.

Lemma split_colon_none : forall s, split_colon s = None -> no_colon s = true.
Proof. induction s as [|c r IH]; intro H; simpl in *; [reflexivity|].
  destruct (Ascii.eqb c ":"); [discriminate|]. destruct (split_colon r) as [[? ?]|]; [discriminate|].
  simpl. apply IH. reflexivity. Qed.

Section Basic.
Variable decode : str -> option str.
Variable validator : str -> str -> vres.
Notation basic_auth := (basic_auth decode validator).

(* the handler runs only if the header decodes to u:p split at the FIRST colon and the validator said yes *)
Theorem basic_sound auth : fst (basic_auth auth) = Ran ->
  exists u p, decode (skipn 6 auth) = Some (u ++ ":" :: p) /\ no_colon u = true /\ validator u p = VTrue /\
              eq_fold (firstn 5 auth) basic_lit = true /\ 6 < List.length auth.
Proof.
  unfold Auth.basic_auth. destruct (Nat.ltb 6 (List.length auth) && eq_fold (firstn 5 auth) basic_lit) eqn:G; [|discriminate].
  apply andb_true_iff in G as [G1 G2]. apply Nat.ltb_lt in G1.
  destruct (decode (skipn 6 auth)) as [cred|] eqn:Ed; [|discriminate].
  destruct (split_colon cred) as [[u p]|] eqn:Es; [|discriminate].
  destruct (validator u p) eqn:Ev; try discriminate. intros _.
  destruct (split_colon_some _ _ _ Es) as [-> Hn]. exists u, p. auto.
Qed.

(* well-formed credentials the validator accepts always reach the handler *)
Theorem basic_complete auth u p : 6 < List.length auth -> eq_fold (firstn 5 auth) basic_lit = true ->
  decode (skipn 6 auth) = Some (u ++ ":" :: p) -> no_colon u = true -> validator u p = VTrue ->
  fst (basic_auth auth) = Ran.
Proof.
  intros Hl Hf Hd Hn Hv. unfold Auth.basic_auth. apply Nat.ltb_lt in Hl. rewrite Hl, Hf. cbn [andb].
  rewrite Hd, (split_colon_first u p Hn), Hv. reflexivity.
Qed.

(* the validator is consulted at most once, with the first-colon split; never on undecodable input *)
Theorem basic_calls auth : match snd (basic_auth auth) with
  | [] => True
  | [(u, p)] => exists cred, decode (skipn 6 auth) = Some cred /\ split_colon cred = Some (u, p)
  | _ => False end.
Proof.
  unfold Auth.basic_auth. destruct (_ && _); [|exact I].
  destruct (decode (skipn 6 auth)) as [cred|]; [|exact I].
  destruct (split_colon cred) as [[u p]|] eqn:Es; [|exact I].
  destruct (validator u p); simpl; eauto.
Qed.

(* rejected or erroring credentials never reach the handler *)
Theorem basic_blocks auth u p cred : decode (skipn 6 auth) = Some cred -> split_colon cred = Some (u, p) ->
  validator u p <> VTrue -> fst (basic_auth auth) <> Ran.
Proof.
  intros Hd Hs Hv. unfold Auth.basic_auth. destruct (_ && _); [|discriminate].
  rewrite Hd, Hs. destruct (validator u p); [congruence|discriminate|discriminate].
Qed.
End Basic.

(* ---------------- extractors: every extracted value is literally present at the location *)
Lemma header_loop_in prefix : forall vals i k, In k (header_loop prefix vals i) ->
  exists v, In v vals /\
    match prefix with
    | [] => k = v
    | _ => k = skipn (List.length prefix) v /\ eq_fold (firstn (List.length prefix) v) prefix = true
           /\ List.length prefix < List.length v
    end.
Proof.
  induction vals as [|v r IH]; intros i k H; cbn [header_loop] in H; [contradiction|].
  destruct prefix as [|p0 pr].
  - destruct H as [H|H]; [exists v; split; [left; reflexivity|congruence]|].
    destruct (Nat.leb (limit - 1) i); [contradiction|]. destruct (IH _ _ H) as [w [Hw Hk]]. exists w. split; [right; exact Hw|exact Hk].
  - destruct (Nat.ltb _ _ && eq_fold _ _) eqn:G.
    + destruct H as [H|H].
      * apply andb_true_iff in G as [G1 G2]. apply Nat.ltb_lt in G1. exists v. split; [left; reflexivity|]. repeat split; auto.
      * destruct (Nat.leb (limit - 1) i); [contradiction|]. destruct (IH _ _ H) as [w [Hw Hk]]. exists w. split; [right; exact Hw|exact Hk].
    + destruct (IH _ _ H) as [w [Hw Hk]]. exists w. split; [right; exact Hw|exact Hk].
Qed.

Lemma cookie_loop_in name : forall cs i k, In k (cookie_loop name cs i) -> In (name, k) cs.
Proof.
  induction cs as [|[n v] r IH]; intros i k H; cbn [cookie_loop] in H; [contradiction|].
  destruct (str_eqb name n) eqn:E.
  - apply str_eqb_eq in E. subst n. destruct H as [H|H]; [left; congruence|].
    destruct (Nat.leb (limit - 1) i); [contradiction|]. right. eapply IH; eassumption.
  - right. eapply IH; eassumption.
Qed.

Lemma firstn_incl {A} : forall n (l : list A) x, In x (firstn n l) -> In x l.
Proof. induction n as [|n IH]; intros l x H; simpl in H; [contradiction|]. destruct l as [|a l]; [contradiction|].
  destruct H as [H|H]; [left; exact H|right; apply IH; exact H]. Qed.

Definition present (l : lookup) (k : str) : Prop :=
  match l with
  | LHeader prefix vals => exists v, In v vals /\
      match prefix with [] => k = v
      | _ => k = skipn (List.length prefix) v /\ eq_fold (firstn (List.length prefix) v) prefix = true /\ List.length prefix < List.length v end
  | LValues vals => In k vals
  | LCookie name cs => In (name, k) cs
  end.

Theorem extract_present l keys k : extract l = inl keys -> In k keys -> present l k.
Proof.
  destruct l as [prefix vals|vals|name cs]; cbn [extract present]; intros He Hin.
  - unfold from_header in He. destruct vals as [|v0 vr]; [discriminate|].
    destruct (header_loop prefix (v0 :: vr) 0) as [|k0 kr] eqn:El; [discriminate|]. inversion He; subst keys.
    rewrite <- El in Hin. eapply header_loop_in; eassumption.
  - unfold from_values in He. destruct vals as [|v0 vr]; [discriminate|]. injection He as He. subst keys.
    exact (firstn_incl limit (v0 :: vr) k Hin).
  - unfold from_cookie in He. destruct (cookie_loop name cs 0) as [|k0 kr] eqn:El; [discriminate|].
    inversion He; subst keys. rewrite <- El in Hin. eapply cookie_loop_in; eassumption.
Qed.

(* ---------------- KeyAuth *)
Section Key.
Variable validator : str -> vres.

Lemma try_keys_ran : forall keys calls cs comp, try_keys validator keys calls = (true, comp, cs) ->
  exists k, In k keys /\ validator k = VTrue.
Proof.
  induction keys as [|k r IH]; intros calls cs comp H; simpl in H; [discriminate|].
  destruct (validator k) eqn:Ev.
  - exists k. split; [left; reflexivity|exact Ev].
  - destruct (try_keys validator r (calls ++ [k])) as [[ran c2] cs2] eqn:Er. inversion H; subst.
    destruct (IH _ _ _ Er) as [k' [Hin Hv]]. exists k'. split; [right; exact Hin|exact Hv].
  - destruct (try_keys validator r (calls ++ [k])) as [[ran c2] cs2] eqn:Er. inversion H; subst.
    destruct (IH _ _ _ Er) as [k' [Hin Hv]]. exists k'. split; [right; exact Hin|exact Hv].
Qed.

Lemma try_keys_complete : forall keys calls k, In k keys -> validator k = VTrue ->
  fst (fst (try_keys validator keys calls)) = true.
Proof.
  induction keys as [|k0 r IH]; intros calls k Hin Hv; [contradiction|]. simpl.
  destruct (validator k0) eqn:E0; [reflexivity| |];
    (destruct Hin as [->|Hin]; [congruence|]);
    specialize (IH (calls ++ [k0]) k Hin Hv);
    destruct (try_keys validator r (calls ++ [k0])) as [[ran c2] cs2]; simpl in *; exact IH.
Qed.

Theorem key_sound : forall ls comp calls, fst (key_loop validator ls comp calls) = Ran ->
  exists l keys k, In l ls /\ extract l = inl keys /\ In k keys /\ validator k = VTrue /\ present l k.
Proof.
  induction ls as [|l r IH]; intros comp calls H; simpl in H; [discriminate|].
  destruct (extract l) as [keys|e] eqn:Ee.
  - destruct (try_keys validator keys calls) as [[ran c2] cs] eqn:Et. destruct ran.
    + destruct (try_keys_ran _ _ _ _ Et) as [k [Hin Hv]]. exists l, keys, k.
      repeat split; auto; [left; reflexivity|eapply extract_present; eassumption].
    + destruct (IH _ _ H) as [l' [ks [k [Hl R]]]]. exists l', ks, k. split; [right; exact Hl|exact R].
  - destruct (IH _ _ H) as [l' [ks [k [Hl R]]]]. exists l', ks, k. split; [right; exact Hl|exact R].
Qed.

Theorem key_complete : forall ls comp calls l keys k, In l ls -> extract l = inl keys -> In k keys ->
  validator k = VTrue -> fst (key_loop validator ls comp calls) = Ran.
Proof.
  induction ls as [|l0 r IH]; intros comp calls l keys k Hl He Hin Hv; [contradiction|]. simpl.
  destruct Hl as [->|Hl].
  - rewrite He. pose proof (try_keys_complete keys calls k Hin Hv) as Ht.
    destruct (try_keys validator keys calls) as [[ran c2] cs]. simpl in Ht. subst ran. reflexivity.
  - destruct (extract l0) as [keys0|e0].
    + destruct (try_keys validator keys0 calls) as [[ran c2] cs]. destruct ran; [reflexivity|].
      eapply IH; eassumption.
    + eapply IH; eassumption.
Qed.

(* every validator call is about a value literally present at a configured location *)
Lemma try_keys_calls : forall keys calls, exists added,
  snd (try_keys validator keys calls) = calls ++ added /\ incl added keys.
Proof.
  induction keys as [|k r IH]; intros calls; simpl.
  - exists []. split; [symmetry; apply app_nil_r|intros x []].
  - destruct (validator k).
    + exists [k]. split; [reflexivity|intros x [<-|[]]; left; reflexivity].
    + destruct (IH (calls ++ [k])) as [ad [E I]]. destruct (try_keys validator r (calls ++ [k])) as [[ran c2] cs].
      simpl in *. exists (k :: ad). split; [rewrite E, <- app_assoc; reflexivity|].
      intros x [<-|Hx]; [left; reflexivity|right; apply I; exact Hx].
    + destruct (IH (calls ++ [k])) as [ad [E I]]. destruct (try_keys validator r (calls ++ [k])) as [[ran c2] cs].
      simpl in *. exists (k :: ad). split; [rewrite E, <- app_assoc; reflexivity|].
      intros x [<-|Hx]; [left; reflexivity|right; apply I; exact Hx].
Qed.
End Key.
