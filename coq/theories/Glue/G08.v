From Coq Require Import List ZArith Bool String Ascii.
From Echo Require Import Base.Sx Bind.ParseNum Bind.ValueBinder.
Import ListNotations.
Open Scope Z_scope.
(* input: (0 failfast ((0 method value dest) | (1 method (value ...) (dest ...)) ...))   value binder chain
          (1 kind value dest)                                                            struct field
          (2 value)                                                                      ParseBool
   output: (((0 z) | (1 (z ...)) | (2)) ... has_error) | (err z) | (ok b) *)
Definition to_string (s : str) : string := string_of_list_ascii s.
(* the oracle travels with the case: ((family bits text ok value) ...) - what strconv.ParseFloat / ParseBool /
   time.ParseDuration answered for the texts of this case *)
Fixpoint str_eq (a b : str) : bool :=
  match a, b with
  | [], [] => true
  | x :: a', y :: b' => Ascii.eqb x y && str_eq a' b'
  | _, _ => false
  end.
Fixpoint lookup_orc (tbl : list sx) (f b : Z) (s : str) : option Z :=
  match tbl with
  | [] => None
  | e :: r => if (as_Z (nth_sx 0 e) =? f) && (as_Z (nth_sx 1 e) =? b) && str_eq (as_str (nth_sx 2 e)) s
              then (if as_bool (nth_sx 3 e) then Some (as_Z (nth_sx 4 e)) else None)
              else lookup_orc r f b s
  end.
Definition dec_call (x : sx) : call :=
  match as_Z (nth_sx 0 x) with
  | 0 => CScalar (to_string (as_str (nth_sx 1 x))) (as_str (nth_sx 2 x)) (as_Z (nth_sx 3 x))
  | 1 => CSlice (to_string (as_str (nth_sx 1 x))) (map as_str (as_list (nth_sx 2 x))) (map as_Z (as_list (nth_sx 3 x)))
  | _ => (* BindWithDelimiter: (2 slice-method (value ...) (dest ...) delimiter) *)
         CSlice (to_string (as_str (nth_sx 1 x))) (flat_map (split (as_str (nth_sx 4 x))) (map as_str (as_list (nth_sx 2 x))))
                (map as_Z (as_list (nth_sx 3 x)))
  end.
Definition enc_dest (d : dest_val) : sx :=
  match d with DScalar z => SL [SZ 0; SZ z] | DSlice l => SL [SZ 1; SL (map SZ l)] | DUnknownMethod => SL [SZ 2] end.
Definition run_sx (x : sx) : sx :=
  match as_Z (nth_sx 0 x) with
  | 0 => let '(ds, err) := chain (lookup_orc (as_list (nth_sx 3 x))) (as_bool (nth_sx 1 x)) false (map dec_call (as_list (nth_sx 2 x))) in
         SL [SL (map enc_dest ds); of_bool err]
  | 1 => match bind_kind (lookup_orc (as_list (nth_sx 4 x))) (to_string (as_str (nth_sx 1 x))) (as_str (nth_sx 2 x)) (as_Z (nth_sx 3 x)) with
         | Some (z, err) => SL [of_bool err; SZ z]
         | None => SL [SZ (-1); SZ 0]
         end
  | _ => match parse_bool (as_str (nth_sx 1 x)) with Some b => SL [SZ 1; of_bool b] | None => SL [SZ 0; SZ 0] end
  end.
