(* Fairness of round robin: on a fixed list of n >= 2 targets, after any number k of first attempts the
   per-target counts differ by at most one. *)
From Coq Require Import List Arith Lia Bool.
From Echo Require Import Mw.Proxy Mw.ProxyProofs.
Import ListNotations.

Lemma NoDup_map_inj_in {A B} (f : A -> B) l :
  (forall x y, In x l -> In y l -> f x = f y -> x = y) -> NoDup l -> NoDup (map f l).
Proof.
  induction l as [|a l IH]; intros Hinj Hnd; [constructor|]. inversion Hnd as [|? ? Ha Hl]; subst. cbn [map]. constructor.
  - intro Hin. apply in_map_iff in Hin as [x [Hx Hxin]]. apply Ha.
    rewrite <- (Hinj x a (or_intror Hxin) (or_introl eq_refl) Hx). exact Hxin.
  - apply IH; [|exact Hl]. intros x y Hx Hy. apply Hinj; right; assumption.
Qed.

Section Fair.
Variables (n i0 : nat).
Hypothesis Hn : 2 <= n.

Definition pick (j : nat) : nat := (i0 + j) mod n.
Definition picks (k : nat) : list nat := map pick (seq 0 k).

Lemma pick_lt j : pick j < n.
Proof. unfold pick. apply Nat.mod_upper_bound. lia. Qed.

Lemma pick_period j : pick (n + j) = pick j.
Proof. unfold pick. replace (i0 + (n + j)) with (i0 + j + 1 * n) by lia. apply Nat.mod_add. lia. Qed.

Lemma pick_inj j j' : j < n -> j' < n -> pick j = pick j' -> j = j'.
Proof.
  unfold pick. intros H1 H2 E.
  pose proof (Nat.div_mod (i0 + j) n ltac:(lia)) as D1. pose proof (Nat.div_mod (i0 + j') n ltac:(lia)) as D2.
  rewrite E in D1.
  assert (Hq : (i0 + j) / n = (i0 + j') / n \/ (i0 + j) / n < (i0 + j') / n \/ (i0 + j') / n < (i0 + j) / n) by lia.
  destruct Hq as [Hq|[Hq|Hq]]; [rewrite Hq in D1; lia| |]; nia.
Qed.

Lemma map_seq_shift : forall k a, map pick (seq (n + a) k) = map pick (seq a k).
Proof. induction k as [|k IH]; intro a; [reflexivity|]. cbn [seq map]. rewrite pick_period. f_equal.
  replace (S (n + a)) with (n + S a) by lia. apply IH. Qed.

Lemma picks_split k : picks (n + k) = picks n ++ picks k.
Proof. unfold picks. rewrite seq_app, map_app. f_equal. replace (0 + n) with (n + 0) by lia. apply map_seq_shift. Qed.

Lemma picks_nodup k : k <= n -> NoDup (picks k).
Proof.
  intro Hk. unfold picks. apply NoDup_map_inj_in; [|apply seq_NoDup].
  intros x y Hx Hy E. apply in_seq in Hx, Hy. apply pick_inj; [lia|lia|exact E].
Qed.

Lemma period_count p : p < n -> count_occ Nat.eq_dec (picks n) p = 1.
Proof.
  intro Hp. apply NoDup_count_occ'; [apply picks_nodup; lia|].
  assert (Hincl : incl (seq 0 n) (picks n)).
  { apply NoDup_length_incl; [apply picks_nodup; lia| |].
    - unfold picks. rewrite map_length, !seq_length. lia.
    - intros x Hx. unfold picks in Hx. apply in_map_iff in Hx as [j [<- _]]. apply in_seq. pose proof (pick_lt j). lia. }
  apply Hincl. apply in_seq. lia.
Qed.

Lemma prefix_count k p : k <= n -> count_occ Nat.eq_dec (picks k) p <= 1.
Proof. intro Hk. pose proof (picks_nodup k Hk) as Hnd. rewrite (NoDup_count_occ Nat.eq_dec) in Hnd. apply Hnd. Qed.

Lemma counts_band : forall c r, r < n -> forall p, p < n ->
  c <= count_occ Nat.eq_dec (picks (c * n + r)) p <= c + 1.
Proof.
  induction c as [|c IH]; intros r Hr p Hp.
  - cbn [Nat.mul Nat.add]. pose proof (prefix_count r p ltac:(lia)). lia.
  - replace (S c * n + r) with (n + (c * n + r)) by lia. rewrite picks_split, count_occ_app, (period_count p Hp).
    specialize (IH r Hr p Hp). lia.
Qed.

Theorem fair k p q : p < n -> q < n ->
  count_occ Nat.eq_dec (picks k) p <= count_occ Nat.eq_dec (picks k) q + 1.
Proof.
  intros Hp Hq. pose proof (Nat.div_mod k n ltac:(lia)) as D.
  assert (Hr : k mod n < n) by (apply Nat.mod_upper_bound; lia).
  replace k with ((k / n) * n + k mod n) by lia.
  pose proof (counts_band (k / n) (k mod n) Hr p Hp). pose proof (counts_band (k / n) (k mod n) Hr q Hq). lia.
Qed.
End Fair.

(* on the balancer: k first attempts over a fixed list of n >= 2 targets *)
Theorem round_robin_fair T (s : st T) n k p q : length (targets T s) = n -> 2 <= n -> idx T s <= n -> p < n -> q < n ->
  count_occ Nat.eq_dec (firsts T s k) p <= count_occ Nat.eq_dec (firsts T s k) q + 1.
Proof.
  intros Hl Hn Hi Hp Hq. rewrite (firsts_cyclic T k s n Hl Hn Hi). apply (fair n (idx T s) Hn k p q Hp Hq).
Qed.
