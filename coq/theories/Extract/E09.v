From Coq Require Extraction.
From Coq Require Import ExtrOcamlBasic.
From Echo Require Import Glue.G09.
Extraction "extracted/m09.ml" G09.run_sx.
