(* Model of the three IP extractors of ip.go and of Context.RealIP with an extractor configured. (C10) *)
From Coq Require Import List Bool Ascii String NArith.
From Echo Require Import Base.Sx Net.IP.
Import ListNotations.
Open Scope char_scope.

(* ---------- string glue of ip.go: Join/Split on ",", TrimSpace (ASCII), TrimPrefix "[" / TrimSuffix "]" *)
Fixpoint split_on (sep : ascii) (s : str) (cur : str) : list str :=
  match s with
  | [] => [rev cur]
  | c :: r => if Ascii.eqb c sep then rev cur :: split_on sep r [] else split_on sep r (c :: cur)
  end.
Definition split_comma (s : str) : list str := split_on "," s [].

Fixpoint join_comma (l : list str) : str :=
  match l with [] => [] | [x] => x | x :: r => x ++ "," :: join_comma r end.

Definition is_space (c : ascii) : bool :=
  let n := N_of_ascii c in ((9 <=? n) && (n <=? 13) || (n =? 32))%N.
Fixpoint trim_left (s : str) : str :=
  match s with c :: r => if is_space c then trim_left r else s | [] => [] end.
Definition trim_space (s : str) : str := rev (trim_left (rev (trim_left s))).

Definition trim_prefix_br (s : str) : str := match s with "[" :: r => r | _ => s end.
Definition trim_suffix_br (s : str) : str :=
  match rev s with "]" :: r => rev r | _ => s end.
Definition strip_brackets (s : str) : str := trim_suffix_br (trim_prefix_br s).
Definition clean (s : str) : str := strip_brackets (trim_space s).

Section Extractors.
(* net.ParseIP oracle: bytes (4 or 16, after To4) and ip.String() of the parsed address *)
Variable parse : str -> option (ip * str).
Variable c : cfg.

Definition trusted_ip (a : ip * str) : bool := trust c (fst a).

(* right-to-left scan over cleaned entries, peer first *)
Fixpoint scan (rev_ips : list str) (direct leftmost : str) : str :=
  match rev_ips with
  | [] => leftmost
  | e :: r => match parse e with
              | None => direct
              | Some a => if trusted_ip a then scan r direct leftmost else snd a
              end
  end.

(* ExtractIPFromXFFHeader: [lines] = the X-Forwarded-For header lines, [direct] = extractIP(req) *)
Definition xff_entries (lines : list str) (direct : str) : list str :=
  map clean (split_comma (join_comma lines) ++ [direct]).

Definition xff (lines : list str) (direct : str) : str :=
  match lines with
  | [] => direct
  | _ => let ips := xff_entries lines direct in scan (rev ips) direct (hd direct ips)
  end.

(* ExtractIPFromRealIPHeader: [hdr] = req.Header.Get("X-Real-Ip") *)
Definition real_ip_hdr (hdr direct : str) : str :=
  match hdr with
  | [] => direct
  | _ => match parse direct with
         | Some a => if trusted_ip a
                     then let h := strip_brackets hdr in
                          match parse h with Some _ => h | None => direct end
                     else direct
         | None => direct      (* net.ParseIP(directIP) = nil: trust(nil) is false *)
         end
  end.

(* ExtractIPDirect *)
Definition direct_ip (direct : str) : str := direct.

(* Context.RealIP with Echo.IPExtractor set: 0 direct, 1 X-Real-IP, 2 X-Forwarded-For *)
Definition real_ip (kind : nat) (xff_lines : list str) (xreal direct : str) : str :=
  match kind with
  | 0%nat => direct_ip direct
  | 1%nat => real_ip_hdr xreal direct
  | _ => xff xff_lines direct
  end.

Definition decisive (e : str) : bool :=
  match parse e with None => true | Some a => negb (trusted_ip a) end.
Definition trusted (e : str) : bool := negb (decisive e).
End Extractors.
