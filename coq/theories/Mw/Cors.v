(* Model of middleware/cors.go origin matching (matchScheme, matchSubdomain in util.go, the
   allow loop, the quoted+anchored regexp read as a glob) and of the response decision. (C11) *)
From Coq Require Import List Bool Ascii String Arith ZArith.
From Echo Require Import Base.Sx Net.Xff.
Import ListNotations.
Open Scope char_scope.

Definition star : ascii := "*".
Definition qm : ascii := "?".
Definition dot : ascii := ".".

(* ---------- the property's reading of a pattern: '*' any run, '?' one character, whole string *)
Fixpoint gm (p : str) : str -> bool :=
  match p with
  | [] => fun s => match s with [] => true | _ => false end
  | c :: p' =>
    if Ascii.eqb c star then
      (fix st (s : str) : bool := gm p' s || match s with [] => false | _ :: s' => st s' end)
    else fun s => match s with
                  | [] => false
                  | d :: s' => (Ascii.eqb c qm || Ascii.eqb c d) && gm p' s'
                  end
  end.

(* ---------- the compiled regexp ^quoted$ with \* -> .* and \? -> . : as gm, except that '.'
   does not match a newline (Go regexp default) *)
Definition not_nl (c : ascii) : bool := negb (Ascii.eqb c "010").
Fixpoint rm (p : str) : str -> bool :=
  match p with
  | [] => fun s => match s with [] => true | _ => false end
  | c :: p' =>
    if Ascii.eqb c star then
      (fix st (s : str) : bool := rm p' s || match s with [] => false | d :: s' => not_nl d && st s' end)
    else fun s => match s with
                  | [] => false
                  | d :: s' => ((Ascii.eqb c qm && not_nl d) || (negb (Ascii.eqb c qm) && Ascii.eqb c d)) && rm p' s'
                  end
  end.

(* ---------- util.go *)
Fixpoint before_colon (s : str) : option str :=
  match s with
  | [] => None
  | c :: r => if Ascii.eqb c ":" then Some []
              else match before_colon r with Some a => Some (c :: a) | None => None end
  end.

(* suffix after the first "://" *)
Fixpoint after_sep (s : str) : option str :=
  match s with
  | [] => None
  | c :: r => match c, r with
              | ":", "/" :: "/" :: t => Some t
              | _, _ => after_sep r
              end
  end.

Definition match_scheme (d p : str) : bool :=
  match before_colon d, before_colon p with
  | Some a, Some b => str_eqb a b
  | _, _ => false
  end.

Definition is_star_label (l : str) : bool := str_eqb l [star].

(* the comparison loop over reversed label lists; '*' is accepted only as the last pattern component *)
Fixpoint ms_rev (dom pat : list str) : bool :=
  match dom with
  | [] => false
  | v :: dom' =>
    match pat with
    | [] => false
    | p :: pat' =>
      if is_star_label p then match pat' with [] => true | _ => false end
      else if str_eqb p v then ms_rev dom' pat' else false
    end
  end.

Definition split_dot (s : str) : list str := split_on dot s [].

Definition match_subdomain (d p : str) : bool :=
  match_scheme d p &&
  match after_sep d, after_sep p with
  | Some da, Some pa => Nat.leb (List.length da) 253 && ms_rev (rev (split_dot da)) (rev (split_dot pa))
  | _, _ => false
  end.

(* ---------- the allow decision of CORSWithConfig (AllowOriginFunc unset) *)
Record ccfg := { origins : list str; creds : bool; unsafe_wild : bool }.
Definition is_star (o : str) : bool := str_eqb o [star].

Fixpoint allow_loop (c : ccfg) (os : list str) (origin : str) : option str :=
  match os with
  | [] => None
  | o :: r => if is_star o && creds c && unsafe_wild c then Some origin
              else if is_star o || str_eqb o origin then Some o
              else if match_subdomain origin o then Some origin
              else allow_loop c r origin
  end.

Definition patterns (os : list str) : list str := filter (fun o => negb (is_star o)) os.

Definition allow_origin (c : ccfg) (origin : str) : option str :=
  match allow_loop c (origins c) origin with
  | Some v => Some v
  | None =>
      if Nat.leb (List.length origin) 261 && (match after_sep origin with Some _ => true | None => false end)
         && existsb (fun p => rm p origin) (patterns (origins c))
      then Some origin else None
  end.

(* ---------- the response: ACAO value, ACAC present, status forced by the middleware
   (0 = none: the handler decides), handler ran *)
Record cors_out := { acao : option str; acac : bool; forced : Z; ran : bool }.

Definition cors (c : ccfg) (preflight : bool) (origin : str) : cors_out :=
  match origin with
  | [] => {| acao := None; acac := false; forced := if preflight then 204 else 0; ran := negb preflight |}
  | _ => match allow_origin c origin with
         | None => {| acao := None; acac := false; forced := if preflight then 204 else 401; ran := false |}
         | Some v => {| acao := Some v; acac := creds c; forced := if preflight then 204 else 0; ran := negb preflight |}
         end
  end.

(* a scheme://... shape: the first ':' starts "://" *)
Definition shaped (s : str) : Prop := exists sch rest, before_colon s = Some sch /\ s = sch ++ ":" :: "/" :: "/" :: rest.
