From Coq Require Import List Arith Bool Ascii String Lia Permutation.
Import ListNotations.
Open Scope char_scope.

Definition str := list ascii.
Inductive tok := TLit (c : ascii) | TParam | TAny.

Definition tok_eqb (a b : tok) : bool :=
  match a, b with
  | TLit x, TLit y => Ascii.eqb x y
  | TParam, TParam => true
  | TAny, TAny => true
  | _, _ => false
  end.
Lemma tok_eqb_eq a b : tok_eqb a b = true <-> a = b.
Proof. destruct a, b; simpl; split; intro H; try congruence; try discriminate.
  - apply Ascii.eqb_eq in H. congruence.
  - inversion H. apply Ascii.eqb_refl. Qed.

Definition tok_dec : forall a b : tok, {a = b} + {a <> b}.
Proof. decide equality. apply ascii_dec. Defined.

Fixpoint take_seg (p : str) : str :=
  match p with [] => [] | c :: r => if Ascii.eqb c "/" then [] else c :: take_seg r end.
Fixpoint drop_seg (p : str) : str :=
  match p with [] => [] | c :: r => if Ascii.eqb c "/" then p else drop_seg r end.

Record route := { r_method : str; r_toks : list tok; r_names : list str; r_id : nat }.
Definition str_dec : forall a b : str, {a = b} + {a <> b} := list_eq_dec ascii_dec.
Definition str_eqb (a b : str) : bool := if str_dec a b then true else false.
Definition NF : str := list_ascii_of_string "echo_route_not_found".

Definition lentry := (route * list tok)%type.
Definition live := list lentry.

Definition is_term (x : lentry) : bool := match snd x with [] => true | _ => false end.
Definition terminals (ls : live) : list route := map fst (filter is_term ls).
Definition is_handler (rs : list route) : bool := existsb (fun r => negb (str_eqb (r_method r) NF)) rs.
Definition find_m (rs : list route) (m : str) : option route :=
  List.find (fun r => str_eqb (r_method r) m) rs.

Definition adv1 (t : tok) (x : lentry) : live :=
  match snd x with t' :: rest => if tok_eqb t' t then [(fst x, rest)] else [] | [] => [] end.
Definition advance (t : tok) (ls : live) : live := flat_map (adv1 t) ls.

(* best = consumed token prefix identifying the first fully-consumed handler position *)
Inductive res := Found (r : route) (vals : list str) | Miss (best : option (list tok)).
Definition set_best (best : option (list tok)) (pre : list tok) := match best with Some _ => best | None => Some pre end.

Definition nonempty {A} (l : list A) : bool := match l with [] => false | _ => true end.

Definition orelse (r : res) (k : option (list tok) -> res) : res :=
  match r with Found _ _ => r | Miss b => k b end.

Definition end_check (m : str) (pre : list tok) (term : list route) (p : str) (vals : list str) (best : option (list tok)) : res :=
  match p with
  | [] => if is_handler term then
            match find_m term m with Some r => Found r vals | None => Miss (set_best best pre) end
          else match find_m term NF with Some r => Found r vals | None => Miss best end
  | _ => Miss best end.

Definition any_step (m : str) (pre : list tok) (nx : live) (p : str) (vals : list str) (best : option (list tok)) : res :=
  if nonempty nx then
    let rs := map fst nx in
    match find_m rs m with Some r => Found r (vals ++ [p]) | None =>
      let best := set_best best (pre ++ [TAny]) in
      match find_m rs NF with Some r => Found r (vals ++ [p]) | None => Miss best end end
  else Miss best.

Fixpoint search (fuel : nat) (m : str) (pre : list tok) (ls : live) (p : str) (vals : list str) (best : option (list tok)) : res :=
  match fuel with 0 => Miss best | S f =>
  orelse (end_check m pre (terminals ls) p vals best) (fun best =>
  orelse (match p with
          | c :: p' => let nx := advance (TLit c) ls in
                       if nonempty nx then search f m (pre ++ [TLit c]) nx p' vals best else Miss best
          | [] => Miss best end) (fun best =>
  orelse (match p with
          | _ :: _ =>
            let nx := advance TParam ls in
            if nonempty nx then
              let leaf := forallb is_term nx in
              search f m (pre ++ [TParam]) nx (if leaf then [] else drop_seg p) (vals ++ [if leaf then p else take_seg p]) best
            else Miss best
          | [] => Miss best end) (fun best =>
  any_step m pre (advance TAny ls) p vals best)))
  end.

(* ---------- permutation invariance ---------- *)

Definition skey (r : route) := (r_method r, r_toks r).
Definition live_ok (pre : list tok) (ls : live) : Prop :=
  Forall (fun x => r_toks (fst x) = pre ++ snd x) ls.
Definition uniq (ls : live) : Prop := NoDup (map (fun x => skey (fst x)) ls).

Lemma perm_nonempty {A} (l l' : list A) : Permutation l l' -> nonempty l = nonempty l'.
Proof. intros H. destruct l, l'; simpl; auto.
  - apply Permutation_nil in H. discriminate.
  - symmetry in H. apply Permutation_nil in H. discriminate. Qed.

Lemma perm_advance t ls ls' : Permutation ls ls' -> Permutation (advance t ls) (advance t ls').
Proof. intros H. unfold advance. induction H; simpl.
  - constructor.
  - apply Permutation_app_head. exact IHPermutation.
  - rewrite !app_assoc. apply Permutation_app_tail. apply Permutation_app_comm.
  - eapply perm_trans; eauto. Qed.

Lemma perm_filter {A} (f : A -> bool) l l' : Permutation l l' -> Permutation (filter f l) (filter f l').
Proof. induction 1; simpl.
  - constructor.
  - destruct (f x); auto.
  - destruct (f x), (f y); auto. constructor.
  - eapply perm_trans; eauto. Qed.

Lemma perm_terminals ls ls' : Permutation ls ls' -> Permutation (terminals ls) (terminals ls').
Proof. intros. unfold terminals. apply Permutation_map. apply perm_filter. assumption. Qed.

Lemma perm_existsb {A} (f : A -> bool) l l' : Permutation l l' -> existsb f l = existsb f l'.
Proof. induction 1; simpl; auto.
  - rewrite IHPermutation. reflexivity.
  - destruct (f x), (f y); reflexivity.
  - congruence. Qed.
Lemma perm_forallb {A} (f : A -> bool) l l' : Permutation l l' -> forallb f l = forallb f l'.
Proof. induction 1; simpl; auto.
  - rewrite IHPermutation. reflexivity.
  - destruct (f x), (f y); reflexivity.
  - congruence. Qed.

(* find_m on lists whose elements with method m are unique *)
Definition uniq_m (rs : list route) : Prop :=
  forall m, NoDup (filter (fun r => str_eqb (r_method r) m) rs).

Lemma find_filter_hd {A} (f : A -> bool) l : List.find f l = hd_error (filter f l).
Proof. induction l; simpl; auto. destruct (f a); simpl; auto. Qed.

Lemma perm_find_m rs rs' m :
  Permutation rs rs' ->
  (forall a b, In a rs -> In b rs -> r_method a = m -> r_method b = m -> a = b) ->
  find_m rs m = find_m rs' m.
Proof.
  intros HP HU. unfold find_m. rewrite !find_filter_hd.
  set (f := fun r => str_eqb (r_method r) m).
  assert (HPf : Permutation (filter f rs) (filter f rs')) by (apply perm_filter; exact HP).
  assert (Hall : forall a b, In a (filter f rs) -> In b (filter f rs) -> a = b).
  { intros a b Ha Hb. apply filter_In in Ha. apply filter_In in Hb. destruct Ha as [Ha Hfa], Hb as [Hb Hfb].
    unfold f, str_eqb in Hfa, Hfb. destruct (str_dec (r_method a) m); try discriminate.
    destruct (str_dec (r_method b) m); try discriminate. apply HU; auto. }
  destruct (filter f rs) as [|a l] eqn:E.
  - apply Permutation_nil in HPf. rewrite HPf. reflexivity.
  - destruct (filter f rs') as [|a' l'] eqn:E'.
    + symmetry in HPf. apply Permutation_nil in HPf. discriminate.
    + simpl. f_equal. apply Hall; [left; reflexivity|].
      eapply Permutation_in; [symmetry; exact HPf | left; reflexivity].
Qed.

Lemma advance_ok t pre ls : live_ok pre ls -> live_ok (pre ++ [t]) (advance t ls).
Proof. unfold live_ok, advance. intros H. apply Forall_forall. intros x Hx.
  apply in_flat_map in Hx. destruct Hx as [y [Hy Hx]]. rewrite Forall_forall in H. specialize (H y Hy).
  unfold adv1 in Hx. destruct (snd y) as [|t' rest] eqn:E; [destruct Hx|].
  destruct (tok_eqb t' t) eqn:Et; [|destruct Hx]. destruct Hx as [Hx|[]]. subst x. simpl.
  apply tok_eqb_eq in Et. subst t'. rewrite H. rewrite <- app_assoc. reflexivity. Qed.

Lemma advance_in t ls x : In x (advance t ls) -> exists y, In y ls /\ fst y = fst x /\ snd y = t :: snd x.
Proof. unfold advance. intros Hx. apply in_flat_map in Hx. destruct Hx as [y [Hy Hx]].
  unfold adv1 in Hx. destruct (snd y) as [|t' rest] eqn:E; [destruct Hx|].
  destruct (tok_eqb t' t) eqn:Et; [|destruct Hx]. destruct Hx as [Hx|[]]. subst x. simpl.
  apply tok_eqb_eq in Et. subst t'. exists y. auto. Qed.

Lemma advance_uniq t ls : uniq ls -> uniq (advance t ls).
Proof. unfold uniq, advance. induction ls as [|y ls IH]; simpl; intros H.
  - constructor.
  - inversion H as [|? ? Hn Hd]; subst. rewrite map_app. 
    unfold adv1 at 1. destruct (snd y) as [|t' rest]; simpl; [apply IH; assumption|].
    destruct (tok_eqb t' t); simpl; [|apply IH; assumption].
    constructor; [|apply IH; assumption].
    intro Hin. apply Hn. apply in_map_iff in Hin. destruct Hin as [x [Hk Hx]].
    apply advance_in in Hx. destruct Hx as [z [Hz [Hf _]]]. apply in_map_iff. exists z. split; [|assumption].
    rewrite Hf. exact Hk. Qed.

(* terminals of an ok+uniq live set have unique methods *)
Lemma term_unique pre ls : live_ok pre ls -> uniq ls ->
  forall a b, In a (terminals ls) -> In b (terminals ls) -> r_method a = r_method b -> a = b.
Proof.
  intros Hok Hu a b Ha Hb Hm. unfold terminals in *.
  apply in_map_iff in Ha. destruct Ha as [x [Hxa Hx]]. apply in_map_iff in Hb. destruct Hb as [y [Hyb Hy]].
  apply filter_In in Hx. apply filter_In in Hy. destruct Hx as [Hx Htx], Hy as [Hy Hty].
  unfold live_ok in Hok. rewrite Forall_forall in Hok.
  pose proof (Hok x Hx) as Ex. pose proof (Hok y Hy) as Ey.
  unfold is_term in Htx, Hty. destruct (snd x) eqn:Sx; try discriminate. destruct (snd y) eqn:Sy; try discriminate.
  rewrite app_nil_r in Ex, Ey.
  assert (Hk : skey (fst x) = skey (fst y)).
  { unfold skey. rewrite Hxa, Hyb, Hm. f_equal. rewrite <- Hxa, <- Hyb. congruence. }
  (* NoDup of keys -> x = y as elements?  we only need fst x = fst y; use NoDup_map injectivity on membership *)
  assert (x = y).
  { unfold uniq in Hu. clear - Hu Hx Hy Hk. induction ls as [|z ls IH]; [destruct Hx|].
    simpl in Hu. inversion Hu as [|? ? Hn Hd]; subst.
    destruct Hx as [Hx|Hx], Hy as [Hy|Hy]; subst; auto.
    - exfalso. apply Hn. apply in_map_iff. exists y. split; auto.
    - exfalso. apply Hn. apply in_map_iff. exists x. split; auto. }
  subst y. congruence.
Qed.

Lemma any_unique pre ls : live_ok pre ls -> uniq ls ->
  forall a b, In a (map fst (advance TAny ls)) -> In b (map fst (advance TAny ls)) ->
  (forall x, In x (advance TAny ls) -> snd x = []) ->
  r_method a = r_method b -> a = b.
Proof.
  intros Hok Hu a b Ha Hb Hnil Hm.
  pose proof (advance_ok TAny pre ls Hok) as Hok'. pose proof (advance_uniq TAny ls Hu) as Hu'.
  apply (term_unique (pre ++ [TAny]) (advance TAny ls) Hok' Hu'); auto; unfold terminals.
  - apply in_map_iff in Ha. destruct Ha as [x [E Hx]]. apply in_map_iff. exists x. split; auto.
    apply filter_In. split; auto. unfold is_term. rewrite (Hnil x Hx). reflexivity.
  - apply in_map_iff in Hb. destruct Hb as [x [E Hx]]. apply in_map_iff. exists x. split; auto.
    apply filter_In. split; auto. unfold is_term. rewrite (Hnil x Hx). reflexivity.
Qed.

Definition any_last (ls : live) : Prop :=
  Forall (fun x => forall a suf, snd x = a ++ TAny :: suf -> suf = []) ls.

Lemma advance_any_last t ls : any_last ls -> any_last (advance t ls).
Proof. unfold any_last. intros H. apply Forall_forall. intros x Hx. apply advance_in in Hx.
  destruct Hx as [y [Hy [_ Hs]]]. rewrite Forall_forall in H. specialize (H y Hy).
  intros a suf E. apply (H (t :: a) suf). rewrite Hs, E. reflexivity. Qed.

Lemma advance_any_nil ls : any_last ls -> forall x, In x (advance TAny ls) -> snd x = [].
Proof. unfold any_last. intros H x Hx. apply advance_in in Hx. destruct Hx as [y [Hy [_ Hs]]].
  rewrite Forall_forall in H. apply (H y Hy [] (snd x)). exact Hs. Qed.

Lemma perm_ok pre ls ls' : Permutation ls ls' -> live_ok pre ls -> live_ok pre ls'.
Proof. unfold live_ok. intros P H. eapply Permutation_Forall; eauto. Qed.
Lemma perm_any_last ls ls' : Permutation ls ls' -> any_last ls -> any_last ls'.
Proof. unfold any_last. intros P H. eapply Permutation_Forall; eauto. Qed.

Lemma find_m_in rs m r : find_m rs m = Some r -> In r rs /\ r_method r = m.
Proof. unfold find_m. intros H. apply find_some in H. destruct H as [H1 H2]. split; auto.
  unfold str_eqb in H2. destruct (str_dec (r_method r) m); congruence. Qed.

Lemma orelse_ext r r' k k' : r = r' -> (forall b, k b = k' b) -> orelse r k = orelse r' k'.
Proof. intros -> H. destruct r'; simpl; auto. Qed.

Theorem search_perm : forall fuel m pre ls ls' p vals best,
  Permutation ls ls' -> live_ok pre ls -> uniq ls -> any_last ls ->
  search fuel m pre ls p vals best = search fuel m pre ls' p vals best.
Proof.
  induction fuel as [|f IH]; intros m pre ls ls' p vals best HP Hok Hu Hal; [reflexivity|].
  cbn [search].
  pose proof (perm_terminals _ _ HP) as HPt.
  assert (Hut : forall mm a b, In a (terminals ls) -> In b (terminals ls) -> r_method a = mm -> r_method b = mm -> a = b).
  { intros mm a b Ha Hb E1 E2. eapply term_unique; eauto. congruence. }
  pose proof (perm_advance TParam _ _ HP) as A2.
  pose proof (perm_advance TAny _ _ HP) as A3.
  apply orelse_ext.
  { unfold end_check. destruct p; [|reflexivity].
    rewrite <- (perm_existsb _ _ _ HPt : is_handler (terminals ls) = is_handler (terminals ls')).
    rewrite <- (perm_find_m _ _ m HPt (Hut m)). rewrite <- (perm_find_m _ _ NF HPt (Hut NF)). reflexivity. }
  intros b0. apply orelse_ext.
  { destruct p as [|c p']; [reflexivity|]. cbn zeta.
    pose proof (perm_advance (TLit c) _ _ HP) as A1.
    rewrite <- (perm_nonempty _ _ A1). destruct (nonempty (advance (TLit c) ls)); [|reflexivity].
    apply IH; auto using advance_ok, advance_uniq, advance_any_last. }
  intros b1. apply orelse_ext.
  { destruct p as [|c p']; [reflexivity|]. cbn zeta.
    rewrite <- (perm_nonempty _ _ A2). destruct (nonempty (advance TParam ls)); [|reflexivity].
    rewrite <- (perm_forallb is_term _ _ A2).
    apply IH; auto using advance_ok, advance_uniq, advance_any_last. }
  intros b2. unfold any_step.
  rewrite <- (perm_nonempty _ _ A3). destruct (nonempty (advance TAny ls)); [|reflexivity].
  assert (HPm : Permutation (map fst (advance TAny ls)) (map fst (advance TAny ls'))) by (apply Permutation_map; exact A3).
  assert (Hua : forall mm a b, In a (map fst (advance TAny ls)) -> In b (map fst (advance TAny ls)) -> r_method a = mm -> r_method b = mm -> a = b).
  { intros mm a b Ha Hb E1 E2. eapply any_unique; eauto using advance_any_nil. congruence. }
  cbn zeta.
  rewrite <- (perm_find_m _ _ m HPm (Hua m)).
  rewrite <- (perm_find_m _ _ NF HPm (Hua NF)).
  reflexivity.
Qed.
Print Assumptions search_perm.
