(* Echo.findRouter as translated from echo.go on every run (Gen/Src_echo.v): the router registered under exactly the
   request's Host value when there is one, otherwise the default router.  (C02) *)
From Coq Require Import List ZArith Bool String.
From Echo Require Import Base.GoLite Gen.Src_echo.
Import ListNotations.
Open Scope Z_scope.

Section Src.
Variable sym : string -> Z.

Ltac golite := repeat (cbn [exec exec_s eval get put assign locals fields events inputs String.eqb Ascii.eqb Bool.eqb
                            map tl app negb andb orb fst snd]; rewrite ?truthy_b2z).

(* nrouters = len(e.routers); the map lookup answers (found, ok); dflt = e.router *)
Theorem src_find_router nrouters dflt found ok :
  let st := {| locals := [("host", 0)]; fields := [("len(e.routers)", nrouters); ("e.router", dflt)]; events := []; inputs := [[found; ok]] |} in
  let '(_, ret) := run sym src_find_router_results src_find_router st in
  ret = [if (0 <? nrouters) && negb (ok =? 0) then found else dflt].
Proof.
  unfold run, src_find_router, src_find_router_results. golite.
  destruct (0 <? nrouters); golite; [|reflexivity]. unfold truthy. destruct (ok =? 0); golite; reflexivity.
Qed.
End Src.
