From Coq Require Extraction.
From Coq Require Import ExtrOcamlBasic.
From Echo Require Import Glue.G02.
Extraction "extracted/m02.ml" G02.run_sx.
