From Coq Require Extraction.
From Coq Require Import ExtrOcamlBasic.
From Echo Require Import Glue.G11.
Extraction "extracted/m11.ml" G11.run_sx.
