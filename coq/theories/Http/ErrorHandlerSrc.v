(* The statement-level translation of Echo.DefaultHTTPErrorHandler (Gen/Src_errorhandler.v, regenerated from echo.go on
   every run) does what the model's [handle] / [effective] / [body_of] say: nothing on a committed response; otherwise ONE
   call - NoContent(code) for HEAD, JSON(code, message) else - with the code and message of the error, or of the HTTP error
   it directly carries as internal error, or 500 / the status text for any other error; a string message becomes
   {"message": m} (plus "error" in debug mode), an error message {"message": m.Error()}, anything else is passed on
   as it is.  (C07) *)
From Coq Require Import List ZArith Bool String.
From Echo Require Import Base.Sx Base.GoLite Gen.Src_errorhandler Http.Response Http.ErrorHandler.
Import ListNotations.
Open Scope Z_scope.

(* named constants of the translated code *)
Definition esym (s : string) : Z :=
  if String.eqb s "http.StatusInternalServerError" then 500
  else if String.eqb s "http.StatusText(http.StatusInternalServerError)" then 900
  else if String.eqb s "http.MethodHead" then 77
  else if String.eqb s "Map{""message"":m,""error"":err.Error()}" then 1001
  else if String.eqb s "Map{""message"":m}" then 1002
  else if String.eqb s "Map{""message"":m.Error()}" then 1003
  else 0.                                                   (* nil *)

Definition zb (b : bool) : Z := if b then 1 else 0.

Section Src.
(* how a message value is named when it is passed on as it is *)
Variable mid : msg -> Z.

(* the cells of one *HTTPError object called [pre] *)
Definition obj_cells (pre : string) (c : Z) (m : msg) (has_internal : bool) : env :=
  [ ((pre ++ ".Code")%string, c); ((pre ++ ".Message")%string, mid m); ((pre ++ ".Internal")%string, zb has_internal);
    ((pre ++ ".Message.(string)")%string, match m with MStr _ => 1 | _ => 0 end);
    ((pre ++ ".Message.(json.Marshaler)")%string, match m with MJson _ => 1 | _ => 0 end);
    ((pre ++ ".Message.(error)")%string, match m with MErr _ => 1 | _ => 0 end) ].

(* the request-independent description of an error value: answers of the two type assertions and the cells they expose *)
Definition err_cells (e : err) : env * list (list Z) :=
  match e with
  | HTTPErr c m None => (obj_cells "err.(*HTTPError)" c m false, [[1]])
  | HTTPErr c m (Some (HTTPErr c' m' i')) =>
      ((obj_cells "err.(*HTTPError)" c m true ++ obj_cells "he.Internal.(*HTTPError)" c' m' (match i' with Some _ => true | None => false end))%list, [[1]; [1]])
  | HTTPErr c m (Some _) => (obj_cells "err.(*HTTPError)" c m true, [[1]; [0]])
  | _ => ([], [[0]])
  end.

(* what is handed to c.JSON as the message *)
Definition shown (debug : bool) (m : msg) : Z :=
  match m with MStr _ => if debug then 1001 else 1002 | MErr _ => 1003 | MJson _ => mid m end.

Definition start (committed debug is_head : bool) (e : err) : state :=
  {| locals := [("err"%string, 5)];
     fields := ("c.Response().Committed"%string, zb committed) :: ("e.Debug"%string, zb debug)
               :: ("c.Request().Method"%string, if is_head then 77 else 0) :: fst (err_cells e);
     events := []; inputs := (snd (err_cells e) ++ [[0]])%list |}.

Theorem src_default_error_handler_spec committed debug is_head e :
  let '(st', _) := GoLite.run esym src_default_error_handler_results src_default_error_handler (start committed debug is_head e) in
  let calls := filter (fun ev => negb (String.eqb (fst ev) "err.(*HTTPError)") && negb (String.eqb (fst ev) "he.Internal.(*HTTPError)")) (events st') in
  if committed then calls = []
  else let '(code, m) := effective e in
       calls = [if is_head then ("c.NoContent"%string, [code]) else ("c.JSON"%string, [code; shown debug m])].
Proof.
  unfold GoLite.run, src_default_error_handler, src_default_error_handler_results, start.
  destruct committed.
  - vm_compute. reflexivity.
  - destruct e as [t | t i | c m [[t | t i | c' m' i']|]]; cbn [err_cells fst snd obj_cells String.append app effective];
      destruct debug, is_head; try destruct m; try destruct m'; try destruct i';
      vm_compute; reflexivity.
Qed.
End Src.
