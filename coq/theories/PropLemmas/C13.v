(* Proofs of the short corollaries stated in Props/C13.v (kept out of the statement file). *)
From Coq Require Import List Bool Ascii String.
From Echo Require Import Base.Sx Mw.Auth Mw.AuthProofs.
Import ListNotations.
Open Scope char_scope.

Lemma C13_keyauth_sound_l : forall validator ls, fst (key_auth validator ls) = Ran ->
  exists l keys k, In l ls /\ extract l = inl keys /\ In k keys /\ validator k = VTrue /\ present l k.
Proof. intros v ls. exact (key_sound v ls false []). Qed.

Lemma C13_keyauth_complete_l : forall validator ls l keys k, In l ls -> extract l = inl keys -> In k keys ->
  validator k = VTrue -> fst (key_auth validator ls) = Ran.
Proof. intros v ls. exact (key_complete v ls false []). Qed.

