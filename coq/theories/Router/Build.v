From Coq Require Import List Arith Bool Ascii String Lia Permutation.
Import ListNotations.
From Echo.Router Require Import Spec2 Fuel Refine Insert InsProof Walk Live Toks.
Open Scope char_scope.

(* ---------- from structural well-formedness + liveness to the WF used by the search refinement ---------- *)
Lemma own_nonempty pre n : has_payload n -> own pre n <> [].
Proof. unfold has_payload, own, own_routes. destruct n as [k pfx ms nf st pc ac]. cbn [n_ms n_nf]. intros [H|H].
  - destruct ms; [congruence|discriminate].
  - destruct nf; [|congruence]. destruct ms; discriminate. Qed.

Lemma alive_den : forall n, Alive n -> forall pre, den_node pre n <> [].
Proof.
  induction 1 as [n Hp|n ch Hin Ha IH]; intros pre.
  - rewrite den_node_eq. intros E. apply app_eq_nil in E. destruct E as [E _]. exact (own_nonempty pre n Hp E).
  - rewrite den_node_eq. intros E.
    assert (Hd : den_edge pre ch = []).
    { unfold children in Hin. apply app_eq_nil in E. destruct E as [_ E].
      apply in_app_or in Hin. destruct Hin as [Hin|Hin].
      - apply app_eq_nil in E. destruct E as [E _].
        clear - E Hin. induction (n_st n) as [|y l IHl]; [destruct Hin|]. simpl in E. apply app_eq_nil in E. destruct E as [E1 E2].
        destruct Hin as [->|Hin]; auto.
      - apply app_eq_nil in E. destruct E as [_ E]. apply app_eq_nil in E. destruct E as [E1 E2].
        apply in_app_or in Hin. destruct Hin as [Hin|Hin].
        + destruct (n_pc n); simpl in *; [|tauto]. destruct Hin as [->|[]]. rewrite app_nil_r in E1. exact E1.
        + destruct (n_ac n); simpl in *; [|tauto]. destruct Hin as [->|[]]. rewrite app_nil_r in E2. exact E2. }
    unfold den_edge in Hd. apply map_eq_nil in Hd. exact (IH _ Hd).
Qed.

Lemma WF_of : forall h n, height n <= h -> WF0 n -> AllAlive n -> WF n.
Proof.
  induction h as [|h IH]; intros n Hh Hw Ha; [destruct n; simpl in Hh; lia|].
  pose proof (AllAlive_children n Ha) as Hc. rewrite Forall_forall in Hc.
  inversion Hw as [k pfx ms nf st pc ac G1 G2 G3 G4 G5 G6 G7 G8 G9 G10]; subst.
  assert (Hchild : forall ch, In ch (children (Node k pfx ms nf st pc ac)) -> WF0 ch -> WF ch /\ live_nonempty ch).
  { intros ch Hin Hwc. destruct (Hc ch Hin) as [Hal Haa]. split.
    - apply IH; auto. pose proof (in_children_height _ ch Hin). lia.
    - intros pre. apply alive_den. exact Hal. }
  constructor; auto.
  - intros ->. destruct (G4 eq_refl) as [_ H]. exact H.
  - rewrite Forall_forall in *. intros ch Hin. destruct (G7 ch Hin) as [Hwc Hk].
    destruct (Hchild ch) as [H1 H2]; auto. unfold children. cbn [n_st]. apply in_or_app. left. exact Hin.
  - intros ch E. destruct (G9 ch E) as [Hwc Hk]. destruct (Hchild ch) as [H1 H2]; auto.
    unfold children. cbn [n_st n_pc n_ac]. subst pc. apply in_or_app. right. left. reflexivity.
  - intros ch E. destruct (G10 ch E) as [Hwc Hk]. destruct (Hchild ch) as [H1 H2]; auto.
    unfold children. cbn [n_st n_pc n_ac]. subst ac. apply in_or_app. right. apply in_or_app. right. left. reflexivity.
Qed.

(* ---------- building a router from a route table ---------- *)
Record rt := { rt_m : str; rt_toks : list tok; rt_rm : rmeth }.
Definition ins_route (t : node) (r : rt) : node := insert_toks t (rt_m r) (rt_rm r) [] (rt_toks r).
Definition build (rs : list rt) : node := fold_left ins_route rs empty_root.
Definition entry_of (r : rt) : lentry := new_entry (rt_m r) (rt_rm r) (rt_toks r) (rt_toks r).
Definition rkey (r : rt) := (rt_m r, rt_toks r).

Definition Good (t : node) : Prop := t = empty_root \/ (TInv t /\ LiveAll t).

Lemma ins_route_ok t r acc :
  Good t -> Permutation (Den t) (map entry_of acc) -> wf_toks (rt_toks r) -> ~ In (rkey r) (map rkey acc) ->
  (TInv (ins_route t r) /\ LiveAll (ins_route t r)) /\ Permutation (Den (ins_route t r)) (map entry_of (acc ++ [r])).
Proof.
  intros HG HD [r0 [Et Hok]] Hnew.
  assert (HSt : St t []).
  { exists [], []. split; [reflexivity|]. split; [constructor|]. left. split; [reflexivity|]. destruct HG as [->|[H _]]; auto. }
  assert (HLv : Lv t []).
  { destruct HG as [->|[_ HL]]; [left; reflexivity|right]. intros x. apply LiveAll_AAP'. exact HL. }
  assert (Hfr : fresh_in (Some (rt_m r, rt_rm r)) ([] ++ rt_toks r) (Den t)).
  { intros m rm E x Hx [Hm Ht]. inversion E as [[Em Erm]]. rewrite <- Em in Hm. clear E Em Erm. apply Hnew.
    eapply Permutation_in in Hx; [|exact HD]. apply in_map_iff in Hx. destruct Hx as [a [Ea Ha]]. subst x.
    apply in_map_iff. exists a. split; [|exact Ha]. unfold rkey. simpl in Hm, Ht. rewrite Hm, Ht. reflexivity. }
  destruct (insert_toks_eff (rt_toks r) t (rt_m r) (rt_rm r) [] false HSt HLv (ex_intro _ r0 Et) Hok ltac:(discriminate) ltac:(constructor) Hfr)
    as [H1 [H2 H3]].
  split; [split; assumption|].
  cbn [app] in H2. unfold ins_route. eapply perm_trans; [exact H2|].
  rewrite map_app. cbn [map]. eapply perm_trans; [apply perm_skip; exact HD|]. apply Permutation_cons_append.
Qed.

Lemma build_gen : forall rs t acc,
  Good t -> Permutation (Den t) (map entry_of acc) ->
  Forall (fun r => wf_toks (rt_toks r)) rs -> NoDup (map rkey (acc ++ rs)) ->
  Good (fold_left ins_route rs t) /\ Permutation (Den (fold_left ins_route rs t)) (map entry_of (acc ++ rs)).
Proof.
  induction rs as [|r rs IH]; intros t acc HG HD HW HN.
  - rewrite app_nil_r. auto.
  - cbn [fold_left]. inversion HW; subst.
    assert (Hnew : ~ In (rkey r) (map rkey acc)).
    { rewrite map_app in HN. cbn [map] in HN. apply NoDup_remove_2 in HN. intros Hin. apply HN. apply in_or_app. left. exact Hin. }
    destruct (ins_route_ok t r acc HG HD H1 Hnew) as [HG' HD'].
    replace (acc ++ r :: rs) with ((acc ++ [r]) ++ rs) in * by (rewrite <- app_assoc; reflexivity).
    apply IH; auto. right. exact HG'.
Qed.

Theorem build_ok rs :
  Forall (fun r => wf_toks (rt_toks r)) rs -> NoDup (map rkey rs) ->
  Good (build rs) /\ Permutation (Den (build rs)) (map entry_of rs).
Proof. intros HW HN. apply (build_gen rs empty_root []); auto. left. reflexivity. Qed.
Print Assumptions build_ok.

(* ---------- dispatch = order-free specification ---------- *)
Definition dispatch (t : node) (m p : str) : res :=
  match n_pfx t with
  | [] => Miss None
  | _ => match strip (n_pfx t) p with
         | Some p' => find_node m (edge t) t p' [] None
         | None => Miss None end
  end.

Definition table (rs : list rt) : live := map entry_of rs.
Definition spec_dispatch (F : nat) (rs : list rt) (m p : str) : res := search F m [] (table rs) p [] None.

Lemma table_live_ok rs : live_ok [] (table rs).
Proof. unfold live_ok, table. apply Forall_forall. intros x Hx. apply in_map_iff in Hx. destruct Hx as [r [<- _]]. reflexivity. Qed.

Lemma table_uniq rs : NoDup (map rkey rs) -> uniq (table rs).
Proof. unfold uniq, table. rewrite map_map. intros H. exact H. Qed.

Lemma ok_toks_any_last p ts a suf : ok_toks p ts = true -> ts = a ++ TAny :: suf -> suf = [].
Proof. revert p a. induction ts as [|t ts IH]; intros p a Hok E; [destruct a; discriminate|].
  destruct a as [|y a]; simpl in E; inversion E; subst.
  - simpl in Hok. apply andb_true_iff in Hok. destruct Hok as [_ H]. destruct suf; [reflexivity|discriminate].
  - destruct y; simpl in Hok; apply andb_true_iff in Hok; destruct Hok as [_ Hok].
    + eapply IH; eauto.
    + eapply IH; eauto.
    + destruct (a ++ TAny :: suf) eqn:E2; [destruct a; discriminate|discriminate]. Qed.

Lemma table_any_last rs : Forall (fun r => wf_toks (rt_toks r)) rs -> any_last (table rs).
Proof. unfold any_last, table. intros H. apply Forall_forall. intros x Hx. apply in_map_iff in Hx. destruct Hx as [r [<- Hr]].
  rewrite Forall_forall in H. destruct (H r Hr) as [r0 [_ Hok]]. intros a suf E. simpl in E. eapply ok_toks_any_last; eauto. Qed.

Lemma enough_perm f ls ls' : Permutation ls ls' -> enough f ls -> enough f ls'.
Proof. unfold enough. intros P H. eapply Permutation_Forall; eauto. Qed.

Lemma root_kind t : TInv t -> n_kind t = KS.
Proof. intros [Hw Hl]. inversion Hw as [k pfx ms nf st pc ac G1 G2 G3 G4]; subst. unfold label in Hl. simpl in *.
  destruct k; auto.
  - rewrite (G3 eq_refl) in Hl. discriminate.
  - destruct (G4 eq_refl) as [E _]. rewrite E in Hl. discriminate. Qed.

Theorem dispatch_tree t m p F :
  TInv t -> LiveAll t -> enough F (Den t) ->
  dispatch t m p = search F m [] (Den t) p [] None.
Proof.
  intros HT HL He. pose proof (root_kind t HT) as Hk. destruct HT as [Hw Hlab].
  pose proof (WF_of (height t) t ltac:(lia) Hw (proj2 HL)) as HWF.
  pose proof (WF0_pfx_ne t Hw) as Hp.
  assert (Hne : den_node (map TLit (n_pfx t)) t <> []) by (apply alive_den; apply HL).
  assert (Edisp : dispatch t m p = match strip (n_pfx t) p with
                                    | Some p' => find_node m (edge t) t p' [] None | None => Miss None end).
  { unfold dispatch. destruct (n_pfx t); [congruence|reflexivity]. }
  rewrite Edisp. clear Edisp.
  assert (Ee : edge t = map TLit (n_pfx t)) by (unfold edge; rewrite Hk; reflexivity).
  unfold Den, den_edge in *. rewrite Ee in *. cbn [app] in *.
  destruct (enough_prepend _ _ _ He Hne) as [Hlen Hen]. rewrite map_length in Hlen, Hen.
  replace F with (List.length (n_pfx t) + (F - List.length (n_pfx t))) at 1 by lia.
  rewrite (search_chain (n_pfx t) (F - List.length (n_pfx t)) m [] _ p [] None Hne).
  destruct (strip (n_pfx t) p) as [p'|]; [|reflexivity]. cbn [app].
  apply find_search with (h := height t); auto.
  destruct (den_node (map TLit (n_pfx t)) t) as [|x l] eqn:Ed; [congruence|]. inversion Hen; subst. lia.
Qed.

Theorem dispatch_build rs m p F :
  Forall (fun r => wf_toks (rt_toks r)) rs -> NoDup (map rkey rs) -> enough F (table rs) ->
  dispatch (build rs) m p = spec_dispatch F rs m p.
Proof.
  intros HW HN He. destruct (build_ok rs HW HN) as [HG HD]. unfold spec_dispatch.
  destruct HG as [E|[HT HL]].
  - rewrite E in *. rewrite Den_empty in HD. apply Permutation_nil in HD. unfold table. rewrite HD.
    rewrite search_empty. reflexivity.
  - rewrite (dispatch_tree (build rs) m p F HT HL) by (eapply enough_perm; [symmetry; exact HD|exact He]).
    symmetry. apply search_perm.
    + symmetry. exact HD.
    + apply table_live_ok.
    + apply table_uniq. exact HN.
    + apply table_any_last. exact HW.
Qed.

(* the chosen handler does not depend on the registration order *)
Theorem dispatch_order_free rs rs' m p :
  Forall (fun r => wf_toks (rt_toks r)) rs -> NoDup (map rkey rs) -> Permutation rs rs' ->
  dispatch (build rs) m p = dispatch (build rs') m p.
Proof.
  intros HW HN HP.
  assert (HW' : Forall (fun r => wf_toks (rt_toks r)) rs') by (eapply Permutation_Forall; eauto).
  assert (HN' : NoDup (map rkey rs')) by (eapply Permutation_NoDup; [apply Permutation_map; exact HP|exact HN]).
  set (F := S (list_max (map (fun x : lentry => List.length (snd x)) (table rs)))).
  assert (He : enough F (table rs)).
  { unfold enough, F. apply Forall_forall. intros x Hx.
    assert (List.length (snd x) <= list_max (map (fun x : lentry => List.length (snd x)) (table rs))).
    { pose proof (list_max_le (map (fun x : lentry => List.length (snd x)) (table rs)) (list_max (map (fun x : lentry => List.length (snd x)) (table rs)))) as [H _].
      specialize (H (le_n _)). rewrite Forall_forall in H. apply H. apply (in_map (fun x : lentry => List.length (snd x))). exact Hx. }
    lia. }
  assert (HPt : Permutation (table rs) (table rs')) by (apply Permutation_map; exact HP).
  rewrite (dispatch_build rs m p F HW HN He).
  rewrite (dispatch_build rs' m p F HW' HN' (enough_perm _ _ _ HPt He)).
  unfold spec_dispatch. apply search_perm; auto using table_live_ok, table_uniq, table_any_last.
Qed.
Print Assumptions dispatch_build.
Print Assumptions dispatch_order_free.
