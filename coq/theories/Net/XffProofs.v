From Coq Require Import List Bool Ascii String NArith Lia.
From Echo Require Import Base.Sx Gen.Src_ip Net.IP Net.Xff.
Import ListNotations.

Section Proofs.
Variable parse : str -> option (ip * str).
Variable c : cfg.

Notation scan := (scan parse c).
Notation decisive := (decisive parse c).
Notation trusted := (trusted parse c).

Lemma scan_stop suffix_rev e pre_rev direct lm :
  forallb trusted suffix_rev = true -> decisive e = true ->
  scan (suffix_rev ++ e :: pre_rev) direct lm = scan [e] direct lm.
Proof.
  induction suffix_rev as [|x l IH]; intros Ht Hd.
  - simpl. unfold Xff.decisive in Hd. destruct (parse e) as [a|]; [|reflexivity].
    destruct (trusted_ip c a); [discriminate|reflexivity].
  - simpl in Ht. apply andb_true_iff in Ht. destruct Ht as [Hx Hl]. simpl.
    unfold Xff.trusted, Xff.decisive in Hx. destruct (parse x) as [a|]; [|discriminate].
    destruct (trusted_ip c a); [|discriminate]. apply IH; auto.
Qed.

Lemma scan_one_indep e direct lm lm' : decisive e = true -> scan [e] direct lm = scan [e] direct lm'.
Proof. unfold Xff.decisive. simpl. destruct (parse e) as [a|]; [|reflexivity].
  destruct (trusted_ip c a); [discriminate|reflexivity]. Qed.

Lemma scan_all_trusted l direct lm : forallb trusted l = true -> scan l direct lm = lm.
Proof. induction l as [|x l IH]; intro H; simpl; [reflexivity|].
  simpl in H. apply andb_true_iff in H as [Hx Hl].
  unfold Xff.trusted, Xff.decisive in Hx. destruct (parse x) as [a|]; [|discriminate].
  destruct (trusted_ip c a); [auto|discriminate]. Qed.

(* what one decisive entry yields *)
Definition verdict (e direct : str) : str :=
  match parse e with None => direct | Some a => snd a end.

Lemma scan_decisive e direct lm : decisive e = true -> scan [e] direct lm = verdict e direct.
Proof. unfold Xff.decisive, verdict. simpl. destruct (parse e) as [a|]; [|reflexivity].
  destruct (trusted_ip c a); [discriminate|reflexivity]. Qed.

(* ---- on cleaned entry lists *)
Definition xff_clean (ents : list str) (direct : str) : str :=
  scan (rev ents) direct (hd direct ents).

Lemma xff_clean_rightmost pre e suf direct :
  decisive e = true -> forallb trusted suf = true ->
  xff_clean (pre ++ e :: suf) direct = verdict e direct.
Proof.
  intros Hd Ht. unfold xff_clean. rewrite rev_app_distr. cbn [rev]. rewrite <- app_assoc. cbn [app].
  rewrite scan_stop; [apply scan_decisive; exact Hd| |exact Hd].
  rewrite forallb_forall in *. intros x Hx. apply Ht. apply in_rev. exact Hx.
Qed.

Lemma xff_clean_all_trusted ents direct :
  forallb trusted ents = true -> xff_clean ents direct = hd direct ents.
Proof. intro H. unfold xff_clean. apply scan_all_trusted.
  rewrite forallb_forall in *. intros x Hx. apply H. apply in_rev. exact Hx. Qed.

(* ---- the extractor on raw header lines *)
Lemma xff_unfold lines direct : lines <> [] ->
  xff parse c lines direct = xff_clean (xff_entries lines direct) direct.
Proof. destruct lines; [congruence|reflexivity]. Qed.

Lemma entries_split lines direct :
  xff_entries lines direct = map clean (split_comma (join_comma lines)) ++ [clean direct].
Proof. unfold xff_entries. rewrite map_app. reflexivity. Qed.

(* the anti-spoofing statement on the entry list the header denotes: whatever stands to the left
   of the right-most untrusted (or unparsable) entry is irrelevant *)
Theorem xff_prefix_irrelevant lines lines' direct pre pre' e suf :
  lines <> [] -> lines' <> [] ->
  xff_entries lines direct = pre ++ e :: suf ->
  xff_entries lines' direct = pre' ++ e :: suf ->
  decisive e = true -> forallb trusted suf = true ->
  xff parse c lines direct = xff parse c lines' direct.
Proof.
  intros H1 H2 E1 E2 Hd Ht. rewrite !xff_unfold by assumption. rewrite E1, E2.
  rewrite !xff_clean_rightmost by assumption. reflexivity.
Qed.

Theorem xff_rightmost lines direct pre e suf :
  lines <> [] -> xff_entries lines direct = pre ++ e :: suf ->
  decisive e = true -> forallb trusted suf = true ->
  xff parse c lines direct = verdict e direct.
Proof. intros H1 E Hd Ht. rewrite xff_unfold, E by assumption. apply xff_clean_rightmost; assumption. Qed.

(* an untrusted (or unparsable) peer decides alone: headers are irrelevant altogether *)
Theorem xff_untrusted_peer lines lines' direct :
  decisive (clean direct) = true -> lines <> [] -> lines' <> [] ->
  xff parse c lines direct = xff parse c lines' direct.
Proof.
  intros Hd H1 H2. rewrite !xff_unfold, !entries_split by assumption.
  rewrite !(xff_clean_rightmost _ (clean direct) [] direct Hd eq_refl). reflexivity.
Qed.

Theorem xff_all_trusted lines direct :
  lines <> [] -> forallb trusted (xff_entries lines direct) = true ->
  xff parse c lines direct = hd direct (xff_entries lines direct).
Proof. intros H1 Ht. rewrite xff_unfold by assumption. apply xff_clean_all_trusted. exact Ht. Qed.

(* every list of entries falls in exactly one of the two cases *)
Lemma split_rightmost (l : list str) :
  forallb trusted l = true \/
  exists pre e suf, l = pre ++ e :: suf /\ decisive e = true /\ forallb trusted suf = true.
Proof.
  induction l as [|x l IH]; [left; reflexivity|].
  destruct IH as [H|[pre [e [suf [E [Hd Ht]]]]]].
  - destruct (decisive x) eqn:Ex.
    + right. exists [], x, l. auto.
    + left. simpl. unfold Xff.trusted at 1. rewrite Ex. exact H.
  - right. exists (x :: pre), e, suf. subst l. auto.
Qed.

(* validity: if the canonical form of every parsed address parses, the X-Forwarded-For
   extractor returns a parsable address whenever the peer address parses *)
Hypothesis canon_parses : forall e a, parse e = Some a -> parse (snd a) <> None.

Theorem xff_valid lines direct : parse direct <> None -> parse (clean direct) <> None ->
  parse (xff parse c lines direct) <> None.
Proof.
  intros Hp Hpc. destruct lines as [|l0 ls]; [exact Hp|].
  assert (Hne : l0 :: ls <> []) by discriminate.
  destruct (split_rightmost (xff_entries (l0 :: ls) direct)) as [Ht|[pre [e [suf [E [Hd Ht]]]]]].
  - rewrite xff_all_trusted by assumption.
    remember (xff_entries (l0 :: ls) direct) as ents eqn:Ee.
    destruct ents as [|h t].
    + rewrite entries_split in Ee. destruct (map clean _); discriminate.
    + simpl. simpl in Ht. apply andb_true_iff in Ht as [Hh _].
      unfold Xff.trusted, Xff.decisive in Hh. destruct (parse h); [discriminate|discriminate].
  - rewrite (xff_rightmost _ _ _ _ _ Hne E Hd Ht). unfold verdict.
    destruct (parse e) as [a|] eqn:Ea; [eapply canon_parses; eassumption|exact Hp].
Qed.

(* X-Real-IP extractor: the header is used iff it is non-empty, the peer is trusted and the
   (bracket-stripped) header parses; otherwise the peer address *)
Theorem real_ip_hdr_spec hdr direct :
  real_ip_hdr parse c hdr direct =
    if (match hdr with [] => false | _ => true end) && trusted direct &&
       (match parse (strip_brackets hdr) with Some _ => true | None => false end)
    then strip_brackets hdr else direct.
Proof.
  unfold real_ip_hdr, Xff.trusted, Xff.decisive. destruct hdr as [|h0 hr]; [reflexivity|].
  cbn [andb]. destruct (parse direct) as [a|]; [|reflexivity].
  destruct (trusted_ip c a); cbn [negb andb]; [|reflexivity].
  destruct (parse (strip_brackets (h0 :: hr))); reflexivity.
Qed.

Theorem real_ip_hdr_valid hdr direct : parse direct <> None -> parse (real_ip_hdr parse c hdr direct) <> None.
Proof. intro Hp. rewrite real_ip_hdr_spec. destruct (_ && _ && _) eqn:E; [|exact Hp].
  apply andb_true_iff in E as [_ E]. destruct (parse (strip_brackets hdr)); [discriminate|discriminate]. Qed.

(* direct extractor: no header can change the result *)
Theorem direct_ignores_headers xffl xffl' xreal xreal' direct :
  real_ip parse c 0 xffl xreal direct = real_ip parse c 0 xffl' xreal' direct.
Proof. reflexivity. Qed.
End Proofs.

(* ---------- RFC ranges, for every byte value (finite sweep lifted by forallb_forall) *)
Open Scope N_scope.
Definition bytes : list N := map N.of_nat (seq 0 256).
Lemma byte_in b : b < 256 -> In b bytes.
Proof. intro H. unfold bytes. apply in_map_iff. exists (N.to_nat b). split; [lia|]. apply in_seq. lia. Qed.

Definition rfc1918 (b0 b1 : N) : bool :=
  (b0 =? 10) || ((b0 =? 172) && (16 <=? b1) && (b1 <=? 31)) || ((b0 =? 192) && (b1 =? 168)).

Lemma private_v4_sweep :
  forallb (fun b0 => forallb (fun b1 => Bool.eqb (is_private_v4 b0 b1 0 0) (rfc1918 b0 b1)) bytes) bytes = true.
Proof. vm_compute. reflexivity. Qed.

Lemma private_v4_indep b0 b1 b2 b3 : is_private_v4 b0 b1 b2 b3 = is_private_v4 b0 b1 0 0.
Proof. reflexivity. Qed.

Theorem private_v4_rfc b0 b1 b2 b3 : b0 < 256 -> b1 < 256 ->
  is_private [b0; b1; b2; b3] = rfc1918 b0 b1.
Proof.
  intros H0 H1. cbn [is_private]. rewrite private_v4_indep.
  pose proof private_v4_sweep as S. rewrite forallb_forall in S. specialize (S b0 (byte_in b0 H0)).
  rewrite forallb_forall in S. specialize (S b1 (byte_in b1 H1)). apply Bool.eqb_prop in S. exact S.
Qed.

(* fc00::/7 *)
Lemma private_v6_sweep :
  forallb (fun b0 => Bool.eqb (is_private_v6 16 b0 0 0 0) ((b0 =? 252) || (b0 =? 253))) bytes = true.
Proof. vm_compute. reflexivity. Qed.

Theorem private_v6_rfc (a : ip) : List.length a = 16%nat -> nthb a 0 < 256 ->
  is_private a = ((nthb a 0 =? 252) || (nthb a 0 =? 253)).
Proof.
  intros Hl Hb. destruct a as [|a0 [|a1 [|a2 [|a3 [|a4 r]]]]]; try discriminate.
  cbn [is_private]. rewrite Hl. change (N.of_nat 16) with 16.
  pose proof private_v6_sweep as S. rewrite forallb_forall in S.
  specialize (S _ (byte_in _ Hb)). apply Bool.eqb_prop in S.
  unfold nthb in *. cbn [nth] in *. exact S.
Qed.

(* loopback 127/8 and ::1, link-local 169.254/16 and fe80::/10 *)
Theorem loopback_v4 b0 b1 b2 b3 : is_loopback [b0; b1; b2; b3] = (b0 =? 127).
Proof. reflexivity. Qed.
Theorem link_local_v4 b0 b1 b2 b3 : is_link_local [b0; b1; b2; b3] = ((b0 =? 169) && (b1 =? 254)).
Proof. reflexivity. Qed.
Lemma link_local_v6_sweep :
  forallb (fun b1 => Bool.eqb (N.land b1 192 =? 128) ((128 <=? b1) && (b1 <=? 191))) bytes = true.
Proof. vm_compute. reflexivity. Qed.
Theorem link_local_v6 b0 b1 r : List.length r = 14%nat -> b1 < 256 ->
  is_link_local (b0 :: b1 :: r) = ((b0 =? 254) && (128 <=? b1) && (b1 <=? 191)).
Proof.
  intros Hl Hb. destruct r as [|r0 [|r1 [|r2 r']]]; try discriminate.
  cbn [is_link_local]. 
  pose proof link_local_v6_sweep as S. rewrite forallb_forall in S.
  specialize (S _ (byte_in _ Hb)). apply Bool.eqb_prop in S. rewrite S.
  replace (Nat.eqb (List.length (r0 :: r1 :: r2 :: r')) 14) with true by (rewrite Hl; reflexivity).
  cbn [andb]. rewrite andb_assoc. reflexivity.
Qed.
