From Coq Require Extraction.
From Coq Require Import ExtrOcamlBasic.
From Echo Require Import Glue.G19.
Extraction "extracted/m19.ml" G19.run_sx.
