From Coq Require Extraction.
From Coq Require Import ExtrOcamlBasic.
From Echo Require Import Glue.G03.
Extraction "extracted/m03.ml" G03.run_sx.
