(* The statement-level translation of Router.Reverse (Gen/Src_reverse.v, regenerated from router.go on every run, language
   Base/GoLoop.v) writes, for EVERY route list, name and value list, exactly what the model's [reverse] yields on the pattern
   of the FIRST route registered under that name (nothing when there is none).  [reverse] is the function C20_parsers_agree
   and the correspondence are about.  The byte loop moves its own counter (`i++` for an escaped colon, the inner loop that
   skips a parameter name), so it is a general `for` (SWhile, fuel = len + 1) - that it never runs out of fuel is part of
   what is proved.  (C20) *)
From Coq Require Import List ZArith Bool String Ascii Lia NArith.
From Echo.Router Require Import Spec2 Reverse.
From Echo Require Import Base.Sx Base.GoLoop Gen.Src_reverse.
Import ListNotations.
Open Scope Z_scope.

Definition zero : ascii := "000"%char.
Definition code_of (ch : ascii) : Z := Z.of_N (N_of_ascii ch).
Definition char_of (z : Z) : ascii := ascii_of_N (Z.to_N z).
Lemma char_code ch : char_of (code_of ch) = ch.
Proof. unfold char_of, code_of. rewrite N2Z.id. apply ascii_N_embedding. Qed.
Lemma code_bslash ch : (code_of ch =? 92) = Ascii.eqb ch bslash.
Proof. destruct ch as [[] [] [] [] [] [] [] []]; reflexivity. Qed.
Lemma code_colon ch : (code_of ch =? 58) = Ascii.eqb ch colon.
Proof. destruct ch as [[] [] [] [] [] [] [] []]; reflexivity. Qed.
Lemma code_star ch : (code_of ch =? 42) = Ascii.eqb ch starc.
Proof. destruct ch as [[] [] [] [] [] [] [] []]; reflexivity. Qed.
Lemma code_slash ch : (code_of ch =? 47) = Ascii.eqb ch "/"%char.
Proof. destruct ch as [[] [] [] [] [] [] [] []]; reflexivity. Qed.

Lemma skipn_nth {A} (d : A) (l : list A) k : (k < List.length l)%nat -> skipn k l = nth k l d :: skipn (S k) l.
Proof. revert k. induction l as [|x r IH]; intros k H; [cbn in H; lia|]. destruct k; [reflexivity|]. cbn. apply IH. cbn in H. lia. Qed.
Lemma skipn_length_lt {A} (l : list A) k : (List.length (skipn k l) = List.length l - k)%nat.
Proof. apply skipn_length. Qed.

(* ---- the model's reverse without fuel *)
Definition rev (p : str) (vs : list str) : str := reverse (S (List.length p)) p vs.
Lemma reverse_fuel : forall f p vs, (List.length p < f)%nat -> reverse f p vs = rev p vs.
Proof.
  assert (H : forall f1 f2 p vs, (List.length p < f1)%nat -> (List.length p < f2)%nat -> reverse f1 p vs = reverse f2 p vs).
  { induction f1 as [|f1 IH]; intros f2 p vs H1 H2; [lia|]. destruct f2 as [|f2]; [lia|].
    destruct p as [|c r]; [reflexivity|]. cbn [reverse]. cbn in H1, H2.
    destruct (Ascii.eqb c bslash).
    - destruct r as [|c2 r2]; [reflexivity|]. cbn in H1, H2.
      destruct (Ascii.eqb c2 colon); f_equal; apply IH; cbn; lia.
    - destruct (Ascii.eqb c colon || Ascii.eqb c starc).
      + destruct vs as [|v vs']; [f_equal; apply IH; lia|].
        f_equal. pose proof (drop_seg_length r). apply IH; lia.
      + f_equal. apply IH; lia. }
  intros f p vs Hf. unfold rev. apply H; lia.
Qed.
Lemma reverse_S f p vs : reverse (S f) p vs =
  match p with
  | [] => []
  | c :: r =>
    if Ascii.eqb c bslash then
      match r with
      | c2 :: r2 => if Ascii.eqb c2 colon then colon :: reverse f r2 vs else c :: reverse f r vs
      | [] => [c]
      end
    else if Ascii.eqb c colon || Ascii.eqb c starc then
      match vs with
      | v :: vs' => (v ++ reverse f (drop_seg r) vs')%list
      | [] => c :: reverse f r vs
      end
    else c :: reverse f r vs
  end.
Proof. reflexivity. Qed.
Lemma rev_nil vs : rev [] vs = [].
Proof. reflexivity. Qed.
Lemma rev_esc r2 vs : rev (bslash :: colon :: r2) vs = colon :: rev r2 vs.
Proof. unfold rev at 1. rewrite reverse_S. change (Ascii.eqb bslash bslash) with true. change (Ascii.eqb colon colon) with true. cbn iota.
  f_equal. apply reverse_fuel. cbn [List.length]. lia. Qed.
Lemma rev_bs_other c2 r2 vs : Ascii.eqb c2 colon = false -> rev (bslash :: c2 :: r2) vs = bslash :: rev (c2 :: r2) vs.
Proof. intro E. unfold rev at 1. rewrite reverse_S. change (Ascii.eqb bslash bslash) with true. rewrite E. cbn iota.
  f_equal. Qed.
Lemma rev_bs_end vs : rev [bslash] vs = [bslash].
Proof. reflexivity. Qed.
Lemma rev_param c r v vs : Ascii.eqb c bslash = false -> Ascii.eqb c colon || Ascii.eqb c starc = true ->
  rev (c :: r) (v :: vs) = (v ++ rev (drop_seg r) vs)%list.
Proof. intros E1 E2. unfold rev at 1. rewrite reverse_S, E1, E2. f_equal. apply reverse_fuel.
  pose proof (drop_seg_length r). cbn [List.length]. lia. Qed.
Lemma rev_keep c r vs : Ascii.eqb c bslash = false -> (vs = [] \/ Ascii.eqb c colon || Ascii.eqb c starc = false) ->
  rev (c :: r) vs = c :: rev r vs.
Proof. intros E1 E2. unfold rev at 1. rewrite reverse_S, E1.
  destruct (Ascii.eqb c colon || Ascii.eqb c starc).
  - destruct E2 as [-> | E2]; [|discriminate]. reflexivity.
  - reflexivity. Qed.
Lemma rev_slash r vs : rev ("/"%char :: r) vs = "/"%char :: rev r vs.
Proof. apply rev_keep; [reflexivity | right; reflexivity]. Qed.
Lemma drop_seg_shape r : drop_seg r = [] \/ exists r', drop_seg r = "/"%char :: r'.
Proof. induction r as [|c r IH]; [left; reflexivity|]. cbn. destruct (Ascii.eqb c "/") eqn:E; [|exact IH].
  right. apply Ascii.eqb_eq in E. subst c. eexists. reflexivity. Qed.

(* ---- what the buffer holds: the writes, in order *)
Definition enc (ev : string * list val) : str :=
  if String.eqb (fst ev) "uri.WriteString" then match snd ev with [VS s] => s | _ => [] end
  else if String.eqb (fst ev) "uri.WriteByte" then match snd ev with [VZ c] => [char_of c] | _ => [] end
  else [].
Definition written (evs : list (string * list val)) : str := flat_map enc evs.
Lemma written_app a b : written (a ++ b) = (written a ++ written b)%list.
Proof. unfold written. apply flat_map_app. Qed.

Section Src.
Variables (routes : list (str * str)) (name : str) (vals : list str).

Definition rval (r : str * str) : val := VL [VS (fst r); VS (snd r)].
Definition rpred (p : string) (args : list val) : val :=
  if String.eqb p "len" then match args with [VS s] => VZ (Z.of_nat (List.length s)) | [VL l] => VZ (Z.of_nat (List.length l)) | _ => VZ 0 end
  else if String.eqb p ".Name" then match args with [VL [n; _]] => n | _ => VZ 0 end
  else if String.eqb p ".Path" then match args with [VL [_; q]] => q | _ => VZ 0 end
  else if String.eqb p "index" then
    match args with
    | [VS s; VZ i] => VZ (code_of (nth (Z.to_nat i) s zero))
    | [VL l; VZ i] => nth (Z.to_nat i) l (VZ 0)
    | _ => VZ 0
    end
  else if String.eqb p "fmt.Sprintf" then match args with [VS f; VS v] => if Sx.str_eqb f (lit "%v") then VS v else VZ 0 | _ => VZ 0 end
  else VZ 0.
Definition rsym (s : string) : val := VZ 0.

Local Notation mk vroute vi vl vhb vn evs :=
  {| locals := [("name"%string, VS name); ("params"%string, VL (map VS vals)); ("uri"%string, VZ 0);
                ("ln"%string, VZ (Z.of_nat (List.length vals))); ("n"%string, vn); ("route"%string, vroute); ("i"%string, vi);
                ("l"%string, vl); ("hasBackslash"%string, vhb)];
     fields := []; lists := [("r.routes"%string, map rval routes)]; events := evs; inputs := [] |}.

Section OneRoute.
Variables (rname p : str).
Local Notation R := (VL [VS rname; VS p]).
Local Notation L := (VZ (Z.of_nat (List.length p))).
Local Notation st k j hb evs := (mk R (VZ (Z.of_nat k)) L hb (VZ (Z.of_nat j)) evs).

(* the inner loop: for ; i < l && route.Path[i] != '/'; i++ {} *)
Lemma skip_loop (C : state -> bool) (B Q : state -> state * ctl) :
  (forall k j hb evs, C (st k j hb evs) = (k <? List.length p)%nat && negb (Ascii.eqb (nth k p zero) "/"%char)) ->
  (forall s, B s = (s, Next)) ->
  (forall k j hb evs, Q (st k j hb evs) = (st (S k) j hb evs, Next)) ->
  forall n k j hb evs, (List.length p - k < n)%nat ->
  exists k', while_loop C B Q n (st k j hb evs) = (st k' j hb evs, Next) /\ (k <= k')%nat /\ skipn k' p = drop_seg (skipn k p).
Proof.
  intros HC HB HQ n. induction n as [|n IH]; intros k j hb evs Hn; [lia|].
  cbn [while_loop]. rewrite HC.
  destruct (Nat.ltb_spec k (List.length p)) as [Hk|Hge]; cbn [andb].
  - rewrite (skipn_nth zero p k Hk). cbn [drop_seg].
    destruct (Ascii.eqb (nth k p zero) "/"%char) eqn:Es; cbn [negb].
    + exists k. split; [reflexivity|]. split; [lia|]. apply (skipn_nth zero p k Hk).
    + rewrite HB, HQ. destruct (IH (S k) j hb evs) as (k' & Hr & Hle & Hs); [lia|].
      exists k'. split; [exact Hr|]. split; [lia|exact Hs].
  - exists k. split; [reflexivity|]. split; [lia|]. rewrite skipn_all2 by lia. reflexivity.
Qed.

(* the byte loop: one iteration of the body, then the loop as a whole *)
Lemma byte_loop (C : state -> bool) (B Q : state -> state * ctl) :
  (forall k j hb evs, C (st k j hb evs) = (k <? List.length p)%nat) ->
  (forall k j hb evs, Q (st k j hb evs) = (st (S k) j hb evs, Next)) ->
  (forall k j hb evs, (k < List.length p)%nat ->
     exists k1 j1 hb1 out cN, B (st k j hb evs) = (st k1 j1 hb1 (evs ++ out), cN) /\ goes_on cN /\ (k <= k1)%nat /\
       rev (skipn k p) (skipn j vals) = (written out ++ rev (skipn (S k1) p) (skipn j1 vals))%list) ->
  forall n k j hb evs, (List.length p - k < n)%nat ->
  exists k' j' hb' evs', while_loop C B Q n (st k j hb evs) = (st k' j' hb' evs', Next) /\
    written evs' = (written evs ++ rev (skipn k p) (skipn j vals))%list.
Proof.
  intros HC HQ HB n. induction n as [|n IH]; intros k j hb evs Hn; [lia|].
  cbn [while_loop]. rewrite HC.
  destruct (Nat.ltb_spec k (List.length p)) as [Hlt|Hge].
  - destruct (HB k j hb evs) as (k1 & j1 & hb1 & out & cN & HBe & Hgo & Hle & Hm); [lia|].
    rewrite HBe. assert (Hsame : forall (X : state * ctl), match cN with Brk => (st k1 j1 hb1 (evs ++ out)%list, Next) | Ret w => (st k1 j1 hb1 (evs ++ out)%list, Ret w) | _ => X end = X)
      by (intro X; destruct Hgo as [-> | ->]; reflexivity).
    rewrite Hsame, HQ.
    destruct (IH (S k1) j1 hb1 (evs ++ out)%list) as (k' & j' & hb' & evs' & Hr & Hw); [lia|].
    exists k', j', hb', evs'. split; [exact Hr|].
    rewrite Hw, written_app, Hm, app_assoc. reflexivity.
  - exists k, j, hb, evs. split; [reflexivity|].
    rewrite skipn_all2 by lia. rewrite rev_nil, app_nil_r. reflexivity.
Qed.
End OneRoute.

(* the loop over the routes: the first one of that name is reversed, then `break` *)
Definition first_named : option (str * str) := find (fun r => Sx.str_eqb (fst r) name) routes.
Definition st0 vroute vi vl vhb vn evs : state := mk vroute vi vl vhb vn evs.

Lemma route_loop (F : state -> state * ctl) :
  (forall r vi vl vhb evs,
     exists vi' vl' vhb' vn' evs',
     F (mk (rval r) vi vl vhb (VZ 0) evs) =
       (if Sx.str_eqb (fst r) name
        then (mk (rval r) vi' vl' vhb' vn' evs', Brk)
        else (mk (rval r) vi vl vhb (VZ 0) evs, Next)) /\
     (Sx.str_eqb (fst r) name = true -> written evs' = (written evs ++ rev (snd r) vals)%list)) ->
  forall rs vroute vi vl vhb evs,
  exists vroute' vi' vl' vhb' vn' evs',
  range_loop F "route" (map rval rs) (mk vroute vi vl vhb (VZ 0) evs) = (mk vroute' vi' vl' vhb' vn' evs', Next) /\
  written evs' = (written evs ++ match find (fun r => Sx.str_eqb (fst r) name) rs with Some r => rev (snd r) vals | None => [] end)%list.
Proof.
  intros HF rs. induction rs as [|r rs IH]; intros vroute vi vl vhb evs.
  - exists vroute, vi, vl, vhb, (VZ 0), evs. cbn. rewrite app_nil_r. split; reflexivity.
  - cbn [map range_loop find].
    change (set_local (mk vroute vi vl vhb (VZ 0) evs) "route" (rval r)) with (mk (rval r) vi vl vhb (VZ 0) evs).
    destruct (HF r vi vl vhb evs) as (vi' & vl' & vhb' & vn' & evs' & HFe & Hw). rewrite HFe.
    destruct (Sx.str_eqb (fst r) name) eqn:En.
    + exists (rval r), vi', vl', vhb', vn', evs'. split; [reflexivity|]. apply Hw. reflexivity.
    + apply IH.
Qed.

(* ---- the pieces of the translated body *)
Definition kmid : nat := first_range src_reverse.
Definition pre_part : list stmt := firstn kmid src_reverse.
Definition mid_stmt : stmt := nth kmid src_reverse SBreak.
Definition post_part : list stmt := skipn (S kmid) src_reverse.
Lemma src_split : src_reverse = (pre_part ++ mid_stmt :: post_part)%list.
Proof. vm_compute. reflexivity. Qed.

Lemma truthy_0 : truthy (VZ 0) = false.  Proof. reflexivity. Qed.
Lemma truthy_1 : truthy (VZ 1) = true.  Proof. reflexivity. Qed.
Ltac rev_eval :=
  repeat (rewrite ?truthy_b2v, ?truthy_0, ?truthy_1;
          cbn [exec exec_s eval get put getl assign set_local locals fields lists events inputs String.eqb Ascii.eqb Bool.eqb
               map tl app negb andb fst snd as_z as_l val_eqb rsym rpred rval lit list_ascii_of_string Sx.str_eqb];
          try unfold set_local).

Definition is_while (s : stmt) : bool := match s with SWhile _ _ _ _ => true | _ => false end.
Definition route_body : list stmt := match mid_stmt with SRange _ _ b => b | _ => [] end.
Definition match_body : list stmt := match route_body with [SIf _ t _] => t | _ => [] end.
Definition byte_while : stmt := match find is_while match_body with Some s => s | None => SBreak end.
Definition byte_body : list stmt := match byte_while with SWhile _ _ b _ => b | _ => [] end.

Lemma of_nat_S k : Z.of_nat k + 1 = Z.of_nat (S k).
Proof. lia. Qed.
Lemma ltb_nat a b : (Z.of_nat a <? Z.of_nat b) = (a <? b)%nat.
Proof. destruct (Nat.ltb_spec a b); destruct (Z.ltb_spec (Z.of_nat a) (Z.of_nat b)); try reflexivity; lia. Qed.

Lemma leb_nat a b : (Z.of_nat a <=? Z.of_nat b) = (a <=? b)%nat.
Proof. destruct (Nat.leb_spec a b); destruct (Z.leb_spec (Z.of_nat a) (Z.of_nat b)); try reflexivity; lia. Qed.
(* every comparison of counters in one form: x < y on nat (a test written `i >= l` becomes negb (i < l)) *)
Ltac norm := rewrite ?Nat2Z.id, ?of_nat_S, ?Nat2Z.id, ?ltb_nat, ?leb_nat, ?Nat.leb_antisym, ?code_bslash, ?code_colon, ?code_star, ?code_slash.
Ltac step := rev_eval; norm.
Ltac fin := unfold written; cbn [flat_map enc fst snd String.eqb Ascii.eqb Bool.eqb app]; rewrite ?char_code, ?app_nil_r; try reflexivity.

Lemma nth_map_VS (l : list str) j : (j < List.length l)%nat -> nth j (map VS l) (VZ 0) = VS (nth j l []).
Proof. intro H. rewrite (nth_indep _ (VZ 0) (VS [])) by (rewrite map_length; exact H). apply (map_nth VS). Qed.

Section Body.
Variables (rname p : str).
Local Notation R := (VL [VS rname; VS p]).
Local Notation L := (VZ (Z.of_nat (List.length p))).
Local Notation st k j hb evs := (mk R (VZ (Z.of_nat k)) L hb (VZ (Z.of_nat j)) evs).

(* facts first (every comparison the body can make is decided up front and kept as an equation), then evaluation: the
   script does not depend on the order in which the source makes its tests *)
Ltac use_facts := repeat match goal with
                         | H : ?l = true |- context [?l] => rewrite H
                         | H : ?l = false |- context [?l] => rewrite H
                         end.
Ltac crunch := repeat (progress (step; use_facts)).

Lemma body_spec k j hb evs : (k < List.length p)%nat ->
  exists k1 j1 hb1 out cN, exec rsym rpred [] byte_body (st k j hb evs) = (st k1 j1 hb1 (evs ++ out), cN) /\ goes_on cN /\ (k <= k1)%nat /\
    rev (skipn k p) (skipn j vals) = (written out ++ rev (skipn (S k1) p) (skipn j1 vals))%list.
Proof.
  intro Hk. pose proof (skipn_nth zero p k Hk) as Hs.
  let b := eval vm_compute in byte_body in change byte_body with b.
  assert (Hkl : (k <? List.length p)%nat = true) by (apply Nat.ltb_lt; exact Hk).
  destruct (Ascii.eqb (nth k p zero) bslash) eqn:Eb.
  - assert (Hc : nth k p zero = bslash) by (apply Ascii.eqb_eq; exact Eb).
    assert (Hcs : Ascii.eqb (nth k p zero) starc = false) by (rewrite Hc; reflexivity).
    assert (Hcc : Ascii.eqb (nth k p zero) colon = false) by (rewrite Hc; reflexivity).
    destruct (j <? List.length vals)%nat eqn:Ej;
      (destruct ((S k <? List.length p)%nat) eqn:El; [destruct (Ascii.eqb (nth (S k) p zero) colon) eqn:Ec|]).
    all: try (assert (Hn : nth (S k) p zero = colon) by (apply Ascii.eqb_eq; exact Ec);
              assert (Hst : Ascii.eqb (nth (S k) p zero) starc = false) by (rewrite Hn; reflexivity)).
    all: crunch.
    (* an escaped colon: the backslash is skipped, the colon written *)
    all: try (match goal with Hn' : nth _ _ _ = colon |- _ => idtac end;
              exists (S k), j, (b2v true); do 2 eexists; (split; [reflexivity|]); (split; [first [left; reflexivity | right; reflexivity]|]); (split; [lia|]);
              rewrite Hs, (skipn_nth zero p (S k)) by (apply Nat.ltb_lt; exact El); rewrite Hc, Hn, rev_esc; fin; fail).
    (* a backslash before something else, or at the end: written as it is *)
    all: exists k, j, (b2v true); do 2 eexists; (split; [reflexivity|]); (split; [first [left; reflexivity | right; reflexivity]|]); (split; [lia|]).
    all: try (match goal with Ec' : Ascii.eqb (nth (S _) _ _) colon = false |- _ => idtac end;
              rewrite Hs, (skipn_nth zero p (S k)) by (apply Nat.ltb_lt; exact El); rewrite Hc, (rev_bs_other _ _ _ Ec); fin; fail).
    all: apply Nat.ltb_ge in El; rewrite Hs, (skipn_all2 p (n := S k)) by lia; rewrite Hc, rev_bs_end, rev_nil; fin.
  - destruct (j <? List.length vals)%nat eqn:Ej; destruct (Ascii.eqb (nth k p zero) starc) eqn:Est;
      destruct (Ascii.eqb (nth k p zero) colon) eqn:Eco.
    all: try (apply Ascii.eqb_eq in Est; apply Ascii.eqb_eq in Eco; rewrite Est in Eco; discriminate).
    (* a parameter or the wildcard, and a value is left: the name is skipped, the value written, then the '/' if there is one *)
    all: try (match goal with Ej' : (_ <? _)%nat = true, E' : Ascii.eqb (nth _ _ _) _ = true |- _ => idtac end;
         assert (Hp : Ascii.eqb (nth k p zero) colon || Ascii.eqb (nth k p zero) starc = true) by (rewrite Est, Eco; reflexivity);
         assert (Hnsl : Ascii.eqb (nth k p zero) "/"%char = false)
           by (first [apply Ascii.eqb_eq in Est; rewrite Est; reflexivity | apply Ascii.eqb_eq in Eco; rewrite Eco; reflexivity]);
         crunch;
         match goal with |- context [while_loop ?C ?B ?Q ?fu ?s] =>
           destruct (skip_loop rname p C B Q) with (n := fu) (k := k) (j := j) (hb := b2v false) (evs := evs) as (k' & Hr & Hle & Hsk);
             [intros; step; reflexivity | intros; reflexivity | intros; step; reflexivity | lia | ]
         end;
         rewrite Hr; clear Hr;
         pose proof Ej as Ej'; apply Nat.ltb_lt in Ej';
         destruct (k' <? List.length p)%nat eqn:Ek';
         crunch; rewrite (nth_map_VS _ _ Ej'); crunch;
         rewrite Hs in Hsk; cbn [drop_seg] in Hsk; rewrite Hnsl in Hsk;
         rewrite Hs, (skipn_nth [] vals j Ej'), (rev_param _ _ _ _ Eb Hp), <- Hsk;
         [ apply Nat.ltb_lt in Ek'; rewrite (skipn_nth zero p k' Ek') in Hsk |- *;
           destruct (drop_seg_shape (skipn (S k) p)) as [Hd | [r' Hd]]; rewrite Hd in Hsk; [discriminate|];
           injection Hsk as Hsl Hr'; rewrite Hsl;
           exists k', (S j), (b2v false); do 2 eexists; (split; [rewrite <- app_assoc; reflexivity|]); (split; [first [left; reflexivity | right; reflexivity]|]); (split; [lia|]);
           rewrite rev_slash; fin; rewrite <- app_assoc; reflexivity
         | apply Nat.ltb_ge in Ek'; rewrite (skipn_all2 p (n := k')), rev_nil by lia;
           exists k', (S j), (b2v false); do 2 eexists; (split; [reflexivity|]); (split; [first [left; reflexivity | right; reflexivity]|]); (split; [lia|]);
           rewrite (skipn_all2 p (n := S k')), rev_nil by lia; fin ]; fail).
    (* anything else: written as it is *)
    all: crunch.
    all: exists k, j, (b2v false); do 2 eexists; (split; [reflexivity|]); (split; [first [left; reflexivity | right; reflexivity]|]); (split; [lia|]).
    all: try (match goal with Ej' : (_ <? _)%nat = false |- _ => idtac end;
              apply Nat.ltb_ge in Ej; rewrite Hs, (skipn_all2 vals (n := j)) by lia;
              rewrite (rev_keep _ _ _ Eb) by (left; reflexivity); fin; fail).
    all: rewrite Hs, (rev_keep _ _ _ Eb) by (right; rewrite Est, Eco; reflexivity); fin.
Qed.
End Body.

Definition start : state :=
  mk (VZ 0) (VZ 0) (VZ 0) (VZ 0) (VZ 0) [].

Theorem src_reverse_spec :
  let '(st', ret) := run rsym rpred src_reverse_results src_reverse start in
  written (events st') = match first_named with Some r => rev (snd r) vals | None => [] end /\ ret = [VZ 0].
Proof.
  unfold run, first_named. rewrite src_split, exec_app. unfold src_reverse_results, start.
  let m := eval vm_compute in pre_part in change pre_part with m.
  step. rewrite map_length.
  let m := eval vm_compute in mid_stmt in change mid_stmt with m.
  let m := eval vm_compute in post_part in change post_part with m.
  cbn [exec]. step.
  match goal with |- context [range_loop ?F "route" _ ?s] =>
    destruct (route_loop F) with (rs := routes) (vroute := VZ 0) (vi := VZ 0) (vl := VZ 0) (vhb := VZ 0)
                                 (evs := @nil (string * list val)) as (vr' & vi' & vl' & vhb' & vn' & evs' & Hr & Hw)
  end.
  2: { match type of Hr with ?L = _ => match goal with |- context [range_loop ?F "route" ?l ?s] => change (range_loop F "route" l s) with L end end.
       rewrite Hr. step. split; [exact Hw | reflexivity]. }
  intros r vi vl vhb evs. destruct r as [rn p]. step.
  destruct (Sx.str_eqb rn name) eqn:En.
  - step.
    match goal with |- context [while_loop ?C ?B ?Q ?fu ?s] =>
      destruct (byte_loop rn p C B Q) with (n := fu) (k := 0%nat) (j := 0%nat) (hb := vhb) (evs := evs)
        as (k' & j' & hb' & evs' & Hr & Hw)
    end.
    + intros; step; reflexivity.
    + intros; step; reflexivity.
    + intros k j hb evs0 Hk. apply (body_spec rn p k j hb evs0 Hk).
    + lia.
    + match type of Hr with ?L = _ => match goal with |- context [while_loop ?C ?B ?Q ?n ?s] => change (while_loop C B Q n s) with L end end.
      rewrite Hr. step. do 5 eexists. split; [reflexivity|]. intros _. rewrite Hw. reflexivity.
  - exists vi, vl, vhb, (VZ 0), evs. split; [reflexivity|]. intro; discriminate.
Qed.
End Src.

(* ---- closed statement: for every route list, name and value list *)
Theorem C20_source_reverse : forall (routes : list (str * str)) (name : str) (vals : list str),
  let '(st', ret) := run rsym rpred src_reverse_results src_reverse (start routes name vals) in
  written (events st') =
    match find (fun r => Sx.str_eqb (fst r) name) routes with
    | Some r => reverse (S (List.length (snd r))) (snd r) vals
    | None => []
    end /\ ret = [VZ 0].
Proof. exact src_reverse_spec. Qed.
Print Assumptions C20_source_reverse.

(* non-vacuity: an escaped colon, a parameter, literal text, a wildcard; the second route of that name is not looked at *)
Example reverse_src_example :
  let routes := [(lit "other", lit "/x/:a"); (lit "u", lit "/v1\:go/:id/f/*"); (lit "u", lit "/zz")] in
  let '(st', _) := run rsym rpred src_reverse_results src_reverse (start routes (lit "u") [lit "7"; lit "a/b"]) in
  written (events st') = lit "/v1:go/7/f/a/b".
Proof. vm_compute. reflexivity. Qed.
