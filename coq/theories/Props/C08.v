(* C08 — binding converts text exactly or rejects it; never wraps.  Statements only; proofs in
   Bind/ValueBinderProofs.v.  [denotes s z]: s is an optional sign and at least one ASCII digit and z is
   its decimal value.  The tables binder_scalars / binder_slices / bind_kinds are regenerated from
   binder.go / bind.go on every run.  Integer and unsigned families are parsed by the model; floats, bools and durations
   are parsed by the standard library, which enters as the oracle [orc] (every theorem holds for every
   oracle); times and unmarshalers are not modelled (see DESIGN). *)
From Coq Require Import List Bool ZArith String.
From Echo Require Import Base.Sx Bind.ParseNum Bind.ValueBinder Bind.ValueBinderProofs Bind.SplitProofs Gen.Src_binder.
Import ListNotations.
Open Scope Z_scope.
From Echo Require Import PropLemmas.C08.

(* the parsers accept exactly the decimal notations that fit the width: nothing else (spaces, '_',
   hex, exponent, unicode digits, empty text, out-of-range numbers) *)
Theorem C08_parse_int_exact : forall bits s z,
  parse_int bits s = Some z <-> (denotes s z /\ - 2 ^ (eff bits - 1) <= z < 2 ^ (eff bits - 1)).
Proof. exact parse_int_exact. Qed.
Print Assumptions C08_parse_int_exact.

Theorem C08_parse_uint_exact : forall bits s z,
  parse_uint bits s = Some z <-> (denotes_u s z /\ 0 <= z < 2 ^ eff bits).
Proof. exact parse_uint_exact. Qed.
Print Assumptions C08_parse_uint_exact.

(* in every generated table entry: width given to strconv = width of the conversion = width of the
   destination *)
Theorem C08_tables_consistent :
  forallb (fun t => entry_ok (snd (dec_entry t))) binder_scalars = true /\
  forallb (fun t => entry_ok (snd (dec_entry t))) binder_slices = true /\
  forallb (fun t => let '(_, _, b, w) := t in (eff b =? w) && (0 <? w)) bind_kinds = true.
Proof. exact (conj scalars_ok (conj slices_ok kinds_ok)). Qed.
Print Assumptions C08_tables_consistent.

(* hence a value-binder call that reports no error stored exactly the number the text denotes *)
Theorem C08_scalar_no_wrap : forall orc name e v dest x, find_entry binder_scalars name = Some e -> int_fam e = true ->
  v <> [] -> scalar_call orc e v dest = (x, false) -> parse orc (fam e) (bits e) v = Some x.
Proof. exact C08_scalar_no_wrap_l. Qed.
Print Assumptions C08_scalar_no_wrap.

Theorem C08_slice_no_wrap : forall orc name e vs xs, find_entry binder_slices name = Some e -> int_fam e = true ->
  fill orc e false vs = (xs, false) -> map (parse orc (fam e) (bits e)) vs = map Some xs.
Proof. exact C08_slice_no_wrap_l. Qed.
Print Assumptions C08_slice_no_wrap.

(* a failing call leaves its destination unchanged; empty text counts as absent *)
Theorem C08_unchanged_on_error : forall orc e v dest x, scalar_call orc e v dest = (x, true) -> x = dest.
Proof. exact scalar_error_unchanged. Qed.
Print Assumptions C08_unchanged_on_error.

Theorem C08_slice_unchanged_on_error : forall orc e ff had vs dest x, slice_call orc e ff had vs dest = (x, true) -> x = dest.
Proof. exact slice_error_unchanged. Qed.
Print Assumptions C08_slice_unchanged_on_error.

Theorem C08_empty_is_absent : forall orc e dest, scalar_call orc e [] dest = (dest, must e).
Proof. exact scalar_absent. Qed.
Print Assumptions C08_empty_is_absent.

(* fail-fast: once an error is recorded, no later call of the chain writes anything *)
Theorem C08_failfast : forall orc cs, chain orc true true cs = (map initial cs, true).
Proof. exact failfast_nothing_after_error. Qed.
Print Assumptions C08_failfast.

(* struct binding: exact value (empty text = zero) or error *)
Theorem C08_struct_no_wrap : forall orc k v dest x f b w, find_kind bind_kinds k = Some (f, b, w) -> (f = 0 \/ f = 1) ->
  bind_kind orc k v dest = Some (x, false) -> parse orc f b (match v with [] => zero_text f | _ => v end) = Some x.
Proof. exact bind_kind_exact. Qed.
Print Assumptions C08_struct_no_wrap.

(* float, bool and duration destinations (value binder, scalar and slice, and struct fields): a call that
   reports no error stored exactly what strconv.ParseFloat / ParseBool / time.ParseDuration returned for that
   text at the destination's width - for every behaviour of those parsers *)
Theorem C08_oracle_scalar_exact : forall orc name e v dest x, find_entry binder_scalars name = Some e -> 2 <= fam e ->
  v <> [] -> scalar_call orc e v dest = (x, false) -> orc (fam e) (bits e) v = Some x.
Proof. exact C08_oracle_scalar_exact_l. Qed.
Print Assumptions C08_oracle_scalar_exact.

Theorem C08_oracle_slice_exact : forall orc name e vs xs, find_entry binder_slices name = Some e -> 2 <= fam e ->
  fill orc e false vs = (xs, false) -> map (orc (fam e) (bits e)) vs = map Some xs.
Proof. exact C08_oracle_slice_exact_l. Qed.
Print Assumptions C08_oracle_slice_exact.

Theorem C08_oracle_struct_exact : forall orc k v dest x f b w, find_kind bind_kinds k = Some (f, b, w) -> 2 <= f ->
  bind_kind orc k v dest = Some (x, false) -> orc f b (match v with [] => zero_text f | _ => v end) = Some x.
Proof. exact bind_kind_oracle. Qed.
Print Assumptions C08_oracle_struct_exact.

(* delimiter-split binding (BindWithDelimiter): the values are the pieces of strings.Split - joined by the delimiter
   they give back the text, nothing is lost or invented - and are then bound like the values of a slice call *)
Theorem C08_delimiter_faithful : forall d s, d <> [] -> join d (split d s) = s.
Proof. exact join_split. Qed.
Print Assumptions C08_delimiter_faithful.

Example C08_example :
  parse_int 8 (lit "128") = None /\ parse_int 8 (lit "-128") = Some (-128) /\ parse_int 8 (lit "+127") = Some 127 /\
  parse_int 64 (lit "1_000") = None /\ parse_uint 8 (lit "256") = None /\ parse_uint 16 (lit "0x10") = None /\
  parse_int 32 (lit " 1") = None /\ wrap_s 8 128 = -128.
Proof. vm_compute. repeat split. Qed.
