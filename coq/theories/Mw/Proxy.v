(* Model of middleware/proxy.go: commonBalancer.AddTarget/RemoveTarget, roundRobinBalancer.Next
   (first attempts and retries with the per-request last index) and the retry loop of
   ProxyWithConfig with the default RetryFilter (502 only).  (C19) *)
From Coq Require Import List Arith Bool.
Import ListNotations.

Section RR.
Variable T : Type.
Variable eqb : T -> T -> bool.

Record st := { targets : list T; idx : nat }.

(* AddTarget: refuses a duplicate name *)
Definition add (s : st) (t : T) : st * bool :=
  if existsb (eqb t) (targets s) then (s, false)
  else ({| targets := targets s ++ [t]; idx := idx s |}, true).

(* RemoveTarget: removes the first target with that name *)
Fixpoint remove1 (l : list T) (t : T) : list T * bool :=
  match l with
  | [] => ([], false)
  | x :: r => if eqb x t then (r, true) else let '(r', b) := remove1 r t in (x :: r', b)
  end.
Definition remove (s : st) (t : T) : st * bool :=
  let '(l, b) := remove1 (targets s) t in ({| targets := l; idx := idx s |}, b).

(* roundRobinBalancer.Next: [last] is the per-request "_round_robin_last_index" (None on the
   first attempt); returns the new balancer state, the new per-request value, the chosen index *)
Definition next (s : st) (last : option nat) : st * option nat * option nat :=
  match targets s with
  | [] => (s, last, None)
  | [_] => (s, last, Some 0)
  | _ =>
    match last with
    | Some i => let i' := if S i <? length (targets s) then S i else 0 in (s, Some i', Some i')
    | None => let i := if length (targets s) <=? idx s then 0 else idx s in
              ({| targets := targets s; idx := S i |}, Some i, Some i)
    end
  end.

(* the retry loop: [alive t] = this attempt at target t succeeds (else the proxy reports 502).
   Returns the balancer state, the attempted indices in order and whether a response was relayed. *)
Fixpoint attempt (retries : nat) (s : st) (last : option nat) (alive : T -> bool) : st * list nat * bool :=
  match next s last with
  | (s', _, None) => (s', [], false)
  | (s', last', Some i) =>
      match nth_error (targets s') i with
      | None => (s', [i], false)                       (* would be an index panic; excluded by next_in_range *)
      | Some t =>
          if alive t then (s', [i], true)
          else match retries with
               | 0 => (s', [i], false)
               | S r => let '(s'', is, ok) := attempt r s' last' alive in (s'', i :: is, ok)
               end
      end
  end.

Definition request (retry_count : nat) (s : st) (alive : T -> bool) : st * list nat * bool :=
  attempt retry_count s None alive.

(* k first attempts on a fixed list *)
Fixpoint firsts (s : st) (k : nat) : list nat :=
  match k with
  | 0 => []
  | S k' => match next s None with
            | (s', _, Some i) => i :: firsts s' k'
            | (s', _, None) => []
            end
  end.
End RR.
