From Coq Require Import List Bool Ascii String Arith ZArith Lia.
From Echo Require Import Base.Sx Net.Xff Mw.Cors.
Import ListNotations.
Open Scope char_scope.

(* ---------- glob facts *)
Lemma gm_star_eq p s : gm (star :: p) s = gm p s || match s with [] => false | _ :: s' => gm (star :: p) s' end.
Proof. simpl. destruct s; reflexivity. Qed.

Lemma gm_cons_eq c p d s : Ascii.eqb c star = false ->
  gm (c :: p) (d :: s) = (Ascii.eqb c qm || Ascii.eqb c d) && gm p s.
Proof. intros H. simpl. rewrite H. reflexivity. Qed.

Lemma gm_prefix_self : forall a p s, gm p s = true -> gm (a ++ p) (a ++ s) = true.
Proof.
  induction a as [|c a IH]; intros p s H; [exact H|].
  cbn [app]. destruct (Ascii.eqb c star) eqn:E.
  - apply Ascii.eqb_eq in E. subst c. rewrite gm_star_eq. apply orb_true_iff. right.
    rewrite gm_star_eq. apply orb_true_iff. left. apply IH. exact H.
  - rewrite gm_cons_eq by exact E. rewrite Ascii.eqb_refl, orb_true_r. simpl. apply IH. exact H.
Qed.

Lemma gm_self s : gm s s = true.
Proof. rewrite <- (app_nil_r s). apply gm_prefix_self. reflexivity. Qed.

Lemma gm_star_absorb : forall m p s, gm p s = true -> gm (star :: p) (m ++ s) = true.
Proof.
  induction m as [|c m IH]; intros p s H.
  - simpl app. rewrite gm_star_eq, H. reflexivity.
  - cbn [app]. rewrite gm_star_eq. apply orb_true_iff. right. apply IH. exact H.
Qed.

(* the regexp reading is contained in the glob reading *)
Lemma rm_gm : forall p s, rm p s = true -> gm p s = true.
Proof.
  induction p as [|c p IH]; intros s H; [exact H|].
  destruct (Ascii.eqb c star) eqn:E.
  - apply Ascii.eqb_eq in E. subst c. induction s as [|d s IHs].
    + simpl in *. rewrite orb_false_r in *. apply IH. exact H.
    + rewrite gm_star_eq. simpl in H. apply orb_true_iff in H as [H|H].
      * rewrite (IH _ H). reflexivity.
      * apply andb_true_iff in H as [_ H]. apply orb_true_iff. right. apply IHs. simpl. exact H.
  - destruct s as [|d s]; [simpl in H; rewrite E in H; discriminate|].
    rewrite gm_cons_eq by exact E. simpl in H. rewrite E in H.
    apply andb_true_iff in H as [H1 H2]. rewrite (IH _ H2), andb_true_r.
    apply orb_true_iff in H1 as [H1|H1]; apply andb_true_iff in H1 as [Ha Hb].
    + rewrite Ha. reflexivity.
    + rewrite Hb. apply orb_true_r.
Qed.

(* ---------- labels *)
Fixpoint join (sep : ascii) (ls : list str) : str :=
  match ls with [] => [] | [x] => x | x :: r => x ++ sep :: join sep r end.

Lemma join_cons sep x y r : join sep (x :: y :: r) = x ++ sep :: join sep (y :: r).
Proof. reflexivity. Qed.

Lemma join_app_ne sep a b : a <> [] -> b <> [] -> join sep (a ++ b) = join sep a ++ sep :: join sep b.
Proof.
  induction a as [|x a IH]; intros Ha Hb; [congruence|].
  destruct a as [|y a].
  - destruct b as [|z b]; [congruence|]. reflexivity.
  - change ((x :: y :: a) ++ b) with (x :: y :: (a ++ b)). rewrite !join_cons.
    change (y :: a ++ b) with ((y :: a) ++ b). rewrite IH by (auto; discriminate).
    rewrite <- app_assoc. reflexivity.
Qed.

Lemma split_on_ne sep s acc : split_on sep s acc <> [].
Proof. revert acc. induction s as [|c r IH]; intro acc; simpl; [discriminate|].
  destruct (Ascii.eqb c sep); [discriminate|apply IH]. Qed.

Lemma join_split sep : forall s acc, join sep (split_on sep s acc) = rev acc ++ s.
Proof.
  induction s as [|c r IH]; intro acc; simpl.
  - rewrite app_nil_r. reflexivity.
  - destruct (Ascii.eqb c sep) eqn:E.
    + apply Ascii.eqb_eq in E. subst c.
      destruct (split_on sep r []) as [|y ys] eqn:Es; [exfalso; eapply split_on_ne; eassumption|].
      rewrite join_cons. rewrite <- Es, IH. reflexivity.
    + rewrite IH. simpl. rewrite <- app_assoc. reflexivity.
Qed.

Lemma join_split_dot s : join dot (split_dot s) = s.
Proof. unfold split_dot. rewrite join_split. reflexivity. Qed.

Lemma ms_rev_spec : forall dom pat, ms_rev dom pat = true ->
  exists common dfront, pat = common ++ [[star]] /\ dom = common ++ dfront /\ dfront <> [].
Proof.
  induction dom as [|v dom IH]; intros pat H; [discriminate|].
  destruct pat as [|p pat]; [discriminate|]. simpl in H.
  destruct (is_star_label p) eqn:Es.
  - destruct pat; [|discriminate]. unfold is_star_label in Es. apply str_eqb_eq in Es.
    subst p. exists [], (v :: dom). repeat split; auto. discriminate.
  - destruct (str_eqb p v) eqn:Ev; [|discriminate]. apply str_eqb_eq in Ev. subst v.
    destruct (IH pat H) as [common [dfront [-> [-> Hne]]]]. exists (p :: common), dfront. repeat split; auto.
Qed.

Lemma labels_sound scheme (dlabels plabels : list str) :
  ms_rev (rev dlabels) (rev plabels) = true ->
  gm (scheme ++ join dot plabels) (scheme ++ join dot dlabels) = true.
Proof.
  intros H. destruct (ms_rev_spec _ _ H) as [common [dfront [Ep [Ed Hne]]]].
  apply (f_equal (@rev str)) in Ep. apply (f_equal (@rev str)) in Ed. rewrite rev_involutive in Ep, Ed.
  rewrite rev_app_distr in Ep, Ed. simpl in Ep. subst plabels dlabels.
  apply gm_prefix_self.
  assert (Hf : rev dfront <> []).
  { intro E; apply Hne; apply (f_equal (@rev str)) in E; rewrite rev_involutive in E; exact E. }
  destruct (rev common) as [|c0 cs] eqn:Ec.
  - rewrite app_nil_r. change (join dot ([] ++ [[star]])) with [star].
    rewrite <- (app_nil_r (join dot (rev dfront))). apply gm_star_absorb. reflexivity.
  - erewrite (join_app_ne dot _ (c0 :: cs)) by (auto; discriminate).
    erewrite join_cons. cbn [app].
    apply gm_star_absorb. apply gm_self.
Qed.

(* ---------- string level *)
Lemma before_colon_no_colon : forall s a, before_colon s = Some a -> forallb (fun c => negb (Ascii.eqb c ":")) a = true.
Proof. induction s as [|c r IH]; intros a H; simpl in H; [discriminate|].
  destruct (Ascii.eqb c ":") eqn:E; [inversion H; reflexivity|].
  destruct (before_colon r) as [a'|]; [|discriminate]. inversion H; subst. simpl. rewrite E. simpl. eauto. Qed.

Lemma after_sep_skip : forall sch rest, forallb (fun c => negb (Ascii.eqb c ":")) sch = true ->
  after_sep (sch ++ ":" :: "/" :: "/" :: rest) = Some rest.
Proof.
  induction sch as [|c r IH]; intros rest H; [reflexivity|].
  simpl in H. apply andb_true_iff in H as [Hc Hr]. cbn [app after_sep].
  destruct (ascii_dec c ":") as [->|Hn]; [discriminate|].
  rewrite <- (IH rest Hr).
  destruct c as [[] [] [] [] [] [] [] []]; try reflexivity. exfalso. apply Hn. reflexivity.
Qed.

Theorem subdomain_sound d p : shaped d -> shaped p -> match_subdomain d p = true -> gm p d = true.
Proof.
  intros [sd [rd [Hbd Ed]]] [sp [rp [Hbp Ep]]] H. unfold match_subdomain in H.
  apply andb_true_iff in H as [Hs H]. unfold match_scheme in Hs. rewrite Hbd, Hbp in Hs.
  apply str_eqb_eq in Hs. subst sp.
  pose proof (before_colon_no_colon _ _ Hbd) as Hnc.
  rewrite Ed, Ep in H. rewrite !after_sep_skip in H by exact Hnc.
  apply andb_true_iff in H as [_ H].
  pose proof (labels_sound (sd ++ [":"; "/"; "/"]) (split_dot rd) (split_dot rp) H) as G.
  rewrite !join_split_dot in G. rewrite <- !app_assoc in G. subst d p. exact G.
Qed.

(* ---------- the allow decision *)
Lemma allow_loop_sound c : forall os origin v, allow_loop c os origin = Some v ->
  (v = [star] /\ In [star] os) \/
  (v = origin /\ exists p, In p os /\
      ((p = [star] /\ creds c = true /\ unsafe_wild c = true) \/ p = origin \/ match_subdomain origin p = true)).
Proof.
  induction os as [|o r IH]; intros origin v H; [discriminate|]. simpl in H.
  destruct (is_star o && creds c && unsafe_wild c) eqn:E1.
  - inversion H; subst. apply andb_true_iff in E1 as [E1 E3]. apply andb_true_iff in E1 as [E1 E2].
    apply str_eqb_eq in E1. right. split; [reflexivity|]. exists o. split; [left; reflexivity|]. left. auto.
  - destruct (is_star o || str_eqb o origin) eqn:E2.
    + inversion H; subst. apply orb_true_iff in E2 as [E2|E2]; apply str_eqb_eq in E2.
      * left. subst. split; [reflexivity|left; reflexivity].
      * right. subst. split; [reflexivity|]. exists origin. split; [left; reflexivity|]. right. left. reflexivity.
    + destruct (match_subdomain origin o) eqn:E3.
      * inversion H; subst. right. split; [reflexivity|]. exists o. split; [left; reflexivity|]. right. right. exact E3.
      * destruct (IH _ _ H) as [[Hv Hin]|[Hv [p [Hin Hp]]]].
        -- left. split; [exact Hv|right; exact Hin].
        -- right. split; [exact Hv|]. exists p. split; [right; exact Hin|exact Hp].
Qed.

Theorem only_allowed c origin v : shaped origin -> Forall (fun p => before_colon p <> None -> shaped p) (origins c) ->
  allow_origin c origin = Some v ->
  (v = [star] /\ In [star] (origins c)) \/
  (v = origin /\ exists p, In p (origins c) /\
      ((p = [star] /\ creds c = true /\ unsafe_wild c = true) \/ p = origin \/ gm p origin = true)).
Proof.
  intros Hso Hsp H. unfold allow_origin in H.
  destruct (allow_loop c (origins c) origin) as [v'|] eqn:E.
  - inversion H; subst v'. destruct (allow_loop_sound c _ _ _ E) as [Hl|[Hv [p [Hin Hp]]]]; [left; exact Hl|].
    right. split; [exact Hv|]. exists p. split; [exact Hin|].
    destruct Hp as [Hp|[Hp|Hp]]; [left; exact Hp|right; left; exact Hp|right; right].
    apply subdomain_sound; [exact Hso| |exact Hp].
    rewrite Forall_forall in Hsp. apply Hsp; [exact Hin|].
    unfold match_subdomain, match_scheme in Hp. apply andb_true_iff in Hp as [Hp _].
    destruct (before_colon origin); [|discriminate]. destruct (before_colon p); [discriminate|discriminate].
  - destruct (_ && _ && existsb _ _) eqn:E2; [|discriminate]. inversion H; subst v.
    apply andb_true_iff in E2 as [_ E2]. apply existsb_exists in E2 as [p [Hin Hm]].
    right. split; [reflexivity|]. exists p. split.
    + unfold patterns in Hin. apply filter_In in Hin. tauto.
    + right. right. apply rm_gm. exact Hm.
Qed.

(* ---------- the response *)
Lemma cors_acao c pre origin v : acao (cors c pre origin) = Some v -> origin <> [] /\ allow_origin c origin = Some v.
Proof. unfold cors. destruct origin as [|o0 orr]; [discriminate|].
  destruct (allow_origin c (o0 :: orr)) as [v'|]; simpl; [|discriminate]. intro H. split; [discriminate|exact H]. Qed.

Lemma cors_credentials c pre origin : acac (cors c pre origin) = true ->
  creds c = true /\ exists v, acao (cors c pre origin) = Some v.
Proof. unfold cors. destruct origin as [|o0 orr]; [discriminate|].
  destruct (allow_origin c (o0 :: orr)) as [v'|]; simpl; [|discriminate]. intro H. split; [exact H|eauto]. Qed.

Lemma cors_disallowed_blocked c origin : origin <> [] -> allow_origin c origin = None ->
  ran (cors c false origin) = false /\ forced (cors c false origin) = 401%Z.
Proof. intros Hne Hn. unfold cors. destruct origin; [congruence|]. rewrite Hn. split; reflexivity. Qed.

Lemma cors_preflight c origin : ran (cors c true origin) = false /\ forced (cors c true origin) = 204%Z.
Proof. unfold cors. destruct origin; [split; reflexivity|]. destruct (allow_origin c _); split; reflexivity. Qed.
