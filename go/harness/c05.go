package main

import (
	"bytes"
	"fmt"
	"io"
	"math/rand"
	"net/http/httptest"
	"strings"

	"github.com/labstack/echo/v4"
	"github.com/labstack/echo/v4/middleware"
	"github.com/labstack/gommon/log"
)

func init() {
	props["C05"] = &propRunner{gen: genC05, rule: "histories of 3-12 requests on ONE Echo instance (the pooled context is reused; reuse is confirmed through the verif hook) over routes with 0-4 parameters sharing a common prefix, unmatched requests in between, handler programs that store values, replace the logger, overwrite path/param names/values, fill the query cache, register response hooks, write or do not write a response, fail or panic (Recover installed), interleaved with registrations of routes with more parameters; what the handler can observe at its start is compared with the model; non-trivial = history with >= 2 recycled contexts and a route registration in between, or a request following one that registered hooks without writing; distinct by history"}
}

func genC05(rng *rand.Rand, n int, emit func(Case), dist map[string]int) {
	for it := 0; it < n; it++ {
		e := echo.New()
		e.Logger.SetOutput(io.Discard)
		e.Renderer = c05Renderer{}
		e.Use(middleware.RecoverWithConfig(middleware.RecoverConfig{DisablePrintStack: true}))
		if rng.Intn(3) == 0 {
			// a pass-through Pre middleware: routing then happens inside the chain, for THIS request
			e.Pre(func(next echo.HandlerFunc) echo.HandlerFunc { return func(c echo.Context) error { return next(c) } })
			dist["instances_with_pre_middleware"]++
		}
		type reqState struct {
			id       int
			q        string
			prog     []Sx
			run      func(c echo.Context)
			fail     int
			obs      Sx
			handler  int
			observed bool
			fired    []int
			restChk  bool
			body     []byte
		}
		var cur *reqState
		hookOwner := map[int]int{}
		var keys []string
		loggers := map[int]echo.Logger{}
		ctxIDs := map[string]int{}
		var callerOwned, callerCopy [][]string
		observe := func(c echo.Context, hid int) {
			if cur.observed {
				return
			}
			cur.observed = true
			cur.handler = hid
			ctxIDs[echo.VerifContextID(c)]++
			r := c.Response()
			qOwner := -1
			if c.QueryParam("q") != cur.q {
				qOwner = 9999
			}
			if c.QueryParam("leak") != "" || len(c.QueryParams()["leak"]) > 0 { // no request carries it: only an earlier handler put it there
				qOwner = 9998
			}
			var store []Sx
			for _, k := range keys {
				if v := c.Get(k); v != nil {
					store = append(store, L(S(k), S(fmt.Sprint(v))))
				}
			}
			lg := -1
			if c.Logger() != e.Logger {
				lg = 9999
				for id, l := range loggers {
					if l == c.Logger() {
						lg = id
					}
				}
			}
			names := append([]string(nil), c.ParamNames()...)
			vals := append([]string(nil), c.ParamValues()...)
			rest := true
			if cur.restChk {
				mp := echo.VerifMaxParam(e)
				probe := make([]string, mp)
				for i := range probe {
					probe[i] = fmt.Sprintf("probe%d", i)
				}
				c.SetParamNames(probe...)
				all := c.ParamValues()
				for i := len(names); i < len(all); i++ {
					if all[i] != "" {
						rest = false
					}
				}
				c.SetParamNames(names...)
			}
			reqID := 0
			fmt.Sscanf(c.Request().Header.Get("X-Req"), "%d", &reqID)
			cur.obs = L(I(reqID), I(r.Status), I64(r.Size), B(r.Committed), L(), L(), I(qOwner), L(store...), S(c.Path()), LS(names), LS(vals), B(rest), I(lg), I(hid))
		}
		e.Use(func(next echo.HandlerFunc) echo.HandlerFunc {
			return func(c echo.Context) error {
				if c.Path() == "" { // nothing matched: no route handler will observe
					observe(c, 0)
				}
				return next(c)
			}
		})
		routeParams := map[int][]string{}
		nroutes := 0
		var nilRoutes []int
		addRoute := func(k int) {
			nroutes++
			hid := nroutes
			path := fmt.Sprintf("/api/r%d", hid)
			var names []string
			for i := 0; i < k; i++ {
				nm := fmt.Sprintf("p%d", i)
				names = append(names, nm)
				path += "/:" + nm
			}
			routeParams[hid] = names
			e.GET(path, func(c echo.Context) error {
				observe(c, hid)
				cur.run(c)
				switch cur.fail {
				case 1:
					return echo.NewHTTPError(500, "handler failed")
				case 2:
					panic("handler panicked")
				}
				return nil
			})
		}
		addRoute(0)
		addRoute(1 + rng.Intn(2))
		nev := 3 + rng.Intn(10)
		var events, outs []Sx
		ok, why := true, ""
		registrations, hooksNoWrite := 0, false
		nontriv := false
		human := ""
		hookID := 0
		for k := 0; k < nev; k++ {
			if rng.Intn(6) == 0 {
				// application code borrows a context from the pool outside of any request, leaves state on it and returns it
				ac := e.AcquireContext()
				ac.Set("stale-key", "left by AcquireContext user")
				ac.SetPath("/stale/:p")
				ac.SetParamNames("p", "q")
				ac.SetParamValues("stale-v", "stale-w")
				e.ReleaseContext(ac)
				dist["acquire_release_between_requests"]++
			}
			if rng.Intn(10) == 0 {
				// a route WITHOUT handler registered through the public router API (echo only logs it): its nodes exist,
				// later requests walk through its parameters and must get a plain 404
				np := 1 + rng.Intn(6)
				p := fmt.Sprintf("/api/nh%d", len(nilRoutes))
				for i := 0; i < np; i++ {
					p += fmt.Sprintf("/:n%d", i)
				}
				e.Router().Add("GET", p, nil)
				nilRoutes = append(nilRoutes, np)
				dist["nil_handler_routes"]++
			}
			if rng.Intn(4) == 0 {
				addRoute(rng.Intn(5)) // a registration at a quiescent point; may raise maxParam
				registrations++
				continue
			}
			st := &reqState{id: k + 1, q: fmt.Sprintf("q%d", rng.Intn(1000)), fail: 0, restChk: rng.Intn(3) == 0}
			if rng.Intn(3) == 0 {
				st.q = ""
				dist["requests_without_query"]++
			}
			cur = st
			if rng.Intn(8) == 0 {
				st.fail = 1 + rng.Intn(2)
			}
			// target
			var path string
			var match Sx = L()
			hid := 0
			if rng.Intn(5) != 0 {
				hid = 1 + rng.Intn(nroutes)
				names := routeParams[hid]
				path = fmt.Sprintf("/api/r%d", hid)
				pat := path
				var vals []string
				for i, nm := range names {
					v := fmt.Sprintf("v%d_%d", st.id, i)
					vals = append(vals, v)
					path += "/" + v
					pat += "/:" + nm
				}
				match = L(I(hid), S(pat), LS(names), LS(vals))
			} else if len(nilRoutes) > 0 && rng.Intn(2) == 0 {
				i := rng.Intn(len(nilRoutes))
				path = fmt.Sprintf("/api/nh%d", i)
				for j := 0; j < nilRoutes[i]; j++ {
					path += fmt.Sprintf("/w%d_%d", st.id, j)
				}
				dist["requests_into_nil_handler_route"]++
			} else {
				path = []string{"/health", "/api/zz", "/apx", "/"}[rng.Intn(4)]
			}
			// program
			var steps []func(c echo.Context)
			wrote := false
			for j := rng.Intn(6); j > 0; j-- {
				switch rng.Intn(11) {
				case 0, 1:
					key, v := fmt.Sprintf("k%d", rng.Intn(4)), fmt.Sprintf("val%d", st.id)
					keys = append(keys, key)
					extra := rng.Intn(6)
					hookID++
					swapHook := hookID
					hookOwner[swapHook] = st.id
					steps = append(steps, func(c echo.Context) {
						c.Set(key, v)
						switch extra {
						case 0:
							// the handler swaps in its own request object (a clone carrying a marker header) ...
							r2 := c.Request().Clone(c.Request().Context())
							r2.Header.Set("X-Req", c.Request().Header.Get("X-Req"))
							r2.Header.Set("X-Swapped-By", v)
							c.SetRequest(r2)
						case 1:
							// ... or its own Response object over the same writer: neither may be seen by a later request
							nr := echo.NewResponse(c.Response().Writer, c.Echo())
							nr.Before(func() { cur.fired = append(cur.fired, swapHook) })
							c.SetResponse(nr)
						}
					})
					if extra <= 1 {
						dist["handler_replaced_request_or_response"]++
					}
					st.prog = append(st.prog, L(I(0), S(key), S(v)))
				case 2:
					id := 100 + st.id
					lg := log.New(fmt.Sprintf("lg%d", id))
					lg.SetOutput(io.Discard)
					loggers[id] = lg
					steps = append(steps, func(c echo.Context) { c.SetLogger(lg) })
					st.prog = append(st.prog, L(I(1), I(id)))
				case 3:
					p := fmt.Sprintf("/overwritten/%d", st.id)
					steps = append(steps, func(c echo.Context) { c.SetPath(p) })
					st.prog = append(st.prog, L(I(2), S(p)))
				case 4:
					ns := []string{"x", "y", "z", "w", "u", "t"}[:1+rng.Intn(6)]
					steps = append(steps, func(c echo.Context) { c.SetParamNames(ns...) })
					st.prog = append(st.prog, L(I(3), LS(ns)))
				case 5:
					var vs []string
					for i := 1 + rng.Intn(6); i > 0; i-- {
						vs = append(vs, fmt.Sprintf("stale%d_%d", st.id, i))
					}
					steps = append(steps, func(c echo.Context) { c.SetParamValues(vs...) })
					st.prog = append(st.prog, L(I(4), LS(vs)))
					callerOwned = append(callerOwned, vs)
					callerCopy = append(callerCopy, append([]string(nil), vs...))
				case 6:
					mut := rng.Intn(2) == 0
					lv := fmt.Sprintf("leak%d", st.id)
					steps = append(steps, func(c echo.Context) {
						q := c.QueryParams()
						if mut {
							q.Set("leak", lv) // the handler fills in a default on ITS parsed query (the map is the request's own)
						}
					})
					if mut {
						dist["handler_mutated_parsed_query"]++
					}
					st.prog = append(st.prog, L(I(5)))
				case 7:
					hookID++
					id := hookID
					hookOwner[id] = st.id
					before := rng.Intn(2) == 0
					steps = append(steps, func(c echo.Context) {
						f := func() { cur.fired = append(cur.fired, id) }
						if before {
							c.Response().Before(f)
						} else {
							c.Response().After(f)
						}
					})
					if before {
						st.prog = append(st.prog, L(I(6), I(id)))
					} else {
						st.prog = append(st.prog, L(I(7), I(id)))
					}
					if !wrote {
						hooksNoWrite = true
					}
				case 8:
					code := []int{200, 201, 404}[rng.Intn(3)]
					steps = append(steps, func(c echo.Context) { c.Response().WriteHeader(code) })
					st.prog = append(st.prog, L(I(8), I(code)))
					wrote = true
				case 9:
					// c.Render through the configured Renderer; a template may fail after it produced part of its output
					name := fmt.Sprintf("tpl%d", st.id)
					if rng.Intn(2) == 0 {
						name = "bad" + name
						steps = append(steps, func(c echo.Context) { c.Render(200, name, nil) })
						dist["render_failing_midway"]++
						break // nothing reaches the response: no step for the model
					}
					page := []byte("<page " + name + ">")
					steps = append(steps, func(c echo.Context) {
						if c.Render(200, name, nil) == nil {
							cur.body = append(cur.body, page...)
						}
					})
					st.prog = append(st.prog, L(I(9), I(len(page))))
					wrote = true
					dist["render_ok"]++
				default:
					sz := 1 + rng.Intn(9)
					chunk := bytes.Repeat([]byte{byte('a' + st.id%26)}, sz)
					steps = append(steps, func(c echo.Context) {
						c.Response().Write(chunk)
						cur.body = append(cur.body, chunk...)
					})
					st.prog = append(st.prog, L(I(9), I(sz)))
					wrote = true
				}
			}
			st.run = func(c echo.Context) {
				for _, f := range steps {
					f(c)
				}
			}
			target := path + "?q=" + st.q
			if st.q == "" {
				target = path // a request without any query string
			}
			req := httptest.NewRequest("GET", target, nil)
			req.Header.Set("X-Req", fmt.Sprint(st.id))
			rec := httptest.NewRecorder()
			panicked := false
			func() {
				defer func() {
					if r := recover(); r != nil {
						panicked = true
					}
				}()
				e.ServeHTTP(rec, req)
			}()
			if panicked {
				ok, why = false, fmt.Sprintf("request %d (%s) made ServeHTTP panic", st.id, path)
			}
			if !st.observed {
				st.obs = L(I(-1))
				ok, why = false, fmt.Sprintf("request %d (%s): neither a route handler nor the 404 path ran", st.id, path)
			}
			// hooks fired in this request but registered by another one
			var foreign []Sx
			for _, h := range st.fired {
				if hookOwner[h] != st.id {
					foreign = append(foreign, I(h))
				}
			}
			if len(foreign) > 0 {
				ok, why = false, fmt.Sprintf("request %d ran response hooks %s registered while serving another request", st.id, Show(L(foreign...)))
				// make the leak visible in the compared observation as well
				s := Show(st.obs)
				_ = s
			}
			// ---- predicate: the observation is what a fresh context would show for THIS request
			wantObs := Show(L(I(st.id), I(200), I(0), I(0), L(), L(), I(-1), L(), S(""), L(), L(), I(1), I(-1), I(0)))
			if hid != 0 {
				ml := match.(sxList).l
				wantObs = Show(L(I(st.id), I(200), I(0), I(0), L(), L(), I(-1), L(), ml[1], ml[2], ml[3], I(1), I(-1), I(hid)))
			}
			if st.observed && Show(st.obs) != wantObs && ok {
				ok, why = false, fmt.Sprintf("request %d (%s) observed %s, a fresh context would show %s", st.id, path, Show(st.obs), wantObs)
			}
			// slices handed to SetParamValues stay the caller's: echo must not keep or rewrite them later
			for i := range callerOwned {
				if ok && strings.Join(callerOwned[i], ",") != strings.Join(callerCopy[i], ",") {
					ok, why = false, fmt.Sprintf("after request %d the caller's slice passed to SetParamValues earlier reads %q instead of %q: the context kept and rewrote it while serving other requests", st.id, callerOwned[i], callerCopy[i])
				}
			}
			// the response starts with exactly what THIS request's handler wrote and rendered
			if ok && !bytes.HasPrefix(rec.Body.Bytes(), st.body) {
				ok, why = false, fmt.Sprintf("request %d (%s) wrote and rendered %q but its response body is %q", st.id, path, st.body, rec.Body.Bytes())
			}
			if hid == 0 && rec.Code != 404 && ok {
				ok, why = false, fmt.Sprintf("unmatched request %s answered %d", path, rec.Code)
			}
			events = append(events, L(I(st.id), I(echo.VerifMaxParam(e)), match, L(st.prog...)))
			outs = append(outs, st.obs)
			if len(human) < 600 {
				human += fmt.Sprintf(" [req%d %s prog=%s fail=%d -> %d]", st.id, path, Show(L(st.prog...)), st.fail, rec.Code)
			}
		}
		reused := 0
		for _, c := range ctxIDs {
			if c > 1 {
				reused += c
			}
		}
		if reused >= 2 && registrations > 0 || hooksNoWrite {
			nontriv = true
		}
		in := L(L(events...))
		cs := Case{In: in, Out: L(outs...), Ok: ok, Why: why, Human: fmt.Sprintf("%d routes, %d registrations between requests;%s", nroutes, registrations, human)}
		if nontriv {
			cs.Key = Show(in)
		}
		dist["requests"] += len(events)
		dist["requests_on_recycled_context"] += reused
		dist["registrations_between_requests"] += registrations
		emit(cs)
		_ = strings.Join
	}
}

// c05Renderer: "bad..." templates fail after they produced part of their output (what html/template does on an
// execution error)
type c05Renderer struct{}

func (c05Renderer) Render(w io.Writer, name string, data interface{}, c echo.Context) error {
	if strings.HasPrefix(name, "bad") {
		io.WriteString(w, "<partial "+name)
		return fmt.Errorf("template %s: execution failed", name)
	}
	_, err := io.WriteString(w, "<page "+name+">")
	return err
}
