(* strings.Split as modelled in Bind/ValueBinder.v: joining the pieces with the delimiter gives back the text. *)
From Coq Require Import List Bool Ascii Arith Lia Wf_nat.
From Echo Require Import Base.Sx Bind.ParseNum Bind.ValueBinder.
Import ListNotations.
Open Scope list_scope.
Open Scope nat_scope.

(* ---------- splitting at a delimiter loses and invents nothing *)
Lemma starts_with_app d s : starts_with d s = true -> exists r, s = d ++ r.
Proof.
  revert s. induction d as [|x d IH]; intros s H; [exists s; reflexivity|].
  destruct s as [|y s]; [discriminate|]. simpl in H. apply andb_true_iff in H as [Hxy H].
  apply Ascii.eqb_eq in Hxy. subst y. destruct (IH s H) as [r ->]. exists r. reflexivity.
Qed.

Lemma join_cons d x l : l <> [] -> join d (x :: l) = x ++ d ++ join d l.
Proof. destruct l; [congruence|reflexivity]. Qed.

Lemma split_aux_nonempty d s k cur : split_aux d s k cur <> [].
Proof. revert k cur. induction s as [|c r IH]; intros k cur; simpl; [discriminate|].
  destruct k; [destruct (starts_with d (c :: r)); [discriminate|apply IH]|apply IH]. Qed.

Lemma join_split_gen d : d <> [] -> forall s cur, join d (split_aux d s 0 cur) = rev cur ++ s.
Proof.
  intros Hd. intro s. remember (List.length s) as n eqn:Hn. revert s Hn.
  induction n as [n IH] using lt_wf_ind. intros s Hn cur.
  destruct s as [|c r]; [simpl; rewrite app_nil_r; reflexivity|].
  cbn [split_aux]. destruct (starts_with d (c :: r)) eqn:E.
  - (* an occurrence of the delimiter starts here: skip it *)
    destruct (starts_with_app _ _ E) as [rest Hrest].
    destruct d as [|x d']; [congruence|]. cbn [app] in Hrest. inversion Hrest; subst c r.
    replace (List.length (x :: d') - 1) with (List.length d') by (cbn [List.length]; lia).
    assert (Hskip : forall pend cur0, split_aux (x :: d') (pend ++ rest) (List.length pend) cur0 = split_aux (x :: d') rest 0 cur0).
    { induction pend as [|y pend IHp]; intro cur0; [reflexivity|]. cbn [app List.length split_aux]. apply IHp. }
    rewrite Hskip. rewrite join_cons by apply split_aux_nonempty.
    rewrite (IH (List.length rest)); [reflexivity| |reflexivity].
    subst n. cbn [List.length]. rewrite app_length. lia.
  - rewrite (IH (List.length r)); [|subst n; simpl; lia|reflexivity].
    cbn [rev]. rewrite <- app_assoc. reflexivity.
Qed.

Theorem join_split d s : d <> [] -> join d (split d s) = s.
Proof. intro Hd. unfold split. rewrite join_split_gen by exact Hd. reflexivity. Qed.

