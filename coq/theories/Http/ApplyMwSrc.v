(* The statement-level translation of applyMiddleware (Gen/Src_applymw.v, regenerated from echo.go on every run, language
   Base/GoLoop.v): for EVERY list of middleware and every handler the result is the handler wrapped so that the FIRST middleware
   of the list is the outermost one and the last one sits next to the handler - the nesting [run_mws] (Http/Onion.v) gives a
   chain, for a route's own middleware, for Echo.Use and for Echo.Pre alike.  The loop runs its counter down (SWhile, fuel
   i + 2).  (C04) *)
From Coq Require Import List ZArith Bool String Ascii Lia.
From Echo Require Import Base.Sx Base.GoLoop Gen.Src_applymw.
Import ListNotations.
Open Scope Z_scope.

Lemma exists_last_or_nil {A} (l : list A) : l = [] \/ exists l' x, l = (l' ++ [x])%list.
Proof. destruct l as [|y r]; [left; reflexivity|right]. destruct (@exists_last A (y :: r)) as (l' & x & H); [discriminate|]. eauto. Qed.
Lemma nth_last {A} (d : A) (a : list A) x : nth (List.length a) (a ++ [x]) d = x.
Proof. induction a as [|y a IH]; [reflexivity|exact IH]. Qed.

(* a handler is the list of the middleware wrapped around the route's own function, outermost first; applying a middleware
   to a handler puts it in front *)
Definition apred (f : string) (args : list val) : val :=
  if String.eqb f "len" then match args with [VL l] => VZ (Z.of_nat (List.length l)) | _ => VZ 0 end
  else if String.eqb f "index" then match args with [VL l; VZ i] => nth (Z.to_nat i) l (VZ 0) | _ => VZ 0 end
  else if String.eqb f "apply" then match args with [m; VL h] => VL (m :: h) | _ => VZ 0 end
  else VZ 0.
Definition asym (s : string) : val := VZ 0.

Section Src.
Variable ms : list val.        (* the middleware list, as given to Use / Pre / Add *)
Local Notation mk vh vi :=
  {| locals := [("h"%string, vh); ("middleware"%string, VL ms); ("i"%string, vi)]; fields := []; lists := []; events := []; inputs := [] |}.

Ltac am_eval :=
  repeat (rewrite ?truthy_b2v;
          cbn [exec exec_s eval get put getl assign set_local locals fields lists events inputs String.eqb Ascii.eqb Bool.eqb
               map tl app negb andb orb fst snd as_z as_l val_eqb asym apred];
          try unfold set_local).

Lemma wrap_loop (C : state -> bool) (B Q : state -> state * ctl) :
  (forall vh z, C (mk vh (VZ z)) = (0 <=? z)) ->
  (forall vh z, Q (mk vh (VZ z)) = (mk vh (VZ (z - 1)), Next)) ->
  (forall h k, (k < List.length ms)%nat -> B (mk (VL h) (VZ (Z.of_nat k))) = (mk (VL (nth k ms (VZ 0) :: h)) (VZ (Z.of_nat k)), Next)) ->
  forall n pre done h0, ms = (pre ++ done)%list -> (List.length pre < n)%nat ->
  while_loop C B Q n (mk (VL (done ++ h0)) (VZ (Z.of_nat (List.length pre) - 1))) = (mk (VL (ms ++ h0)) (VZ (-1)), Next).
Proof.
  intros HC HQ HB n. induction n as [|n IH]; intros pre done h0 Hms Hn; [lia|].
  destruct (exists_last_or_nil pre) as [-> | (pre' & e & ->)].
  - cbn [List.length Z.of_nat while_loop]. rewrite HC. cbn in Hms. subst done. reflexivity.
  - rewrite app_length in *. cbn [List.length] in *.
    replace (Z.of_nat (List.length pre' + 1) - 1) with (Z.of_nat (List.length pre')) by lia.
    cbn [while_loop]. rewrite HC. replace (0 <=? Z.of_nat (List.length pre')) with true by (symmetry; apply Z.leb_le; lia).
    rewrite HB by (rewrite Hms, !app_length; cbn [List.length]; lia).
    rewrite HQ.
    assert (He : nth (List.length pre') ms (VZ 0) = e).
    { rewrite Hms, <- app_assoc. cbn [app]. clear. induction pre' as [|y a IHa]; [reflexivity|exact IHa]. }
    rewrite He. apply (IH pre' (e :: done) h0); [rewrite Hms, <- app_assoc; reflexivity|lia].
Qed.

Definition is_while (s : stmt) : bool := match s with SWhile _ _ _ _ => true | _ => false end.
Fixpoint first_while (l : list stmt) : nat := match l with [] => O | x :: r => if is_while x then O else S (first_while r) end.
Definition kmid : nat := first_while src_apply_middleware.
Definition pre_part : list stmt := firstn kmid src_apply_middleware.
Definition mid_stmt : stmt := nth kmid src_apply_middleware SBreak.
Definition post_part : list stmt := skipn (S kmid) src_apply_middleware.
Lemma src_split : src_apply_middleware = (pre_part ++ mid_stmt :: post_part)%list.
Proof. vm_compute. reflexivity. Qed.

Theorem src_apply_middleware_spec (h0 : list val) :
  snd (run asym apred src_apply_middleware_results src_apply_middleware (mk (VL h0) (VZ 0))) = [VL (ms ++ h0)].
Proof.
  unfold run. rewrite src_split, exec_app. unfold src_apply_middleware_results.
  let m := eval vm_compute in pre_part in change pre_part with m.
  let m := eval vm_compute in mid_stmt in change mid_stmt with m.
  let m := eval vm_compute in post_part in change post_part with m.
  am_eval.
  match goal with |- context [while_loop ?C ?B ?Q ?fu ?s] =>
    pose proof (wrap_loop C B Q) as HL; specialize (fun HC HQ HB => HL HC HQ HB fu ms [] h0)
  end.
  match type of HL with ?HC -> ?HQ -> ?HB -> _ =>
    assert (H1 : HC) by (intros; am_eval; reflexivity);
    assert (H2 : HQ) by (intros; am_eval; reflexivity);
    assert (H3 : HB) by (intros; am_eval; rewrite Nat2Z.id; reflexivity)
  end.
  specialize (HL H1 H2 H3 (eq_sym (app_nil_r ms))). clear H1 H2 H3.
  match type of HL with _ -> ?L = _ => match goal with |- context [while_loop ?C ?B ?Q ?n ?s] => change (while_loop C B Q n s) with L end end.
  rewrite HL by lia. am_eval. reflexivity.
Qed.
End Src.

Theorem C04_source_apply_middleware : forall (ms h0 : list val),
  snd (run asym apred src_apply_middleware_results src_apply_middleware
         {| locals := [("h"%string, VL h0); ("middleware"%string, VL ms); ("i"%string, VZ 0)]; fields := []; lists := []; events := []; inputs := [] |})
  = [VL (ms ++ h0)].
Proof. exact src_apply_middleware_spec. Qed.
Print Assumptions C04_source_apply_middleware.

Example apply_mw_src_example :
  snd (run asym apred src_apply_middleware_results src_apply_middleware
         {| locals := [("h"%string, VL [VZ 100]); ("middleware"%string, VL [VZ 1; VZ 2; VZ 3]); ("i"%string, VZ 0)]; fields := []; lists := []; events := []; inputs := [] |})
  = [VL [VZ 1; VZ 2; VZ 3; VZ 100]].
Proof. vm_compute. reflexivity. Qed.
