(* C06 — Response bookkeeping equals what was actually sent.  Statements only; proofs in
   Http/ResponseProofs.v.  [run s0 ops]: the state of echo.Response (over the net/http writer
   model) after the handler program [ops], starting from Status = s0 (200 after reset, 0 for
   NewResponse).  [op_ok]: byte counts are non-negative. *)
From Coq Require Import List ZArith Bool.
From Echo Require Import Http.Response Http.ResponseProofs.
Import ListNotations.
Open Scope Z_scope.

(* status line and headers reach the underlying writer at most once *)
Theorem C06_once : forall s0 ops, Forall op_ok ops -> (w_hdr_calls (wr (run s0 ops)) <= 1)%nat.
Proof. exact once. Qed.
Print Assumptions C06_once.

(* the committed flag tells exactly whether headers have gone out *)
Theorem C06_committed_iff : forall s0 ops, Forall op_ok ops ->
  (committed (run s0 ops) = true <-> w_status (wr (run s0 ops)) <> None).
Proof. exact committed_iff. Qed.
Print Assumptions C06_committed_iff.

(* once committed, reported status and size are what was sent *)
Theorem C06_truth : forall s0 ops, Forall op_ok ops -> committed (run s0 ops) = true ->
  w_status (wr (run s0 ops)) = Some (status (run s0 ops)) /\ size (run s0 ops) = w_bytes (wr (run s0 ops)).
Proof. exact truth. Qed.
Print Assumptions C06_truth.

(* the status sent is the one of the first committing operation ... *)
Theorem C06_first_status : forall r o, Inv r -> committed r = false -> committed (step r o) = true ->
  w_status (wr (step r o)) = Some (status (step r o)) /\ w_hdr_calls (wr (step r o)) = 1%nat.
Proof. exact first_status. Qed.
Print Assumptions C06_first_status.

(* ... and every later status write is ignored: nothing about status or headers changes *)
Theorem C06_late_ignored : forall r o, Inv r -> committed r = true ->
  committed (step r o) = true /\ status (step r o) = status r /\
  w_status (wr (step r o)) = w_status (wr r) /\ w_hdr_calls (wr (step r o)) = w_hdr_calls (wr r).
Proof. exact late_ignored. Qed.
Print Assumptions C06_late_ignored.

(* the invariant holds in every reachable state (so the two step theorems apply there) *)
Theorem C06_reachable_inv : forall s0 ops, Forall op_ok ops -> Inv (run s0 ops).
Proof. exact invariant. Qed.
Print Assumptions C06_reachable_inv.

(* hooks: the event log of a committed response is  before-hooks (each seeing an uncommitted
   response with nothing on the wire), then the one header, then only body writes and
   after-hooks; an uncommitted response has run no hook at all *)
Theorem C06_hooks : forall s0 ops, Forall op_ok ops ->
  let r := run s0 ops in
  if committed r
  then exists bs tail, log r = map (fun h => EvBefore h false false) bs ++ EvHeader (status r) :: tail
                       /\ forallb is_tail_ev tail = true
  else log r = [].
Proof. exact log_invariant. Qed.
Print Assumptions C06_hooks.

(* non-vacuity: flush first, then a late WriteHeader(404) and a JSON helper after commit *)
Example C06_example :
  let r := run 200 [Before 1%nat; Flush; WriteHeader 404; JSON 500 7; After 2%nat; Write 3] in
  status r = 200 /\ committed r = true /\ size r = 10 /\ w_status (wr r) = Some 200 /\
  log r = [EvBefore 1%nat false false; EvHeader 200; EvBody 7; EvBody 3; EvAfter 2%nat].
Proof. vm_compute. repeat split. Qed.

From Coq Require Import String.
From Echo Require Import Base.GoLite Gen.Src_response Http.ResponseSrc.

(* ---- the tie to the source by proof: Response.WriteHeader / Write / Flush, translated statement by statement from
   response.go on every run (Gen/Src_response.v; language Base/GoLite.v).  cm, stt, sz are the Committed flag, Status
   and Size before the call. *)
Theorem C06_source_writeheader : forall (sym : string -> Z) cm stt sz code,
  let '(st', _) := GoLite.run sym src_response_writeheader_results src_response_writeheader (rstate cm stt sz [("code", code)] []) in
  if cm =? 0
  then GoLite.get (fields st') "r.Status" = code /\ GoLite.get (fields st') "r.Committed" = 1 /\ GoLite.get (fields st') "r.Size" = sz /\
       events st' = [("range r.beforeFuncs", []); ("r.Writer.WriteHeader", [code])]
  else GoLite.get (fields st') "r.Status" = stt /\ GoLite.get (fields st') "r.Committed" = cm /\ GoLite.get (fields st') "r.Size" = sz /\
       map fst (events st') = ["r.echo.Logger.Warn"].
Proof. exact src_writeheader. Qed.
Print Assumptions C06_source_writeheader.

Theorem C06_source_write : forall (sym : string -> Z), sym "http.StatusOK" = 200 -> forall cm stt sz b n err,
  let '(st', ret) := GoLite.run sym src_response_write_results src_response_write (rstate cm stt sz [("b", b)] [[n; err]]) in
  ret = [n; err] /\
  GoLite.get (fields st') "r.Size" = sz + n /\
  GoLite.get (fields st') "r.Status" = (if (cm =? 0) && (stt =? 0) then 200 else stt) /\
  events st' = ((if cm =? 0 then [("r.WriteHeader", [if stt =? 0 then 200 else stt])] else [])
                ++ [("r.Writer.Write", [b]); ("range r.afterFuncs", [])])%list.
Proof. exact src_write. Qed.
Print Assumptions C06_source_write.

Theorem C06_source_flush : forall (sym : string -> Z), sym "http.StatusOK" = 200 -> sym "nil" = 0 -> forall cm stt sz err notsup,
  let st := {| locals := []; fields := [("r.Committed", cm); ("r.Status", stt); ("r.Size", sz); ("errors.Is(err,http.ErrNotSupported)", notsup)];
               events := []; inputs := [[err]] |} in
  let '(st', _) := GoLite.run sym src_response_flush_results src_response_flush st in
  GoLite.get (fields st') "r.Size" = sz /\
  GoLite.get (fields st') "r.Status" = (if (cm =? 0) && (stt =? 0) then 200 else stt) /\
  map fst (events st') = ((if cm =? 0 then ["r.WriteHeader"] else []) ++ ["http.NewResponseController(r.Writer).Flush"]
                          ++ (if negb (err =? 0) && negb (notsup =? 0) then ["panic"] else []))%list.
Proof. exact src_flush. Qed.
Print Assumptions C06_source_flush.

