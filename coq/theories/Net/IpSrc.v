(* The statement-level translations of the extractor closures of ExtractIPFromRealIPHeader and ExtractIPFromXFFHeader
   (Gen/Src_ipextract.v, regenerated from ip.go on every run, language Base/GoLoop.v) return the model's [real_ip_hdr] and [xff]
   (Net/Xff.v - the functions the C10 theorems are about) for every header content, peer address, trust configuration and
   net.ParseIP.  The right-to-left loop over the forwarded entries runs its counter DOWN (SWhile with fuel i + 2) and cleans the
   entries in place; slices are values.  (C10) *)
From Coq Require Import List ZArith Bool String Ascii Lia.
From Echo Require Import Base.Sx Base.GoLoop Gen.Src_ipextract Net.IP Net.Xff.
Import ListNotations.
Open Scope Z_scope.

Fixpoint upd {A} (n : nat) (v : A) (l : list A) : list A :=
  match l, n with
  | [], _ => []
  | _ :: r, O => v :: r
  | x :: r, S n' => x :: upd n' v r
  end.
Lemma nth_mid {A} (d : A) (a : list A) x b : nth (List.length a) (a ++ x :: b) d = x.
Proof. induction a as [|y a IH]; [reflexivity|exact IH]. Qed.
Lemma upd_mid {A} (a : list A) x v b : upd (List.length a) v (a ++ x :: b) = (a ++ v :: b)%list.
Proof. induction a as [|y a IH]; [reflexivity|]. cbn. f_equal. exact IH. Qed.

Lemma exists_last_or_nil {A} (l : list A) : l = [] \/ exists l' x, l = (l' ++ [x])%list.
Proof. destruct l as [|y r]; [left; reflexivity|right]. destruct (@exists_last A (y :: r)) as (l' & x & H); [discriminate|]. eauto. Qed.

Definition zb (b : bool) : Z := if b then 1 else 0.
Definition strs (l : list val) : list str := map (fun v => match v with VS s => s | _ => [] end) l.
Lemma strs_VS l : strs (map VS l) = l.
Proof. induction l as [|x l IH]; [reflexivity|]. cbn. f_equal. exact IH. Qed.

Section Src.
Variable parse : str -> option (ip * str).     (* net.ParseIP: the address bytes and ip.String() *)
Variable c : cfg.
Variables (lines : list str) (xreal direct : str).

Definition ipred (f : string) (args : list val) : val :=
  if String.eqb f "extractIP" then VS direct
  else if String.eqb f "net.ParseIP" then
    match args with [VS s] => match parse s with Some a => VL [VS (snd a); VZ (zb (trusted_ip c a))] | None => VZ 0 end | _ => VZ 0 end
  else if String.eqb f "checker.trust" then match args with [VL [_; t]] => t | _ => VZ 0 end     (* trust(nil) = false *)
  else if String.eqb f ".String" then match args with [VL [s; _]] => s | _ => VZ 0 end
  else if String.eqb f "strings.TrimSpace" then match args with [VS s] => VS (trim_space s) | _ => VZ 0 end
  else if String.eqb f "strings.TrimPrefix" then match args with [VS s; VS p] => if str_eqb p (lit "[") then VS (trim_prefix_br s) else VZ 0 | _ => VZ 0 end
  else if String.eqb f "strings.TrimSuffix" then match args with [VS s; VS p] => if str_eqb p (lit "]") then VS (trim_suffix_br s) else VZ 0 | _ => VZ 0 end
  else if String.eqb f "strings.Join" then match args with [VL l; VS p] => if str_eqb p (lit ",") then VS (join_comma (strs l)) else VZ 0 | _ => VZ 0 end
  else if String.eqb f "strings.Split" then match args with [VS s; VS p] => if str_eqb p (lit ",") then VL (map VS (split_comma s)) else VZ 0 | _ => VZ 0 end
  else if String.eqb f "append" then match args with [VL l; v] => VL (l ++ [v]) | _ => VZ 0 end
  else if String.eqb f "len" then match args with [VL l] => VZ (Z.of_nat (List.length l)) | _ => VZ 0 end
  else if String.eqb f "index" then match args with [VL l; VZ i] => nth (Z.to_nat i) l (VZ 0) | _ => VZ 0 end
  else if String.eqb f "set_index" then match args with [VL l; VZ i; v] => VL (upd (Z.to_nat i) v l) | _ => VZ 0 end
  else VZ 0.
Definition isym (s : string) : val := VZ 0.      (* nil *)

Definition flds : env := [("req.Header.Get(HeaderXRealIP)"%string, VS xreal); ("req.Header[HeaderXForwardedFor]"%string, VL (map VS lines))].

Lemma truthy_0 : truthy (VZ 0) = false.  Proof. reflexivity. Qed.
Lemma truthy_1 : truthy (VZ 1) = true.  Proof. reflexivity. Qed.
Ltac ip_eval :=
  repeat (rewrite ?truthy_b2v, ?truthy_0, ?truthy_1;
          cbn [exec exec_s eval get put getl assign set_local locals fields lists events inputs String.eqb Ascii.eqb Bool.eqb
               map tl app negb andb orb fst snd as_z as_l val_eqb isym ipred flds lit list_ascii_of_string str_eqb zb];
          try unfold set_local).

(* ---- X-Real-IP *)
Definition start_r : state :=
  {| locals := [("req"%string, VZ 0); ("directIP"%string, VZ 0); ("realIP"%string, VZ 0); ("rIP"%string, VZ 0)];
     fields := flds; lists := []; events := []; inputs := [] |}.

Theorem src_realip_extractor_spec :
  snd (run isym ipred src_realip_extractor_results src_realip_extractor start_r) = [VS (real_ip_hdr parse c xreal direct)].
Proof.
  unfold run, src_realip_extractor, src_realip_extractor_results, start_r, real_ip_hdr, strip_brackets.
  ip_eval. destruct xreal as [|x0 xr]; ip_eval; [reflexivity|].
  destruct (parse direct) as [a|]; ip_eval; [|reflexivity].
  destruct (trusted_ip c a); ip_eval; [|reflexivity].
  destruct (parse (trim_suffix_br (trim_prefix_br (x0 :: xr)))) as [b|]; ip_eval; reflexivity.
Qed.

(* ---- X-Forwarded-For *)
Hypothesis parse_no_blanks : forall s a, parse s = Some a -> trim_space s = s.   (* net.ParseIP accepts no surrounding blanks *)

(* the right-to-left scan, telling "stopped with this answer" from "every entry was a trusted address" *)
Fixpoint scan_opt (l : list str) : option str :=
  match l with
  | [] => None
  | e :: r => match parse e with
              | None => Some direct
              | Some a => if trusted_ip c a then scan_opt r else Some (snd a)
              end
  end.
Lemma scan_scan_opt l lm : scan parse c l direct lm = match scan_opt l with Some v => v | None => lm end.
Proof. induction l as [|e r IH]; [reflexivity|]. cbn. destruct (parse e) as [a|]; [|reflexivity]. destruct (trusted_ip c a); [exact IH|reflexivity]. Qed.
Lemma scan_opt_none l : scan_opt l = None -> forall e, In e l -> exists a, parse e = Some a.
Proof. induction l as [|x r IH]; intros H e Hin; [contradiction|]. cbn in H. destruct (parse x) as [a|] eqn:Ep; [|discriminate].
  destruct (trusted_ip c a); [|discriminate]. destruct Hin as [<-|Hin]; [eauto|exact (IH H e Hin)]. Qed.

Local Notation mkx vips vi vip :=
  {| locals := [("req"%string, VZ 0); ("directIP"%string, VS direct); ("xffs"%string, VL (map VS lines)); ("ips"%string, vips);
                ("i"%string, vi); ("ip"%string, vip)];
     fields := flds; lists := []; events := []; inputs := [] |}.

Lemma xff_loop (C : state -> bool) (B Q : state -> state * ctl) :
  (forall vips z vip, C (mkx vips (VZ z) vip) = (0 <=? z)) ->
  (forall vips z vip, Q (mkx vips (VZ z) vip) = (mkx vips (VZ (z - 1)) vip, Next)) ->
  (forall pre e cl vip,
     match parse (clean e) with
     | None => exists st', B (mkx (VL (map VS pre ++ VS e :: map VS cl)) (VZ (Z.of_nat (List.length pre))) vip) = (st', Ret [VS direct])
     | Some a =>
         if trusted_ip c a
         then exists vip', B (mkx (VL (map VS pre ++ VS e :: map VS cl)) (VZ (Z.of_nat (List.length pre))) vip) =
                (mkx (VL (map VS pre ++ VS (clean e) :: map VS cl)) (VZ (Z.of_nat (List.length pre))) vip', Next)
         else exists st', B (mkx (VL (map VS pre ++ VS e :: map VS cl)) (VZ (Z.of_nat (List.length pre))) vip) = (st', Ret [VS (snd a)])
     end) ->
  forall n pre cl vip, (List.length pre < n)%nat ->
  match scan_opt (rev (map clean pre)) with
  | Some v => exists st', while_loop C B Q n (mkx (VL (map VS pre ++ map VS cl)) (VZ (Z.of_nat (List.length pre) - 1)) vip) = (st', Ret [VS v])
  | None => exists vip', while_loop C B Q n (mkx (VL (map VS pre ++ map VS cl)) (VZ (Z.of_nat (List.length pre) - 1)) vip) =
              (mkx (VL (map VS (map clean pre) ++ map VS cl)) (VZ (-1)) vip', Next)
  end.
Proof.
  intros HC HQ HB n. induction n as [|n IH]; intros pre cl vip Hn; [lia|].
  destruct (exists_last_or_nil pre) as [-> | (pre' & e & ->)].
  - cbn [rev map scan_opt List.length Z.of_nat while_loop]. rewrite HC. exists vip. reflexivity.
  - rewrite map_app, rev_app_distr. cbn [map rev app scan_opt].
    rewrite app_length in *. cbn [List.length] in *.
    replace (Z.of_nat (List.length pre' + 1) - 1) with (Z.of_nat (List.length pre')) by lia.
    cbn [while_loop]. rewrite HC. replace (0 <=? Z.of_nat (List.length pre')) with true by (symmetry; apply Z.leb_le; lia).
    rewrite map_app, <- app_assoc. cbn [map app].
    specialize (HB pre' e cl vip). destruct (parse (clean e)) as [a|].
    + destruct (trusted_ip c a).
      * destruct HB as [vip' HBe]. rewrite HBe, HQ.
        specialize (IH pre' (clean e :: cl) vip'). cbn [map] in IH.
        destruct (scan_opt (rev (map clean pre'))) as [v|].
        -- destruct IH as [st' Hr]; [lia|]. exists st'. exact Hr.
        -- destruct IH as [vip'' Hr]; [lia|]. exists vip''. rewrite Hr. rewrite map_app, <- app_assoc. reflexivity.
      * destruct HB as [st' HBe]. rewrite HBe. exists st'. reflexivity.
    + destruct HB as [st' HBe]. rewrite HBe. exists st'. reflexivity.
Qed.

Definition start_x : state :=
  {| locals := [("req"%string, VZ 0); ("directIP"%string, VZ 0); ("xffs"%string, VZ 0); ("ips"%string, VZ 0); ("i"%string, VZ 0); ("ip"%string, VZ 0)];
     fields := flds; lists := []; events := []; inputs := [] |}.

Definition is_while (s : stmt) : bool := match s with SWhile _ _ _ _ => true | _ => false end.
Fixpoint first_while (l : list stmt) : nat := match l with [] => O | x :: r => if is_while x then O else S (first_while r) end.
Definition kmid : nat := first_while src_xff_extractor.
Definition pre_part : list stmt := firstn kmid src_xff_extractor.
Definition mid_stmt : stmt := nth kmid src_xff_extractor SBreak.
Definition post_part : list stmt := skipn (S kmid) src_xff_extractor.
Lemma src_split : src_xff_extractor = (pre_part ++ mid_stmt :: post_part)%list.
Proof. vm_compute. reflexivity. Qed.

Theorem src_xff_extractor_spec :
  snd (run isym ipred src_xff_extractor_results src_xff_extractor start_x) = [VS (xff parse c lines direct)].
Proof.
  unfold run, xff, xff_entries. rewrite src_split, exec_app. unfold src_xff_extractor_results, start_x.
  let m := eval vm_compute in pre_part in change pre_part with m.
  ip_eval. rewrite map_length.
  destruct lines as [|l0 lr] eqn:El; [reflexivity|]. rewrite <- El.
  replace (Z.of_nat (List.length lines) =? 0) with false by (rewrite El; reflexivity).
  ip_eval. rewrite strs_VS.
  remember (split_comma (join_comma lines) ++ [direct])%list as raw eqn:Eraw.
  replace (map VS (split_comma (join_comma lines)) ++ [VS direct])%list with (map VS raw ++ map VS [])%list
    by (subst raw; rewrite map_app, app_nil_r; reflexivity).
  rewrite app_length, !map_length. cbn [List.length]. rewrite Nat.add_0_r.
  let m := eval vm_compute in mid_stmt in change mid_stmt with m.
  let m := eval vm_compute in post_part in change post_part with m.
  ip_eval.
  match goal with |- context [while_loop ?C ?B ?Q ?fu ?s] =>
    assert (HL := xff_loop C B Q); specialize (fun HC HQ HB => HL HC HQ HB fu raw [] (VZ 0))
  end.
  match type of HL with ?HC -> ?HQ -> ?HB -> ?Hfu -> _ =>
    assert (H1 : HC) by (intros; ip_eval; reflexivity);
    assert (H2 : HQ) by (intros; ip_eval; reflexivity);
    assert (H4 : Hfu) by lia
  end.
  match type of HL with _ -> _ -> ?HB -> _ -> _ => assert (H3 : HB) end.
  { intros pre e cl vip. ip_eval. rewrite Nat2Z.id, <- (map_length VS pre).
    repeat (rewrite ?nth_mid, ?upd_mid; ip_eval).
    change (trim_suffix_br (trim_prefix_br (trim_space e))) with (clean e).
    destruct (parse (clean e)) as [a|]; ip_eval; [|eexists; reflexivity].
    destruct (trusted_ip c a); ip_eval; eexists; reflexivity. }
  specialize (HL H1 H2 H3 H4). clear H1 H2 H3 H4.
  rewrite scan_scan_opt.
  destruct (scan_opt (rev (map clean raw))) as [v|] eqn:Es.
  - destruct HL as [st' Hr].
    match type of Hr with ?L = _ => match goal with |- context [while_loop ?C ?B ?Q ?n ?s] => change (while_loop C B Q n s) with L end end.
    rewrite Hr. reflexivity.
  - destruct HL as [vip' Hr].
    match type of Hr with ?L = _ => match goal with |- context [while_loop ?C ?B ?Q ?n ?s] => change (while_loop C B Q n s) with L end end.
    rewrite Hr. clear Hr.
    destruct raw as [|r0 rr]; [destruct (split_comma (join_comma lines)); discriminate|].
    destruct (scan_opt_none _ Es (clean r0)) as [a Ha]; [apply -> in_rev; left; reflexivity|].
    ip_eval. change (Z.to_nat 0) with O. cbn [nth hd]. rewrite (parse_no_blanks _ _ Ha). reflexivity.
Qed.
End Src.

(* ---- closed statements *)
Theorem C10_source_realip_extractor : forall parse c xreal direct lines,
  snd (run isym (ipred parse c direct) src_realip_extractor_results src_realip_extractor (start_r lines xreal)) =
  [VS (real_ip_hdr parse c xreal direct)].
Proof. intros. apply src_realip_extractor_spec. Qed.
Print Assumptions C10_source_realip_extractor.

Theorem C10_source_xff_extractor : forall parse c lines xreal direct,
  (forall s a, parse s = Some a -> trim_space s = s) ->
  snd (run isym (ipred parse c direct) src_xff_extractor_results src_xff_extractor (start_x lines xreal)) =
  [VS (xff parse c lines direct)].
Proof. intros. apply src_xff_extractor_spec. assumption. Qed.
Print Assumptions C10_source_xff_extractor.

(* non-vacuity: two header lines, blanks and brackets, the peer and one forwarded entry trusted (loopback), the next one not *)
Example xff_src_example :
  let parse := fun s : str => if str_eqb s (lit "127.0.0.1") then Some ([127; 0; 0; 1]%N, s)
                              else if str_eqb s (lit "9.9.9.9") then Some ([9; 9; 9; 9]%N, s)
                              else if str_eqb s (lit "::1") then Some ([0;0;0;0;0;0;0;0;0;0;0;0;0;0;0;1]%N, s) else None in
  let c := {| t_loopback := true; t_linklocal := false; t_private := false; t_ranges := [] |} in
  snd (run isym (ipred parse c (lit "127.0.0.1")) src_xff_extractor_results src_xff_extractor
         (start_x [lit "1.2.3.4, 9.9.9.9 "; lit " [::1]"] [])) = [VS (lit "9.9.9.9")].
Proof. vm_compute. reflexivity. Qed.
