From Coq Require Import List ZArith.
From Echo Require Import Base.Sx Mw.BodyLimit.
Import ListNotations.
Open Scope Z_scope.

(* input: (L ((declared ((n e) ...)) ...));  e: 0 none, 1 EOF, 2 other
   output: ((rejected ((n e) ...)) ...);     e: 0 none, 1 EOF, 2 other, 3 = 413 *)
Definition dec_uerr (z : Z) : uerr := match z with 1 => EEOF | 2 => EOther | _ => ENone end.
Definition enc_rerr (e : rerr) : Z := match e with RNone => 0 | REOF => 1 | ROther => 2 | R413 => 3 end.
Definition dec_read (x : sx) : Z * uerr := (as_Z (nth_sx 0 x), dec_uerr (as_Z (nth_sx 1 x))).
Definition dec_req (x : sx) : Z * list (Z * uerr) :=
  (as_Z (nth_sx 0 x), map dec_read (as_list (nth_sx 1 x))).
Definition enc_served (s : served) : sx :=
  match s with
  | Rejected => SL [SZ 1; SL []]
  | Served os => SL [SZ 0; SL (map (fun o => SL [SZ (fst o); SZ (enc_rerr (snd o))]) os)]
  end.
Definition run_sx (x : sx) : sx :=
  let L := as_Z (nth_sx 0 x) in
  SL (map enc_served (serve_all L 0 (map dec_req (as_list (nth_sx 1 x))))).
