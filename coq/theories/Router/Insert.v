From Coq Require Import List Arith Bool Ascii String Lia Permutation.
Import ListNotations.
From Echo.Router Require Import Spec2 Fuel Refine.
Open Scope char_scope.

(* ---------- string-level insertion mirroring Router.insertNode (reduced node: flags derived) ---------- *)
Fixpoint lcp (a b : str) : nat :=
  match a, b with x :: a', y :: b' => if Ascii.eqb x y then S (lcp a' b') else 0 | _, _ => 0 end.

Definition payload := option (str * rmeth).

Fixpoint set_ms (m : str) (rm : rmeth) (ms : list (str * rmeth)) : list (str * rmeth) :=
  match ms with
  | [] => [(m, rm)]
  | (k, v) :: r => if str_eqb k m then (k, rm) :: r else (k, v) :: set_ms m rm r
  end.

Definition add_payload (n : node) (pl : payload) : node :=
  match pl with
  | None => n
  | Some (m, rm) =>
    match n with Node k pfx ms nf st pc ac =>
      if str_eqb m NF then Node k pfx ms (Some rm) st pc ac
      else Node k pfx (set_ms m rm ms) nf st pc ac
    end
  end.

Definition set_kind (k : kind) (n : node) : node :=
  match n with Node _ pfx ms nf st pc ac => Node k pfx ms nf st pc ac end.
Definition set_pfx (p : str) (n : node) : node :=
  match n with Node k _ ms nf st pc ac => Node k p ms nf st pc ac end.
Definition set_st (st : list node) (n : node) : node :=
  match n with Node k pfx ms nf _ pc ac => Node k pfx ms nf st pc ac end.
Definition set_pc (pc : option node) (n : node) : node :=
  match n with Node k pfx ms nf st _ ac => Node k pfx ms nf st pc ac end.
Definition set_ac (ac : option node) (n : node) : node :=
  match n with Node k pfx ms nf st pc _ => Node k pfx ms nf st pc ac end.

Definition leaf_node (t : kind) (p : str) : node := Node t p [] None [] None None.

Definition colon : ascii := ":".
Definition star : ascii := "*".

Fixpoint upd_first (p : node -> bool) (g : node -> node) (cs : list node) : list node :=
  match cs with
  | [] => []
  | x :: r => if p x then g x :: r else x :: upd_first p g r
  end.

Fixpoint insert_node (fuel : nat) (n : node) (search : str) (t : kind) (pl : payload) : node :=
  match fuel with 0 => n | S f =>
  let pfx := n_pfx n in
  let l := lcp search pfx in
  if Nat.eqb l 0 then
    (* at (empty) root *)
    add_payload (set_pfx search (match pl with Some _ => set_kind t n | None => n end)) pl
  else if Nat.ltb l (List.length pfx) then
    let child := set_pfx (skipn l pfx) n in
    let parent := Node KS (firstn l pfx) [] None [child] None None in
    if Nat.eqb l (List.length search) then add_payload (set_kind t parent) pl
    else set_st [child; add_payload (leaf_node t (skipn l search)) pl] parent
  else if Nat.ltb l (List.length search) then
    let s' := skipn l search in
    match s' with
    | [] => n
    | c :: _ =>
      if existsb (has_label c) (n_st n) then
        set_st (upd_first (has_label c) (fun x => insert_node f x s' t pl) (n_st n)) n
      else
        match (if Ascii.eqb c colon then n_pc n else if Ascii.eqb c star then n_ac n else None) with
        | Some ch =>
          if Ascii.eqb c colon then set_pc (Some (insert_node f ch s' t pl)) n
          else set_ac (Some (insert_node f ch s' t pl)) n
        | None =>
          let nn := add_payload (leaf_node t s') pl in
          match t with
          | KS => set_st (n_st n ++ [nn]) n
          | KP => set_pc (Some nn) n
          | KA => set_ac (Some nn) n
          end
        end
    end
  else add_payload n pl
  end.

(* ---------- route insertion mirroring Router.insert ---------- *)
Definition enc_tok (t : tok) : ascii := match t with TLit c => c | TParam => colon | TAny => star end.
Definition enc (ts : list tok) : str := map enc_tok ts.

(* insert a parsed route: ts = tokens, performs the same insertNode sequence as Router.insert *)
Fixpoint insert_toks (t : node) (m : str) (rm : rmeth) (done : list tok) (rest : list tok) : node :=
  match rest with
  | [] => insert_node (S (List.length done)) t (enc done) KS (Some (m, rm))
  | TLit c :: r => insert_toks t m rm (done ++ [TLit c]) r
  | TParam :: r =>
    let t1 := insert_node (S (List.length done)) t (enc done) KS None in
    let done' := done ++ [TParam] in
    let t2 := match r with
              | [] => insert_node (S (List.length done')) t1 (enc done') KP (Some (m, rm))
              | _ => insert_node (S (List.length done')) t1 (enc done') KP None end in
    insert_toks t2 m rm done' r
  | TAny :: _ =>
    let t1 := insert_node (S (List.length done)) t (enc done) KS None in
    insert_node (S (S (List.length done))) t1 (enc (done ++ [TAny])) KA (Some (m, rm))
  end.

Definition empty_root : node := Node KS [] [] None [] None None.

Definition L (s : string) : list tok := map TLit (list_ascii_of_string s).
Definition S_ (s : string) : str := list_ascii_of_string s.
Definition ex1 :=
  let t := insert_toks empty_root (S_ "GET") ([S_ "id"], 0) [] (L "/users/" ++ [TParam]) in
  let t := insert_toks t (S_ "GET") ([S_ "id"], 1) [] (L "/users/" ++ [TParam] ++ L "/x") in
  let t := insert_toks t (S_ "POST") ([], 2) [] (L "/users/new") in
  let t := insert_toks t (S_ "GET") ([S_ "*"], 3) [] (L "/us" ++ [TAny]) in
  t.
Eval vm_compute in ex1.
Eval vm_compute in map (fun x => (r_id (fst x), List.length (snd x))) (den_edge [] ex1).
