(* What context.Reset and Response.reset - as translated from context.go / response.go on every run
   (Gen/Src_context.v, Gen/Src_response.v) - forget: every cell the model's [reset] resets is assigned its fresh
   value by the source, whatever the recycled context held.  (C05) *)
From Coq Require Import List ZArith Bool String Lia.
From Echo Require Import Base.GoLite Gen.Src_context Gen.Src_response.
Import ListNotations.
Open Scope Z_scope.

Section Src.
Variable sym : string -> Z.

(* any recycled context: every cell Reset looks at holds an arbitrary value; the request and writer handed to
   Reset are r and w *)
Definition recycled (q : list Z) (r w : Z) : state :=
  {| locals := [("r", r); ("w", w)];
     fields := combine ["c.request"; "c.query"; "c.handler"; "c.store"; "c.path"; "c.pnames"; "c.logger"; "c.pvalues";
                        "c.echo"; "c.echo.maxParam"; "len(c.pvalues)"; "*c.echo.maxParam"]%string q;
     events := []; inputs := [] |}.

Ltac golite := cbv [run recycled exec exec_s eval get put assign locals fields events inputs String.eqb Ascii.eqb Bool.eqb map tl app combine truthy b2z negb andb orb fst snd].
Ltac run_src := golite.

(* context.Reset: the request is the new one; query cache, handler, store, path, names and logger are reset;
   the response is reset (through Response.reset, below) and the value array is blanked *)
Theorem src_context_reset_forgets q0 q1 q2 q3 q4 q5 q6 q7 q8 q9 q10 q11 r w :
  let '(st', _) := run sym src_context_reset_results src_context_reset (recycled [q0; q1; q2; q3; q4; q5; q6; q7; q8; q9; q10; q11] r w) in
  get (fields st') "c.request" = r /\
  get (fields st') "c.query" = sym "nil" /\
  get (fields st') "c.handler" = sym "NotFoundHandler" /\
  get (fields st') "c.store" = sym "nil" /\
  get (fields st') "c.path" = sym """""" /\
  get (fields st') "c.pnames" = sym "nil" /\
  get (fields st') "c.logger" = sym "nil" /\
  events st' = [("c.response.reset", [w]); ("blank c.pvalues", [])].
Proof.
  unfold src_context_reset, src_context_reset_results. run_src.
  destruct (q8 =? sym "nil"); destruct (q9 =? sym "nil"); destruct (q10 <? q11); golite; repeat split; reflexivity.
Qed.

(* ... and the value array is at least maxParam long afterwards: it is re-made exactly when it was shorter *)
Theorem src_context_reset_grows q0 q1 q2 q3 q4 q5 q6 q7 q8 q9 q10 q11 r w : sym "nil" = 0 -> q8 <> 0 -> q9 <> 0 ->
  let '(st', _) := run sym src_context_reset_results src_context_reset (recycled [q0; q1; q2; q3; q4; q5; q6; q7; q8; q9; q10; q11] r w) in
  get (fields st') "c.pvalues" = if q10 <? q11 then sym "make([]string,*c.echo.maxParam)" else q7.
Proof.
  intros Hnil He Hm. unfold src_context_reset, src_context_reset_results. run_src. rewrite Hnil.
  assert (E1 : (q8 =? 0) = false) by (apply Z.eqb_neq; exact He).
  assert (E2 : (q9 =? 0) = false) by (apply Z.eqb_neq; exact Hm).
  rewrite E1, E2. golite.
  destruct (q10 <? q11); golite; reflexivity.
Qed.

(* Response.reset: hooks, size, status and the committed flag of the previous request are gone; the writer is the new one *)
Theorem src_response_reset_forgets b a wr sz stt cm w :
  let st := {| locals := [("w", w)];
               fields := [("r.beforeFuncs", b); ("r.afterFuncs", a); ("r.Writer", wr); ("r.Size", sz); ("r.Status", stt); ("r.Committed", cm)];
               events := []; inputs := [] |} in
  let '(st', _) := run sym src_response_reset_results src_response_reset st in
  get (fields st') "r.beforeFuncs" = sym "nil" /\ get (fields st') "r.afterFuncs" = sym "nil" /\
  get (fields st') "r.Writer" = w /\ get (fields st') "r.Size" = 0 /\
  get (fields st') "r.Status" = sym "http.StatusOK" /\ get (fields st') "r.Committed" = 0.
Proof.
  unfold src_response_reset, src_response_reset_results. golite. repeat split; reflexivity.
Qed.
End Src.
