(* The statement-level translation of the request handler of BasicAuthWithConfig (Gen/Src_basicauth.v, regenerated from
   middleware/basic_auth.go on every run, language Base/GoLoop.v) behaves like the model's [basic_auth]: the scheme test, the
   base64 decoding, the split at the FIRST colon found by the index loop, the single validator call, and what is returned.  (C13) *)
From Coq Require Import List ZArith Bool String Ascii Lia NArith.
From Echo Require Import Base.Sx Base.GoLoop Gen.Src_basicauth Mw.Auth.
Import ListNotations.
Open Scope Z_scope.

Definition code_of (ch : ascii) : Z := Z.of_N (N_of_ascii ch).
Lemma code_colon ch : (code_of ch =? 58) = Ascii.eqb ch ":"%char.
Proof. destruct ch as [[] [] [] [] [] [] [] []]; reflexivity. Qed.

Lemma skipn_nth {A} (d : A) (l : list A) k : (k < List.length l)%nat -> skipn k l = nth k l d :: skipn (S k) l.
Proof. revert k. induction l as [|x r IH]; intros k H; [cbn in H; lia|]. destruct k; [reflexivity|]. cbn. apply IH. cbn in H. lia. Qed.
Lemma firstn_S_nth {A} (d : A) (l : list A) k : (k < List.length l)%nat -> firstn (S k) l = (firstn k l ++ [nth k l d])%list.
Proof. revert k. induction l as [|x r IH]; intros k H; [cbn in H; lia|]. destruct k; [reflexivity|]. cbn. f_equal. apply IH. cbn in H. lia. Qed.

(* the first colon, looked for from position k on *)
Definition sc_from (cred : str) (k : nat) : option (str * str) :=
  match split_colon (skipn k cred) with Some (u, p) => Some ((firstn k cred ++ u)%list, p) | None => None end.
Lemma sc_from_0 cred : sc_from cred 0 = split_colon cred.
Proof. unfold sc_from. cbn. destruct (split_colon cred) as [[u p]|]; reflexivity. Qed.
Lemma sc_from_colon cred k : (k < List.length cred)%nat -> nth k cred "000"%char = ":"%char ->
  sc_from cred k = Some (firstn k cred, skipn (S k) cred).
Proof. intros H E. unfold sc_from. rewrite (skipn_nth "000"%char cred k H), E. cbn. rewrite app_nil_r. reflexivity. Qed.
Lemma sc_from_other cred k : (k < List.length cred)%nat -> Ascii.eqb (nth k cred "000"%char) ":"%char = false ->
  sc_from cred k = sc_from cred (S k).
Proof.
  intros H E. unfold sc_from. rewrite (skipn_nth "000"%char cred k H). cbn [split_colon]. rewrite E.
  rewrite (firstn_S_nth "000"%char cred k H). destruct (split_colon (skipn (S k) cred)) as [[u p]|]; [|reflexivity].
  rewrite <- app_assoc. reflexivity.
Qed.
Lemma sc_from_end cred k : (List.length cred <= k)%nat -> sc_from cred k = None.
Proof. intro H. unfold sc_from. rewrite skipn_all2 by exact H. reflexivity. Qed.

Section Src.
Variable decode : str -> option str.
Variable validator : str -> str -> vres.
Variable auth : str.

Definition bpred (p : string) (args : list val) : val :=
  if String.eqb p "len" then match args with [VS s] => VZ (Z.of_nat (List.length s)) | _ => VZ 0 end
  else if String.eqb p "strings.EqualFold" then match args with [VS a; VS b] => b2v (eq_fold a b) | _ => VZ 0 end
  else if String.eqb p "slice_to" then match args with [VS s; VZ i] => VS (firstn (Z.to_nat i) s) | _ => VZ 0 end
  else if String.eqb p "slice_from" then match args with [VS s; VZ i] => VS (skipn (Z.to_nat i) s) | _ => VZ 0 end
  else if String.eqb p "index" then match args with [VS s; VZ i] => VZ (code_of (nth (Z.to_nat i) s "000"%char)) | _ => VZ 0 end
  else if String.eqb p "base64.StdEncoding.DecodeString" then
    match args with [VS x] => match decode x with Some c => VL [VS c; VZ 0] | None => VL [VS []; VZ 7] end | _ => VL [VS []; VZ 7] end
  else if String.eqb p "config.Validator" then
    match args with
    | VS u :: VS p' :: _ => match validator u p' with VTrue => VL [VZ 1; VZ 0] | VFalse => VL [VZ 0; VZ 0] | VErr => VL [VZ 0; VZ 9] end
    | _ => VL [VZ 0; VZ 9]
    end
  else VZ 0.

Definition bsym (s : string) : val :=
  if String.eqb s "basic" then VS basic_lit
  else if String.eqb s "c.Request().Header.Get(echo.HeaderAuthorization)" then VS auth
  else if String.eqb s "result of next" then VZ 200
  else if String.eqb s "echo.NewHTTPError(http.StatusBadRequest).SetInternal(err)" then VZ 400
  else if String.eqb s "echo.ErrUnauthorized" then VZ 401
  else VZ 0.

Definition vcall2 (u p : str) : string * list val := ("config.Validator"%string, [VS u; VS p; VZ 0]).
Definition nextev : string * list val := ("next"%string, [VZ 0]).

Section Loop.
Variables (vtmp1 vl vb vrealm : val) (cred : str).
Variables (flds : env) (lsts : list (string * list val)) (inps : list (list val)).
Local Notation mk verr vi vvalid evs :=
  {| locals := [("c"%string, VZ 0); ("tmp1"%string, vtmp1); ("auth"%string, VS auth); ("l"%string, vl); ("b"%string, vb);
                ("err"%string, verr); ("cred"%string, VS cred); ("i"%string, vi); ("valid"%string, vvalid); ("realm"%string, vrealm)];
     fields := flds; lists := lsts; events := evs; inputs := inps |}.

(* the index loop: for i := 0; i < len(cred); i++ { if cred[i] == ':' { ...; break } } *)
Lemma colon_loop_src (F : state -> state * ctl) cN :
  goes_on cN ->
  (forall k verr vvalid evs, (k < List.length cred)%nat ->
     F (mk verr (VZ (Z.of_nat k)) vvalid evs) =
     if Ascii.eqb (nth k cred "000"%char) ":"%char then
       match validator (firstn k cred) (skipn (S k) cred) with
       | VTrue => (mk (VZ 0) (VZ (Z.of_nat k)) (VZ 1) (evs ++ [vcall2 (firstn k cred) (skipn (S k) cred); nextev]), Ret [VZ 200])
       | VFalse => (mk (VZ 0) (VZ (Z.of_nat k)) (VZ 0) (evs ++ [vcall2 (firstn k cred) (skipn (S k) cred)]), Brk)
       | VErr => (mk (VZ 9) (VZ (Z.of_nat k)) (VZ 0) (evs ++ [vcall2 (firstn k cred) (skipn (S k) cred)]), Ret [VZ 9])
       end
     else (mk verr (VZ (Z.of_nat k)) vvalid evs, cN)) ->
  forall m k verr vi vvalid evs, (k + m = List.length cred)%nat ->
  exists verr' vi' vvalid',
  range_loop F "i" (map (fun j => VZ (Z.of_nat j)) (seq k m)) (mk verr vi vvalid evs) =
    match sc_from cred k with
    | None => (mk verr' vi' vvalid' evs, Next)
    | Some (u, p) =>
        match validator u p with
        | VTrue => (mk verr' vi' vvalid' (evs ++ [vcall2 u p; nextev]), Ret [VZ 200])
        | VFalse => (mk verr' vi' vvalid' (evs ++ [vcall2 u p]), Next)
        | VErr => (mk verr' vi' vvalid' (evs ++ [vcall2 u p]), Ret [VZ 9])
        end
    end.
Proof.
  intros HcN HF m. induction m as [|m IH]; intros k verr vi vvalid evs Hk.
  - exists verr, vi, vvalid. cbn. rewrite sc_from_end by lia. reflexivity.
  - cbn [seq map range_loop].
    change (set_local (mk verr vi vvalid evs) "i" (VZ (Z.of_nat k))) with (mk verr (VZ (Z.of_nat k)) vvalid evs).
    rewrite HF by lia. destruct (Ascii.eqb (nth k cred "000"%char) ":"%char) eqn:Ec.
    + apply Ascii.eqb_eq in Ec. rewrite (sc_from_colon cred k) by (lia || exact Ec).
      destruct (validator (firstn k cred) (skipn (S k) cred)); do 3 eexists; reflexivity.
    + rewrite (sc_from_other cred k) by (lia || exact Ec).
      assert (Hgo : forall st, match cN with Next => range_loop F "i" (map (fun j => VZ (Z.of_nat j)) (seq (S k) m)) st
                                | Cont => range_loop F "i" (map (fun j => VZ (Z.of_nat j)) (seq (S k) m)) st
                                | Brk => (st, Next) | Ret w => (st, Ret w) end
                               = range_loop F "i" (map (fun j => VZ (Z.of_nat j)) (seq (S k) m)) st)
        by (intro st; destruct HcN as [-> | ->]; reflexivity).
      rewrite Hgo. apply IH. lia.
Qed.
End Loop.

(* ---- the statement with the loop, cut out of the translated body *)
Definition kmid : nat := first_range src_basic_auth_handler.
Definition pre_part : list stmt := firstn kmid src_basic_auth_handler.
Definition mid_stmt : stmt := nth kmid src_basic_auth_handler SBreak.
Definition post_part : list stmt := skipn (S kmid) src_basic_auth_handler.
Lemma src_split : src_basic_auth_handler = (pre_part ++ mid_stmt :: post_part)%list.
Proof. vm_compute. reflexivity. Qed.

Lemma truthy_0 : truthy (VZ 0) = false.  Proof. reflexivity. Qed.
Lemma truthy_1 : truthy (VZ 1) = true.  Proof. reflexivity. Qed.
Ltac basic_eval :=
  repeat (rewrite ?truthy_b2v, ?truthy_0, ?truthy_1;
          cbn [exec exec_s eval get put getl assign set_local locals fields lists events inputs String.eqb Ascii.eqb Bool.eqb
               map tl app negb andb orb fst snd as_z as_l val_eqb bsym bpred lit list_ascii_of_string str_eqb Z.eqb Pos.eqb basic_lit];
          try unfold set_local).

Definition start : state :=
  {| locals := [("c"%string, VZ 0); ("tmp1"%string, VZ 0); ("auth"%string, VZ 0); ("l"%string, VZ 0); ("b"%string, VZ 0);
                ("err"%string, VZ 0); ("cred"%string, VZ 0); ("i"%string, VZ 0); ("valid"%string, VZ 0); ("realm"%string, VZ 0)];
     fields := []; lists := []; events := []; inputs := [[VZ 0]] |}.
Definition vpairs_of (evs : list (string * list val)) : list (str * str) :=
  flat_map (fun ev => if String.eqb (fst ev) "config.Validator" then match snd ev with VS u :: VS p :: _ => [(u, p)] | _ => [] end else []) evs.
Definition called_next (st : state) : bool := existsb (fun ev => String.eqb (fst ev) "next") (events st).

Theorem src_basic_auth_handler_spec :
  let '(st', ret) := run bsym bpred src_basic_auth_handler_results src_basic_auth_handler start in
  let '(o, calls) := basic_auth decode validator auth in
  vpairs_of (events st') = calls /\
  called_next st' = (match o with Ran => true | Rejected _ => false end) /\
  ret = [VZ (match o with Ran => 200 | Rejected 0 => 9 | Rejected c => Z.of_nat c end)].
Proof.
  unfold run, basic_auth. rewrite src_split, exec_app. unfold src_basic_auth_handler_results, start.
  match goal with |- context [exec ?s ?p ?r pre_part ?st] => set (pp := exec s p r pre_part st) end.
  vm_compute in pp. subst pp. cbn [exec].
  let m := eval vm_compute in mid_stmt in change mid_stmt with m.
  let m := eval vm_compute in post_part in change post_part with m.
  basic_eval.
  change (Z.to_nat 5) with 5%nat.
  assert (Hlt : (5 + 1 <? Z.of_nat (List.length auth)) = (6 <? List.length auth)%nat).
  { destruct (Nat.ltb_spec 6 (List.length auth)); destruct (Z.ltb_spec (5 + 1) (Z.of_nat (List.length auth))); try reflexivity; lia. }
  rewrite Hlt. clear Hlt.
  destruct (6 <? List.length auth)%nat eqn:E1; cbn [andb]; [destruct (eq_fold (firstn 5 auth) basic_lit) eqn:E2|].
  - basic_eval. change (Z.to_nat (5 + 1)) with 6%nat.
    destruct (decode (skipn 6 auth)) as [cred|] eqn:Ed.
    + basic_eval. rewrite Nat2Z.id.
      match goal with |- context [range_loop ?F "i" _ ?s] =>
        edestruct (colon_loop_src (VZ 0) (VZ 5) (VS cred) (VZ 0) cred [] [] [] F) as (verr' & vi' & vvalid' & Hr)
      end.
      4: { rewrite Hr. clear Hr. rewrite sc_from_0.
           destruct (split_colon cred) as [[u p]|]; [destruct (validator u p)|]; basic_eval; cbn; repeat split. }
      * unfold goes_on. left. reflexivity.
      * intros k verr vvalid evs Hk. basic_eval. rewrite Nat2Z.id, code_colon.
        destruct (Ascii.eqb (nth k cred "000"%char) ":"%char); basic_eval; [|reflexivity].
        rewrite ?Nat2Z.id. replace (Z.to_nat (Z.of_nat k + 1)) with (S k) by lia.
        destruct (validator (firstn k cred) (skipn (S k) cred)); basic_eval; rewrite <- ?app_assoc; reflexivity.
      * cbn. reflexivity.
    + basic_eval. cbn. repeat split.
  - basic_eval. cbn. repeat split.
  - basic_eval. cbn. repeat split.
Qed.
End Src.

