(* C07 — every error or recovered panic becomes exactly one well-formed response.
   Statements only; proofs in Http/ErrorHandlerProofs.v (on top of the C06 Response model).
   [effective e]: code/message of the HTTP error, or of the HTTP error it DIRECTLY carries as internal
   error, otherwise 500 + generic message.  [txt] = err.Error(), used only in debug mode. *)
From Coq Require Import List ZArith Bool String.
From Echo Require Import Base.Sx Http.Response Http.ResponseProofs Http.ErrorHandler Http.ErrorHandlerProofs.
Import ListNotations.
Open Scope Z_scope.

(* for every handler program and every error it returns: afterwards exactly one status line is on
   the wire (committed responses included) *)
Theorem C07_one_response : forall debug hd s0 prog e txt, Forall op_ok prog -> fst (effective e) <> 0 ->
  let r' := fst (serve debug hd s0 prog (Some (e, txt))) in
  committed r' = true /\ w_hdr_calls (wr r') = 1%nat.
Proof. exact serve_one_response. Qed.
Print Assumptions C07_one_response.

(* uncommitted: status and body are those of the effective HTTP error; HEAD gets an empty body *)
Theorem C07_code_msg : forall debug hd txt e r, Inv r -> committed r = false -> fst (effective e) <> 0 ->
  let r' := fst (handle debug hd txt e r) in
  committed r' = true /\ w_hdr_calls (wr r') = 1%nat /\
  w_status (wr r') = Some (fst (effective e)) /\ status r' = fst (effective e) /\
  snd (handle debug hd txt e r) =
    Some (fst (effective e), if hd then BEmpty else body_of debug txt (snd (effective e))).
Proof. exact one_response. Qed.
Print Assumptions C07_code_msg.

Theorem C07_plain_is_500 : forall t, effective (Plain t) = (500, MStr (lit "Internal Server Error"%string)) /\
  forall t' i, effective (Wrapped t' i) = (500, MStr (lit "Internal Server Error"%string)).
Proof. exact plain_is_500. Qed.
Print Assumptions C07_plain_is_500.

(* already committed: the error handler adds nothing *)
Theorem C07_committed_silent : forall debug hd txt e r, committed r = true -> handle debug hd txt e r = (r, None).
Proof. exact committed_silent. Qed.
Print Assumptions C07_committed_silent.

(* debug off: two errors with the same public part (codes/messages of the HTTP error and of the one
   it directly carries) produce the same response, whatever their internal / plain error texts *)
Theorem C07_no_leak : forall hd e e' txt txt' r, public e = public e' ->
  handle false hd txt e r = handle false hd txt' e' r.
Proof. exact no_leak. Qed.
Print Assumptions C07_no_leak.

(* Recover: a panic is answered like the error its value denotes *)
Theorem C07_recover : forall debug hd s0 prog v,
  serve debug hd s0 prog (Some (recovered v)) =
  handle debug hd (snd (recovered v)) (fst (recovered v)) (run s0 prog).
Proof. exact recover_as_error. Qed.
Print Assumptions C07_recover.

(* the response bookkeeping invariant of C06 survives error handling (the server keeps serving) *)
Theorem C07_keeps_invariant : forall debug hd s0 prog result, Forall op_ok prog ->
  Inv (fst (serve debug hd s0 prog result)).
Proof. exact serve_inv. Qed.
Print Assumptions C07_keeps_invariant.

(* ---- tie to the source by proof: the body of Echo.DefaultHTTPErrorHandler, translated statement by statement from echo.go
   on every run (Gen/Src_errorhandler.v, language Base/GoLite.v), run on the cells that describe ANY error value e (the answers
   of its two type assertions, code / message / internal of the HTTP errors involved, the kind of each message), makes no
   call at all on a committed response and otherwise exactly ONE: NoContent(code) for HEAD, JSON(code, message) else, with
   (code, message) = [effective e] of the model - the error's own, that of the HTTP error it directly carries, or 500 with
   the status text - and the message shown as [body_of] says: {"message": m} (+ "error" only in debug mode) for a string,
   {"message": m.Error()} for an error, the value itself otherwise.  [mid] names message values that are passed on. *)
From Coq Require Import String ZArith.
From Echo Require Import Base.GoLite Gen.Src_errorhandler Http.ErrorHandlerSrc.

Theorem C07_source_error_handler : forall (mid : msg -> Z) committed debug is_head e,
  let '(st', _) := GoLite.run esym src_default_error_handler_results src_default_error_handler (start mid committed debug is_head e) in
  let calls := filter (fun ev => negb (String.eqb (fst ev) "err.(*HTTPError)") && negb (String.eqb (fst ev) "he.Internal.(*HTTPError)")) (events st') in
  if committed then calls = []
  else let '(code, m) := effective e in
       calls = [if is_head then ("c.NoContent"%string, [code]) else ("c.JSON"%string, [code; shown mid debug m])].
Proof. exact src_default_error_handler_spec. Qed.
Print Assumptions C07_source_error_handler.
