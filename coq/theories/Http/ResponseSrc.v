(* Response.WriteHeader / Write / Flush as translated from response.go on every run (Gen/Src_response.v): what they
   do to Status, Size and Committed and in which order they call hooks and the underlying writer - the facts the
   model (Http/Response.v: write_header, write, flush) is built from.  (C06) *)
From Coq Require Import List ZArith Bool String Lia.
From Echo Require Import Base.GoLite Gen.Src_response Http.Response.
Import ListNotations.
Open Scope Z_scope.

Section Src.
Variable sym : string -> Z.
Hypothesis sym_ok : sym "http.StatusOK" = 200.
Hypothesis sym_nil : sym "nil" = 0.

Definition rstate (cm stt sz : Z) (ls : env) (ins : list (list Z)) : state :=
  {| locals := ls; fields := [("r.Committed", cm); ("r.Status", stt); ("r.Size", sz)]; events := []; inputs := ins |}.

Ltac golite := repeat (cbn [exec exec_s eval get put assign locals fields events inputs String.eqb Ascii.eqb Bool.eqb
                            map tl app negb andb orb fst snd]; rewrite ?truthy_b2z).

(* WriteHeader: a committed response is left alone (only a warning is logged); otherwise the status is recorded,
   the before-hooks run, THEN the status line goes to the underlying writer, and the response is committed *)
Theorem src_writeheader cm stt sz code :
  let '(st', _) := GoLite.run sym src_response_writeheader_results src_response_writeheader (rstate cm stt sz [("code", code)] []) in
  if cm =? 0
  then get (fields st') "r.Status" = code /\ get (fields st') "r.Committed" = 1 /\ get (fields st') "r.Size" = sz /\
       events st' = [("range r.beforeFuncs", []); ("r.Writer.WriteHeader", [code])]
  else get (fields st') "r.Status" = stt /\ get (fields st') "r.Committed" = cm /\ get (fields st') "r.Size" = sz /\
       map fst (events st') = ["r.echo.Logger.Warn"]%string.
Proof.
  unfold GoLite.run, src_response_writeheader, src_response_writeheader_results, rstate. golite. unfold truthy.
  destruct (cm =? 0); golite; repeat split; reflexivity.
Qed.

(* the same facts about the model *)
Lemma model_write_header r c :
  if committed r then write_header r c = r
  else status (write_header r c) = c /\ committed (write_header r c) = true /\ size (write_header r c) = size r.
Proof. unfold write_header. destruct (committed r); [reflexivity|simpl; auto]. Qed.

(* Write: an uncommitted response is committed first (status 200 if none was set) through WriteHeader; then the bytes
   go to the underlying writer, Size grows by exactly the number it accepted - also when it reports an error -
   and the after-hooks run *)
Theorem src_write cm stt sz b n err :
  let '(st', ret) := GoLite.run sym src_response_write_results src_response_write (rstate cm stt sz [("b", b)] [[n; err]]) in
  ret = [n; err] /\
  get (fields st') "r.Size" = sz + n /\
  get (fields st') "r.Status" = (if (cm =? 0) && (stt =? 0) then 200 else stt) /\
  events st' = ((if cm =? 0 then [("r.WriteHeader", [if stt =? 0 then 200 else stt])] else [])
                ++ [("r.Writer.Write", [b]); ("range r.afterFuncs", [])])%list.
Proof.
  unfold GoLite.run, src_response_write, src_response_write_results, rstate. golite. unfold truthy.
  destruct (cm =? 0); golite; [destruct (stt =? 0); golite; rewrite ?sym_ok|]; repeat split; reflexivity.
Qed.

Lemma model_write r k :
  size (write r k) = size (commit_if_needed r) + k /\
  committed (write r k) = committed (commit_if_needed r) /\
  (committed r = false -> status (write r k) = (if status r =? 0 then 200 else status r) /\ committed (write r k) = true).
Proof.
  unfold write. cbn [size committed status]. split; [reflexivity|]. split; [reflexivity|].
  intro H. unfold commit_if_needed. rewrite H. unfold write_header. rewrite H. simpl. auto.
Qed.

(* Flush: commits first in the same way, then flushes the underlying writer; it panics only for a writer that does
   not support flushing *)
Theorem src_flush cm stt sz err notsup :
  let st := {| locals := []; fields := [("r.Committed", cm); ("r.Status", stt); ("r.Size", sz); ("errors.Is(err,http.ErrNotSupported)", notsup)];
               events := []; inputs := [[err]] |} in
  let '(st', _) := GoLite.run sym src_response_flush_results src_response_flush st in
  get (fields st') "r.Size" = sz /\
  get (fields st') "r.Status" = (if (cm =? 0) && (stt =? 0) then 200 else stt) /\
  map fst (events st') = ((if cm =? 0 then ["r.WriteHeader"%string] else []) ++ ["http.NewResponseController(r.Writer).Flush"%string]
                          ++ (if negb (err =? 0) && negb (notsup =? 0) then ["panic"%string] else []))%list.
Proof.
  unfold GoLite.run, src_response_flush, src_response_flush_results. golite. unfold truthy. rewrite sym_nil.
  destruct (cm =? 0); golite; [destruct (stt =? 0); golite; rewrite ?sym_ok|];
    destruct (err =? 0); destruct (notsup =? 0); golite; repeat split; reflexivity.
Qed.
End Src.
