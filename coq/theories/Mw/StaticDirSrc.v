(* The statement-level translation of the handler returned by StaticDirectoryHandler (Gen/Src_staticdir.v, regenerated from
   echo_fs.go on every run, language Base/GoLoop.v): the ONE name it hands to the file system is the model's [route_name] of the
   unescaped wildcard value - Clean(TrimPrefix(p, "/")) -, both for fs.Stat and for serving; a name that cannot be stat'ed is
   answered 404 without anything being served; a directory requested without a trailing slash is redirected to the sanitised
   URL path + "/".  (C16, C17) *)
From Coq Require Import List ZArith Bool String Ascii NArith.
From Echo Require Import Base.Sx Base.GoLoop Gen.Src_staticdir Mw.PathClean.
Import ListNotations.
Open Scope Z_scope.

Definition code_of (ch : ascii) : Z := Z.of_N (N_of_ascii ch).
Definition zb (b : bool) : Z := if b then 1 else 0.

Section Src.
Variable unescape : str -> option str.          (* url.PathUnescape *)
Variable stat : str -> option bool.             (* fs.Stat on the served file system: None = error, Some isDir *)
Variable sanitize : str -> str.                 (* sanitizeURI (C17) *)
Variables (p urlpath : str).                    (* the wildcard value, and Request.URL.Path *)

Definition spred (f : string) (args : list val) : val :=
  if String.eqb f "url.PathUnescape" then
    match args with [VS s] => match unescape s with Some t => VL [VS t; VZ 0] | None => VL [VS []; VZ 7] end | _ => VL [VS []; VZ 7] end
  else if String.eqb f "strings.TrimPrefix" then match args with [VS s; VS pre] => if str_eqb pre (lit "/") then VS (trim_slash s) else VS s | _ => VZ 0 end
  else if String.eqb f "filepath.Clean" then match args with [VS s] => VS (clean s) | _ => VZ 0 end
  else if String.eqb f "filepath.ToSlash" then match args with [v] => v | _ => VZ 0 end
  else if String.eqb f "fs.Stat" then
    match args with [_; VS name] => match stat name with Some d => VL [VZ (zb d); VZ 0] | None => VL [VZ 0; VZ 7] end | _ => VL [VZ 0; VZ 7] end
  else if String.eqb f ".IsDir" then match args with [v] => v | _ => VZ 0 end
  else if String.eqb f "len" then match args with [VS s] => VZ (Z.of_nat (List.length s)) | _ => VZ 0 end
  else if String.eqb f "index" then match args with [VS s; VZ i] => VZ (code_of (nth (Z.to_nat i) s "000"%char)) | _ => VZ 0 end
  else if String.eqb f "concat" then match args with [VS a; VS b] => VS (a ++ b) | _ => VZ 0 end
  else if String.eqb f "sanitizeURI" then match args with [VS s] => VS (sanitize s) | _ => VZ 0 end
  else VZ 0.

Definition ssym (s : string) : val :=
  if String.eqb s "c.Param(""*"")" then VS p
  else if String.eqb s "c.Request().URL.Path" then VS urlpath
  else if String.eqb s "ErrNotFound" then VZ 404
  else if String.eqb s "result of fsFile" then VZ 200
  else if String.eqb s "result of c.Redirect" then VZ 301
  else if String.eqb s "http.StatusMovedPermanently" then VZ 301
  else if String.eqb s "fmt.Errorf(""failed to unescape path variable: %w"",err)" then VZ 500
  else VZ 0.          (* nil, disablePathUnescaping = false, the file system handle *)

Lemma truthy_0 : truthy (VZ 0) = false.  Proof. reflexivity. Qed.
Lemma truthy_1 : truthy (VZ 1) = true.  Proof. reflexivity. Qed.
Ltac sd_eval :=
  repeat (rewrite ?truthy_b2v, ?truthy_0, ?truthy_1;
          cbn [exec exec_s eval get put getl assign set_local locals fields lists events inputs String.eqb Ascii.eqb Bool.eqb
               map tl app negb andb orb fst snd as_z as_l val_eqb ssym spred lit list_ascii_of_string str_eqb zb Z.eqb Pos.eqb];
          try unfold set_local).

Definition start : state :=
  {| locals := [("c"%string, VZ 0); ("p"%string, VZ 0); ("tmpPath"%string, VZ 0); ("err"%string, VZ 0); ("name"%string, VZ 0); ("fi"%string, VZ 0)];
     fields := []; lists := []; events := []; inputs := [] |}.

(* "len(p) > 0 && p[len(p)-1] != '/'" *)
Definition no_trailing_slash (u : str) : bool :=
  (0 <? Z.of_nat (List.length u)) && negb (code_of (nth (Z.to_nat (Z.of_nat (List.length u) - 1)) u "000"%char) =? 47).

Theorem src_static_dir_handler_spec :
  let '(st', ret) := run ssym spred src_static_dir_handler_results src_static_dir_handler start in
  match unescape p with
  | None => events st' = [("url.PathUnescape"%string, [VS p])] /\ ret = [VZ 500]
  | Some q =>
      let name := route_name q in
      let seen := [("url.PathUnescape"%string, [VS p]); ("fs.Stat"%string, [VZ 0; VS name])] in
      match stat name with
      | None => events st' = seen /\ ret = [VZ 404]
      | Some isdir =>
          if isdir && no_trailing_slash urlpath
          then events st' = (seen ++ [("c.Redirect"%string, [VZ 301; VS (sanitize (urlpath ++ lit "/"))])])%list /\ ret = [VZ 301]
          else events st' = (seen ++ [("fsFile"%string, [VZ 0; VS name; VZ 0])])%list /\ ret = [VZ 200]
      end
  end.
Proof.
  unfold run, src_static_dir_handler, src_static_dir_handler_results, start, route_name, no_trailing_slash.
  sd_eval.
  destruct (unescape p) as [q|] eqn:Eu; sd_eval; [|split; reflexivity].
  destruct (stat (clean (trim_slash q))) as [isdir|] eqn:Es; sd_eval; [|split; reflexivity].
  destruct isdir; sd_eval;
    destruct (0 <? Z.of_nat (List.length urlpath)); sd_eval;
    try (destruct (code_of (nth (Z.to_nat (Z.of_nat (List.length urlpath) - 1)) urlpath "000"%char) =? 47); sd_eval);
    split; reflexivity.
Qed.

(* whatever the request: a redirect issued by this handler goes to the SANITISED path + "/" - never to a raw path *)
Corollary src_static_dir_redirects_sanitised :
  let '(st', _) := run ssym spred src_static_dir_handler_results src_static_dir_handler start in
  forall args, In ("c.Redirect"%string, args) (events st') -> args = [VZ 301; VS (sanitize (urlpath ++ lit "/"))].
Proof.
  pose proof src_static_dir_handler_spec as H.
  destruct (run ssym spred src_static_dir_handler_results src_static_dir_handler start) as [st' ret].
  intros args Hin.
  destruct (unescape p) as [q|].
  - cbv zeta in H. destruct (stat (route_name q)) as [isdir|].
    + destruct (isdir && no_trailing_slash urlpath); destruct H as [He _]; rewrite He in Hin; cbn in Hin;
        repeat (destruct Hin as [Hin|Hin]; [inversion Hin; subst; try reflexivity|]); try contradiction.
    + destruct H as [He _]. rewrite He in Hin. cbn in Hin.
      repeat (destruct Hin as [Hin|Hin]; [inversion Hin|]); contradiction.
  - destruct H as [He _]. rewrite He in Hin. cbn in Hin. destruct Hin as [Hin|Hin]; [inversion Hin|contradiction].
Qed.
End Src.

