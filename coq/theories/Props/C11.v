(* C11 — CORS grants access only to origins the configuration allows.  Statements only; proofs in
   Mw/CorsProofs.v.  [gm p o]: pattern p, with '*' = any run of characters and '?' = one character,
   matches the whole origin o.  [shaped s]: s is scheme://rest, i.e. its first ':' starts "://"
   (every syntactically valid origin; allow-list entries that contain a ':' must have this shape). *)
From Coq Require Import List Bool ZArith String.
Open Scope string_scope.
From Echo Require Import Base.Sx Mw.Cors Mw.CorsProofs.
Import ListNotations.
From Echo Require Import PropLemmas.C11.

(* Access-Control-Allow-Origin is emitted only for an allowed origin, and its value is "*" or the
   request's Origin verbatim *)
Theorem C11_only_allowed : forall c pre origin v,
  shaped origin -> Forall (fun p => before_colon p <> None -> shaped p) (origins c) ->
  acao (cors c pre origin) = Some v ->
  (v = [star] /\ In [star] (origins c)) \/
  (v = origin /\ exists p, In p (origins c) /\
      ((p = [star] /\ creds c = true /\ unsafe_wild c = true) \/ p = origin \/ gm p origin = true)).
Proof. exact C11_only_allowed_l. Qed.
Print Assumptions C11_only_allowed.

(* the sub-domain shortcut (util.go matchSubdomain) never accepts more than the pattern does *)
Theorem C11_subdomain_sound : forall d p, shaped d -> shaped p -> match_subdomain d p = true -> gm p d = true.
Proof. exact subdomain_sound. Qed.
Print Assumptions C11_subdomain_sound.

(* Allow-Credentials only with an allowed origin and only when enabled *)
Theorem C11_credentials : forall c pre origin, acac (cors c pre origin) = true ->
  creds c = true /\ exists v, acao (cors c pre origin) = Some v.
Proof. exact cors_credentials. Qed.
Print Assumptions C11_credentials.

(* a non-preflight request from a disallowed origin never reaches the handler *)
Theorem C11_disallowed_blocked : forall c origin, origin <> [] -> allow_origin c origin = None ->
  ran (cors c false origin) = false /\ forced (cors c false origin) = 401%Z.
Proof. exact cors_disallowed_blocked. Qed.
Print Assumptions C11_disallowed_blocked.

(* OPTIONS preflights: 204 without running the handler *)
Theorem C11_preflight : forall c origin, ran (cors c true origin) = false /\ forced (cors c true origin) = 204%Z.
Proof. exact cors_preflight. Qed.
Print Assumptions C11_preflight.

(* non-vacuity and the historic counterexample (a '*' label that is not the left-most one) *)
Example C11_example :
  match_subdomain (lit "https://evil.b.example.com") (lit "https://a.*.example.com") = false /\
  match_subdomain (lit "https://x.y.example.com") (lit "https://*.example.com") = true /\
  acao (cors {| origins := [lit "https://*.example.com"]; creds := true; unsafe_wild := false |} false
            (lit "https://x.example.com")) = Some (lit "https://x.example.com").
Proof. vm_compute. repeat split. Qed.

(* ---- tie to the source by proof: the request handler (innermost closure) of CORSWithConfig, translated statement by
   statement from middleware/cors.go on every run (Gen/Src_cors.v, language Base/GoLoop.v: strings, `for range` with `break`,
   pure predicates), decides exactly like the model [cors] the theorems above are about.  For every configuration c (allow
   list, AllowCredentials, the unsafe-wildcard switch; no AllowOriginFunc), every Origin value, preflight or not, and every
   value of the remaining constants of the closure: the Access-Control-Allow-Origin and -Credentials headers it sets, whether
   next is called, whether it answers 204 itself, and what it returns (200 = the result of next, 204, 401) are those of
   [cors c preflight origin].  matchSubdomain, len, strings.Contains and the compiled patterns are read as the model reads
   them ([cpred]: match_subdomain, the length, "contains ://", the anchored glob rm). *)
From Echo Require Import Base.GoLoop Gen.Src_cors Mw.CorsSrc.

Theorem C11_source_handler : forall c origin preflight hc am ah eh mas rh ma tam okf,
  let '(st', ret) := GoLoop.run (csym c origin preflight hc am ah eh mas rh ma) cpred src_cors_handler_results src_cors_handler (start c tam okf) in
  let o := cors c preflight origin in
  sets "echo.HeaderAccessControlAllowOrigin" st' =
    match acao o with Some v => [[VS (lit "echo.HeaderAccessControlAllowOrigin"); VS v]] | None => [] end /\
  sets "echo.HeaderAccessControlAllowCredentials" st' =
    (if acac o then [[VS (lit "echo.HeaderAccessControlAllowCredentials"); VS (lit "true")]] else []) /\
  called "next" st' = ran o /\
  called "c.NoContent" st' = (forced o =? 204)%Z /\
  ret = [VZ (if ran o then 200 else forced o)%Z].
Proof. exact src_cors_handler_spec. Qed.
Print Assumptions C11_source_handler.
