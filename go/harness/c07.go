package main

import (
	glog "github.com/labstack/gommon/log"
	"context"
	"encoding/json"
	"errors"
	"fmt"
	"io"
	"math/rand"
	"net/http"
	"net/http/httptest"
	"strings"
	"time"

	"github.com/labstack/echo/v4"
	"github.com/labstack/echo/v4/middleware"
)

func init() {
	props["C07"] = &propRunner{gen: genC07, rule: "error trees (plain, fmt %w wrapped, HTTPError with string / error / JSON-serialisable message, HTTPError carrying HTTPError or plain error, two levels deep, codes 200-599) returned by a handler or middleware, or raised as panic values (error, string, struct, wrapped ErrAbortHandler) behind Recover, before / after the response is committed x GET/HEAD/POST x Debug on/off; each followed by a second request on the same instance; non-trivial = HTTPError with an internal error, or a panic, or an error after commit; distinct by full input"}
}

type c07Writer struct {
	*httptest.ResponseRecorder
	hdrWrites int
}

func (w *c07Writer) WriteHeader(c int) {
	w.ResponseRecorder.WriteHeader(c) // net/http panics on an invalid code before anything is written
	w.hdrWrites++
}

// ReadFrom: net/http's response writer offers it (sendfile); whoever copies through it writes to the same recorder
func (w *c07Writer) ReadFrom(r io.Reader) (int64, error) {
	return io.Copy(struct{ io.Writer }{w}, r)
}
func (w *c07Writer) Write(b []byte) (int, error) {
	if w.hdrWrites == 0 {
		w.hdrWrites++ // implicit 200
	}
	return w.ResponseRecorder.Write(b)
}

type c07Struct struct {
	Field string `json:"field"`
	N     int    `json:"n"`
}

func genC07(rng *rand.Rand, n int, emit func(Case), dist map[string]int) {
	codes := []int{400, 401, 403, 404, 409, 418, 422, 500, 502, 503, 200, 201, 299, 599}
	marker := func() string { return fmt.Sprintf("SECRET-%06d", rng.Intn(1000000)) }
	var markers []string
	var genErr func(depth int) (error, Sx)
	genMsg := func() (interface{}, Sx) {
		switch rng.Intn(5) {
		case 4:
			// a message that formats itself (json.Marshaler) - and is an error as well: it must go out as its own JSON
			v := c07SelfJSON{Detail: fmt.Sprintf("self%d", rng.Intn(100))}
			b, _ := json.Marshal(v)
			canon := map[string]interface{}{}
			json.Unmarshal(b, &canon)
			b, _ = json.Marshal(canon)
			return v, L(I(2), S(string(b)))
		case 0:
			m := fmt.Sprintf("public message %d", rng.Intn(100))
			return m, L(I(0), S(m))
		case 1:
			m := fmt.Sprintf("error-typed message %d", rng.Intn(100))
			return errors.New(m), L(I(1), S(m))
		case 2:
			v := c07Struct{Field: fmt.Sprintf("f%d", rng.Intn(100)), N: rng.Intn(10)}
			b, _ := json.Marshal(v)
			return v, L(I(2), S(string(b)))
		}
		v := map[string]interface{}{"detail": fmt.Sprintf("d%d", rng.Intn(100))}
		b, _ := json.Marshal(v)
		return v, L(I(2), S(string(b)))
	}
	insideShared := false
	useCT := false
	genErr = func(depth int) (error, Sx) {
		k := rng.Intn(6)
		if depth >= 3 {
			k = 0
		}
		switch k {
		case 0:
			if rng.Intn(8) == 0 {
				// the bare sentinel of a context the HANDLER cancelled: the client is still there and gets the generic 500
				return context.Canceled, L(I(0), S(context.Canceled.Error()))
			}
			if rng.Intn(8) == 0 {
				// ... or of a deadline the handler's own downstream call ran into
				return context.DeadlineExceeded, L(I(0), S(context.DeadlineExceeded.Error()))
			}
			t := "plain " + marker()
			markers = append(markers, t)
			return errors.New(t), L(I(0), S(t))
		case 1:
			in, isx := genErr(depth + 1)
			t := "wrapped " + marker()
			markers = append(markers, t)
			return fmt.Errorf(t+": %w", in), L(I(1), S(t), isx)
		case 5:
			if !insideShared && rng.Intn(2) == 0 {
				// one of the package's shared error values, bare or with an internal error attached through WithInternal
				// (which must hand out a copy: the shared value itself stays as it is for every later request)
				pool := []*echo.HTTPError{echo.ErrTeapot, echo.ErrForbidden, echo.ErrUnsupportedMediaType, echo.ErrServiceUnavailable}
				if useCT {
					pool = pool[:3] // (behind ContextTimeout the shared 503 value is what that middleware itself builds on)
				}
				g := pool[rng.Intn(len(pool))]
				msx := L(I(0), S(http.StatusText(g.Code)))
				if rng.Intn(2) == 0 {
					return g, L(I(2), I(g.Code), msx, L())
				}
				insideShared = true // (no shared value inside a shared value: a faulty WithInternal could otherwise build a cycle)
				in, isx := genErr(depth + 1)
				insideShared = false
				return g.WithInternal(in), L(I(2), I(g.Code), msx, L(isx))
			}
			fallthrough
		default:
			code := codes[rng.Intn(len(codes))]
			m, msx := genMsg()
			he := echo.NewHTTPError(code, m)
			if rng.Intn(5) == 0 {
				he = echo.NewHTTPError(code) // message defaults to the status text
				msx = L(I(0), S(http.StatusText(code)))
			}
			internal := L()
			if rng.Intn(2) == 0 {
				in, isx := genErr(depth + 1)
				he = he.SetInternal(in)
				internal = L(isx)
			}
			return he, L(I(2), I(code), msx, internal)
		}
	}
	for it := 0; it < n; it++ {
		markers = nil
		e := echo.New()
		e.Logger.SetOutput(io.Discard)
		e.Debug = rng.Intn(4) == 0
		if !e.Debug && rng.Intn(4) == 0 {
			// a verbose LOGGER is not debug mode: what clients are told depends on Echo.Debug alone
			e.Logger.SetLevel(glog.DEBUG)
			dist["debug_off_logger_level_debug"]++
		}
		switch rng.Intn(4) {
		case 0:
			e.Use(middleware.Recover()) // defaults: prints the stack through the (discarded) logger
		case 1:
			e.Use(middleware.RecoverWithConfig(middleware.RecoverConfig{StackSize: 1 << 10, DisableStackAll: true,
				LogErrorFunc: func(c echo.Context, err error, stack []byte) error { return err }}))
		default:
			e.Use(middleware.RecoverWithConfig(middleware.RecoverConfig{DisablePrintStack: true}))
		}
		useCT = rng.Intn(5) == 0
		errv, esx := genErr(0)
		esx0 := esx
		errText := errv.Error()
		commitBefore := 0
		commitStyle := 0 // 0: a response helper with a body, 1: Flush alone (commits 200, e.g. an SSE set-up), 2: WriteHeader then Flush, 3: io.Copy into the Response (a streamed payload, implicit 200; the writer below offers ReadFrom like net/http's)
		if rng.Intn(4) == 0 {
			commitBefore = []int{200, 201, 404}[rng.Intn(3)]
			commitStyle = rng.Intn(4)
			if commitStyle == 1 || commitStyle == 3 {
				commitBefore = 200
			}
		}
		mode := rng.Intn(5) // 0,1,2: returned by handler; 3: panic(error); 4: panic(non-error) ; middleware-returned folded into 0-2
		panicText := ""
		var panicVal interface{}
		switch mode {
		case 3:
			panicVal = errv
			if rng.Intn(5) == 0 {
				t := "aborting " + marker()
				markers = append(markers, t)
				panicVal = fmt.Errorf(t+": %w", http.ErrAbortHandler)
				esx = L(I(1), S(t), L(I(0), S(http.ErrAbortHandler.Error())))
				errText = panicVal.(error).Error()
			}
		case 4:
			if rng.Intn(2) == 0 {
				panicText = "panic string " + marker()
				panicVal = panicText
			} else {
				v := c07Struct{Field: marker(), N: 3}
				panicVal = v
				panicText = fmt.Sprintf("%v", v)
			}
			markers = append(markers, panicText)
			esx = L(I(0), S(panicText))
			errText = panicText
		}
		invalidStatus, invalidSet := 0, false
		if mode >= 3 && rng.Intn(6) == 0 {
			// the handler passes an invalid status to a response helper: net/http panics inside WriteHeader
			invalidStatus = []int{0, 1000, 99}[rng.Intn(3)]
			invalidSet = true
			panicText = fmt.Sprintf("invalid WriteHeader code %d", invalidStatus)
			panicVal = nil
			esx = L(I(0), S(panicText))
			errText = panicText
			commitBefore = 0
			mode = 4
		}
		retErr := errv // what the handler (or the route-level middleware) returns
		viaMiddleware := mode <= 2 && rng.Intn(3) == 0
		realDeadline := useCT && mode <= 2 && commitBefore == 0 && rng.Intn(3) == 0
		if realDeadline {
			// the deadline REALLY passes (2 ms): the handler waits for its context and returns the context's error
			errv, esx = context.DeadlineExceeded, L(I(0), S(context.DeadlineExceeded.Error()))
			retErr, viaMiddleware = errv, false
			e.Use(middleware.ContextTimeout(2 * time.Millisecond))
			dist["context_timeout_really_expired"]++
		}
		if useCT {
			// the ContextTimeout middleware (generous limit): an error that stems from an exceeded deadline is answered as
			// 503 Service Unavailable carrying the original error as internal error - a COPY of the package's shared value
			if !realDeadline {
				e.Use(middleware.ContextTimeout(20 * time.Second))
			}
			dist["behind_context_timeout_middleware"]++
			if mode <= 2 && errors.Is(errv, context.DeadlineExceeded) {
				esx = L(I(2), I(503), L(I(0), S(http.StatusText(503))), L(esx))
				esx0 = esx
				errText = (&echo.HTTPError{Code: 503, Message: http.StatusText(503), Internal: errv}).Error()
				errv = &echo.HTTPError{Code: 503, Message: http.StatusText(503), Internal: errv} // (for the reference below; the handler returns the original)
				dist["deadline_errors_wrapped_by_context_timeout"]++
			}
		}
		h := func(c echo.Context) error {
			if commitBefore != 0 {
				switch commitStyle {
				case 0:
					c.String(commitBefore, "partial")
				case 1:
					c.Response().Flush()
				case 3:
					io.Copy(c.Response(), io.LimitReader(strings.NewReader("partial and more"), 7))
				default:
					c.Response().WriteHeader(commitBefore)
					c.Response().Flush()
				}
			}
			if invalidSet {
				return c.String(invalidStatus, "never sent")
			}
			if panicVal != nil {
				panic(panicVal)
			}
			if viaMiddleware {
				return nil
			}
			if realDeadline {
				<-c.Request().Context().Done()
				return c.Request().Context().Err()
			}
			return retErr
		}
		var mws []echo.MiddlewareFunc
		if viaMiddleware {
			mws = append(mws, func(next echo.HandlerFunc) echo.HandlerFunc {
				return func(c echo.Context) error {
					if err := next(c); err != nil {
						return err
					}
					return retErr
				}
			})
		}
		if rng.Intn(5) == 0 && commitBefore == 0 && !realDeadline { // (http.TimeoutHandler answers an expired request context by itself)
			// the Timeout middleware (generous limit, never fires) between Recover and the handler: it serves the handler
			// through a buffering writer of net/http, which must not swallow the error response.
			// (Only for errors raised before anything was written: what a handler wrote earlier sits in the buffer of
			// http.TimeoutHandler, which drops it when the handler fails - the documented behaviour of that buffer, and
			// not something the error handler does.)
			e.Use(middleware.TimeoutWithConfig(middleware.TimeoutConfig{Timeout: 20 * time.Second}))
			dist["behind_timeout_middleware"]++
		}
		e.Any("/fail", h, mws...)
		e.GET("/ok", func(c echo.Context) error { return c.String(200, "fine") })
		method := []string{"GET", "HEAD", "POST"}[rng.Intn(3)]
		w := &c07Writer{ResponseRecorder: httptest.NewRecorder()}
		escaped := false
		func() {
			defer func() {
				if r := recover(); r != nil {
					escaped = true
				}
			}()
			// the query string is the client's: `pretty` only asks for indented JSON, whatever value it is given
			target := "/fail" + []string{"", "", "", "?pretty", "?pretty=-1", "?pretty=true", "?a=1&pretty=0", "?pretty=-99999999999999999999&x=%zz", "?debug=1&verbose=true", "?pretty=9"}[rng.Intn(10)]
			if strings.Contains(target, "pretty") {
				dist["error_requests_asking_for_pretty_json"]++
			}
			e.ServeHTTP(w, httptest.NewRequest(method, target, nil))
		}()
		// second request on the same instance
		w2 := httptest.NewRecorder()
		served2 := false
		func() {
			defer func() { recover() }()
			e.ServeHTTP(w2, httptest.NewRequest("GET", "/ok", nil))
			served2 = w2.Code == 200 && w2.Body.String() == "fine"
		}()
		body := w.Body.String()
		if commitBefore != 0 {
			body = strings.TrimPrefix(body, "partial")
		}
		// observed body -> structure
		bodySx := L(I(-1))
		var obj map[string]interface{}
		isObj := false
		if commitBefore == 0 {
			switch {
			case strings.TrimSpace(body) == "":
				bodySx = L(I(0))
			default:
				if json.Unmarshal([]byte(body), &obj) == nil {
					isObj = true
					msg, hasMsg := obj["message"].(string)
					if hasMsg && len(obj) <= 2 && (len(obj) == 1 || obj["error"] != nil) {
						errF := L()
						if es, okE := obj["error"].(string); okE {
							errF = L(S(es))
						}
						bodySx = L(I(1), S(msg), errF)
					} else {
						b, _ := json.Marshal(obj)
						var canon interface{}
						json.Unmarshal([]byte(body), &canon)
						b, _ = json.Marshal(canon)
						bodySx = L(I(2), S(string(b)))
					}
				} else {
					bodySx = L(I(3), S(body))
				}
			}
		}
		// ---- the property on the implementation alone
		ok, why := true, ""
		// reference: effective code
		wantCode := 500
		if he, isHE := errv.(*echo.HTTPError); isHE && panicVal == nil && !invalidSet || (mode == 3 && panicVal == error(errv)) && func() bool { _, x := errv.(*echo.HTTPError); return x }() {
			_ = he
			// from the DESCRIPTION of the error as it was built (not from the live object: shared package-level error values
			// must not have been changed by earlier requests)
			wantCode = c07DescCode(esx0)
		}
		switch {
		case escaped:
			ok, why = false, "the panic / error escaped ServeHTTP: the client gets no response"
		case w.hdrWrites != 1 && !(commitStyle == 1 && commitBefore != 0 && w.hdrWrites == 0):
			// (with a bare Flush the recorder commits by itself when echo did not write a status line: judged by the next clause)
			ok, why = false, fmt.Sprintf("%d status lines written for one request", w.hdrWrites)
		case commitBefore != 0 && (w.Code != commitBefore || body != ""):
			ok, why = false, fmt.Sprintf("response was already committed with %d, but the error handler changed it: status %d extra body %q", commitBefore, w.Code, body)
		case commitBefore == 0 && w.Code != wantCode:
			ok, why = false, fmt.Sprintf("status %d, but the error denotes %d", w.Code, wantCode)
		case commitBefore == 0 && method == "HEAD" && body != "":
			ok, why = false, "HEAD response has a body"
		case commitBefore == 0 && method != "HEAD" && !isObj:
			ok, why = false, fmt.Sprintf("body is not a JSON document: %q", body)
		case !served2:
			ok, why = false, "the instance did not serve the next request"
		}
		if ok && !e.Debug {
			for _, mk := range markers {
				if strings.Contains(w.Body.String(), mk) {
					ok, why = false, fmt.Sprintf("internal error text %q leaked into the body %q", mk, w.Body.String())
				}
			}
		}
		// err.Error() as the error was BUILT (the live object may be a shared package-level value that an earlier request changed)
		if t, okT := c07DescText(esx); okT && panicVal == nil && !invalidSet {
			errText = t
		}
		in := L(B(e.Debug), B(method == "HEAD"), I(commitBefore), esx, S(errText))
		status := w.Code
		if w.hdrWrites == 0 {
			status = -1
		}
		cs := Case{In: in, Out: L(I(status), I(w.hdrWrites), bodySx), Ok: ok, Why: why,
			Human: fmt.Sprintf("debug=%v %s committed-before=%d mode=%d via-middleware=%v error=%q -> status=%d header-writes=%d body=%q", e.Debug, method, commitBefore, mode, viaMiddleware, errText, w.Code, w.hdrWrites, w.Body.String())}
		if strings.Contains(Show(esx), "(2 ") && strings.Contains(Show(esx), "((") || mode >= 3 || commitBefore != 0 {
			cs.Key = Show(in)
		}
		dist[fmt.Sprintf("mode_%d", mode)]++
		dist["method_"+method]++
		if commitBefore != 0 {
			dist["after_commit"]++
		}
		emit(cs)
	}
}

// c07SelfJSON is an HTTPError message that is a json.Marshaler and an error at the same time.
type c07SelfJSON struct{ Detail string }

func (m c07SelfJSON) MarshalJSON() ([]byte, error) {
	return json.Marshal(map[string]string{"self_formatted": m.Detail})
}
func (m c07SelfJSON) Error() string { return "error text of a self-formatting message: " + m.Detail }

// c07DescCode: the status an error description denotes - an HTTP error's code, or that of the HTTP error it directly carries.
func c07DescCode(d Sx) int {
	l, isList := d.(sxList)
	if !isList || len(l.l) < 4 {
		return 500
	}
	if k, isInt := l.l[0].(sxInt); !isInt || k.v.Int64() != 2 {
		return 500
	}
	code := int(l.l[1].(sxInt).v.Int64())
	if in, has := l.l[3].(sxList); has && len(in.l) == 1 {
		if il, isL := in.l[0].(sxList); isL && len(il.l) >= 2 {
			if k, isInt := il.l[0].(sxInt); isInt && k.v.Int64() == 2 {
				return int(il.l[1].(sxInt).v.Int64())
			}
		}
	}
	return code
}

// c07DescText: err.Error() as the DESCRIPTION of the error says it reads (plain text; "t: inner" for %w; HTTPError's
// "code=.., message=..[, internal=..]"), for descriptions whose messages are strings or errors; ok=false otherwise.
func c07DescText(d Sx) (string, bool) {
	l, isList := d.(sxList)
	if !isList || len(l.l) < 2 {
		return "", false
	}
	k, isInt := l.l[0].(sxInt)
	if !isInt {
		return "", false
	}
	switch k.v.Int64() {
	case 0:
		return l.l[1].(sxStr).s, true
	case 1:
		in, ok := c07DescText(l.l[2])
		return l.l[1].(sxStr).s + ": " + in, ok
	case 2:
		m, isL := l.l[2].(sxList)
		if !isL || len(m.l) < 2 {
			return "", false
		}
		if mk := m.l[0].(sxInt).v.Int64(); mk != 0 && mk != 1 {
			return "", false
		}
		t := fmt.Sprintf("code=%d, message=%s", l.l[1].(sxInt).v.Int64(), m.l[1].(sxStr).s)
		if in, has := l.l[3].(sxList); has && len(in.l) == 1 {
			it, ok := c07DescText(in.l[0])
			return t + ", internal=" + it, ok
		}
		return t, true
	}
	return "", false
}
