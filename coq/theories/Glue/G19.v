From Coq Require Import List ZArith Bool.
From Echo Require Import Base.Sx Mw.Proxy.
Import ListNotations.
(* input: (retry_count (name ...) (op ...)); op: (0 name) AddTarget, (1 name) RemoveTarget, (2 (dead-name ...)) request
   output: per op (result) | ((attempted-name ...) ok) *)
Definition names_of (s : st str) (is : list nat) : list sx :=
  map (fun i => match nth_error (targets str s) i with Some t => SS t | None => SZ (-1) end) is.
Fixpoint go (r : nat) (s : st str) (ops : list sx) : list sx :=
  match ops with
  | [] => []
  | o :: rest =>
    match as_Z (nth_sx 0 o) with
    | 0%Z => let '(s', b) := add str str_eqb s (as_str (nth_sx 1 o)) in SL [of_bool b] :: go r s' rest
    | 1%Z => let '(s', b) := remove str str_eqb s (as_str (nth_sx 1 o)) in SL [of_bool b] :: go r s' rest
    | _ => let dead := map as_str (as_list (nth_sx 1 o)) in
           let alive := fun t => negb (existsb (str_eqb t) dead) in
           let '(s', is, ok) := request str r s alive in
           SL [SL (names_of s' is); of_bool ok] :: go r s' rest
    end
  end.
Definition run_sx (x : sx) : sx :=
  let r := Z.to_nat (as_Z (nth_sx 0 x)) in
  let s := {| targets := map as_str (as_list (nth_sx 1 x)); idx := 0 |} in
  SL (go r s (as_list (nth_sx 2 x))).
