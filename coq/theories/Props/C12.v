(* C12 — CSRF: unsafe requests pass only with a token equal to the cookie's.
   Statements only; proofs in Mw/CsrfProofs.v.  [ls] = the configured lookups with the request data
   found there; [cookie] = the CSRF cookie's value if the request carries it; [fresh] = the token
   randomString generated for this request (used only when there is no cookie). *)
From Coq Require Import List Bool Ascii String NArith.
From Echo Require Import Base.Sx Mw.Auth Mw.AuthProofs Mw.Csrf Mw.CsrfProofs.
Import ListNotations.

(* the methods exempt from the check are exactly GET, HEAD, OPTIONS, TRACE (case-sensitive) *)
Theorem C12_safe_methods : forall m, is_safe m = true <->
  m = lit "GET" \/ m = lit "HEAD" \/ m = lit "OPTIONS" \/ m = lit "TRACE".
Proof. exact is_safe_spec. Qed.
Print Assumptions C12_safe_methods.

Theorem C12_unsafe_needs_match : forall method cookie fresh ls t, ls <> [] -> is_safe method = false ->
  csrf method cookie fresh ls = Pass t ->
  t = the_token cookie fresh /\
  exists l toks, In l ls /\ extract l = inl toks /\ In t toks /\ present l t.
Proof. exact unsafe_needs_match. Qed.
Print Assumptions C12_unsafe_needs_match.

Theorem C12_reject_4xx : forall method cookie fresh ls, ls <> [] -> is_safe method = false ->
  (forall l toks, In l ls -> extract l = inl toks -> ~ In (the_token cookie fresh) toks) ->
  csrf method cookie fresh ls = Reject 403 \/ csrf method cookie fresh ls = Reject 400.
Proof. exact unsafe_rejected_4xx. Qed.
Print Assumptions C12_reject_4xx.

Theorem C12_safe_pass : forall method cookie fresh ls, is_safe method = true ->
  csrf method cookie fresh ls = Pass (the_token cookie fresh).
Proof. exact safe_pass. Qed.
Print Assumptions C12_safe_pass.

(* every passed request publishes ONE token: Set-Cookie value = context value = the cookie's token
   if it came with one, else the fresh one *)
Theorem C12_publish : forall method cookie fresh ls t, csrf method cookie fresh ls = Pass t ->
  published (csrf method cookie fresh ls) = Some (t, t) /\ t = the_token cookie fresh.
Proof. exact publish. Qed.
Print Assumptions C12_publish.

(* fresh tokens: for EVERY byte stream, at most n characters, exactly n when the stream holds n
   accepted bytes, ASCII letters only *)
Theorem C12_token_shape : forall n stream, Forall (fun b => (b < 256)%N) stream ->
  List.length (random_string n stream) <= n /\
  (n <= List.length (filter accept stream) -> List.length (random_string n stream) = n) /\
  forallb is_letter (random_string n stream) = true.
Proof. exact token_shape. Qed.
Print Assumptions C12_token_shape.

Theorem C12_unbiased : forallb (fun c => Nat.eqb (count_for c) 4) charset = true /\ List.length charset = 52 /\ NoDup charset.
Proof. exact unbiased. Qed.
Print Assumptions C12_unbiased.

(* ---- the comparison itself, from the statement-level translation of validateCSRFToken (Gen/Src_csrfcmp.v, re-translated
   from middleware/csrf.go on every run): for every pair of byte strings the answer is whether they are equal - whole strings,
   any length *)
From Coq Require Import ZArith.
From Echo Require Import Base.GoLoop Gen.Src_csrfcmp Mw.CsrfSrc.
Theorem C12_source_validate_token : forall token client,
  snd (GoLoop.run csym cpred src_validate_csrf_token_results src_validate_csrf_token (CsrfSrc.start token client)) = [b2v (str_eqb token client)].
Proof. exact CsrfSrc.C12_source_validate_token. Qed.
Print Assumptions C12_source_validate_token.
