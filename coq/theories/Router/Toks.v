From Coq Require Import List Arith Bool Ascii String Lia Permutation.
Import ListNotations.
From Echo.Router Require Import Spec2 Fuel Refine Insert InsProof Walk Live.
Open Scope char_scope.

(* ---------- token lists produced by the pattern parser ---------- *)
Definition slash : ascii := "/".

Fixpoint ok_toks (prev_lit : bool) (ts : list tok) : bool :=
  match ts with
  | [] => true
  | TLit c :: r => negb (special c) && ok_toks true r
  | TParam :: r => prev_lit && ok_toks false r
  | TAny :: r => prev_lit && match r with [] => true | _ => false end
  end.

Definition wf_toks (ts : list tok) : Prop :=
  exists r, ts = TLit slash :: r /\ ok_toks false ts = true.

Definition lit_tok (t : tok) : bool := match t with TLit c => negb (special c) | _ => false end.
Definition lits (ts : list tok) : Prop := Forall (fun t => lit_tok t = true) ts.

Lemma enc_app a b : enc (a ++ b) = enc a ++ enc b. Proof. apply map_app. Qed.
Lemma enc_length ts : List.length (enc ts) = List.length ts. Proof. apply map_length. Qed.

Lemma enc_lits l : lits l -> cleanstr (enc l).
Proof. induction 1 as [|t l Ht _ IH]; [constructor|]. simpl. constructor; auto.
  destruct t; simpl in *; try discriminate. apply negb_true_iff in Ht. exact Ht. Qed.

Definition tok_ok (t : tok) : bool := match t with TLit c => negb (special c) | _ => true end.
Lemma dec_enc ts : Forall (fun t => tok_ok t = true) ts -> dec (enc ts) = ts.
Proof. induction 1 as [|t l Ht _ IH]; [reflexivity|]. simpl. rewrite IH. f_equal.
  destruct t; simpl in *; try reflexivity. apply negb_true_iff in Ht. unfold dec_tok, special in *.
  apply orb_false_iff in Ht. destruct Ht as [-> ->]. reflexivity. Qed.

Lemma ok_toks_all p ts : ok_toks p ts = true -> Forall (fun t => tok_ok t = true) ts.
Proof. revert p. induction ts as [|t ts IH]; intros p H; [constructor|]. destruct t; simpl in H.
  - apply andb_true_iff in H. destruct H. constructor; eauto.
  - apply andb_true_iff in H. destruct H. constructor; eauto.
  - apply andb_true_iff in H. destruct H as [_ H]. destruct ts; [|discriminate]. constructor; auto. Qed.

Lemma forall_app_ok a b : Forall (fun t => tok_ok t = true) (a ++ b) -> Forall (fun t => tok_ok t = true) a.
Proof. intros H. apply Forall_app in H. tauto. Qed.

(* ---------- first insertion into the empty root ---------- *)
Lemma insert_root f s pl : s <> [] ->
  insert_node (S f) empty_root s KS pl = add_payload (leaf_node KS s) pl.
Proof. intros Hs. rewrite insert_node_S. cbn [n_pfx empty_root]. 
  assert (E : lcp s [] = 0) by (destruct s; reflexivity). rewrite E. cbn [Nat.eqb].
  destruct pl; reflexivity. Qed.

(* ---------- idempotent re-insertion of the same payload ---------- *)
Lemma set_ms_idem m rm ms : set_ms m rm (set_ms m rm ms) = set_ms m rm ms.
Proof. induction ms as [|[k v] ms IH]; simpl.
  - unfold str_eqb. destruct (str_dec m m); [reflexivity|congruence].
  - destruct (str_eqb k m) eqn:E; simpl; rewrite E; [reflexivity|]. rewrite IH. reflexivity. Qed.

Lemma add_payload_idem n pl : add_payload (add_payload n pl) pl = add_payload n pl.
Proof. destruct pl as [[m rm]|]; [|reflexivity]. destruct n as [k pfx ms nf st pc ac]. cbn [add_payload].
  destruct (str_eqb m NF) eqn:E; cbn [add_payload]; [reflexivity|].
  rewrite set_ms_idem. reflexivity. Qed.

Lemma upd_first_at (p : node -> bool) g l1 x l2 :
  Forall (fun y => p y = false) l1 -> p x = true -> upd_first p g (l1 ++ x :: l2) = l1 ++ g x :: l2.
Proof. induction 1 as [|y l1 Hy _ IH]; simpl; intros Hx; [rewrite Hx; reflexivity|]. rewrite Hy, IH; auto. Qed.

Lemma set_st_set_st l l' n : set_st l (set_st l' n) = set_st l n. Proof. destruct n; reflexivity. Qed.
Lemma set_pc_set_pc o o' n : set_pc o (set_pc o' n) = set_pc o n. Proof. destruct n; reflexivity. Qed.
Lemma set_ac_set_ac o o' n : set_ac o (set_ac o' n) = set_ac o n. Proof. destruct n; reflexivity. Qed.

Lemma insert_leaf_idem f t t' s pl : s <> [] ->
  insert_node (S f) (add_payload (leaf_node t s) pl) s t' pl = add_payload (leaf_node t s) pl.
Proof. intros Hs. rewrite ins_eq_here.
  - apply add_payload_idem.
  - rewrite n_pfx_add_payload. cbn [n_pfx leaf_node]. rewrite lcp_refl. destruct s; simpl; [congruence|lia].
  - rewrite n_pfx_add_payload. cbn [n_pfx leaf_node]. apply lcp_refl.
  - rewrite n_pfx_add_payload. cbn [n_pfx leaf_node]. apply lcp_refl. Qed.

Theorem insert_idem : forall n s t, InsOK n s t -> forall f f' t' pl, List.length s < f -> List.length s < f' -> WF0 n ->
  insert_node f' (insert_node f n s t pl) s t' pl = insert_node f n s t pl.
Proof.
  induction 1 as [n s t H1 H2 H3 Ht Hk | n s t H1 H2 H3 Ht Hk Hc
                 | n s t c rest ch H1 H2 Hs Hf Hok IH
                 | n s t rest ch H1 H2 Hs Hex Hpc Hok IH
                 | n s t rest ch H1 H2 Hs Hex Hac Hok IH
                 | n s t c rest H1 H2 Hs Hex Hpc Hac Hnew Hka
                 | n s t H1 H2 H3];
    intros f f' t' pl Hfuel Hfuel' Hwf; (destruct f as [|f]; [lia|]); (destruct f' as [|f']; [lia|]).
  - rewrite (ins_eq_split_here f n s t pl) by assumption.
    assert (E : firstn (lcp s (n_pfx n)) (n_pfx n) = s) by (rewrite <- lcp_firstn, H3; apply firstn_all).
    assert (Hs0 : 0 < List.length s) by lia.
    rewrite ins_eq_here; [apply add_payload_idem| | | ]; rewrite n_pfx_add_payload; cbn [n_pfx set_kind split_node]; rewrite E, lcp_refl; auto.
  - rewrite (ins_eq_split_new f n s t pl) by assumption.
    destruct (skipn (lcp s (n_pfx n)) s) as [|c rest] eqn:Es.
    { exfalso. assert (List.length (skipn (lcp s (n_pfx n)) s) = 0) by (rewrite Es; reflexivity). rewrite skipn_length in H. lia. }
    set (child := set_pfx (skipn (lcp s (n_pfx n)) (n_pfx n)) n).
    set (nn := add_payload (leaf_node t (c :: rest)) pl).
    assert (Hlab : has_label c nn = true) by (apply has_label_of_label; apply label_newleaf).
    assert (Hch : has_label c child = false).
    { unfold has_label, label, child. assert (Epf : forall p, n_pfx (set_pfx p n) = p) by (intros; destruct n; reflexivity). rewrite Epf.
      destruct (skipn (lcp s (n_pfx n)) (n_pfx n)) as [|d rr] eqn:Ep; [reflexivity|].
      assert (c <> d) by (eapply lcp_next; eauto). simpl. apply Ascii.eqb_neq. congruence. }
    rewrite (ins_eq_desc f' _ s t' pl c rest).
    + rewrite n_st_set_st. cbn [existsb]. rewrite Hch, Hlab. cbn [orb].
      rewrite (upd_first_at (has_label c) _ [child] nn []) by (auto; constructor; auto).
      destruct f' as [|f']; [simpl in Hfuel'; pose proof (skipn_cons_len _ _ _ _ Es); lia|].
      unfold nn at 1. rewrite insert_leaf_idem by discriminate. fold nn. rewrite set_st_set_st. reflexivity.
    + rewrite n_pfx_set_st. cbn [n_pfx split_node]. rewrite lcp_firstn_self. exact H1.
    + rewrite n_pfx_set_st. cbn [n_pfx split_node]. rewrite lcp_firstn_self, firstn_length_lcp. reflexivity.
    + rewrite n_pfx_set_st. cbn [n_pfx split_node]. rewrite lcp_firstn_self. exact Es.
  - rewrite (ins_eq_desc f n s t pl c rest) by assumption. rewrite (find_existsb _ _ _ Hf).
    destruct (upd_first_split (has_label c) (fun x => insert_node f x (c :: rest) t pl) (n_st n) ch Hf) as [l1 [l2 [Hst [Hl1 Hupd]]]].
    rewrite Hupd.
    assert (Hin : In ch (n_st n)) by (rewrite Hst; apply in_or_app; right; left; reflexivity).
    destruct (WF0_child_st n ch Hwf Hin) as [Hwch _].
    destruct (find_some _ _ Hf) as [_ Hlab]. destruct (has_label_pfx c ch Hlab) as [rr Er].
    assert (Hlen : List.length (c :: rest) = List.length s - lcp s (n_pfx n)) by (rewrite <- Hs, skipn_length; reflexivity).
    pose proof (skipn_cons_len _ _ _ _ Hs) as Hsl.
    assert (Hlab' : has_label c (insert_node f ch (c :: rest) t pl) = true).
    { apply has_label_of_label. rewrite label_insert; [apply label_of_has_label; exact Hlab|]. rewrite Er. apply lcp_cons_pos. }
    rewrite (ins_eq_desc f' _ s t' pl c rest); rewrite ?n_pfx_set_st; auto.
    rewrite n_st_set_st, (existsb_app_r _ _ _ _ Hlab'), (upd_first_at _ _ _ _ _ Hl1 Hlab').
    rewrite (IH f f' t' pl) by (auto; lia). rewrite set_st_set_st. reflexivity.
  - rewrite (ins_eq_desc f n s t pl colon rest) by assumption. rewrite Hex, Ascii.eqb_refl, Hpc.
    destruct (WF0_child_pc n ch Hwf Hpc) as [Hwch _].
    assert (Hlen : List.length (colon :: rest) = List.length s - lcp s (n_pfx n)) by (rewrite <- Hs, skipn_length; reflexivity).
    pose proof (skipn_cons_len _ _ _ _ Hs) as Hsl.
    rewrite (ins_eq_desc f' _ s t' pl colon rest); rewrite ?n_pfx_set_pc; auto.
    rewrite n_st_set_pc, Hex, Ascii.eqb_refl, n_pc_set_pc.
    rewrite (IH f f' t' pl) by (auto; lia). rewrite set_pc_set_pc. reflexivity.
  - rewrite (ins_eq_desc f n s t pl star rest) by assumption. rewrite Hex.
    assert (Ecs : Ascii.eqb star colon = false) by reflexivity. rewrite Ecs, Ascii.eqb_refl, Hac.
    destruct (WF0_child_ac n ch Hwf Hac) as [Hwch _].
    assert (Hlen : List.length (star :: rest) = List.length s - lcp s (n_pfx n)) by (rewrite <- Hs, skipn_length; reflexivity).
    pose proof (skipn_cons_len _ _ _ _ Hs) as Hsl.
    rewrite (ins_eq_desc f' _ s t' pl star rest); rewrite ?n_pfx_set_ac; auto.
    rewrite n_st_set_ac, Hex, Ecs, Ascii.eqb_refl, n_ac_set_ac.
    rewrite (IH f f' t' pl) by (auto; lia). rewrite set_ac_set_ac. reflexivity.
  - rewrite (ins_eq_desc f n s t pl c rest) by assumption. rewrite Hex.
    assert (Enone : (if Ascii.eqb c colon then n_pc n else if Ascii.eqb c star then n_ac n else None) = None).
    { destruct (Ascii.eqb c colon) eqn:Ec; [apply Ascii.eqb_eq in Ec; auto|].
      destruct (Ascii.eqb c star) eqn:Ea; [apply Ascii.eqb_eq in Ea; auto|]. reflexivity. }
    rewrite Enone. cbn zeta.
    set (nn := add_payload (leaf_node t (c :: rest)) pl).
    assert (Hlab : has_label c nn = true) by (apply has_label_of_label; apply label_newleaf).
    pose proof (skipn_cons_len _ _ _ _ Hs) as Hsl.
    assert (Hf2 : exists f'', f' = S f'').
    { destruct f'; [|eauto]. simpl in Hfuel'. assert (0 < List.length (n_pfx n)) by lia. lia. }
    destruct Hf2 as [f'' ->].
    destruct t.
    + rewrite (ins_eq_desc _ _ s t' pl c rest); rewrite ?n_pfx_set_st; auto.
      rewrite n_st_set_st, (existsb_app_r _ _ _ [] Hlab), (upd_first_at _ _ _ _ _ (existsb_false_forall _ _ Hex) Hlab).
      unfold nn at 1. rewrite insert_leaf_idem by discriminate. fold nn. rewrite set_st_set_st. reflexivity.
    + simpl in Hnew. inversion Hnew; subst.
      rewrite (ins_eq_desc _ _ s t' pl colon []); rewrite ?n_pfx_set_pc; auto.
      rewrite n_st_set_pc, Hex, Ascii.eqb_refl, n_pc_set_pc.
      unfold nn at 1. rewrite insert_leaf_idem by discriminate. fold nn. rewrite set_pc_set_pc. reflexivity.
    + simpl in Hnew. inversion Hnew; subst.
      assert (Ecs : Ascii.eqb star colon = false) by reflexivity.
      rewrite (ins_eq_desc _ _ s t' pl star []); rewrite ?n_pfx_set_ac; auto.
      rewrite n_st_set_ac, Hex, Ecs, Ascii.eqb_refl, n_ac_set_ac.
      unfold nn at 1. rewrite insert_leaf_idem by discriminate. fold nn. rewrite set_ac_set_ac. reflexivity.
  - rewrite (ins_eq_here f n s t pl) by assumption.
    rewrite ins_eq_here; rewrite ?n_pfx_add_payload; auto. apply add_payload_idem.
Qed.
Print Assumptions insert_idem.

(* ---------- single calls at the root ---------- *)
Definition Den (t : node) : live := den_edge [] t.
Definition TInv (t : node) : Prop := WF0 t /\ label t = Some slash.

Lemma Den_empty : Den empty_root = [].
Proof. reflexivity. Qed.

Lemma fresh_in_perm pl key ls ls' : Permutation ls ls' -> fresh_in pl key ls -> fresh_in pl key ls'.
Proof. intros HP Hf m rm E x Hx. apply (Hf m rm E x). eapply Permutation_in; [symmetry; exact HP|exact Hx]. Qed.

Lemma fresh_in_none key ls : fresh_in None key ls.
Proof. intros m rm E. discriminate. Qed.

Lemma label_lcp_pos t s r : label t = Some slash -> s = slash :: r -> 0 < lcp s (n_pfx t).
Proof. unfold label. intros Hl ->. destruct (n_pfx t) as [|c p]; simpl in *; [discriminate|]. inversion Hl; subst.
  cbn. lia. Qed.

(* generic call on a non-empty tree, given admissibility *)
Definition LiveRes (pl : payload) (t' : node) (s : str) : Prop :=
  (forall m rm, pl = Some (m, rm) -> LiveAll t') /\ (pl = None -> forall x, AAP t' (s ++ x)).

Lemma call_nonempty t s tk pl :
  TInv t -> InsOK t s tk -> fresh_in pl (dec s) (Den t) -> AAP t s ->
  let t' := insert_node (S (List.length s)) t s tk pl in
  TInv t' /\ (exists k, walk (S (List.length s)) t' s = Some k) /\ Permutation (Den t') (added pl [] s (Den t)) /\
  LiveRes pl t' s.
Proof.
  intros [Hwf Hlab] Hok Hfr HA t'.
  destruct (ins_effect t s tk Hok (S (List.length s)) pl [] ltac:(lia) Hwf Hfr) as [Hw' [Hl' [Hk' Hp']]].
  split; [split; [exact Hw'|unfold t'; rewrite Hl'; exact Hlab]|].
  split; [apply walk_after; auto|]. split; [exact Hp'|].
  split.
  - intros m rm ->. apply live_some; auto.
  - intros ->. apply live_none; auto.
Qed.

Lemma call_empty s r pl : s = slash :: r -> cleanstr s ->
  let t' := insert_node (S (List.length s)) empty_root s KS pl in
  TInv t' /\ (exists k, walk (S (List.length s)) t' s = Some k /\ k <> KA) /\ Permutation (Den t') (added pl [] s (Den empty_root)) /\
  LiveRes pl t' s.
Proof.
  intros Es Hc t'. assert (Hs : s <> []) by (rewrite Es; discriminate).
  unfold t'. rewrite insert_root by assumption.
  split; [split; [apply WF0_newleaf; auto|rewrite label_add_payload, Es; reflexivity]|].
  split; [exists KS; split; [apply walk_leaf; auto|discriminate]|].
  split.
  - rewrite Den_empty. unfold Den. eapply perm_trans; [apply (den_edge_newleaf [] KS s pl Hc)|].
    destruct pl as [[m rm]|]; reflexivity.
  - split.
    + intros m rm ->. apply LiveAll_leaf.
    + intros -> x. apply AAP_leaf.
Qed.

(* ---------- state reached in the middle of Router.insert ---------- *)
Definition St (t : node) (done : list tok) : Prop :=
  exists d0 l1, done = d0 ++ l1 /\ lits l1 /\
   ((d0 = [] /\ (t = empty_root \/ TInv t)) \/
    (TInv t /\ (exists d0', d0 = d0' ++ [TParam]) /\ exists k, walk (S (List.length (enc d0))) t (enc d0) = Some k)).

Lemma lits_app a b : lits (a ++ b) <-> lits a /\ lits b. Proof. apply Forall_app. Qed.

Lemma enc_last_not_star d0 l1 : lits l1 -> (d0 = [] \/ exists d0', d0 = d0' ++ [TParam]) -> d0 ++ l1 <> [] ->
  forall s1, enc (d0 ++ l1) <> s1 ++ [star].
Proof.
  intros Hl Hd Hne s1 E.
  destruct l1 as [|y l1'] using rev_ind.
  - rewrite app_nil_r in *. destruct Hd as [->|[d0' ->]]; [congruence|].
    rewrite enc_app in E. simpl in E. apply app_inj_tail in E. destruct E as [_ E]. discriminate.
  - clear IHl1'. rewrite app_assoc, enc_app in E. simpl in E. apply app_inj_tail in E. destruct E as [_ E].
    apply lits_app in Hl. destruct Hl as [_ Hx]. inversion Hx as [|? ? Hxx _]; subst. destruct y; simpl in *; try discriminate.
    subst c. discriminate.
Qed.

Lemma St_callKS t done pl r0 :
  St t done -> done = TLit slash :: r0 -> fresh_in pl (dec (enc done)) (Den t) ->
  (t = empty_root \/ AAP t (enc done)) ->
  let t' := insert_node (S (List.length done)) t (enc done) KS pl in
  TInv t' /\ (exists k, walk (S (List.length (enc done))) t' (enc done) = Some k /\ k <> KA) /\
  Permutation (Den t') (added pl [] (enc done) (Den t)) /\ LiveRes pl t' (enc done).
Proof.
  intros [d0 [l1 [Ed [Hl Hcase]]]] Hslash Hfr HLv t'. unfold t'. rewrite <- (enc_length done).
  assert (Hne : d0 ++ l1 <> []) by (rewrite <- Ed, Hslash; discriminate).
  assert (Hnostar : forall s1, enc done <> s1 ++ [star]).
  { rewrite Ed. apply enc_last_not_star; auto. destruct Hcase as [[-> _]|[_ [H _]]]; auto. }
  assert (Es : enc done = slash :: enc r0) by (rewrite Hslash; reflexivity).
  assert (Hfin : forall t0, TInv t0 /\ (exists k, walk (S (List.length (enc done))) t0 (enc done) = Some k) /\
                  Permutation (Den t0) (added pl [] (enc done) (Den t)) /\ LiveRes pl t0 (enc done) ->
                  TInv t0 /\ (exists k, walk (S (List.length (enc done))) t0 (enc done) = Some k /\ k <> KA) /\
                  Permutation (Den t0) (added pl [] (enc done) (Den t)) /\ LiveRes pl t0 (enc done)).
  { intros t0 [H1 [[k Hk] H3]]. split; [exact H1|]. split; [|exact H3]. exists k. split; [exact Hk|]. intros Ek.
    destruct (walk_kind _ _ _ _ Hk (proj1 H1) Ek) as [s1 E]. exact (Hnostar s1 E). }
  assert (HTne : TInv t -> t <> empty_root).
  { intros [Hw _] ->. inversion Hw; subst. congruence. }
  destruct Hcase as [[-> [->|HT]]|[HT [[d0' Ed0] [k Hk]]]].
  - (* empty root *)
    simpl in Ed. subst l1. destruct (call_empty (enc done) (enc r0) pl Es (enc_lits _ Hl)) as [H1 [[k [Hk Hka]] H3]].
    split; [exact H1|]. split; [|exact H3]. exists k. auto.
  - simpl in Ed. subst l1. destruct HLv as [->|HLv]; [exfalso; apply (HTne HT); reflexivity|].
    apply Hfin. apply call_nonempty; auto.
    apply (insOK_clean (S (List.length (enc done)))); auto; [apply HT | apply enc_lits; auto |].
    eapply label_lcp_pos; [apply HT|exact Es].
  - destruct HLv as [->|HLv]; [exfalso; apply (HTne HT); reflexivity|].
    apply Hfin. apply call_nonempty; auto. rewrite Ed, enc_app.
    assert (Hk' : k <> KA).
    { intros Ek. destruct (walk_kind _ _ _ _ Hk (proj1 HT) Ek) as [s1 E]. rewrite Ed0, enc_app in E. simpl in E.
      apply app_inj_tail in E. destruct E as [_ E]. discriminate. }
    destruct l1 as [|x l1].
    + rewrite app_nil_r. eapply insOK_walk_here; eauto. apply HT.
    + eapply (insOK_after_walk _ t (enc d0) k (enc (x :: l1)) KS (S (List.length (enc (x :: l1))))); eauto.
      * apply HT.
      * simpl. apply (enc_lits (x :: l1)). exact Hl.
      * discriminate.
Qed.

Lemma callExt t done tk x pl k :
  TInv t -> walk (S (List.length (enc done))) t (enc done) = Some k -> k <> KA ->
  (tk = KP /\ x = TParam) \/ (tk = KA /\ x = TAny) ->
  fresh_in pl (dec (enc (done ++ [x]))) (Den t) -> AAP t (enc (done ++ [x])) ->
  let t' := insert_node (S (List.length (done ++ [x]))) t (enc (done ++ [x])) tk pl in
  TInv t' /\ (exists k', walk (S (List.length (enc (done ++ [x])))) t' (enc (done ++ [x])) = Some k') /\
  Permutation (Den t') (added pl [] (enc (done ++ [x])) (Den t)) /\ LiveRes pl t' (enc (done ++ [x])).
Proof.
  intros HT Hk Hka Hx Hfr HA t'. unfold t'. rewrite <- (enc_length (done ++ [x])).
  apply call_nonempty; auto. rewrite enc_app.
  eapply (insOK_after_walk _ t (enc done) k (enc [x]) tk 2); eauto.
  - apply HT.
  - destruct Hx as [[-> ->]|[-> ->]]; reflexivity.
  - destruct Hx as [[_ ->]|[_ ->]]; discriminate.
Qed.

Lemma dec_enc_full ts : Forall (fun t => tok_ok t = true) ts -> dec (enc ts) = ts.
Proof. apply dec_enc. Qed.

Lemma added_some m rm s ls : added (Some (m, rm)) [] s ls = new_entry m rm (dec s) (dec s) :: ls.
Proof. reflexivity. Qed.

Definition Lv (t : node) (done : list tok) : Prop := t = empty_root \/ forall x, AAP t (enc done ++ x).

Lemma Lv_inst t done : Lv t done -> t = empty_root \/ AAP t (enc done).
Proof. intros [H|H]; [left; exact H|right]. rewrite <- (app_nil_r (enc done)). apply H. Qed.

Lemma Lv_of_res t s done : enc done = s -> LiveRes None t s -> Lv t done.
Proof. intros <- [_ H]. right. apply H. reflexivity. Qed.

Theorem insert_toks_eff : forall rest t m rm done p,
  St t done -> Lv t done ->
  (exists r0, done ++ rest = TLit slash :: r0) ->
  ok_toks p rest = true -> (p = true -> exists dd c, done = dd ++ [TLit c]) ->
  Forall (fun t => tok_ok t = true) done ->
  fresh_in (Some (m, rm)) (done ++ rest) (Den t) ->
  let t' := insert_toks t m rm done rest in
  TInv t' /\ Permutation (Den t') (new_entry m rm (done ++ rest) (done ++ rest) :: Den t) /\ LiveAll t'.
Proof.
  induction rest as [|x rest IH]; intros t m rm done p HSt HLv [r0 Hfull] Hok Hp Hdone Hfr.
  - rewrite app_nil_r in *. cbn [insert_toks].
    assert (Hfr' : fresh_in (Some (m, rm)) (dec (enc done)) (Den t)) by (rewrite dec_enc; auto).
    destruct (St_callKS t done (Some (m, rm)) r0 HSt Hfull Hfr' (Lv_inst _ _ HLv)) as [H1 [_ [H3 [H4 _]]]].
    split; [exact H1|]. split; [|apply (H4 m rm eq_refl)]. rewrite added_some, dec_enc in H3 by auto. exact H3.
  - destruct x as [c| |].
    + cbn [insert_toks]. cbn [ok_toks] in Hok. apply andb_true_iff in Hok. destruct Hok as [Hc Hok].
      replace (done ++ TLit c :: rest) with ((done ++ [TLit c]) ++ rest) in * by (rewrite <- app_assoc; reflexivity).
      apply (IH t m rm (done ++ [TLit c]) true); auto.
      * destruct HSt as [d0 [l1 [Ed [Hl Hcase]]]]. exists d0, (l1 ++ [TLit c]). split; [rewrite Ed, app_assoc; reflexivity|].
        split; [apply lits_app; split; auto; constructor; auto|]. exact Hcase.
      * destruct HLv as [H|H]; [left; exact H|right]. intros x. rewrite enc_app, <- app_assoc. apply H.
      * eauto.
      * intros _. eauto.
      * apply Forall_app. split; auto.
    + cbn [insert_toks]. cbn [ok_toks] in Hok. apply andb_true_iff in Hok. destruct Hok as [Hpt Hok]. subst p.
      destruct (Hp eq_refl) as [dd [c Edone]].
      assert (Hr0 : exists r1, done = TLit slash :: r1).
      { destruct done as [|y done']; [destruct dd; discriminate|]. simpl in Hfull. inversion Hfull; subst. eauto. }
      destruct Hr0 as [r1 Hd1].
      destruct (St_callKS t done None r1 HSt Hd1 (fresh_in_none _ _) (Lv_inst _ _ HLv)) as [HT1 [[k [Hk Hka]] [HP1 HL1]]].
      set (t1 := insert_node (S (List.length done)) t (enc done) KS None) in *.
      cbn [added] in HP1.
      set (pl2 := match rest with [] => Some (m, rm) | _ :: _ => None end).
      assert (Et2 : match rest with
                    | [] => insert_node (S (List.length (done ++ [TParam]))) t1 (enc (done ++ [TParam])) KP (Some (m, rm))
                    | _ :: _ => insert_node (S (List.length (done ++ [TParam]))) t1 (enc (done ++ [TParam])) KP None
                    end = insert_node (S (List.length (done ++ [TParam]))) t1 (enc (done ++ [TParam])) KP pl2).
      { unfold pl2. destruct rest; reflexivity. }
      rewrite Et2. clear Et2.
      assert (Hok' : Forall (fun t => tok_ok t = true) (done ++ [TParam])) by (apply Forall_app; split; auto).
      assert (Hfr2 : fresh_in pl2 (dec (enc (done ++ [TParam]))) (Den t1)).
      { rewrite dec_enc by auto. unfold pl2. destruct rest; [|apply fresh_in_none].
        eapply fresh_in_perm; [symmetry; exact HP1|]. exact Hfr. }
      assert (HA1 : AAP t1 (enc (done ++ [TParam]))) by (rewrite enc_app; apply (proj2 HL1 eq_refl)).
      destruct (callExt t1 done KP TParam pl2 k HT1 Hk Hka (or_introl (conj eq_refl eq_refl)) Hfr2 HA1) as [HT2 [[k2 Hk2] [HP2 HL2]]].
      set (t2 := insert_node (S (List.length (done ++ [TParam]))) t1 (enc (done ++ [TParam])) KP pl2) in *.
      assert (HSt2 : St t2 (done ++ [TParam])).
      { exists (done ++ [TParam]), []. split; [rewrite app_nil_r; reflexivity|]. split; [constructor|].
        right. split; [exact HT2|]. split; [eauto|]. eauto. }
      destruct rest as [|y rest'].
      * cbn [insert_toks]. unfold pl2 in *.
        assert (Hidem : insert_node (S (List.length (done ++ [TParam]))) t2 (enc (done ++ [TParam])) KS (Some (m, rm)) = t2).
        { unfold t2. apply insert_idem; rewrite ?enc_length; try lia; [|apply HT1].
          rewrite enc_app. eapply (insOK_after_walk _ t1 (enc done) k (enc [TParam]) KP 2); eauto; try apply HT1; try reflexivity; discriminate. }
        rewrite Hidem. split; [exact HT2|]. split; [|apply (proj1 HL2 m rm eq_refl)].
        rewrite added_some, dec_enc in HP2 by auto.
        eapply perm_trans; [exact HP2|]. apply perm_skip. exact HP1.
      * replace (done ++ TParam :: y :: rest') with ((done ++ [TParam]) ++ y :: rest') in * by (rewrite <- app_assoc; reflexivity).
        assert (HLv2 : Lv t2 (done ++ [TParam])) by (eapply Lv_of_res; [reflexivity|exact HL2]).
        destruct (IH t2 m rm (done ++ [TParam]) false HSt2 HLv2 (ex_intro _ r0 Hfull) Hok ltac:(discriminate) Hok') as [HT3 [HP3 HL3]].
        { unfold pl2 in HP2. cbn [added] in HP2.
          eapply fresh_in_perm; [symmetry; eapply perm_trans; [exact HP2|exact HP1]|]. exact Hfr. }
        split; [exact HT3|]. split; [|exact HL3]. eapply perm_trans; [exact HP3|]. apply perm_skip.
        unfold pl2 in HP2. cbn [added] in HP2. eapply perm_trans; [exact HP2|exact HP1].
    + cbn [ok_toks] in Hok. apply andb_true_iff in Hok. destruct Hok as [Hpt Hok]. subst p.
      destruct rest as [|y rest']; [|discriminate]. cbn [insert_toks].
      destruct (Hp eq_refl) as [dd [c Edone]].
      assert (Hr0 : exists r1, done = TLit slash :: r1).
      { destruct done as [|y done']; [destruct dd; discriminate|]. simpl in Hfull. inversion Hfull; subst. eauto. }
      destruct Hr0 as [r1 Hd1].
      destruct (St_callKS t done None r1 HSt Hd1 (fresh_in_none _ _) (Lv_inst _ _ HLv)) as [HT1 [[k [Hk Hka]] [HP1 HL1]]].
      set (t1 := insert_node (S (List.length done)) t (enc done) KS None) in *.
      cbn [added] in HP1.
      assert (Hok' : Forall (fun t => tok_ok t = true) (done ++ [TAny])) by (apply Forall_app; split; auto).
      assert (Hfr2 : fresh_in (Some (m, rm)) (dec (enc (done ++ [TAny]))) (Den t1)).
      { rewrite dec_enc by auto. eapply fresh_in_perm; [symmetry; exact HP1|]. exact Hfr. }
      assert (HA1 : AAP t1 (enc (done ++ [TAny]))) by (rewrite enc_app; apply (proj2 HL1 eq_refl)).
      destruct (callExt t1 done KA TAny (Some (m, rm)) k HT1 Hk Hka (or_intror (conj eq_refl eq_refl)) Hfr2 HA1) as [HT2 [_ [HP2 HL2]]].
      replace (S (S (List.length done))) with (S (List.length (done ++ [TAny]))) by (rewrite app_length; simpl; lia).
      split; [exact HT2|]. split; [|apply (proj1 HL2 m rm eq_refl)].
      rewrite added_some, dec_enc in HP2 by auto.
      eapply perm_trans; [exact HP2|]. apply perm_skip. exact HP1.
Qed.
Print Assumptions insert_toks_eff.
