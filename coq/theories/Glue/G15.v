From Coq Require Import List ZArith Bool Arith Ascii NArith.
From Echo Require Import Base.Sx Mw.Gzip.
Import ListNotations.
(* input: (minlen content-length-set ((0 code) | (1 #chunk) | (2) ...))
   output: (status|-1 ce cl decoded-ok #decoded (n ...)) *)
Definition to_bytes (s : str) : bytes := map (fun c => N.to_nat (N_of_ascii c)) s.
Definition of_bytes (b : bytes) : str := map (fun n => ascii_of_N (N.of_nat n)) b.
Definition dec_op (x : sx) : op :=
  match as_Z (nth_sx 0 x) with
  | 0%Z => WriteHeader (Z.to_nat (as_Z (nth_sx 1 x)))
  | 1%Z => Write (to_bytes (as_str (nth_sx 1 x)))
  | _ => Flush
  end.
(* Decompress cases: (-1 is-gzip #sent gunzip-ok #gunzipped) -> (9 ok #seen) *)
Definition decompress_sx (x : sx) : sx :=
  let orc := fun _ : bytes => if as_bool (nth_sx 3 x) then Some (to_bytes (as_str (nth_sx 4 x))) else None in
  match decompress (as_bool (nth_sx 1 x)) (to_bytes (as_str (nth_sx 2 x))) orc with
  | Some b => SL [SZ 9; SZ 1; SS (of_bytes b)]
  | None => SL [SZ 9; SZ 0; SS []]
  end.
Definition run_sx (x : sx) : sx :=
  if Z.eqb (as_Z (nth_sx 0 x)) (-1) then decompress_sx x else
  let '(w, ns) := request (Z.to_nat (as_Z (nth_sx 0 x))) [] (as_bool (nth_sx 1 x)) (map dec_op (as_list (nth_sx 2 x))) in
  SL [match w_status w with Some s => of_nat s | None => SZ (-1) end; of_bool (w_ce w); of_bool (w_cl w);
      of_bool (match decode w with Some _ => true | None => false end);
      SS (match decode w with Some b => of_bytes b | None => [] end); SL (map of_nat ns)].
