From Coq Require Import List Arith Bool Ascii String Lia Permutation.
Import ListNotations.
From Echo.Router Require Import Spec2 Fuel Refine Insert InsProof Walk.
Open Scope char_scope.

(* ---------- liveness: every node has a route below it ---------- *)
Definition children (n : node) : list node := n_st n ++ opt_list (n_pc n) ++ opt_list (n_ac n).
Definition has_payload (n : node) : Prop := n_ms n <> [] \/ n_nf n <> None.

Inductive Alive : node -> Prop :=
| Alive_own : forall n, has_payload n -> Alive n
| Alive_child : forall n ch, In ch (children n) -> Alive ch -> Alive n.

Inductive AllAlive : node -> Prop :=
| AA_intro : forall n, Forall (fun ch => Alive ch /\ AllAlive ch) (children n) -> AllAlive n.

Definition LiveAll (n : node) : Prop := Alive n /\ AllAlive n.

Lemma AllAlive_children n : AllAlive n -> Forall LiveAll (children n).
Proof. inversion 1 as [n0 H1]; subst. exact H1. Qed.

Lemma in_children_height n ch : In ch (children n) -> height ch < height n.
Proof. unfold children. intros H. apply in_app_or in H. destruct H as [H|H]; [apply height_st; exact H|].
  apply in_app_or in H. destruct H as [H|H].
  - destruct (n_pc n) as [c|] eqn:E; simpl in H; [|tauto]. destruct H as [<-|[]]. apply height_pc. exact E.
  - destruct n as [k pfx ms nf st pc ac]. cbn [n_ac] in H. destruct ac as [c|]; simpl in H; [|tauto]. destruct H as [<-|[]].
    cbn [height]. lia. Qed.

(* child selected by the rest of the search string, as findChildWithLabel does *)
Definition selected (n : node) (s : str) : option node :=
  match skipn (lcp s (n_pfx n)) s with
  | c :: _ => child_by_label c n
  | [] => None end.

(* all proper descendants are alive, except possibly those on the fully matched path of s *)
Inductive AAP : node -> str -> Prop :=
| AAP_partial : forall n s, lcp s (n_pfx n) < List.length (n_pfx n) -> LiveAll n -> AAP n s
| AAP_full : forall n s, lcp s (n_pfx n) = List.length (n_pfx n) ->
    Forall (fun ch => LiveAll ch \/ (selected n s = Some ch /\ AAP ch (skipn (lcp s (n_pfx n)) s))) (children n) ->
    AAP n s.

Lemma LiveAll_AAP : forall h n s, height n <= h -> LiveAll n -> AAP n s.
Proof.
  induction h as [|h IH]; intros n s Hh HL; [destruct n; simpl in Hh; lia|].
  destruct (Nat.lt_ge_cases (lcp s (n_pfx n)) (List.length (n_pfx n))) as [Hlt|Hge].
  - apply AAP_partial; [exact Hlt|exact HL].
  - pose proof (lcp_le_r s (n_pfx n)) as Hle. destruct HL as [_ HA].
    apply AAP_full; [lia|]. eapply Forall_impl; [|apply AllAlive_children; exact HA]. simpl. intros ch H. left. exact H.
Qed.
Lemma LiveAll_AAP' n s : LiveAll n -> AAP n s.
Proof. apply (LiveAll_AAP (height n)). lia. Qed.

(* ---------- setters ---------- *)
Lemma children_set_pfx p n : children (set_pfx p n) = children n. Proof. destruct n; reflexivity. Qed.
Lemma children_set_kind k n : children (set_kind k n) = children n. Proof. destruct n; reflexivity. Qed.
Lemma children_add_payload n pl : children (add_payload n pl) = children n.
Proof. unfold children. rewrite n_st_add_payload, n_pc_add_payload, n_ac_add_payload. reflexivity. Qed.
Lemma children_set_st l n : children (set_st l n) = l ++ opt_list (n_pc n) ++ opt_list (n_ac n). Proof. destruct n; reflexivity. Qed.
Lemma children_set_pc o n : children (set_pc o n) = n_st n ++ opt_list o ++ opt_list (n_ac n). Proof. destruct n; reflexivity. Qed.
Lemma children_set_ac o n : children (set_ac o n) = n_st n ++ opt_list (n_pc n) ++ opt_list o. Proof. destruct n; reflexivity. Qed.

Lemma payload_set_pfx p n : has_payload (set_pfx p n) <-> has_payload n. Proof. destruct n; reflexivity. Qed.

Lemma Alive_congr n n' : (has_payload n -> has_payload n') -> (forall ch, In ch (children n) -> In ch (children n')) -> Alive n -> Alive n'.
Proof. intros Hp Hc H. inversion H; subst; [apply Alive_own; auto|eapply Alive_child; eauto]. Qed.

Lemma AllAlive_congr n n' : children n' = children n -> AllAlive n -> AllAlive n'.
Proof. intros E H. constructor. rewrite E. inversion H; subst; auto. Qed.

Lemma LiveAll_set_pfx p n : LiveAll n -> LiveAll (set_pfx p n).
Proof. intros [Ha Hb]. split.
  - eapply Alive_congr; [| |exact Ha]; [apply payload_set_pfx|rewrite children_set_pfx; auto].
  - eapply AllAlive_congr; [apply children_set_pfx|exact Hb]. Qed.

Lemma payload_add m rm n : has_payload (add_payload n (Some (m, rm))).
Proof. destruct n as [k pfx ms nf st pc ac]. unfold has_payload. cbn [add_payload]. destruct (str_eqb m NF); cbn [n_ms n_nf].
  - right. discriminate.
  - left. destruct ms as [|[k0 v] ms]; simpl; [discriminate|]. destruct (str_eqb k0 m); discriminate. Qed.

Lemma LiveAll_leaf t s m rm : LiveAll (add_payload (leaf_node t s) (Some (m, rm))).
Proof. split; [apply Alive_own, payload_add|]. constructor. rewrite children_add_payload. constructor. Qed.

Lemma AAP_leaf t s x : AAP (add_payload (leaf_node t s) None) (s ++ x).
Proof. cbn [add_payload]. apply AAP_full.
  - cbn [n_pfx leaf_node]. apply lcp_app_full. apply lcp_refl.
  - constructor. Qed.

(* ---------- distinctness of children ---------- *)
Lemma NoDup_map_inv' {A B} (f : A -> B) l : NoDup (map f l) -> NoDup l.
Proof. induction l as [|x l IH]; simpl; intros H; constructor; inversion H; subst; auto.
  intro Hin. apply H2. apply in_map. exact Hin. Qed.

Lemma WF0_children_nodup n : WF0 n -> NoDup (children n).
Proof.
  inversion 1 as [k pfx ms nf st pc ac G1 G2 G3 G4 G5 G6 G7 G8 G9 G10]; subst. unfold children. cbn [n_st n_pc n_ac].
  assert (Hst : NoDup st) by (eapply NoDup_map_inv'; exact G8).
  rewrite Forall_forall in G7.
  assert (Hpc : forall c, pc = Some c -> ~ In c st).
  { intros c E Hin. destruct (G9 c E) as [_ Hk]. destruct (G7 c Hin) as [_ Hk']. congruence. }
  assert (Hac : forall c, ac = Some c -> ~ In c st).
  { intros c E Hin. destruct (G10 c E) as [_ Hk]. destruct (G7 c Hin) as [_ Hk']. congruence. }
  destruct pc as [p|], ac as [a|]; simpl.
  - assert (Hpa : p <> a) by (intros ->; destruct (G9 a eq_refl) as [_ K1]; destruct (G10 a eq_refl) as [_ K2]; congruence).
    clear - Hst Hpc Hac Hpa. induction st as [|x st IH]; simpl.
    + constructor; [intros [E|[]]; apply Hpa; auto|constructor; [intros []|constructor]].
    + inversion Hst; subst. constructor.
      * intros Hin. apply in_app_or in Hin. destruct Hin as [Hin|[E|[E|[]]]]; auto.
        -- apply (Hpc p eq_refl). left. symmetry. exact E.
        -- apply (Hac a eq_refl). left. symmetry. exact E.
      * apply IH; auto; intros c E Hin; [apply (Hpc c E)|apply (Hac c E)]; right; exact Hin.
  - clear - Hst Hpc. induction st as [|x st IH]; simpl.
    + constructor; [intros []|constructor].
    + inversion Hst; subst. constructor.
      * intros Hin. apply in_app_or in Hin. destruct Hin as [Hin|[E|[]]]; auto. apply (Hpc p eq_refl). left. symmetry. exact E.
      * apply IH; auto. intros c E Hin. apply (Hpc c E). right. exact Hin.
  - clear - Hst Hac. induction st as [|x st IH]; simpl.
    + constructor; [intros []|constructor].
    + inversion Hst; subst. constructor.
      * intros Hin. apply in_app_or in Hin. destruct Hin as [Hin|[E|[]]]; auto. apply (Hac a eq_refl). left. symmetry. exact E.
      * apply IH; auto. intros c E Hin. apply (Hac c E). right. exact Hin.
  - rewrite app_nil_r. exact Hst.
Qed.

Lemma AAP_desc n s A ch B :
  children n = A ++ ch :: B -> NoDup (children n) ->
  lcp s (n_pfx n) = List.length (n_pfx n) -> AAP n s -> selected n s = Some ch ->
  Forall LiveAll (A ++ B) /\ AAP ch (skipn (lcp s (n_pfx n)) s).
Proof.
  intros Hc Hnd Hl HA Hsel. inversion HA as [? ? Hlt _|? ? _ HF]; subst; [lia|].
  rewrite Hc in HF, Hnd. apply Forall_app in HF. destruct HF as [HFA HFB]. inversion HFB as [|? ? Hch HFB']; subst.
  apply NoDup_remove_2 in Hnd.
  split.
  - apply Forall_app. split.
    + rewrite Forall_forall in *. intros y Hy. destruct (HFA y Hy) as [H|[Hs _]]; auto.
      rewrite Hsel in Hs. inversion Hs; subst. exfalso. apply Hnd. apply in_or_app. left. exact Hy.
    + rewrite Forall_forall in *. intros y Hy. destruct (HFB' y Hy) as [H|[Hs _]]; auto.
      rewrite Hsel in Hs. inversion Hs; subst. exfalso. apply Hnd. apply in_or_app. right. exact Hy.
  - destruct Hch as [H|[_ H]]; auto. apply LiveAll_AAP'. exact H.
Qed.

Lemma AAP_none n s : lcp s (n_pfx n) = List.length (n_pfx n) -> AAP n s -> selected n s = None -> Forall LiveAll (children n).
Proof.
  intros Hl HA Hsel. inversion HA as [? ? Hlt _|? ? _ HF]; subst; [lia|].
  eapply Forall_impl; [|exact HF]. simpl. intros y [H|[Hs _]]; auto. rewrite Hsel in Hs. discriminate.
Qed.

Lemma AAP_partial_inv n s : lcp s (n_pfx n) < List.length (n_pfx n) -> AAP n s -> LiveAll n.
Proof. intros Hlt HA. inversion HA; subst; auto. lia. Qed.

Lemma LiveAll_of_children n ch : In ch (children n) -> Forall LiveAll (children n) -> LiveAll n.
Proof. intros Hin HF. split.
  - eapply Alive_child; [exact Hin|]. rewrite Forall_forall in HF. apply (HF ch Hin).
  - constructor. exact HF. Qed.

Lemma LiveAll_payload n : has_payload n -> Forall LiveAll (children n) -> LiveAll n.
Proof. intros Hp HF. split; [apply Alive_own; exact Hp|constructor; exact HF]. Qed.

Lemma has_payload_add n m rm : has_payload (add_payload n (Some (m, rm))).
Proof. apply payload_add. Qed.

(* selected child in the three slots *)
Lemma selected_st n s c rest ch :
  skipn (lcp s (n_pfx n)) s = c :: rest -> List.find (has_label c) (n_st n) = Some ch -> selected n s = Some ch.
Proof. intros Hs Hf. unfold selected. rewrite Hs. unfold child_by_label. rewrite (find_existsb _ _ _ Hf). exact Hf. Qed.
Lemma selected_pc n s rest ch :
  skipn (lcp s (n_pfx n)) s = colon :: rest -> existsb (has_label colon) (n_st n) = false -> n_pc n = Some ch -> selected n s = Some ch.
Proof. intros Hs Hex Hp. unfold selected. rewrite Hs. unfold child_by_label. rewrite Hex, Ascii.eqb_refl. exact Hp. Qed.
Lemma selected_ac n s rest ch :
  skipn (lcp s (n_pfx n)) s = star :: rest -> existsb (has_label star) (n_st n) = false -> n_ac n = Some ch -> selected n s = Some ch.
Proof. intros Hs Hex Hp. unfold selected. rewrite Hs. unfold child_by_label. rewrite Hex.
  assert (E : Ascii.eqb star colon = false) by reflexivity. rewrite E, Ascii.eqb_refl. exact Hp. Qed.
Lemma selected_none_new n s c rest :
  skipn (lcp s (n_pfx n)) s = c :: rest -> existsb (has_label c) (n_st n) = false ->
  (c = colon -> n_pc n = None) -> (c = star -> n_ac n = None) -> selected n s = None.
Proof. intros Hs Hex Hp Ha. unfold selected. rewrite Hs. unfold child_by_label. rewrite Hex.
  destruct (Ascii.eqb c colon) eqn:Ec; [apply Ascii.eqb_eq in Ec; auto|].
  destruct (Ascii.eqb c star) eqn:Ea; [apply Ascii.eqb_eq in Ea; auto|]. reflexivity. Qed.

Lemma children_st_split n l1 ch l2 : n_st n = l1 ++ ch :: l2 ->
  children n = l1 ++ ch :: (l2 ++ opt_list (n_pc n) ++ opt_list (n_ac n)).
Proof. unfold children. intros ->. rewrite <- app_assoc. reflexivity. Qed.
Lemma children_pc_split n ch : n_pc n = Some ch -> children n = n_st n ++ ch :: opt_list (n_ac n).
Proof. unfold children. intros ->. reflexivity. Qed.
Lemma children_ac_split n ch : n_ac n = Some ch -> children n = (n_st n ++ opt_list (n_pc n)) ++ ch :: [].
Proof. unfold children. intros ->. rewrite app_assoc. reflexivity. Qed.

Lemma Forall_mid {A} (P : A -> Prop) a x b : Forall P (a ++ b) -> P x -> Forall P (a ++ x :: b).
Proof. intros H Hx. apply Forall_app in H. destruct H. apply Forall_app. split; auto. Qed.

Lemma in_mid {A} (a : list A) x b : In x (a ++ x :: b).
Proof. apply in_or_app. right. left. reflexivity. Qed.

(* ---------- effect of a call that carries a handler: everything becomes alive ---------- *)
Theorem live_some : forall n s t, InsOK n s t -> forall f m rm, List.length s < f -> WF0 n -> AAP n s ->
  LiveAll (insert_node f n s t (Some (m, rm))).
Proof.
  induction 1 as [n s t H1 H2 H3 Ht Hk | n s t H1 H2 H3 Ht Hk Hc
                 | n s t c rest ch H1 H2 Hs Hf Hok IH
                 | n s t rest ch H1 H2 Hs Hex Hpc Hok IH
                 | n s t rest ch H1 H2 Hs Hex Hac Hok IH
                 | n s t c rest H1 H2 Hs Hex Hpc Hac Hnew Hka
                 | n s t H1 H2 H3];
    intros f m rm Hfuel Hwf HA; (destruct f as [|f]; [lia|]).
  - rewrite ins_eq_split_here by assumption.
    pose proof (LiveAll_set_pfx (skipn (lcp s (n_pfx n)) (n_pfx n)) n (AAP_partial_inv n s H2 HA)) as Hc.
    apply LiveAll_payload; [apply has_payload_add|]. rewrite children_add_payload, children_set_kind.
    unfold split_node, children. cbn [n_st n_pc n_ac opt_list app]. constructor; [exact Hc|constructor].
  - rewrite ins_eq_split_new by assumption.
    pose proof (LiveAll_set_pfx (skipn (lcp s (n_pfx n)) (n_pfx n)) n (AAP_partial_inv n s H2 HA)) as Hc0.
    eapply (LiveAll_of_children _ (set_pfx (skipn (lcp s (n_pfx n)) (n_pfx n)) n)).
    + rewrite children_set_st. left. reflexivity.
    + rewrite children_set_st. unfold split_node. cbn [n_pc n_ac opt_list app].
      constructor; [exact Hc0|]. constructor; [apply LiveAll_leaf|constructor].
  - rewrite (ins_eq_desc f n s t _ c rest) by assumption. rewrite (find_existsb _ _ _ Hf).
    destruct (upd_first_split (has_label c) (fun x => insert_node f x (c :: rest) t (Some (m, rm))) (n_st n) ch Hf) as [l1 [l2 [Hst [Hl1 Hupd]]]].
    rewrite Hupd.
    assert (Hin : In ch (n_st n)) by (rewrite Hst; apply in_mid).
    destruct (WF0_child_st n ch Hwf Hin) as [Hwch _].
    assert (Hlen' : List.length (c :: rest) < f).
    { pose proof (skipn_cons_len _ _ _ _ Hs). assert (List.length (c :: rest) = List.length s - lcp s (n_pfx n)) by (rewrite <- Hs, skipn_length; reflexivity). lia. }
    destruct (AAP_desc n s l1 ch _ (children_st_split n l1 ch l2 Hst) (WF0_children_nodup n Hwf) H2 HA (selected_st n s c rest ch Hs Hf)) as [HO HC].
    rewrite Hs in HC. pose proof (IH f m rm Hlen' Hwch HC) as HL.
    eapply LiveAll_of_children; rewrite children_set_st, <- app_assoc; cbn [app]; [apply in_mid|].
    apply Forall_mid; auto.
  - rewrite (ins_eq_desc f n s t _ colon rest) by assumption. rewrite Hex, Ascii.eqb_refl, Hpc.
    destruct (WF0_child_pc n ch Hwf Hpc) as [Hwch _].
    assert (Hlen' : List.length (colon :: rest) < f).
    { pose proof (skipn_cons_len _ _ _ _ Hs). assert (List.length (colon :: rest) = List.length s - lcp s (n_pfx n)) by (rewrite <- Hs, skipn_length; reflexivity). lia. }
    destruct (AAP_desc n s _ ch _ (children_pc_split n ch Hpc) (WF0_children_nodup n Hwf) H2 HA (selected_pc n s rest ch Hs Hex Hpc)) as [HO HC].
    rewrite Hs in HC. pose proof (IH f m rm Hlen' Hwch HC) as HL.
    eapply LiveAll_of_children; rewrite children_set_pc; cbn [opt_list app]; [apply in_mid|].
    apply Forall_mid; auto.
  - rewrite (ins_eq_desc f n s t _ star rest) by assumption. rewrite Hex.
    assert (Ecs : Ascii.eqb star colon = false) by reflexivity. rewrite Ecs, Ascii.eqb_refl, Hac.
    destruct (WF0_child_ac n ch Hwf Hac) as [Hwch _].
    assert (Hlen' : List.length (star :: rest) < f).
    { pose proof (skipn_cons_len _ _ _ _ Hs). assert (List.length (star :: rest) = List.length s - lcp s (n_pfx n)) by (rewrite <- Hs, skipn_length; reflexivity). lia. }
    destruct (AAP_desc n s _ ch _ (children_ac_split n ch Hac) (WF0_children_nodup n Hwf) H2 HA (selected_ac n s rest ch Hs Hex Hac)) as [HO HC].
    rewrite Hs in HC. pose proof (IH f m rm Hlen' Hwch HC) as HL.
    eapply LiveAll_of_children; rewrite children_set_ac; cbn [opt_list]; rewrite app_assoc; [apply in_mid|].
    apply Forall_mid; auto.
  - rewrite (ins_eq_desc f n s t _ c rest) by assumption. rewrite Hex.
    assert (Enone : (if Ascii.eqb c colon then n_pc n else if Ascii.eqb c star then n_ac n else None) = None).
    { destruct (Ascii.eqb c colon) eqn:Ec; [apply Ascii.eqb_eq in Ec; auto|].
      destruct (Ascii.eqb c star) eqn:Ea; [apply Ascii.eqb_eq in Ea; auto|]. reflexivity. }
    rewrite Enone. cbn zeta.
    pose proof (AAP_none n s H2 HA (selected_none_new n s c rest Hs Hex Hpc Hac)) as HO.
    pose proof (LiveAll_leaf t (c :: rest) m rm) as HLn.
    unfold children in HO.
    destruct t.
    + eapply LiveAll_of_children; rewrite children_set_st, <- app_assoc; cbn [app]; [apply in_mid|].
      apply Forall_mid; auto.
    + simpl in Hnew. inversion Hnew; subst. rewrite (Hpc eq_refl) in HO. cbn [opt_list app] in HO.
      eapply LiveAll_of_children; rewrite children_set_pc; cbn [opt_list app]; [apply in_mid|].
      apply Forall_mid; auto.
    + simpl in Hnew. inversion Hnew; subst. rewrite (Hac eq_refl) in HO. cbn [opt_list] in HO. rewrite app_nil_r in HO.
      eapply LiveAll_of_children; rewrite children_set_ac; cbn [opt_list]; rewrite app_assoc; [apply in_mid|].
      apply Forall_mid; [rewrite app_nil_r; exact HO|exact HLn].
  - rewrite ins_eq_here by assumption.
    assert (Hsel : selected n s = None).
    { unfold selected. rewrite H3, skipn_all. reflexivity. }
    apply LiveAll_payload; [apply has_payload_add|]. rewrite children_add_payload. apply (AAP_none n s H2 HA Hsel).
Qed.
Print Assumptions live_some.

Lemma Forall_left {A} (P Q : A -> Prop) l : Forall P l -> Forall (fun x => P x \/ Q x) l.
Proof. intros H. eapply Forall_impl; [|exact H]. simpl. auto. Qed.

(* ---------- effect of a structural call: only nodes on the (extended) path may be dead ---------- *)
Theorem live_none : forall n s t, InsOK n s t -> forall f, List.length s < f -> WF0 n -> AAP n s ->
  forall x, AAP (insert_node f n s t None) (s ++ x).
Proof.
  induction 1 as [n s t H1 H2 H3 Ht Hk | n s t H1 H2 H3 Ht Hk Hc
                 | n s t c rest ch H1 H2 Hs Hf Hok IH
                 | n s t rest ch H1 H2 Hs Hex Hpc Hok IH
                 | n s t rest ch H1 H2 Hs Hex Hac Hok IH
                 | n s t c rest H1 H2 Hs Hex Hpc Hac Hnew Hka
                 | n s t H1 H2 H3];
    intros f Hfuel Hwf HA x; (destruct f as [|f]; [lia|]).
  - rewrite ins_eq_split_here by assumption. cbn [add_payload].
    pose proof (LiveAll_set_pfx (skipn (lcp s (n_pfx n)) (n_pfx n)) n (AAP_partial_inv n s H2 HA)) as Hc.
    assert (E : firstn (lcp s (n_pfx n)) (n_pfx n) = s) by (rewrite <- lcp_firstn, H3; apply firstn_all).
    apply AAP_full.
    + cbn [n_pfx set_kind split_node]. rewrite E. apply lcp_app_full. apply lcp_refl.
    + rewrite children_set_kind. unfold split_node, children. cbn [n_st n_pc n_ac opt_list app].
      constructor; [left; exact Hc|constructor].
  - rewrite ins_eq_split_new by assumption. cbn [add_payload].
    pose proof (LiveAll_set_pfx (skipn (lcp s (n_pfx n)) (n_pfx n)) n (AAP_partial_inv n s H2 HA)) as Hc0.
    destruct (skipn (lcp s (n_pfx n)) s) as [|c rest] eqn:Es.
    { exfalso. assert (List.length (skipn (lcp s (n_pfx n)) s) = 0) by (rewrite Es; reflexivity). rewrite skipn_length in H. lia. }
    set (child := set_pfx (skipn (lcp s (n_pfx n)) (n_pfx n)) n) in *.
    assert (Hl' : lcp (s ++ x) (firstn (lcp s (n_pfx n)) (n_pfx n)) = lcp s (n_pfx n)).
    { rewrite <- (firstn_length_lcp s (n_pfx n)) at 2. apply lcp_app_full. rewrite lcp_firstn_self. symmetry. apply firstn_length_lcp. }
    apply AAP_full.
    + rewrite n_pfx_set_st. cbn [n_pfx split_node]. rewrite Hl'. symmetry. apply firstn_length_lcp.
    + rewrite children_set_st. unfold split_node. cbn [n_pc n_ac opt_list app].
      constructor; [left; exact Hc0|]. constructor; [|constructor]. right.
      rewrite n_pfx_set_st. cbn [n_pfx split_node]. rewrite Hl'.
      assert (Esk : skipn (lcp s (n_pfx n)) (s ++ x) = (c :: rest) ++ x).
      { rewrite skipn_app_le by apply lcp_le_l. rewrite Es. reflexivity. }
      split.
      * unfold selected. rewrite n_pfx_set_st. cbn [n_pfx split_node]. rewrite Hl', Esk. cbn [app].
        unfold child_by_label. rewrite n_st_set_st.
        assert (Hlab : has_label c (leaf_node t (c :: rest)) = true) by (unfold has_label, label; simpl; apply Ascii.eqb_refl).
        assert (Hch : has_label c child = false).
        { unfold has_label, label, child. assert (Epf : forall p, n_pfx (set_pfx p n) = p) by (intros; destruct n; reflexivity). rewrite Epf.
          destruct (skipn (lcp s (n_pfx n)) (n_pfx n)) as [|d rr] eqn:Ep; [reflexivity|].
          assert (c <> d) by (eapply lcp_next; eauto). simpl. apply Ascii.eqb_neq. congruence. }
        cbn [existsb List.find]. rewrite Hch, Hlab. reflexivity.
      * rewrite Esk. apply (AAP_leaf t (c :: rest) x).
  - rewrite (ins_eq_desc f n s t _ c rest) by assumption. rewrite (find_existsb _ _ _ Hf).
    destruct (upd_first_split (has_label c) (fun y => insert_node f y (c :: rest) t None) (n_st n) ch Hf) as [l1 [l2 [Hst [Hl1 Hupd]]]].
    rewrite Hupd.
    assert (Hin : In ch (n_st n)) by (rewrite Hst; apply in_mid).
    destruct (WF0_child_st n ch Hwf Hin) as [Hwch _].
    destruct (find_some _ _ Hf) as [_ Hlab]. destruct (has_label_pfx c ch Hlab) as [rr Er].
    assert (Hlen' : List.length (c :: rest) < f).
    { pose proof (skipn_cons_len _ _ _ _ Hs). assert (List.length (c :: rest) = List.length s - lcp s (n_pfx n)) by (rewrite <- Hs, skipn_length; reflexivity). lia. }
    destruct (AAP_desc n s l1 ch _ (children_st_split n l1 ch l2 Hst) (WF0_children_nodup n Hwf) H2 HA (selected_st n s c rest ch Hs Hf)) as [HO HC].
    rewrite Hs in HC. pose proof (IH f Hlen' Hwch HC x) as HL.
    assert (Hl' : lcp (s ++ x) (n_pfx n) = List.length (n_pfx n)) by (apply lcp_app_full; exact H2).
    assert (Esk : skipn (lcp (s ++ x) (n_pfx n)) (s ++ x) = (c :: rest) ++ x).
    { rewrite Hl', <- H2, skipn_app_le by apply lcp_le_l. rewrite Hs. reflexivity. }
    assert (Hlab' : has_label c (insert_node f ch (c :: rest) t None) = true).
    { apply has_label_of_label. rewrite label_insert; [apply label_of_has_label; exact Hlab|]. rewrite Er. apply lcp_cons_pos. }
    apply AAP_full; [rewrite n_pfx_set_st; exact Hl'|].
    rewrite children_set_st, <- app_assoc. cbn [app]. apply Forall_mid; [apply Forall_left; exact HO|].
    right. rewrite n_pfx_set_st, Esk. split; [|exact HL].
    unfold selected. rewrite n_pfx_set_st, Esk. cbn [app]. unfold child_by_label. rewrite n_st_set_st.
    rewrite (existsb_app_r _ _ _ _ Hlab'), (find_app_skip _ _ _ _ Hl1 Hlab'). reflexivity.
  - rewrite (ins_eq_desc f n s t _ colon rest) by assumption. rewrite Hex, Ascii.eqb_refl, Hpc.
    destruct (WF0_child_pc n ch Hwf Hpc) as [Hwch _].
    assert (Hlen' : List.length (colon :: rest) < f).
    { pose proof (skipn_cons_len _ _ _ _ Hs). assert (List.length (colon :: rest) = List.length s - lcp s (n_pfx n)) by (rewrite <- Hs, skipn_length; reflexivity). lia. }
    destruct (AAP_desc n s _ ch _ (children_pc_split n ch Hpc) (WF0_children_nodup n Hwf) H2 HA (selected_pc n s rest ch Hs Hex Hpc)) as [HO HC].
    rewrite Hs in HC. pose proof (IH f Hlen' Hwch HC x) as HL.
    assert (Hl' : lcp (s ++ x) (n_pfx n) = List.length (n_pfx n)) by (apply lcp_app_full; exact H2).
    assert (Esk : skipn (lcp (s ++ x) (n_pfx n)) (s ++ x) = (colon :: rest) ++ x).
    { rewrite Hl', <- H2, skipn_app_le by apply lcp_le_l. rewrite Hs. reflexivity. }
    apply AAP_full; [rewrite n_pfx_set_pc; exact Hl'|].
    rewrite children_set_pc. cbn [opt_list app]. apply Forall_mid; [apply Forall_left; exact HO|].
    right. rewrite n_pfx_set_pc, Esk. split; [|exact HL].
    unfold selected. rewrite n_pfx_set_pc, Esk. cbn [app]. unfold child_by_label. rewrite n_st_set_pc, Hex, Ascii.eqb_refl, n_pc_set_pc. reflexivity.
  - rewrite (ins_eq_desc f n s t _ star rest) by assumption. rewrite Hex.
    assert (Ecs : Ascii.eqb star colon = false) by reflexivity. rewrite Ecs, Ascii.eqb_refl, Hac.
    destruct (WF0_child_ac n ch Hwf Hac) as [Hwch _].
    assert (Hlen' : List.length (star :: rest) < f).
    { pose proof (skipn_cons_len _ _ _ _ Hs). assert (List.length (star :: rest) = List.length s - lcp s (n_pfx n)) by (rewrite <- Hs, skipn_length; reflexivity). lia. }
    destruct (AAP_desc n s _ ch _ (children_ac_split n ch Hac) (WF0_children_nodup n Hwf) H2 HA (selected_ac n s rest ch Hs Hex Hac)) as [HO HC].
    rewrite Hs in HC. pose proof (IH f Hlen' Hwch HC x) as HL.
    assert (Hl' : lcp (s ++ x) (n_pfx n) = List.length (n_pfx n)) by (apply lcp_app_full; exact H2).
    assert (Esk : skipn (lcp (s ++ x) (n_pfx n)) (s ++ x) = (star :: rest) ++ x).
    { rewrite Hl', <- H2, skipn_app_le by apply lcp_le_l. rewrite Hs. reflexivity. }
    apply AAP_full; [rewrite n_pfx_set_ac; exact Hl'|].
    rewrite children_set_ac. cbn [opt_list]. rewrite app_assoc. apply Forall_mid; [apply Forall_left; exact HO|].
    right. rewrite n_pfx_set_ac, Esk. split; [|exact HL].
    unfold selected. rewrite n_pfx_set_ac, Esk. cbn [app]. unfold child_by_label. rewrite n_st_set_ac, Hex, Ecs, Ascii.eqb_refl, n_ac_set_ac. reflexivity.
  - rewrite (ins_eq_desc f n s t _ c rest) by assumption. rewrite Hex.
    assert (Enone : (if Ascii.eqb c colon then n_pc n else if Ascii.eqb c star then n_ac n else None) = None).
    { destruct (Ascii.eqb c colon) eqn:Ec; [apply Ascii.eqb_eq in Ec; auto|].
      destruct (Ascii.eqb c star) eqn:Ea; [apply Ascii.eqb_eq in Ea; auto|]. reflexivity. }
    rewrite Enone. cbn zeta. cbn [add_payload].
    pose proof (AAP_none n s H2 HA (selected_none_new n s c rest Hs Hex Hpc Hac)) as HO.
    assert (Hl' : lcp (s ++ x) (n_pfx n) = List.length (n_pfx n)) by (apply lcp_app_full; exact H2).
    assert (Esk : skipn (lcp (s ++ x) (n_pfx n)) (s ++ x) = (c :: rest) ++ x).
    { rewrite Hl', <- H2, skipn_app_le by apply lcp_le_l. rewrite Hs. reflexivity. }
    assert (Hlab : has_label c (leaf_node t (c :: rest)) = true) by (unfold has_label, label; simpl; apply Ascii.eqb_refl).
    pose proof (AAP_leaf t (c :: rest) x) as HLn. cbn [add_payload] in HLn.
    unfold children in HO.
    destruct t.
    + apply AAP_full; [rewrite n_pfx_set_st; exact Hl'|].
      rewrite children_set_st, <- app_assoc. cbn [app]. apply Forall_mid; [apply Forall_left; exact HO|].
      right. rewrite n_pfx_set_st, Esk. split; [|exact HLn].
      unfold selected. rewrite n_pfx_set_st, Esk. cbn [app]. unfold child_by_label. rewrite n_st_set_st.
      rewrite (existsb_app_r _ _ _ [] Hlab), (find_app_skip _ _ _ [] (existsb_false_forall _ _ Hex) Hlab). reflexivity.
    + simpl in Hnew. inversion Hnew; subst. rewrite (Hpc eq_refl) in HO. cbn [opt_list app] in HO.
      apply AAP_full; [rewrite n_pfx_set_pc; exact Hl'|].
      rewrite children_set_pc. cbn [opt_list app]. apply Forall_mid; [apply Forall_left; exact HO|].
      right. rewrite n_pfx_set_pc, Esk. split; [|exact HLn].
      unfold selected. rewrite n_pfx_set_pc, Esk. cbn [app]. unfold child_by_label. rewrite n_st_set_pc, Hex, Ascii.eqb_refl, n_pc_set_pc. reflexivity.
    + simpl in Hnew. inversion Hnew; subst. rewrite (Hac eq_refl) in HO. cbn [opt_list] in HO. rewrite app_nil_r in HO.
      assert (Ecs : Ascii.eqb star colon = false) by reflexivity.
      apply AAP_full; [rewrite n_pfx_set_ac; exact Hl'|].
      rewrite children_set_ac. cbn [opt_list]. rewrite app_assoc. apply Forall_mid; [rewrite app_nil_r; apply Forall_left; exact HO|].
      right. rewrite n_pfx_set_ac, Esk. split; [|exact HLn].
      unfold selected. rewrite n_pfx_set_ac, Esk. cbn [app]. unfold child_by_label. rewrite n_st_set_ac, Hex, Ecs, Ascii.eqb_refl, n_ac_set_ac. reflexivity.
  - rewrite ins_eq_here by assumption. cbn [add_payload].
    assert (Hsel : selected n s = None).
    { unfold selected. rewrite H3, skipn_all. reflexivity. }
    apply AAP_full; [apply lcp_app_full; exact H2|].
    apply Forall_left. apply (AAP_none n s H2 HA Hsel).
Qed.
Print Assumptions live_none.
