From Coq Require Extraction.
From Coq Require Import ExtrOcamlBasic.
From Echo Require Import Glue.G12.
Extraction "extracted/m12.ml" G12.run_sx.
