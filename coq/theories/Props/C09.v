(* C09 — binding honours explicit source tags and the path < query < body order.
   Statements only; proofs in Bind/BindDataProofs.v.  A destination type is a tree of structs, scalars
   and slices whose fields carry per-source tags; a write is (path of field indices, values). *)
From Coq Require Import List Bool Arith.
From Echo Require Import Base.Sx Mw.Auth Bind.BindData Bind.BindDataProofs.
Import ListNotations.

(* a field is written from a source only if it is settable, carries a non-empty tag for THAT source and
   the data holds a key equal to the tag (exactly or case-insensitively) *)
Theorem C09_tag_only : forall f t d s pre ws, bind_ty f t d s pre = Writes ws ->
  forall p vals, In (p, vals) ws -> exists q fl, p = pre ++ q /\ at_path t q fl /\ supplied fl s d vals.
Proof. exact tag_only. Qed.
Print Assumptions C09_tag_only.

(* mass-assignment negative space: keys that match no tag of the destination (for that source) cannot
   change the result, whatever they are called (field names included) *)
Theorem C09_irrelevant_keys : forall t d extra s, d <> [] ->
  (forall name kv, In name (tags_of s t) -> In kv extra -> eq_fold (fst kv) name = false) ->
  bind_data t (d ++ extra) s = bind_data t d s.
Proof. exact irrelevant_keys. Qed.
Print Assumptions C09_irrelevant_keys.

(* Bind: path parameters, then the query string only for GET / DELETE / HEAD, then the form body; the
   final value of every field is that of the last source supplying it *)
Theorem C09_order : forall t m params query d ws, bind t m params query (BForm d) = Bound ws ->
  exists w1 w2 w3, bind_data t params 0 = Writes w1 /\
    (if is_query_method m then bind_data t query 1 = Writes w2 else w2 = []) /\
    bind_data t d 2 = Writes w3 /\ ws = w1 ++ w2 ++ w3 /\
    forall p, final ws p = match final w3 p with Some v => Some v | None =>
                           match final w2 p with Some v => Some v | None => final w1 p end end.
Proof. exact bind_order. Qed.
Print Assumptions C09_order.

(* unsupported media type: 415; malformed input in any source: 400, never a silent partial bind *)
Theorem C09_415_400 : forall t m params query,
  (bind_data t params 0 <> Error -> (is_query_method m = true -> bind_data t query 1 <> Error) ->
   bind t m params query BUnsupported = Status 415) /\
  (forall b, bind_data t params 0 = Error -> bind t m params query b = Status 400) /\
  (forall d, bind_data t params 0 <> Error -> (is_query_method m = true -> bind_data t query 1 <> Error) ->
             bind_data t d 2 = Error -> bind t m params query (BForm d) = Status 400).
Proof. exact bind_status. Qed.
Print Assumptions C09_415_400.

(* map destinations: whatever a map ends up holding is a key of an applicable source with that source's values
   (all of them, or the first one for string / interface{} elements); an unsupported element type binds nothing *)
Theorem C09_map_from_sources : forall mode m params query d kvs, bind_map mode m params query (BForm d) = MBound kvs ->
  forall kv, In kv kvs -> exists kv0,
    (In kv0 params \/ (is_query_method m = true /\ In kv0 query) \/ In kv0 d) /\
    fst kv = fst kv0 /\ (snd kv = snd kv0 \/ snd kv = firstn 1 (snd kv0)).
Proof. exact bind_map_from_sources. Qed.
Print Assumptions C09_map_from_sources.

Theorem C09_map_ignored : forall m params query b kvs, bind_map MIgnored m params query b = MBound kvs -> kvs = [].
Proof. exact bind_map_ignored. Qed.
Print Assumptions C09_map_ignored.

(* ---- tie to the source by proof: DefaultBinder.Bind and DefaultBinder.BindBody, translated statement by statement from
   bind.go on every run (Gen/Src_bind.v, language Base/GoLite.v).  Bind consults the path parameters first, the query string
   only for GET / DELETE / HEAD (methods 1, 2, 3), the body last, and nothing after the first source that fails (e1, e2 = the
   errors of the path / query binder, 0 = nil; 100 = whatever BindBody returns). *)
From Coq Require Import String ZArith.
From Echo Require Import Base.GoLite Gen.Src_bind Bind.BindSrc.

Theorem C09_source_bind_order : forall m e1 e2,
  let st := {| locals := [("i"%string, 0%Z); ("c"%string, 0%Z)]; fields := [("c.Request().Method"%string, m)]; events := [];
               inputs := [[e1]; [e2]] |} in
  let '(st', ret) := GoLite.run bsym src_binder_bind_results src_binder_bind st in
  if negb (e1 =? 0)%Z then names st' = ["b.BindPathParams"%string] /\ ret = [e1]
  else if query_method m then
    (if negb (e2 =? 0)%Z then names st' = ["b.BindPathParams"; "b.BindQueryParams"]%string /\ ret = [e2]
     else names st' = ["b.BindPathParams"; "b.BindQueryParams"; "b.BindBody"]%string /\ ret = [100%Z])
  else names st' = ["b.BindPathParams"; "b.BindBody"]%string /\ ret = [100%Z].
Proof. exact src_bind_order. Qed.
Print Assumptions C09_source_bind_order.

(* BindBody: an empty body (Content-Length 0) is not looked at; otherwise the media type alone selects the decoder - JSON (11)
   the configured serializer, the two XML types (12, 13) encoding/xml, urlencoded (14) and multipart (15) forms bindData with
   the tag "form" (77) - and any other type is refused with 415 before anything is decoded *)
Theorem C09_source_body_dispatch : forall cl mt,
  let st := {| locals := [("i"%string, 0%Z); ("c"%string, 0%Z); ("err"%string, 0%Z)]; fields := [("req.ContentLength"%string, cl)]; events := [];
               inputs := [[9; 0; 0]; [mt]; [0; 0]; [0]]%Z |} in
  let '(st', ret) := GoLite.run bsym src_binder_bindbody_results src_binder_bindbody st in
  if (cl =? 0)%Z then events st' = [] /\ ret = [0%Z]
  else names st' = (["strings.Cut"; "strings.TrimSpace"] ++ decoder_calls mt)%list%string /\
       ret = [if ((mt =? 11) || (mt =? 12) || (mt =? 13) || (mt =? 14) || (mt =? 15))%Z then 0%Z else 415%Z] /\
       (forall args, In ("b.bindData"%string, args) (events st') -> nth 2 args 0%Z = 77%Z).
Proof. exact src_bindbody_dispatch. Qed.
Print Assumptions C09_source_body_dispatch.

(* the single-source binders (BindQueryParams, BindHeaders), from the same re-translated file: each hands bindData ITS source
   under ITS tag - the query values under "query", the request headers under "header" -, once, and turns a failure into a 400;
   [sym] is arbitrary: the statement is about WHICH constants reach bindData *)
Theorem C09_source_bind_query_params : forall (sym : String.string -> Z) (dst err : Z),
  let '(st', ret) := GoLite.run sym src_binder_bindqueryparams_results src_binder_bindqueryparams (single_start dst err) in
  events st' = [("b.bindData"%string, [dst; sym "c.QueryParams()"%string; sym """query"""%string; sym "nil"%string])] /\
  ret = [if (err =? sym "nil"%string)%Z then sym "nil"%string else bad_request sym].
Proof. exact src_bind_query_params_spec. Qed.
Print Assumptions C09_source_bind_query_params.
Theorem C09_source_bind_headers : forall (sym : String.string -> Z) (dst err : Z),
  let '(st', ret) := GoLite.run sym src_binder_bindheaders_results src_binder_bindheaders (single_start dst err) in
  events st' = [("b.bindData"%string, [dst; sym "c.Request().Header"%string; sym """header"""%string; sym "nil"%string])] /\
  ret = [if (err =? sym "nil"%string)%Z then sym "nil"%string else bad_request sym].
Proof. exact src_bind_headers_spec. Qed.
Print Assumptions C09_source_bind_headers.
