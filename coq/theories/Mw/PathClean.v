(* Executable lexical models of path.Clean / path.Join / fs.ValidPath and of the file-name computations
   of the Static middleware (middleware/static.go) and StaticDirectoryHandler (echo_fs.go).  (C16) *)
From Coq Require Import List Bool Ascii String Arith.
From Echo Require Import Base.Sx Net.Xff Mw.CorsProofs.
Import ListNotations.
Open Scope char_scope.

Definition slash : ascii := "/".
Definition dot : str := ["."].
Definition dotdot : str := ["."; "."].
Definition segs (s : str) : list str := split_on slash s [].

Definition trivial_seg (x : str) : bool := str_eqb x [] || str_eqb x dot.

(* path.Clean on segments; the stack is kept reversed (top first) *)
Definition step_seg (rooted : bool) (stack : list str) (x : str) : list str :=
  if trivial_seg x then stack
  else if str_eqb x dotdot then
    match stack with
    | top :: r => if str_eqb top dotdot then x :: stack else r
    | [] => if rooted then [] else [x]
    end
  else x :: stack.

Definition clean_elems (rooted : bool) (xs : list str) : list str := rev (fold_left (step_seg rooted) xs []).

Definition is_rooted (p : str) : bool := match p with c :: _ => Ascii.eqb c slash | [] => false end.

Definition render (rooted : bool) (es : list str) : str :=
  if rooted then slash :: join slash es
  else match es with [] => dot | _ => join slash es end.

(* path.Clean *)
Definition clean (p : str) : str :=
  match p with
  | [] => dot
  | _ => render (is_rooted p) (clean_elems (is_rooted p) (segs p))
  end.

(* path.Join(a, b) for non-empty a, b *)
Definition join2 (a b : str) : str := clean (a ++ slash :: b).

(* fs.ValidPath: "." or unrooted elements none of which is "", "." or ".." *)
Definition bad_elem (x : str) : bool := str_eqb x [] || str_eqb x dot || str_eqb x dotdot.
Definition valid_path (name : str) : bool :=
  str_eqb name dot || negb (existsb bad_elem (segs name)).

(* ---------- Static middleware: p is the (unescaped) request path or wildcard value *)
Definition mw_name (root p : str) : str := join2 root (clean (slash :: p)).

(* ---------- StaticDirectoryHandler: name = Clean(TrimPrefix(p, "/")) is handed to fs.Stat / Open of the
   fs.FS, whose contract (fs.ValidPath, enforced by os.DirFS, embed.FS, fs.Sub ...) rejects anything else *)
Definition trim_slash (p : str) : str := match p with c :: r => if Ascii.eqb c slash then r else p | [] => [] end.
Definition route_name (p : str) : str := clean (trim_slash p).
Definition route_served (p : str) : option str :=
  let name := route_name p in if valid_path name then Some name else None.
