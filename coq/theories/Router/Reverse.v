From Coq Require Import List Arith Bool Ascii String Lia.
Import ListNotations.
From Echo.Router Require Import Spec2 Sound.
Open Scope char_scope.

(* ---------- Router.Reverse vs the pattern scan of Router.insert (C20) ---------- *)
Definition bslash : ascii := "\".
Definition colon : ascii := ":".
Definition starc : ascii := "*".

Lemma drop_seg_length p : List.length (drop_seg p) <= List.length p.
Proof. induction p as [|c p IH]; simpl; [lia|]. destruct (Ascii.eqb c "/"); simpl; lia. Qed.

(* the scan of Router.insert: `\:` is a literal colon, `:name` runs to the next '/', '*' ends the pattern *)
Fixpoint parse_pat (fuel : nat) (p : str) : list tok :=
  match fuel with 0 => [] | S f =>
  match p with
  | [] => []
  | c :: r =>
    if Ascii.eqb c bslash then
      match r with
      | c2 :: r2 => if Ascii.eqb c2 colon then TLit colon :: parse_pat f r2 else TLit c :: parse_pat f r
      | [] => [TLit c]
      end
    else if Ascii.eqb c colon then TParam :: parse_pat f (drop_seg r)
    else if Ascii.eqb c starc then [TAny]
    else TLit c :: parse_pat f r
  end end.

(* the loop of Router.Reverse *)
Fixpoint reverse (fuel : nat) (p : str) (vs : list str) : str :=
  match fuel with 0 => [] | S f =>
  match p with
  | [] => []
  | c :: r =>
    if Ascii.eqb c bslash then
      match r with
      | c2 :: r2 => if Ascii.eqb c2 colon then colon :: reverse f r2 vs else c :: reverse f r vs
      | [] => [c]
      end
    else if Ascii.eqb c colon || Ascii.eqb c starc then
      match vs with
      | v :: vs' => v ++ reverse f (drop_seg r) vs'
      | [] => c :: reverse f r vs
      end
    else c :: reverse f r vs
  end end.

(* no text after '*' : the pattern scan stops at '*' only at the very end *)
Fixpoint star_last (fuel : nat) (p : str) : bool :=
  match fuel with 0 => true | S f =>
  match p with
  | [] => true
  | c :: r =>
    if Ascii.eqb c bslash then
      match r with
      | c2 :: r2 => if Ascii.eqb c2 colon then star_last f r2 else star_last f r
      | [] => true end
    else if Ascii.eqb c colon then star_last f (drop_seg r)
    else if Ascii.eqb c starc then match r with [] => true | _ => false end
    else star_last f r
  end end.

Definition arity (ts : list tok) : nat := List.length (filter (fun t => match t with TLit _ => false | _ => true end) ts).

Theorem C20_parsers_agree : forall f p vs,
  List.length p < f -> star_last f p = true -> List.length vs = arity (parse_pat f p) ->
  subst (parse_pat f p) vs = Some (reverse f p vs).
Proof.
  induction f as [|f IH]; intros p vs Hf Hs Ha; [lia|].
  destruct p as [|c r]; cbn [parse_pat reverse star_last] in *.
  - destruct vs; [reflexivity|discriminate].
  - simpl in Hf.
    destruct (Ascii.eqb c bslash) eqn:Eb.
    + destruct r as [|c2 r2].
      * simpl in *. destruct vs; [reflexivity|discriminate].
      * destruct (Ascii.eqb c2 colon) eqn:Ec.
        -- cbn [subst]. unfold arity in Ha. cbn [filter] in Ha. rewrite (IH r2 vs); auto; try (simpl in *; lia).
        -- cbn [subst]. unfold arity in Ha. cbn [filter] in Ha. rewrite (IH (c2 :: r2) vs); auto; try (simpl in *; lia).
    + destruct (Ascii.eqb c colon) eqn:Ec.
      * cbn [orb]. unfold arity in Ha. cbn [filter List.length] in Ha. destruct vs as [|v vs']; [discriminate|].
        cbn [subst]. rewrite (IH (drop_seg r) vs'); auto; try (pose proof (drop_seg_length r); simpl in *; lia).
      * cbn [orb]. destruct (Ascii.eqb c starc) eqn:Es.
        -- destruct r; [|discriminate]. unfold arity in Ha. simpl in Ha. destruct vs as [|v [|? ?]]; try discriminate.
           cbn [subst drop_seg]. destruct f; simpl; rewrite app_nil_r; reflexivity.
        -- cbn [subst]. unfold arity in Ha. cbn [filter] in Ha. rewrite (IH r vs); auto; try (simpl in *; lia).
Qed.
Print Assumptions C20_parsers_agree.
