#!/bin/bash
# usage: tools/tryseed.sh <patch> <prop> [more props...]  : applies patch to /repo, runs the checks, reverts
patch=$(realpath $1); shift
git -C /repo apply "$patch" || { echo "patch does not apply"; exit 2; }
for p in "$@"; do ./check $p 2>&1 | grep -E "^(VIOLATION|KNOWN|C[0-9]+ tier|  broken)" | cut -c1-300; done
git -C /repo checkout -- .
git -C /repo status --short
