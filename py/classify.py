"""Classifiers of known findings: pure functions over a failing case (input text, why)."""
import re


def matches(finding, case):
    f = CLASSIFIERS.get(finding.get("classifier"))
    if f is None:
        return False
    return f(finding, case)


def by_key(finding, case):
    """the generator tags the case with 'known:<classifier>' after checking the structural predicate itself"""
    return case.get("key", "") == "known:" + finding["classifier"]


CLASSIFIERS = {
    "router.colon_collision": by_key,
    "router.nf_wildcard_preempts": by_key,
    "router.nf_on_later_handler_node": by_key,
}
