#!/usr/bin/env python3
"""Runs every seeded change against the quick check of the property it breaks (and records the verdict in
seeded/<id>/meta.json and seeded/MATRIX.md).  /repo is restored after every run."""
import json, os, re, subprocess, sys
ROOT = os.path.dirname(os.path.dirname(os.path.abspath(__file__)))
REPO = os.environ.get("VERIF_REPO", "/repo")   # a snapshot when run through `vp run --with-repo`
rows = []
only = sys.argv[1] if len(sys.argv) > 1 else ""   # e.g. "efg": only the seeds with these letters (the table keeps the recorded verdicts of the others)
for sid in sorted(os.listdir(os.path.join(ROOT, "seeded"))):
    d = os.path.join(ROOT, "seeded", sid)
    if not os.path.isdir(d):
        continue
    if only and sid[-1] not in only:
        m0 = json.load(open(os.path.join(d, "meta.json")))
        db = m0.get("detected_by") or {}
        rows.append((sid, m0["breaks_property"], db.get("verdict", "not run"), db.get("first_failing_input", "")))
        continue
    meta = json.load(open(os.path.join(d, "meta.json")))
    prop = meta["breaks_property"]
    subprocess.run(["git", "-C", REPO, "checkout", "--", "."], check=True)
    ap = subprocess.run(["git", "-C", REPO, "apply", os.path.join(d, "patch.diff")])
    if ap.returncode != 0:
        rows.append((sid, prop, "patch no longer applies", ""))
        continue
    p = subprocess.run([os.path.join(ROOT, "check"), prop], cwd=ROOT, capture_output=True, text=True, timeout=1800)
    subprocess.run(["git", "-C", REPO, "checkout", "--", "."], check=True)
    viol = [l for l in p.stdout.splitlines() if l.startswith("VIOLATION")]
    why = ""
    rp = os.path.join(ROOT, "out", prop, "replay-1.json")
    if viol and os.path.exists(rp):
        r = json.load(open(rp))
        why = (r.get("why") or "; ".join(r.get("broken", [])))[:300]
    verdict = "not detected"
    if viol:
        # (a check may print two lines: the broken theorem without a failing input, and a failing input / schedule found by another stage)
        withinput = [v for v in viol if "no-failing-input-found" not in v]
        verdict = "detected, failing input replayed" if withinput else "detected (no-failing-input-found)"
        if withinput and withinput[0] is not viol[0]:
            m2 = re.search(r"replay=(\S+)", withinput[0])
            if m2 and os.path.exists(m2.group(1)):
                r2 = json.load(open(m2.group(1)))
                why = (r2.get("why") or why)[:300]
    if "first_try" not in meta and meta.get("detected_by") and sid[-1] in "klm":   # round 5 was run unbiased (tag pre-round5)
        meta["first_try"] = meta["detected_by"].get("verdict", "")   # the verdict before any machinery was changed in response
    meta["detected_by"] = {"check": "./check %s --tier quick" % prop, "verdict": verdict, "exit_code": p.returncode, "first_failing_input": why}
    json.dump(meta, open(os.path.join(d, "meta.json"), "w"), indent=1)
    rows.append((sid, prop, verdict, why))
    print(sid, verdict, flush=True)
with open(os.path.join(ROOT, "seeded", "MATRIX.md"), "w") as f:
    f.write("# Seeded changes vs checks (quick tier, seed 1)\n\n| seed | property | verdict | first failing input / what broke |\n|---|---|---|---|\n")
    for r in rows:
        f.write("| %s | %s | %s | %s |\n" % (r[0], r[1], r[2], r[3].replace("|", "\\|").replace("\n", " ")))
print("detected %d of %d" % (sum(1 for r in rows if r[2].startswith("detected")), len(rows)))
