From Coq Require Extraction.
From Coq Require Import ExtrOcamlBasic.
From Echo Require Import Glue.G16.
Extraction "extracted/m16.ml" G16.run_sx.
