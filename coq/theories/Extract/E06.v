From Coq Require Extraction.
From Coq Require Import ExtrOcamlBasic.
From Echo Require Import Glue.G06.
Extraction "extracted/m06.ml" G06.run_sx.
