(* Proofs of the short corollaries stated in Props/C08.v (kept out of the statement file). *)
From Coq Require Import List Bool ZArith String.
From Echo Require Import Base.Sx Bind.ParseNum Bind.ValueBinder Bind.ValueBinderProofs Bind.SplitProofs Gen.Src_binder.
Import ListNotations.
Open Scope Z_scope.

Lemma C08_scalar_no_wrap_l : forall orc name e v dest x, find_entry binder_scalars name = Some e -> int_fam e = true ->
  v <> [] -> scalar_call orc e v dest = (x, false) -> parse orc (fam e) (bits e) v = Some x.
Proof. intros orc name e v dest x F. apply scalar_exact. eapply find_entry_ok; [exact scalars_ok|exact F]. Qed.

Lemma C08_slice_no_wrap_l : forall orc name e vs xs, find_entry binder_slices name = Some e -> int_fam e = true ->
  fill orc e false vs = (xs, false) -> map (parse orc (fam e) (bits e)) vs = map Some xs.
Proof. intros orc name e vs xs F Hf. apply fill_exact; [eapply find_entry_ok; [exact slices_ok|exact F]|exact Hf]. Qed.

Lemma C08_oracle_scalar_exact_l : forall orc name e v dest x, find_entry binder_scalars name = Some e -> 2 <= fam e ->
  v <> [] -> scalar_call orc e v dest = (x, false) -> orc (fam e) (bits e) v = Some x.
Proof. intros orc name e v dest x F Hf. apply scalar_oracle; [|exact Hf].
  pose proof (find_entry_ok _ _ _ scalars_ok F) as Hok. unfold entry_ok in Hok.
  apply andb_true_iff in Hok as [Hok _]. apply andb_true_iff in Hok as [_ H3]. apply Z.ltb_lt in H3. exact H3. Qed.

Lemma C08_oracle_slice_exact_l : forall orc name e vs xs, find_entry binder_slices name = Some e -> 2 <= fam e ->
  fill orc e false vs = (xs, false) -> map (orc (fam e) (bits e)) vs = map Some xs.
Proof. intros orc name e vs xs F Hf. apply fill_oracle; [|exact Hf].
  pose proof (find_entry_ok _ _ _ slices_ok F) as Hok. unfold entry_ok in Hok.
  apply andb_true_iff in Hok as [Hok _]. apply andb_true_iff in Hok as [_ H3]. apply Z.ltb_lt in H3. exact H3. Qed.

