From Coq Require Import List Arith Bool Ascii String Lia Permutation.
Import ListNotations.
From Echo.Router Require Import Spec2 Fuel Refine Insert.
Open Scope char_scope.

(* ---------- strings vs tokens ---------- *)
Definition special (c : ascii) : bool := Ascii.eqb c colon || Ascii.eqb c star.
Definition cleanstr (s : str) : Prop := Forall (fun c => special c = false) s.
Definition dec_tok (c : ascii) : tok := if Ascii.eqb c colon then TParam else if Ascii.eqb c star then TAny else TLit c.
Definition dec (s : str) : list tok := map dec_tok s.

Lemma dec_clean s : cleanstr s -> dec s = map TLit s.
Proof. induction 1 as [|c s Hc _ IH]; [reflexivity|]. simpl. rewrite IH. f_equal.
  unfold dec_tok, special in *. apply orb_false_iff in Hc. destruct Hc as [-> ->]. reflexivity. Qed.
Lemma dec_app a b : dec (a ++ b) = dec a ++ dec b. Proof. apply map_app. Qed.
Lemma dec_colon : dec [colon] = [TParam]. Proof. reflexivity. Qed.
Lemma dec_star : dec [star] = [TAny]. Proof. reflexivity. Qed.

Lemma clean_app a b : cleanstr (a ++ b) <-> cleanstr a /\ cleanstr b.
Proof. apply Forall_app. Qed.
Lemma clean_firstn l s : cleanstr s -> cleanstr (firstn l s).
Proof. intros H. rewrite <- (firstn_skipn l s) in H. apply clean_app in H. tauto. Qed.
Lemma clean_skipn l s : cleanstr s -> cleanstr (skipn l s).
Proof. intros H. rewrite <- (firstn_skipn l s) in H. apply clean_app in H. tauto. Qed.

(* ---------- lcp facts ---------- *)
Lemma lcp_le_l a b : lcp a b <= List.length a.
Proof. revert b. induction a as [|x a IH]; intros [|y b]; simpl; try lia. destruct (Ascii.eqb x y); [specialize (IH b)|]; lia. Qed.
Lemma lcp_le_r a b : lcp a b <= List.length b.
Proof. revert b. induction a as [|x a IH]; intros [|y b]; simpl; try lia. destruct (Ascii.eqb x y); [specialize (IH b)|]; lia. Qed.
Lemma lcp_firstn a b : firstn (lcp a b) a = firstn (lcp a b) b.
Proof. revert b. induction a as [|x a IH]; intros [|y b]; simpl; try reflexivity.
  destruct (Ascii.eqb x y) eqn:E; [|reflexivity]. apply Ascii.eqb_eq in E. subst. simpl. f_equal. apply IH. Qed.
Lemma lcp_next a b x y ra rb : skipn (lcp a b) a = x :: ra -> skipn (lcp a b) b = y :: rb -> x <> y.
Proof. revert b. induction a as [|c a IH]; intros [|d b]; simpl; try discriminate.
  destruct (Ascii.eqb c d) eqn:E.
  - simpl. apply IH.
  - simpl. intros H1 H2. inversion H1; inversion H2; subst. intro. subst. rewrite Ascii.eqb_refl in E. discriminate. Qed.
Lemma lcp_pos a b : 0 < lcp a b -> exists c a' b', a = c :: a' /\ b = c :: b'.
Proof. destruct a as [|x a], b as [|y b]; simpl; try lia. destruct (Ascii.eqb x y) eqn:E; [|lia].
  apply Ascii.eqb_eq in E. subst. eauto. Qed.

(* ---------- structural well-formedness (no liveness) ---------- *)
Inductive WF0 : node -> Prop :=
| WF0_intro : forall k pfx ms nf st pc ac,
    pfx <> [] ->
    (k = KS -> cleanstr pfx) -> (k = KP -> pfx = [colon]) -> (k = KA -> pfx = [star] /\ st = [] /\ pc = None /\ ac = None) ->
    NoDup (map fst ms) -> ~ In NF (map fst ms) ->
    Forall (fun ch => WF0 ch /\ n_kind ch = KS) st ->
    NoDup (map label st) ->
    (forall ch, pc = Some ch -> WF0 ch /\ n_kind ch = KP) ->
    (forall ch, ac = Some ch -> WF0 ch /\ n_kind ch = KA) ->
    WF0 (Node k pfx ms nf st pc ac).

Lemma WF0_edge n : WF0 n -> edge n = dec (n_pfx n).
Proof. inversion 1 as [k pfx ms nf st pc ac Hp Hs Hpm Ha]; subst. unfold edge. simpl. destruct k.
  - rewrite dec_clean; auto.
  - rewrite Hpm; auto.
  - destruct Ha as [-> _]; auto. Qed.

(* den_node ignores kind and prefix of the node itself *)
Lemma den_node_set_pfx pre p n : den_node pre (set_pfx p n) = den_node pre n.
Proof. destruct n; reflexivity. Qed.
Lemma den_node_set_kind pre k n : den_node pre (set_kind k n) = den_node pre n.
Proof. destruct n; reflexivity. Qed.

Lemma prepend_prepend a b (ls : live) : map (prepend a) (map (prepend b) ls) = map (prepend (a ++ b)) ls.
Proof. rewrite map_map. apply map_ext. intros [r x]. unfold prepend. simpl. rewrite app_assoc. reflexivity. Qed.

(* ---------- payload ---------- *)
Definition fresh_at (n : node) (m : str) : Prop :=
  if str_eqb m NF then n_nf n = None else ~ In m (map fst (n_ms n)).

Lemma set_ms_fresh m rm ms : ~ In m (map fst ms) -> set_ms m rm ms = ms ++ [(m, rm)].
Proof. induction ms as [|[k v] ms IH]; simpl; intros H; [reflexivity|].
  unfold str_eqb. destruct (str_dec k m) as [->|Hne]; [exfalso; apply H; auto|].
  rewrite IH; auto. Qed.

Lemma str_eqb_true a b : str_eqb a b = true <-> a = b.
Proof. unfold str_eqb. destruct (str_dec a b); split; congruence. Qed.
Lemma str_eqb_false a b : str_eqb a b = false <-> a <> b.
Proof. unfold str_eqb. destruct (str_dec a b); split; congruence. Qed.

Definition new_entry (m : str) (rm : rmeth) (key rem : list tok) : lentry := (mk_route m key rm, rem).

Lemma den_node_add_payload pre n m rm : fresh_at n m ->
  Permutation (den_node pre (add_payload n (Some (m, rm)))) (new_entry m rm pre [] :: den_node pre n).
Proof.
  intros Hf. rewrite !den_node_eq. destruct n as [k pfx ms nf st pc ac]. unfold fresh_at in Hf. cbn [add_payload n_nf n_ms] in *.
  destruct (str_eqb m NF) eqn:E.
  - cbn [own n_ms n_nf n_st n_pc n_ac]. subst nf. apply str_eqb_true in E. subst m.
    unfold own, own_routes. cbn [n_ms n_nf]. rewrite !map_app. cbn [map]. rewrite app_nil_r.
    rewrite <- !app_assoc. cbn [app].
    apply Permutation_sym. apply Permutation_cons_app. reflexivity.
  - cbn [n_ms n_nf n_st n_pc n_ac]. unfold own, own_routes. cbn [n_ms n_nf]. rewrite (set_ms_fresh m rm ms Hf).
    rewrite !map_app. cbn [map]. rewrite <- !app_assoc. cbn [app].
    apply Permutation_sym. apply Permutation_cons_app. reflexivity.
Qed.

Lemma add_payload_none n : add_payload n None = n. Proof. reflexivity. Qed.

Lemma n_pfx_add_payload n pl : n_pfx (add_payload n pl) = n_pfx n.
Proof. destruct pl as [[m rm]|]; [|reflexivity]. destruct n. simpl. destruct (str_eqb m NF); reflexivity. Qed.
Lemma n_kind_add_payload n pl : n_kind (add_payload n pl) = n_kind n.
Proof. destruct pl as [[m rm]|]; [|reflexivity]. destruct n. simpl. destruct (str_eqb m NF); reflexivity. Qed.
Lemma n_st_add_payload n pl : n_st (add_payload n pl) = n_st n.
Proof. destruct pl as [[m rm]|]; [|reflexivity]. destruct n. simpl. destruct (str_eqb m NF); reflexivity. Qed.
Lemma n_pc_add_payload n pl : n_pc (add_payload n pl) = n_pc n.
Proof. destruct pl as [[m rm]|]; [|reflexivity]. destruct n. simpl. destruct (str_eqb m NF); reflexivity. Qed.
Lemma n_ac_add_payload n pl : n_ac (add_payload n pl) = n_ac n.
Proof. destruct pl as [[m rm]|]; [|reflexivity]. destruct n. simpl. destruct (str_eqb m NF); reflexivity. Qed.

Lemma set_ms_keys m rm ms : ~ In m (map fst ms) -> map fst (set_ms m rm ms) = map fst ms ++ [m].
Proof. intros H. rewrite set_ms_fresh by assumption. rewrite map_app. reflexivity. Qed.

Definition pl_ok (pl : payload) : Prop := match pl with Some (m, _) => True | None => True end.

Lemma WF0_add_payload n pl :
  WF0 n -> (forall m rm, pl = Some (m, rm) -> fresh_at n m) -> WF0 (add_payload n pl).
Proof.
  intros H Hf. destruct pl as [[m rm]|]; [|exact H]. specialize (Hf m rm eq_refl).
  inversion H as [k pfx ms nf st pc ac H1 H2 H3 H4 H5 H6 H7 H8 H9 H10]; subst.
  unfold fresh_at in Hf. cbn [add_payload n_nf n_ms] in *.
  destruct (str_eqb m NF) eqn:E.
  - constructor; auto.
  - constructor; auto.
    + rewrite set_ms_keys by assumption.
      apply (Permutation_NoDup (l := m :: map fst ms)); [apply Permutation_cons_append|]. constructor; auto.
    + rewrite set_ms_keys by assumption. intro Hin. apply in_app_or in Hin. destruct Hin as [Hin|[Hin|[]]]; [auto|].
      apply str_eqb_false in E. congruence.
Qed.

(* ---------- list helpers ---------- *)
Lemma upd_first_split (p : node -> bool) g l ch :
  List.find p l = Some ch ->
  exists l1 l2, l = l1 ++ ch :: l2 /\ Forall (fun x => p x = false) l1 /\ upd_first p g l = l1 ++ g ch :: l2.
Proof.
  induction l as [|x l IH]; simpl; [discriminate|]. destruct (p x) eqn:E.
  - intros H. inversion H; subst. exists [], l. repeat split; auto.
  - intros H. destruct (IH H) as [l1 [l2 [-> [HF HU]]]]. exists (x :: l1), l2. repeat split; auto.
    simpl. rewrite HU. reflexivity.
Qed.

Lemma find_existsb {A} (p : A -> bool) l x : List.find p l = Some x -> existsb p l = true.
Proof. intros H. apply find_some in H. apply existsb_exists. exists x. exact H. Qed.
Lemma existsb_false_find {A} (p : A -> bool) l : existsb p l = false -> List.find p l = None.
Proof. intros H. destruct (List.find p l) eqn:E; [|reflexivity]. apply find_existsb in E. congruence. Qed.

(* ---------- admissible insertion calls ---------- *)
Definition newpfx_ok (t : kind) (s : str) : Prop :=
  match t with KS => cleanstr s | KP => s = [colon] | KA => s = [star] end.

Inductive InsOK : node -> str -> kind -> Prop :=
| IO_split_here : forall n s t,
    0 < lcp s (n_pfx n) -> lcp s (n_pfx n) < List.length (n_pfx n) -> lcp s (n_pfx n) = List.length s ->
    t = KS -> n_kind n = KS -> InsOK n s t
| IO_split_new : forall n s t,
    0 < lcp s (n_pfx n) -> lcp s (n_pfx n) < List.length (n_pfx n) -> lcp s (n_pfx n) < List.length s ->
    t = KS -> n_kind n = KS -> cleanstr (skipn (lcp s (n_pfx n)) s) -> InsOK n s t
| IO_desc_st : forall n s t c rest ch,
    0 < lcp s (n_pfx n) -> lcp s (n_pfx n) = List.length (n_pfx n) ->
    skipn (lcp s (n_pfx n)) s = c :: rest ->
    List.find (has_label c) (n_st n) = Some ch -> InsOK ch (c :: rest) t -> InsOK n s t
| IO_desc_pc : forall n s t rest ch,
    0 < lcp s (n_pfx n) -> lcp s (n_pfx n) = List.length (n_pfx n) ->
    skipn (lcp s (n_pfx n)) s = colon :: rest ->
    existsb (has_label colon) (n_st n) = false -> n_pc n = Some ch -> InsOK ch (colon :: rest) t -> InsOK n s t
| IO_desc_ac : forall n s t rest ch,
    0 < lcp s (n_pfx n) -> lcp s (n_pfx n) = List.length (n_pfx n) ->
    skipn (lcp s (n_pfx n)) s = star :: rest ->
    existsb (has_label star) (n_st n) = false -> n_ac n = Some ch -> InsOK ch (star :: rest) t -> InsOK n s t
| IO_new : forall n s t c rest,
    0 < lcp s (n_pfx n) -> lcp s (n_pfx n) = List.length (n_pfx n) ->
    skipn (lcp s (n_pfx n)) s = c :: rest ->
    existsb (has_label c) (n_st n) = false ->
    (c = colon -> n_pc n = None) -> (c = star -> n_ac n = None) ->
    newpfx_ok t (c :: rest) -> n_kind n <> KA -> InsOK n s t
| IO_here : forall n s t,
    0 < lcp s (n_pfx n) -> lcp s (n_pfx n) = List.length (n_pfx n) -> lcp s (n_pfx n) = List.length s ->
    InsOK n s t.

Definition added (pl : payload) (pre : list tok) (s : str) (ls : live) : live :=
  match pl with Some (m, rm) => new_entry m rm (pre ++ dec s) (dec s) :: ls | None => ls end.

Definition fresh_in (pl : payload) (key : list tok) (ls : live) : Prop :=
  forall m rm, pl = Some (m, rm) -> forall x, In x ls -> ~ (r_method (fst x) = m /\ r_toks (fst x) = key).

(* one-step unfolding of insert_node *)
Lemma insert_node_S f n s t pl :
  insert_node (S f) n s t pl =
  let pfx := n_pfx n in
  let l := lcp s pfx in
  if Nat.eqb l 0 then add_payload (set_pfx s (match pl with Some _ => set_kind t n | None => n end)) pl
  else if Nat.ltb l (List.length pfx) then
    let child := set_pfx (skipn l pfx) n in
    let parent := Node KS (firstn l pfx) [] None [child] None None in
    if Nat.eqb l (List.length s) then add_payload (set_kind t parent) pl
    else set_st [child; add_payload (leaf_node t (skipn l s)) pl] parent
  else if Nat.ltb l (List.length s) then
    let s' := skipn l s in
    match s' with
    | [] => n
    | c :: _ =>
      if existsb (has_label c) (n_st n) then
        set_st (upd_first (has_label c) (fun x => insert_node f x s' t pl) (n_st n)) n
      else
        match (if Ascii.eqb c colon then n_pc n else if Ascii.eqb c star then n_ac n else None) with
        | Some ch =>
          if Ascii.eqb c colon then set_pc (Some (insert_node f ch s' t pl)) n
          else set_ac (Some (insert_node f ch s' t pl)) n
        | None =>
          let nn := add_payload (leaf_node t s') pl in
          match t with
          | KS => set_st (n_st n ++ [nn]) n
          | KP => set_pc (Some nn) n
          | KA => set_ac (Some nn) n
          end
        end
    end
  else add_payload n pl.
Proof. reflexivity. Qed.

(* ---------- effect of one insertNode call ---------- *)
Definition Eff (pre : list tok) (n : node) (s : str) (pl : payload) (n' : node) : Prop :=
  WF0 n' /\ label n' = label n /\ n_kind n' = n_kind n /\
  Permutation (den_edge pre n') (added pl pre s (den_edge pre n)).

Lemma lcp_full s p : lcp s p = List.length s -> lcp s p = List.length p -> s = p.
Proof. revert p. induction s as [|x s IH]; intros [|y p]; simpl; try discriminate; auto.
  destruct (Ascii.eqb x y) eqn:E; [|discriminate]. intros H1 H2. apply Ascii.eqb_eq in E. subst.
  f_equal. apply IH; lia. Qed.

Lemma edge_add_payload n pl : edge (add_payload n pl) = edge n.
Proof. unfold edge. rewrite n_kind_add_payload, n_pfx_add_payload. reflexivity. Qed.

Lemma label_add_payload n pl : label (add_payload n pl) = label n.
Proof. unfold label. rewrite n_pfx_add_payload. reflexivity. Qed.

Lemma in_own_den pre n x : In x (own pre n) -> In x (den_node pre n).
Proof. rewrite den_node_eq. intros. apply in_or_app. auto. Qed.

Lemma fresh_at_of_fresh_in pre n m rm :
  fresh_in (Some (m, rm)) (pre ++ edge n) (den_edge pre n) -> fresh_at n m.
Proof.
  intros Hf. unfold fresh_at. unfold fresh_in in Hf. specialize (Hf m rm eq_refl).
  destruct (str_eqb m NF) eqn:E.
  - apply str_eqb_true in E. subst m. destruct (n_nf n) as [rm'|] eqn:En; [|reflexivity]. exfalso.
    apply (Hf (prepend (edge n) (mk_route NF (pre ++ edge n) rm', []))); [|split; reflexivity].
    unfold den_edge. apply in_map. apply in_own_den. unfold own, own_routes. rewrite En.
    apply (in_map (fun r : route => (r, @nil tok))).
    apply in_or_app. right. left. reflexivity.
  - intros Hin. apply in_map_iff in Hin. destruct Hin as [[k rm'] [Hk Hin]]. simpl in Hk. subst k.
    apply (Hf (prepend (edge n) (mk_route m (pre ++ edge n) rm', []))); [|split; reflexivity].
    unfold den_edge. apply in_map. apply in_own_den. unfold own, own_routes.
    apply (in_map (fun r : route => (r, @nil tok))).
    apply in_or_app. left. apply in_map_iff. exists (m, rm'). split; auto.
Qed.

Lemma eff_here pre n s pl :
  WF0 n -> s = n_pfx n -> fresh_in pl (pre ++ dec s) (den_edge pre n) ->
  Eff pre n s pl (add_payload n pl).
Proof.
  intros Hwf -> Hfr. rewrite <- (WF0_edge n Hwf) in *.
  unfold Eff. rewrite label_add_payload, n_kind_add_payload. repeat split; auto.
  - apply WF0_add_payload; auto. intros m rm ->. eapply fresh_at_of_fresh_in; eauto.
  - destruct pl as [[m rm]|]; [|reflexivity]. unfold added, den_edge. rewrite edge_add_payload.
    rewrite (WF0_edge n Hwf) at 3 4. rewrite <- (WF0_edge n Hwf).
    pose proof (den_node_add_payload (pre ++ edge n) n m rm (fresh_at_of_fresh_in _ _ _ _ Hfr)) as HP.
    apply (Permutation_map (prepend (edge n))) in HP. cbn [map] in HP.
    unfold prepend at 2 in HP. unfold new_entry in *. cbn [fst snd] in HP. rewrite app_nil_r in HP. exact HP.
Qed.

(* ---------- new leaf ---------- *)
Lemma WF0_leaf t s : newpfx_ok t s -> s <> [] -> WF0 (leaf_node t s).
Proof. intros Hn Hs. unfold leaf_node. constructor; auto; simpl; try tauto.
  - intros ->. exact Hn.
  - intros ->. exact Hn.
  - intros ->. repeat split; auto.
  - constructor.
  - constructor.
  - discriminate.
  - discriminate. Qed.

Lemma fresh_at_leaf t s m : fresh_at (leaf_node t s) m.
Proof. unfold fresh_at, leaf_node. simpl. destruct (str_eqb m NF); auto. Qed.

Lemma den_node_leaf P t s : den_node P (leaf_node t s) = [].
Proof. reflexivity. Qed.

Lemma edge_leaf t s : newpfx_ok t s -> edge (leaf_node t s) = dec s.
Proof. unfold edge, leaf_node. simpl. destruct t; simpl; intros H.
  - rewrite dec_clean; auto.
  - rewrite H. reflexivity.
  - rewrite H. reflexivity. Qed.

Lemma den_edge_newleaf P t s pl : newpfx_ok t s ->
  Permutation (den_edge P (add_payload (leaf_node t s) pl))
              (match pl with Some (m, rm) => [new_entry m rm (P ++ dec s) (dec s)] | None => [] end).
Proof.
  intros Hn. unfold den_edge. rewrite edge_add_payload, (edge_leaf t s Hn).
  destruct pl as [[m rm]|]; [|reflexivity].
  pose proof (den_node_add_payload (P ++ dec s) (leaf_node t s) m rm (fresh_at_leaf t s m)) as HP.
  rewrite den_node_leaf in HP. apply (Permutation_map (prepend (dec s))) in HP. cbn [map] in HP.
  unfold prepend, new_entry in *. cbn [fst snd] in HP. rewrite app_nil_r in HP. exact HP.
Qed.

Lemma kind_newleaf t s pl : n_kind (add_payload (leaf_node t s) pl) = t.
Proof. rewrite n_kind_add_payload. reflexivity. Qed.
Lemma label_newleaf t c rest pl : label (add_payload (leaf_node t (c :: rest)) pl) = Some c.
Proof. rewrite label_add_payload. reflexivity. Qed.
Lemma WF0_newleaf t s pl : newpfx_ok t s -> s <> [] -> WF0 (add_payload (leaf_node t s) pl).
Proof. intros. apply WF0_add_payload; [apply WF0_leaf; auto|]. intros. apply fresh_at_leaf. Qed.

(* accessors after setters *)
Lemma den_edge_split_eq pre n : den_edge pre n = map (prepend (edge n)) (den_node (pre ++ edge n) n).
Proof. reflexivity. Qed.

Lemma has_label_false_notin c st : existsb (has_label c) st = false -> ~ In (Some c) (map label st).
Proof. intros H Hin. apply in_map_iff in Hin. destruct Hin as [x [Hl Hx]].
  assert (existsb (has_label c) st = true); [|congruence].
  apply existsb_exists. exists x. split; auto. unfold has_label. rewrite Hl. apply Ascii.eqb_refl. Qed.

Lemma skipn_lcp_full s p : lcp s p = List.length p -> s = p ++ skipn (lcp s p) s.
Proof. intros H. rewrite <- (firstn_skipn (lcp s p) s) at 1. f_equal. rewrite lcp_firstn, H. apply firstn_all. Qed.

Lemma perm_mid {A} (a b x c : list A) : Permutation (a ++ (b ++ x) ++ c) ((a ++ b ++ c) ++ x).
Proof. rewrite <- !app_assoc. apply Permutation_app_head. apply Permutation_app_head. apply Permutation_app_comm. Qed.

Lemma den_add_static P n nn :
  Permutation (den_node P (set_st (n_st n ++ [nn]) n)) (den_node P n ++ den_edge P nn).
Proof. rewrite !den_node_eq. destruct n as [k pfx ms nf st pc ac]. cbn [set_st n_st n_pc n_ac own n_ms n_nf].
  rewrite flat_map_app. cbn [flat_map]. rewrite app_nil_r. apply perm_mid. Qed.

Lemma perm_mid2 {A} (a b x c : list A) : Permutation (a ++ b ++ x ++ c) ((a ++ b ++ c) ++ x).
Proof. rewrite <- !app_assoc. do 2 apply Permutation_app_head. apply Permutation_app_comm. Qed.

Lemma den_add_pc P n nn : n_pc n = None ->
  Permutation (den_node P (set_pc (Some nn) n)) (den_node P n ++ den_edge P nn).
Proof. rewrite !den_node_eq. destruct n as [k pfx ms nf st pc ac]. cbn [set_pc n_st n_pc n_ac]. intros ->.
  unfold own. cbn [n_ms n_nf opt_list flat_map]. rewrite !app_nil_r. cbn [app]. apply perm_mid2. Qed.

Lemma den_add_ac P n nn : n_ac n = None ->
  Permutation (den_node P (set_ac (Some nn) n)) (den_node P n ++ den_edge P nn).
Proof. rewrite !den_node_eq. destruct n as [k pfx ms nf st pc ac]. cbn [set_ac n_st n_pc n_ac]. intros ->.
  unfold own. cbn [n_ms n_nf opt_list flat_map]. rewrite !app_nil_r. rewrite !app_assoc. reflexivity. Qed.

Lemma added_app pl pre s ls : Permutation (added pl pre s ls) (ls ++ added pl pre s []).
Proof. destruct pl as [[m rm]|]; cbn [added]; [apply Permutation_cons_append | rewrite app_nil_r; reflexivity]. Qed.

Lemma edge_set_st l n : edge (set_st l n) = edge n. Proof. destruct n; reflexivity. Qed.
Lemma edge_set_pc o n : edge (set_pc o n) = edge n. Proof. destruct n; reflexivity. Qed.
Lemma edge_set_ac o n : edge (set_ac o n) = edge n. Proof. destruct n; reflexivity. Qed.
Lemma label_set_st l n : label (set_st l n) = label n. Proof. destruct n; reflexivity. Qed.
Lemma label_set_pc o n : label (set_pc o n) = label n. Proof. destruct n; reflexivity. Qed.
Lemma label_set_ac o n : label (set_ac o n) = label n. Proof. destruct n; reflexivity. Qed.
Lemma kind_set_st l n : n_kind (set_st l n) = n_kind n. Proof. destruct n; reflexivity. Qed.
Lemma kind_set_pc o n : n_kind (set_pc o n) = n_kind n. Proof. destruct n; reflexivity. Qed.
Lemma kind_set_ac o n : n_kind (set_ac o n) = n_kind n. Proof. destruct n; reflexivity. Qed.

(* generic: if den_node of the modified node is den_node of the old one plus the edge-denotation of a new child
   whose own denotation is the added entry, the effect on den_edge is `added` *)
Lemma eff_den_child pre n n' nn s pl :
  edge n' = edge n -> dec s = edge n ++ edge nn ->
  Permutation (den_node (pre ++ edge n) n') (den_node (pre ++ edge n) n ++ den_edge (pre ++ edge n) nn) ->
  Permutation (den_edge (pre ++ edge n) nn)
              (match pl with Some (m, rm) => [new_entry m rm ((pre ++ edge n) ++ edge nn) (edge nn)] | None => [] end) ->
  Permutation (den_edge pre n') (added pl pre s (den_edge pre n)).
Proof.
  intros He Hd HP Hnn. rewrite !den_edge_split_eq, He.
  eapply perm_trans; [apply Permutation_map; exact HP|]. rewrite map_app.
  eapply perm_trans; [|apply Permutation_sym; apply added_app].
  apply Permutation_app_head.
  eapply perm_trans; [apply Permutation_map; exact Hnn|].
  destruct pl as [[m rm]|]; [|reflexivity]. cbn [map added]. unfold prepend, new_entry. cbn [fst snd].
  rewrite Hd, <- !app_assoc. reflexivity.
Qed.

Lemma eff_new pre n s t c rest pl :
  WF0 n -> 0 < lcp s (n_pfx n) -> lcp s (n_pfx n) = List.length (n_pfx n) ->
  skipn (lcp s (n_pfx n)) s = c :: rest ->
  existsb (has_label c) (n_st n) = false ->
  (c = colon -> n_pc n = None) -> (c = star -> n_ac n = None) ->
  newpfx_ok t (c :: rest) -> n_kind n <> KA ->
  let nn := add_payload (leaf_node t (c :: rest)) pl in
  Eff pre n s pl (match t with KS => set_st (n_st n ++ [nn]) n | KP => set_pc (Some nn) n | KA => set_ac (Some nn) n end).
Proof.
  intros Hwf Hpos Hl Hs Hex Hpc Hac Hnew Hka nn.
  assert (Es : s = n_pfx n ++ c :: rest) by (rewrite <- Hs; apply skipn_lcp_full; exact Hl).
  pose proof (WF0_newleaf t (c :: rest) pl Hnew ltac:(discriminate)) as Hwnn.
  assert (Henn : edge nn = dec (c :: rest)) by (unfold nn; rewrite edge_add_payload; apply edge_leaf; exact Hnew).
  assert (Ed : dec s = edge n ++ edge nn) by (rewrite Henn, (WF0_edge n Hwf), <- dec_app, <- Es; reflexivity).
  pose proof (den_edge_newleaf (pre ++ edge n) t (c :: rest) pl Hnew) as Hdnn. fold nn in Hwnn, Hdnn.
  rewrite <- Henn in Hdnn.
  assert (Hknn : n_kind nn = t) by apply kind_newleaf.
  assert (Hlnn : label nn = Some c) by apply label_newleaf.
  unfold Eff. destruct t.
  - rewrite label_set_st, kind_set_st. repeat split; auto.
    + inversion Hwf as [k pfx ms nf st pc ac H1 H2 H3 H4 H5 H6 H7 H8 H9 H10]; subst n.
      cbn [n_st n_pc n_ac n_kind n_pfx set_st] in *. constructor; auto.
      * intros ->. congruence.
      * apply Forall_app. split; auto.
      * rewrite map_app. cbn [map]. rewrite Hlnn.
        apply (Permutation_NoDup (l := Some c :: map label st)); [apply Permutation_cons_append|].
        constructor; auto. apply has_label_false_notin. exact Hex.
    + eapply eff_den_child; eauto using edge_set_st, den_add_static.
  - assert (Ec : c = colon) by (simpl in Hnew; congruence).
    rewrite label_set_pc, kind_set_pc. repeat split; auto.
    + inversion Hwf as [k pfx ms nf st pc ac H1 H2 H3 H4 H5 H6 H7 H8 H9 H10]; subst n.
      cbn [n_st n_pc n_ac n_kind n_pfx set_pc] in *. constructor; auto.
      * intros ->. congruence.
      * intros ch E. inversion E; subst. auto.
    + eapply eff_den_child; eauto using edge_set_pc, den_add_pc.
  - assert (Ec : c = star) by (simpl in Hnew; congruence).
    rewrite label_set_ac, kind_set_ac. repeat split; auto.
    + inversion Hwf as [k pfx ms nf st pc ac H1 H2 H3 H4 H5 H6 H7 H8 H9 H10]; subst n.
      cbn [n_st n_pc n_ac n_kind n_pfx set_ac] in *. constructor; auto.
      * intros ->. congruence.
      * intros ch E. inversion E; subst. auto.
    + eapply eff_den_child; eauto using edge_set_ac, den_add_ac.
Qed.

(* ---------- split ---------- *)
Definition split_node (n : node) (l : nat) : node :=
  Node KS (firstn l (n_pfx n)) [] None [set_pfx (skipn l (n_pfx n)) n] None None.

Lemma firstn_nonempty {A} l (p : list A) : 0 < l -> p <> [] -> firstn l p <> [].
Proof. destruct l, p; simpl; try lia; congruence. Qed.
Lemma skipn_nonempty {A} l (p : list A) : l < List.length p -> skipn l p <> [].
Proof. revert p. induction l; intros [|x p]; simpl; try lia; try congruence. intros. apply IHl. lia. Qed.
Lemma hd_firstn {A} l (p : list A) : 0 < l -> hd_error (firstn l p) = hd_error p.
Proof. destruct l, p; simpl; try lia; reflexivity. Qed.

Lemma WF0_set_pfx_static n p : WF0 n -> n_kind n = KS -> p <> [] -> cleanstr p -> WF0 (set_pfx p n).
Proof. intros H Hk Hp Hc. inversion H as [k pfx ms nf st pc ac H1 H2 H3 H4 H5 H6 H7 H8 H9 H10]; subst. simpl in Hk. subst k.
  simpl. constructor; auto; discriminate. Qed.

Lemma WF0_clean_pfx n : WF0 n -> n_kind n = KS -> cleanstr (n_pfx n).
Proof. inversion 1; subst; simpl; auto. Qed.

Lemma split_facts pre n l : WF0 n -> n_kind n = KS -> 0 < l -> l < List.length (n_pfx n) ->
  WF0 (split_node n l) /\ den_edge pre (split_node n l) = den_edge pre n /\ label (split_node n l) = label n.
Proof.
  intros Hwf Hk Hl1 Hl2. pose proof (WF0_clean_pfx n Hwf Hk) as Hc. pose proof (WF0_pfx0 := Hwf).
  assert (Hp : n_pfx n <> []) by (inversion Hwf; subst; simpl; auto).
  split; [|split].
  - unfold split_node. constructor.
    + apply firstn_nonempty; auto.
    + intros _. apply clean_firstn. exact Hc.
    + discriminate.
    + discriminate.
    + constructor.
    + intros [].
    + constructor; [|constructor]. split.
      * apply WF0_set_pfx_static; auto. { apply skipn_nonempty; auto. } apply clean_skipn; exact Hc.
      * destruct n; simpl in *; exact Hk.
    + simpl. constructor; [intros []|constructor].
    + discriminate.
    + discriminate.
  - unfold den_edge at 1. unfold split_node. unfold edge at 1 2. cbn [n_kind n_pfx].
    rewrite den_node_eq. unfold own. cbn [n_st n_pc n_ac n_ms n_nf opt_list flat_map own_routes map app]. rewrite !app_nil_r.
    unfold den_edge at 1. rewrite den_node_set_pfx.
    assert (Ee : edge (set_pfx (skipn l (n_pfx n)) n) = map TLit (skipn l (n_pfx n))).
    { unfold edge. destruct n; simpl in *. subst. reflexivity. }
    rewrite Ee, prepend_prepend, <- app_assoc, <- !map_app, firstn_skipn.
    unfold den_edge, edge. rewrite Hk. reflexivity.
  - unfold label, split_node. cbn [n_pfx]. apply hd_firstn. exact Hl1.
Qed.

Lemma lcp_firstn_self s p : lcp s (firstn (lcp s p) p) = lcp s p.
Proof. revert p. induction s as [|x s IH]; intros [|y p]; simpl; try reflexivity.
  destruct (Ascii.eqb x y) eqn:E; simpl; [|reflexivity]. rewrite E. f_equal. apply IH. Qed.

Lemma firstn_length_lcp s p : List.length (firstn (lcp s p) p) = lcp s p.
Proof. rewrite firstn_length. pose proof (lcp_le_r s p). lia. Qed.

Lemma eff_transfer pre n n0 s pl n' :
  den_edge pre n0 = den_edge pre n -> label n0 = label n -> n_kind n0 = n_kind n ->
  Eff pre n0 s pl n' -> Eff pre n s pl n'.
Proof. unfold Eff. intros Hd Hl Hk [H1 [H2 [H3 H4]]]. rewrite <- Hd, <- Hl, <- Hk. auto. Qed.

Lemma eff_split_here pre n s pl :
  WF0 n -> n_kind n = KS ->
  0 < lcp s (n_pfx n) -> lcp s (n_pfx n) < List.length (n_pfx n) -> lcp s (n_pfx n) = List.length s ->
  fresh_in pl (pre ++ dec s) (den_edge pre n) ->
  Eff pre n s pl (add_payload (set_kind KS (split_node n (lcp s (n_pfx n)))) pl).
Proof.
  intros Hwf Hk H1 H2 H3 Hfr.
  destruct (split_facts pre n (lcp s (n_pfx n)) Hwf Hk H1 H2) as [Hw [Hd Hl]].
  apply (eff_transfer pre n (split_node n (lcp s (n_pfx n)))); [exact Hd | exact Hl | simpl; symmetry; exact Hk | ].
  replace (set_kind KS (split_node n (lcp s (n_pfx n)))) with (split_node n (lcp s (n_pfx n))) by reflexivity.
  apply eff_here; [exact Hw | | rewrite Hd; exact Hfr].
  unfold split_node. cbn [n_pfx]. rewrite <- lcp_firstn. rewrite H3. symmetry. apply firstn_all.
Qed.

Lemma eff_split_new pre n s pl :
  WF0 n -> n_kind n = KS ->
  0 < lcp s (n_pfx n) -> lcp s (n_pfx n) < List.length (n_pfx n) -> lcp s (n_pfx n) < List.length s ->
  cleanstr (skipn (lcp s (n_pfx n)) s) ->
  Eff pre n s pl (set_st [set_pfx (skipn (lcp s (n_pfx n)) (n_pfx n)) n;
                          add_payload (leaf_node KS (skipn (lcp s (n_pfx n)) s)) pl]
                         (split_node n (lcp s (n_pfx n)))).
Proof.
  intros Hwf Hk H1 H2 H3 Hc.
  destruct (split_facts pre n (lcp s (n_pfx n)) Hwf Hk H1 H2) as [Hw [Hd Hl]].
  apply (eff_transfer pre n (split_node n (lcp s (n_pfx n)))); [exact Hd | exact Hl | simpl; symmetry; exact Hk | ].
  destruct (skipn (lcp s (n_pfx n)) s) as [|c rest] eqn:Es.
  { exfalso. assert (List.length (skipn (lcp s (n_pfx n)) s) = 0) by (rewrite Es; reflexivity). rewrite skipn_length in H. lia. }
  assert (HL : lcp s (n_pfx (split_node n (lcp s (n_pfx n)))) = lcp s (n_pfx n)) by (simpl; apply lcp_firstn_self).
  assert (HLen : List.length (n_pfx (split_node n (lcp s (n_pfx n)))) = lcp s (n_pfx n)) by (simpl; apply firstn_length_lcp).
  pose proof (eff_new pre (split_node n (lcp s (n_pfx n))) s KS c rest pl Hw) as HE.
  rewrite HL, HLen in HE. rewrite Es in HE.
  apply HE; auto; try discriminate.
  cbn [n_st split_node existsb]. rewrite orb_false_r. unfold has_label, label.
  assert (Epf : forall p, n_pfx (set_pfx p n) = p) by (intros; destruct n; reflexivity).
  rewrite Epf.
  destruct (skipn (lcp s (n_pfx n)) (n_pfx n)) as [|d rest'] eqn:Ep; [reflexivity|].
  assert (Hne : c <> d) by (eapply lcp_next; eauto).
  simpl. apply Ascii.eqb_neq. congruence.
Qed.

(* ---------- descent ---------- *)
Definition entry_list (pl : payload) (key rem : list tok) : live :=
  match pl with Some (m, rm) => [new_entry m rm key rem] | None => [] end.

Lemma added_entry_list pl pre s ls : added pl pre s ls = entry_list pl (pre ++ dec s) (dec s) ++ ls.
Proof. destruct pl as [[m rm]|]; reflexivity. Qed.

Lemma perm_front {A} (a c D D' e : list A) : Permutation D' (e ++ D) -> Permutation (a ++ D' ++ c) (e ++ a ++ D ++ c).
Proof. intros H. eapply perm_trans; [apply Permutation_app_head; apply Permutation_app_tail; exact H|].
  rewrite <- app_assoc. apply Permutation_app_swap_app. Qed.

Lemma den_replace_st P n l1 ch l2 ch' e :
  n_st n = l1 ++ ch :: l2 -> Permutation (den_edge P ch') (e ++ den_edge P ch) ->
  Permutation (den_node P (set_st (l1 ++ ch' :: l2) n)) (e ++ den_node P n).
Proof.
  intros Hst HP. rewrite !den_node_eq. destruct n as [k pfx ms nf st pc ac]. cbn [set_st n_st n_pc n_ac] in *. subst st.
  unfold own. cbn [n_ms n_nf]. rewrite !flat_map_app. cbn [flat_map]. rewrite <- !app_assoc.
  set (a := map (fun r : route => (r, [])) (own_routes P ms nf) ++ flat_map (den_edge P) l1).
  rewrite !app_assoc. rewrite <- !(app_assoc a). rewrite <- !app_assoc.
  rewrite !(app_assoc (map _ _)). fold a.
  apply perm_front. exact HP.
Qed.

Lemma perm_front2 {A} (a1 a2 c D D' e : list A) :
  Permutation D' (e ++ D) -> Permutation (a1 ++ a2 ++ D' ++ c) (e ++ a1 ++ a2 ++ D ++ c).
Proof. intros H. rewrite (app_assoc a1 a2 (D' ++ c)), (app_assoc a1 a2 (D ++ c)). apply perm_front. exact H. Qed.

Lemma perm_front3 {A} (a1 a2 a3 D D' e : list A) :
  Permutation D' (e ++ D) -> Permutation (a1 ++ a2 ++ a3 ++ D') (e ++ a1 ++ a2 ++ a3 ++ D).
Proof. intros H. rewrite <- (app_nil_r D'), <- (app_nil_r D).
  rewrite (app_assoc a2 a3 (D' ++ [])), (app_assoc a2 a3 (D ++ [])). apply perm_front2. exact H. Qed.

Lemma den_replace_pc P n ch ch' e :
  n_pc n = Some ch -> Permutation (den_edge P ch') (e ++ den_edge P ch) ->
  Permutation (den_node P (set_pc (Some ch') n)) (e ++ den_node P n).
Proof.
  intros Hpc HP. rewrite !den_node_eq. destruct n as [k pfx ms nf st pc ac]. cbn [set_pc n_st n_pc n_ac] in *. subst pc.
  unfold own. cbn [n_ms n_nf opt_list flat_map]. rewrite !app_nil_r.
  apply perm_front2. exact HP.
Qed.

Lemma den_replace_ac P n ch ch' e :
  n_ac n = Some ch -> Permutation (den_edge P ch') (e ++ den_edge P ch) ->
  Permutation (den_node P (set_ac (Some ch') n)) (e ++ den_node P n).
Proof.
  intros Hac HP. rewrite !den_node_eq. destruct n as [k pfx ms nf st pc ac]. cbn [set_ac n_st n_pc n_ac] in *. subst ac.
  unfold own. cbn [n_ms n_nf opt_list flat_map]. rewrite !app_nil_r.
  apply perm_front3. exact HP.
Qed.

Lemma eff_den_desc pre n n' ch ch' s s' pl :
  edge n' = edge n -> dec s = edge n ++ dec s' ->
  Permutation (den_edge (pre ++ edge n) ch') (added pl (pre ++ edge n) s' (den_edge (pre ++ edge n) ch)) ->
  (forall e, Permutation (den_edge (pre ++ edge n) ch') (e ++ den_edge (pre ++ edge n) ch) ->
             Permutation (den_node (pre ++ edge n) n') (e ++ den_node (pre ++ edge n) n)) ->
  Permutation (den_edge pre n') (added pl pre s (den_edge pre n)).
Proof.
  intros He Hd Hch Hrep. rewrite !den_edge_split_eq, He.
  rewrite added_entry_list in Hch. specialize (Hrep _ Hch).
  eapply perm_trans; [apply Permutation_map; exact Hrep|]. rewrite map_app, added_entry_list.
  apply Permutation_app_tail.
  destruct pl as [[m rm]|]; [|reflexivity]. cbn [entry_list map]. unfold prepend, new_entry. cbn [fst snd].
  rewrite Hd, <- !app_assoc. reflexivity.
Qed.

Lemma fresh_in_child pre n ch s s' pl :
  dec s = edge n ++ dec s' ->
  (forall x, In x (den_edge (pre ++ edge n) ch) -> In (prepend (edge n) x) (den_edge pre n)) ->
  fresh_in pl (pre ++ dec s) (den_edge pre n) ->
  fresh_in pl ((pre ++ edge n) ++ dec s') (den_edge (pre ++ edge n) ch).
Proof.
  intros Hd Hsub Hf m rm E x Hx. specialize (Hf m rm E (prepend (edge n) x) (Hsub x Hx)).
  unfold prepend in Hf. cbn [fst] in Hf. rewrite <- app_assoc, <- Hd. exact Hf.
Qed.

Lemma in_child_st pre n ch x : In ch (n_st n) -> In x (den_edge (pre ++ edge n) ch) -> In (prepend (edge n) x) (den_edge pre n).
Proof. intros Hin Hx. unfold den_edge. apply in_map. rewrite den_node_eq. apply in_or_app. right. apply in_or_app. left.
  apply in_flat_map. exists ch. auto. Qed.
Lemma in_child_pc pre n ch x : n_pc n = Some ch -> In x (den_edge (pre ++ edge n) ch) -> In (prepend (edge n) x) (den_edge pre n).
Proof. intros Hin Hx. unfold den_edge. apply in_map. rewrite den_node_eq. apply in_or_app. right. apply in_or_app. right.
  apply in_or_app. left. rewrite Hin. simpl. rewrite app_nil_r. exact Hx. Qed.
Lemma in_child_ac pre n ch x : n_ac n = Some ch -> In x (den_edge (pre ++ edge n) ch) -> In (prepend (edge n) x) (den_edge pre n).
Proof. intros Hin Hx. unfold den_edge. apply in_map. rewrite den_node_eq. apply in_or_app. right. apply in_or_app. right.
  apply in_or_app. right. rewrite Hin. simpl. rewrite app_nil_r. exact Hx. Qed.

Lemma dec_split n s s' : WF0 n -> s = n_pfx n ++ s' -> dec s = edge n ++ dec s'.
Proof. intros H ->. rewrite dec_app, (WF0_edge n H). reflexivity. Qed.

(* ---------- main effect theorem ---------- *)
Theorem ins_effect : forall n s t, InsOK n s t ->
  forall f pl pre, List.length s < f -> WF0 n -> fresh_in pl (pre ++ dec s) (den_edge pre n) ->
  Eff pre n s pl (insert_node f n s t pl).
Proof.
  induction 1 as [n s t H1 H2 H3 Ht Hk | n s t H1 H2 H3 Ht Hk Hc
                 | n s t c rest ch H1 H2 Hs Hf Hok IH
                 | n s t rest ch H1 H2 Hs Hex Hpc Hok IH
                 | n s t rest ch H1 H2 Hs Hex Hac Hok IH
                 | n s t c rest H1 H2 Hs Hex Hpc Hac Hnew Hka
                 | n s t H1 H2 H3];
    intros f pl pre Hfuel Hwf Hfr; (destruct f as [|f]; [lia|]); rewrite insert_node_S; cbn zeta.
  - (* split here *)
    assert (E0 : Nat.eqb (lcp s (n_pfx n)) 0 = false) by (apply Nat.eqb_neq; lia).
    assert (E1 : Nat.ltb (lcp s (n_pfx n)) (List.length (n_pfx n)) = true) by (apply Nat.ltb_lt; lia).
    assert (E2 : Nat.eqb (lcp s (n_pfx n)) (List.length s) = true) by (apply Nat.eqb_eq; lia).
    rewrite E0, E1, E2. subst t. apply eff_split_here; auto.
  - (* split new *)
    assert (E0 : Nat.eqb (lcp s (n_pfx n)) 0 = false) by (apply Nat.eqb_neq; lia).
    assert (E1 : Nat.ltb (lcp s (n_pfx n)) (List.length (n_pfx n)) = true) by (apply Nat.ltb_lt; lia).
    assert (E2 : Nat.eqb (lcp s (n_pfx n)) (List.length s) = false) by (apply Nat.eqb_neq; lia).
    rewrite E0, E1, E2. subst t. apply eff_split_new; auto.
  - (* descend static *)
    assert (E0 : Nat.eqb (lcp s (n_pfx n)) 0 = false) by (apply Nat.eqb_neq; lia).
    assert (E1 : Nat.ltb (lcp s (n_pfx n)) (List.length (n_pfx n)) = false) by (apply Nat.ltb_ge; lia).
    assert (Hlen : lcp s (n_pfx n) < List.length s).
    { assert (List.length (skipn (lcp s (n_pfx n)) s) = S (List.length rest)) by (rewrite Hs; reflexivity).
      rewrite skipn_length in H. lia. }
    assert (E2 : Nat.ltb (lcp s (n_pfx n)) (List.length s) = true) by (apply Nat.ltb_lt; lia).
    rewrite E0, E1, E2, Hs. rewrite (find_existsb _ _ _ Hf).
    destruct (upd_first_split (has_label c) (fun x => insert_node f x (c :: rest) t pl) (n_st n) ch Hf) as [l1 [l2 [Hst [Hl1 Hupd]]]].
    rewrite Hupd.
    assert (Es : s = n_pfx n ++ c :: rest) by (rewrite <- Hs; apply skipn_lcp_full; exact H2).
    pose proof (dec_split n s (c :: rest) Hwf Es) as Hd.
    assert (Hin : In ch (n_st n)) by (rewrite Hst; apply in_or_app; right; left; reflexivity).
    assert (Hwch : WF0 ch /\ n_kind ch = KS).
    { inversion Hwf; subst; simpl in *. rewrite Forall_forall in *. auto. }
    assert (Hlen' : List.length (c :: rest) < f).
    { rewrite Es, app_length in Hfuel. assert (0 < List.length (n_pfx n)) by lia. lia. }
    destruct (IH f pl (pre ++ edge n) Hlen' (proj1 Hwch)
                 (fresh_in_child pre n ch s (c :: rest) pl Hd (fun x => in_child_st pre n ch x Hin) Hfr))
      as [Hw' [Hl' [Hk' Hp']]].
    unfold Eff. rewrite label_set_st, kind_set_st. repeat split; auto.
    + inversion Hwf as [k pfx ms nf st pc ac G1 G2 G3 G4 G5 G6 G7 G8 G9 G10]; subst n.
      cbn [n_st set_st] in *. subst st. constructor; auto.
      * intros ->. destruct (G4 eq_refl) as [_ [Hst0 _]]. destruct l1; discriminate.
      * apply Forall_app in G7. destruct G7 as [Ga Gb]. inversion Gb; subst.
        apply Forall_app. split; auto. constructor; auto. split; auto. rewrite Hk'. tauto.
      * rewrite map_app in *. cbn [map] in *. rewrite Hl'. exact G8.
    + eapply (eff_den_desc pre n _ ch _ s (c :: rest) pl); eauto using edge_set_st.
      intros e He. apply (den_replace_st _ n l1 ch l2 _ e); auto.
  - (* descend param *)
    assert (E0 : Nat.eqb (lcp s (n_pfx n)) 0 = false) by (apply Nat.eqb_neq; lia).
    assert (E1 : Nat.ltb (lcp s (n_pfx n)) (List.length (n_pfx n)) = false) by (apply Nat.ltb_ge; lia).
    assert (Hlen : lcp s (n_pfx n) < List.length s).
    { assert (List.length (skipn (lcp s (n_pfx n)) s) = S (List.length rest)) by (rewrite Hs; reflexivity).
      rewrite skipn_length in H. lia. }
    assert (E2 : Nat.ltb (lcp s (n_pfx n)) (List.length s) = true) by (apply Nat.ltb_lt; lia).
    rewrite E0, E1, E2, Hs, Hex. rewrite Ascii.eqb_refl, Hpc.
    assert (Es : s = n_pfx n ++ colon :: rest) by (rewrite <- Hs; apply skipn_lcp_full; exact H2).
    pose proof (dec_split n s (colon :: rest) Hwf Es) as Hd.
    assert (Hwch : WF0 ch /\ n_kind ch = KP).
    { inversion Hwf; subst; simpl in *. auto. }
    assert (Hlen' : List.length (colon :: rest) < f).
    { rewrite Es, app_length in Hfuel. assert (0 < List.length (n_pfx n)) by lia. lia. }
    destruct (IH f pl (pre ++ edge n) Hlen' (proj1 Hwch)
                 (fresh_in_child pre n ch s (colon :: rest) pl Hd (fun x => in_child_pc pre n ch x Hpc) Hfr))
      as [Hw' [Hl' [Hk' Hp']]].
    unfold Eff. rewrite label_set_pc, kind_set_pc. repeat split; auto.
    + inversion Hwf as [k pfx ms nf st pc ac G1 G2 G3 G4 G5 G6 G7 G8 G9 G10]; subst n.
      cbn [n_pc set_pc] in *. subst pc. constructor; auto.
      * intros ->. destruct (G4 eq_refl) as [_ [_ [Hp0 _]]]. discriminate.
      * intros ch0 E. inversion E; subst. split; auto. rewrite Hk'. tauto.
    + eapply (eff_den_desc pre n _ ch _ s (colon :: rest) pl); eauto using edge_set_pc.
      intros e He. apply (den_replace_pc _ n ch _ e); auto.
  - (* descend any *)
    assert (E0 : Nat.eqb (lcp s (n_pfx n)) 0 = false) by (apply Nat.eqb_neq; lia).
    assert (E1 : Nat.ltb (lcp s (n_pfx n)) (List.length (n_pfx n)) = false) by (apply Nat.ltb_ge; lia).
    assert (Hlen : lcp s (n_pfx n) < List.length s).
    { assert (List.length (skipn (lcp s (n_pfx n)) s) = S (List.length rest)) by (rewrite Hs; reflexivity).
      rewrite skipn_length in H. lia. }
    assert (E2 : Nat.ltb (lcp s (n_pfx n)) (List.length s) = true) by (apply Nat.ltb_lt; lia).
    rewrite E0, E1, E2, Hs, Hex.
    assert (Ecs : Ascii.eqb star colon = false) by reflexivity. rewrite Ecs, Ascii.eqb_refl, Hac.
    assert (Es : s = n_pfx n ++ star :: rest) by (rewrite <- Hs; apply skipn_lcp_full; exact H2).
    pose proof (dec_split n s (star :: rest) Hwf Es) as Hd.
    assert (Hwch : WF0 ch /\ n_kind ch = KA).
    { inversion Hwf; subst; simpl in *. auto. }
    assert (Hlen' : List.length (star :: rest) < f).
    { rewrite Es, app_length in Hfuel. assert (0 < List.length (n_pfx n)) by lia. lia. }
    destruct (IH f pl (pre ++ edge n) Hlen' (proj1 Hwch)
                 (fresh_in_child pre n ch s (star :: rest) pl Hd (fun x => in_child_ac pre n ch x Hac) Hfr))
      as [Hw' [Hl' [Hk' Hp']]].
    unfold Eff. rewrite label_set_ac, kind_set_ac. repeat split; auto.
    + inversion Hwf as [k pfx ms nf st pc ac G1 G2 G3 G4 G5 G6 G7 G8 G9 G10]; subst n.
      cbn [n_ac set_ac] in *. subst ac. constructor; auto.
      * intros ->. destruct (G4 eq_refl) as [_ [_ [_ Ha0]]]. discriminate.
      * intros ch0 E. inversion E; subst. split; auto. rewrite Hk'. tauto.
    + eapply (eff_den_desc pre n _ ch _ s (star :: rest) pl); eauto using edge_set_ac.
      intros e He. apply (den_replace_ac _ n ch _ e); auto.
  - (* new child *)
    assert (E0 : Nat.eqb (lcp s (n_pfx n)) 0 = false) by (apply Nat.eqb_neq; lia).
    assert (E1 : Nat.ltb (lcp s (n_pfx n)) (List.length (n_pfx n)) = false) by (apply Nat.ltb_ge; lia).
    assert (Hlen : lcp s (n_pfx n) < List.length s).
    { assert (List.length (skipn (lcp s (n_pfx n)) s) = S (List.length rest)) by (rewrite Hs; reflexivity).
      rewrite skipn_length in H. lia. }
    assert (E2 : Nat.ltb (lcp s (n_pfx n)) (List.length s) = true) by (apply Nat.ltb_lt; lia).
    rewrite E0, E1, E2, Hs, Hex.
    assert (Enone : (if Ascii.eqb c colon then n_pc n else if Ascii.eqb c star then n_ac n else None) = None).
    { destruct (Ascii.eqb c colon) eqn:Ec; [apply Ascii.eqb_eq in Ec; auto|].
      destruct (Ascii.eqb c star) eqn:Ea; [apply Ascii.eqb_eq in Ea; auto|]. reflexivity. }
    rewrite Enone. apply eff_new; auto.
  - (* here *)
    assert (E0 : Nat.eqb (lcp s (n_pfx n)) 0 = false) by (apply Nat.eqb_neq; lia).
    assert (E1 : Nat.ltb (lcp s (n_pfx n)) (List.length (n_pfx n)) = false) by (apply Nat.ltb_ge; lia).
    assert (E2 : Nat.ltb (lcp s (n_pfx n)) (List.length s) = false) by (apply Nat.ltb_ge; lia).
    rewrite E0, E1, E2. apply eff_here; auto. apply lcp_full; lia.
Qed.
Print Assumptions ins_effect.
