(* C04 — middleware onion: order, exactly-once, Pre-before-routing, group scoping.
   Statements only; proofs in Http/OnionProofs.v.  [request s host m p] = (event trace, error) of one
   request on the configuration state s = interp ops; route selection is the router model of C01-C03.
   Group scoping ("group middleware runs for every request under the prefix not claimed outside,
   incl. 404s; never outside") rests on the catch-all routes a group registers (C04_group_catch_all)
   and on routing (C02/C03); the end-to-end scope statement is checked differentially (partial). *)
From Coq Require Import List Arith Bool Ascii String.
From Echo Require Import Base.Sx.
From Echo.Router Require Import Spec2.
From Echo Require Import Http.Onion Http.OnionProofs.
Import ListNotations.

(* order, exactly once, reverse unwinding, error seen by every layer above *)
Theorem C04_onion : forall s host method path,
  let p' := fold_left apply_rewrite (s_pre s) path in
  let t := select s (fold_left apply_host (s_pre s) host) method p' in
  forallb passes (s_pre s) = true -> forallb passes (s_use s) = true -> forallb passes (t_chain t) = true ->
  request s host method path =
  (map Enter (ids (s_pre s)) ++ map Enter (ids (s_use s)) ++ map Enter (ids (t_chain t)) ++
   [Handler (t_handler t) (t_err t)] ++
   map (fun i => Exit i (t_err t)) (rev (ids (t_chain t))) ++
   map (fun i => Exit i (t_err t)) (rev (ids (s_use s))) ++
   map (fun i => Exit i (t_err t)) (rev (ids (s_pre s))), t_err t).
Proof. exact request_onion. Qed.
Print Assumptions C04_onion.

(* a layer that returns an error without calling next: nothing below runs, layers above unwind with it *)
Theorem C04_short_circuit : forall pre f post core c, forallb passes pre = true -> mw_kind_of f = MFail c ->
  run_mws (pre ++ f :: post) core =
  (map Enter (ids pre) ++ [Enter (mw_id f); Exit (mw_id f) c] ++ map (fun i => Exit i c) (rev (ids pre)), c).
Proof. exact onion_fail. Qed.
Print Assumptions C04_short_circuit.

(* Pre middleware runs before route selection: the route is chosen for the rewritten path, in the router of the
   rewritten Host *)
Theorem C04_pre_before_routing : forall s host method path, forallb passes (s_pre s) = true ->
  exists tr, request s host method path =
    run_mws (s_pre s) (run_mws (s_use s)
      (run_mws (t_chain (select s (fold_left apply_host (s_pre s) host) method (fold_left apply_rewrite (s_pre s) path))) tr)).
Proof. exact pre_before_routing. Qed.
Print Assumptions C04_pre_before_routing.

(* the chain of a route added through a group = the group's middleware at that instant + route level *)
Theorem C04_chain : forall s g x method path h err ms, find_group (s_groups s) g = Some x ->
  s_routes (step s (OAdd (Some g) method path h err ms)) =
  s_routes s ++ [{| rr_host := g_host x; rr_method := method; rr_path := g_prefix x ++ path;
                    rr_target := {| t_handler := h; t_err := err; t_chain := g_mw x ++ ms |} |}].
Proof. exact add_chain. Qed.
Print Assumptions C04_chain.

(* a sub-group inherits its ancestors' middleware outermost first, as of its creation *)
Theorem C04_subgroup : forall s g p x prefix ms, find_group (s_groups s) p = Some x ->
  find_group (s_groups (step s (ONewGroup g (Some p) prefix ms))) g =
  Some {| g_host := g_host x; g_prefix := g_prefix x ++ prefix; g_mw := g_mw x ++ ms |}.
Proof. exact subgroup_middleware. Qed.
Print Assumptions C04_subgroup.

(* middleware added later never changes an already registered route (only Echo.Host resets a router) *)
Theorem C04_later_use_does_not_apply : forall s o, (forall g h ms, o <> ONewHost g h ms) ->
  exists extra, s_routes (step s o) = s_routes s ++ extra.
Proof. exact registered_routes_are_kept. Qed.
Print Assumptions C04_later_use_does_not_apply.

(* a group with middleware registers prefix and prefix/* not-found routes on ITS host carrying that middleware *)
Theorem C04_group_catch_all : forall s g x ms, g_mw x ++ ms <> [] ->
  let t := {| t_handler := nf_handler; t_err := 404; t_chain := g_mw x ++ ms |} in
  s_routes (group_use s g x ms) = s_routes s ++
    [{| rr_host := g_host x; rr_method := NF; rr_path := g_prefix x; rr_target := t |};
     {| rr_host := g_host x; rr_method := NF; rr_path := g_prefix x ++ ["/"; "*"]%char; rr_target := t |}].
Proof. exact group_catch_all. Qed.
Print Assumptions C04_group_catch_all.

(* ---- tie to the source by proof: Group.Add / Group.Use / Group.Group, translated statement by statement from group.go on
   every run (Gen/Src_group.v, language Base/GoLoop.v; middleware slices are VALUES - which middlewares a chain holds, not
   whether two slices share memory).  They register what [step] says: a route added through a group goes to echo.add under the
   group's host and prefix + path with the chain "the group's middleware at that instant, then the route-level middleware"
   (C04_chain above), leaving the group's own list as it was; Use appends and registers the two catch-all not-found routes
   exactly when the group then has middleware (C04_group_catch_all); a sub-group takes the parent's host, prefix + its own
   prefix, and - through its own Use - the parent's middleware followed by its own. *)
From Coq Require Import ZArith.
From Echo Require Import Base.GoLoop Gen.Src_group Http.GroupSrc.

Theorem C04_source_group_add : forall host echo pre gm ms method handler p,
  let st := gstate host echo pre gm [("method"%string, method); ("path"%string, VS p); ("handler"%string, handler); ("middleware"%string, VL ms); ("m"%string, VZ 0%Z)] in
  let '(st', _) := GoLoop.run gsym gpred src_group_add_results src_group_add st in
  events st' = [("g.echo.add"%string, [host; method; VS (pre ++ p); handler; VL (gm ++ ms)])] /\
  GoLoop.get (fields st') "g.middleware" = VL gm.
Proof. exact src_group_add_spec. Qed.
Print Assumptions C04_source_group_add.

Theorem C04_source_group_use : forall host echo pre gm ms,
  let st := gstate host echo pre gm [("middleware"%string, VL ms)] in
  let '(st', _) := GoLoop.run gsym gpred src_group_use_results src_group_use st in
  GoLoop.get (fields st') "g.middleware" = VL (gm ++ ms) /\
  events st' = match (gm ++ ms)%list with
               | [] => []
               | _ => [("g.RouteNotFound"%string, [VS []; VZ 1000%Z]); ("g.RouteNotFound"%string, [VS (lit "/*"); VZ 1000%Z])]
               end.
Proof. exact src_group_use_spec. Qed.
Print Assumptions C04_source_group_use.

Theorem C04_source_group_group : forall host echo pre gm ms p,
  let st := gstate host echo pre gm [("prefix"%string, VS p); ("middleware"%string, VL ms); ("m"%string, VZ 0%Z)] in
  let '(st', _) := GoLoop.run gsym gpred src_group_group_results src_group_group st in
  GoLoop.get (fields st') "sg.host" = host /\ GoLoop.get (fields st') "sg.prefix" = VS (pre ++ p) /\ GoLoop.get (fields st') "sg.echo" = echo /\
  events st' = [("sg.Use"%string, [VL (gm ++ ms)])] /\ GoLoop.get (fields st') "g.middleware" = VL gm.
Proof. exact src_group_group_spec. Qed.
Print Assumptions C04_source_group_group.

(* ---- applyMiddleware itself, from its statement-level translation (Gen/Src_applymw.v, re-translated from echo.go on every
   run): for every middleware list and handler the FIRST middleware ends up outermost, the last one next to the handler - the
   nesting [run_mws] gives a chain (route chains, Echo.Use and Echo.Pre all go through this one function) *)
From Echo Require Import Gen.Src_applymw Http.ApplyMwSrc.
Theorem C04_source_apply_middleware : forall (ms h0 : list val),
  snd (GoLoop.run asym apred src_apply_middleware_results src_apply_middleware
         {| locals := [("h"%string, VL h0); ("middleware"%string, VL ms); ("i"%string, VZ 0%Z)]; fields := []; lists := []; events := []; inputs := [] |})
  = [VL (ms ++ h0)].
Proof. exact ApplyMwSrc.C04_source_apply_middleware. Qed.
Print Assumptions C04_source_apply_middleware.

(* ---- Pre before routing, at the source: the closure Echo.ServeHTTP hands to the Pre chain (Gen/Src_servehttp.v) performs the
   route lookup itself, then takes the route's handler, then calls it - so the lookup happens INSIDE the Pre chain, on what the
   Pre middleware made of the request (ServeHTTP's own part is C05_source_serve_http) *)
From Echo Require Import Base.GoLite Gen.Src_servehttp Http.ServeHTTPSrc.
Theorem C04_source_routed_closure : forall sym ctx hv,
  GoLite.events (fst (GoLite.run sym src_serve_http_routed_results src_serve_http_routed
                 {| GoLite.locals := [("c"%string, ctx)]; GoLite.fields := []; GoLite.events := []; GoLite.inputs := [[hv]] |})) =
  [("e.findRouter(r.Host).Find"%string, [sym "r.Method"%string; sym "GetPath(r)"%string; ctx]); ("c.Handler"%string, []); ("h"%string, [ctx])].
Proof. exact ServeHTTPSrc.C04_source_routed_closure. Qed.
Print Assumptions C04_source_routed_closure.
