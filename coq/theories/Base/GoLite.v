(* GoLite: a small imperative intermediate language for the statement-level translation of short Go
   functions (go/gen/golite.go), with a definitional interpreter.  The translator emits the body of a
   function as a closed [list stmt]; a theorem per function then states that running it equals the
   hand-written model for every state - so the model is tied to the source by a proof about the
   regenerated term, not only by running both.

   Values are integers (booleans 0/1).  Cells are named by their Go spelling ("r.read", "len(b.targets)").
   Calls whose effect is outside the function (hooks, the underlying writer, the logger) become events;
   calls whose RESULT comes from outside (the wrapped reader) take it from an input stream. *)
From Coq Require Import List ZArith Bool String.
Import ListNotations.
Open Scope Z_scope.

Inductive cmp := CLt | CLe | CGt | CGe | CEq | CNe.

Inductive expr :=
| EZ (z : Z)
| EVar (x : string)                       (* local variable, parameter or named result *)
| EField (f : string)                     (* a cell outside the function: receiver field, len(...), context value *)
| ESym (s : string)                       (* a named constant of the program (error values, status codes) *)
| EAdd (a b : expr)
| ESub (a b : expr)
| ECmp (c : cmp) (a b : expr)
| ENot (a : expr)
| EAnd (a b : expr)
| EOr (a b : expr).

Inductive stmt :=
| SSet (x : string) (e : expr)
| SFSet (f : string) (e : expr)
| SIf (c : expr) (t e : list stmt)
| SRet (es : list expr)                   (* [] = bare return: the named results *)
| SEmit (tag : string) (args : list expr)
| SCall (xs : list string) (tag : string) (args : list expr).   (* xs = external call: next tuple of the input stream *)

Definition env := list (string * Z).
Fixpoint get (m : env) (x : string) : Z :=
  match m with [] => 0 | (y, v) :: r => if String.eqb x y then v else get r x end.
Fixpoint put (m : env) (x : string) (v : Z) : env :=
  match m with
  | [] => [(x, v)]
  | (y, w) :: r => if String.eqb x y then (x, v) :: r else (y, w) :: put r x v
  end.

Record state := { locals : env; fields : env; events : list (string * list Z); inputs : list (list Z) }.

Section Interp.
Variable sym : string -> Z.

Definition b2z (b : bool) : Z := if b then 1 else 0.
Definition truthy (z : Z) : bool := negb (z =? 0).

Fixpoint eval (e : expr) (st : state) : Z :=
  match e with
  | EZ z => z
  | EVar x => get (locals st) x
  | EField f => get (fields st) f
  | ESym s => sym s
  | EAdd a b => eval a st + eval b st
  | ESub a b => eval a st - eval b st
  | ECmp c a b =>
      let x := eval a st in let y := eval b st in
      b2z (match c with CLt => x <? y | CLe => x <=? y | CGt => y <? x | CGe => y <=? x | CEq => x =? y | CNe => negb (x =? y) end)
  | ENot a => b2z (negb (truthy (eval a st)))
  | EAnd a b => b2z (truthy (eval a st) && truthy (eval b st))
  | EOr a b => b2z (truthy (eval a st) || truthy (eval b st))
  end.

Fixpoint assign (xs : list string) (vs : list Z) (m : env) : env :=
  match xs, vs with
  | x :: xs', v :: vs' => assign xs' vs' (put m x v)
  | _, _ => m
  end.

(* result: the new state and, if the function returned, the returned values *)
Fixpoint exec_s (results : list string) (s : stmt) (st : state) {struct s} : state * option (list Z) :=
  match s with
  | SSet x e => ({| locals := put (locals st) x (eval e st); fields := fields st; events := events st; inputs := inputs st |}, None)
  | SFSet f e => ({| locals := locals st; fields := put (fields st) f (eval e st); events := events st; inputs := inputs st |}, None)
  | SEmit tag args => ({| locals := locals st; fields := fields st;
                          events := events st ++ [(tag, map (fun a => eval a st) args)]; inputs := inputs st |}, None)
  | SCall xs tag args =>
      let vs := match inputs st with v :: _ => v | [] => [] end in
      ({| locals := assign xs vs (locals st); fields := fields st;
          events := events st ++ [(tag, map (fun a => eval a st) args)]; inputs := tl (inputs st) |}, None)
  | SRet [] => (st, Some (map (get (locals st)) results))
  | SRet es => (st, Some (map (fun e => eval e st) es))
  | SIf c t e =>
      (fix go (l : list stmt) (st : state) {struct l} : state * option (list Z) :=
         match l with
         | [] => (st, None)
         | x :: r => match exec_s results x st with
                     | (st', Some v) => (st', Some v)
                     | (st', None) => go r st'
                     end
         end) (if truthy (eval c st) then t else e) st
  end.

Fixpoint exec (results : list string) (l : list stmt) (st : state) : state * option (list Z) :=
  match l with
  | [] => (st, None)
  | x :: r => match exec_s results x st with
              | (st', Some v) => (st', Some v)
              | (st', None) => exec results r st'
              end
  end.

(* a function: named results + body; falling off the end returns the named results *)
Definition run (results : list string) (body : list stmt) (st : state) : state * list Z :=
  match exec results body st with
  | (st', Some v) => (st', v)
  | (st', None) => (st', map (get (locals st')) results)
  end.

Lemma truthy_b2z b : truthy (b2z b) = b.
Proof. destruct b; reflexivity. Qed.
End Interp.

(* ---- symbolic execution for the per-function theorems: evaluate as far as possible, split on every test that
   the state does not decide, close the leaves by computation / linear arithmetic.  Written so that a harmless
   rewrite of the translated function (an extra temporary, independent assignments swapped, a test expressed the
   other way round) is still proved by the same script. *)
Ltac golite_eval := repeat (cbn [exec exec_s eval get put assign locals fields events inputs String.eqb Ascii.eqb Bool.eqb
                                 map tl app negb andb orb fst snd existsb last]; rewrite ?truthy_b2z).
Ltac golite_cases :=
  repeat (golite_eval;
          match goal with
          | |- context [truthy ?x] => unfold truthy
          | |- context [if ?b then _ else _] => let E := fresh "E" in destruct b eqn:E
          end).
