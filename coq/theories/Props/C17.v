(* C17 — generated redirects stay on the same host.  Statements only; proofs in Mw/SlashProofs.v.
   [safe loc] = the Location value as a browser reads it (leading C0 controls/spaces stripped,
   TAB/CR/LF removed) begins with "/" and not with "//" or "/\" (hence has no scheme/authority). *)
From Coq Require Import List Bool Ascii String.
From Echo Require Import Base.Sx Mw.Slash Mw.SlashProofs.
Import ListNotations.
Open Scope char_scope.

(* AddTrailingSlash (redirect mode): every decoded request path (it starts with "/") and every query *)
Theorem C17_add_slash_safe : forall p qs loc, add_slash ("/" :: p) qs = Some loc -> safe loc = true.
Proof. exact add_slash_safe. Qed.
Print Assumptions C17_add_slash_safe.

(* RemoveTrailingSlash (redirect mode) *)
Theorem C17_remove_slash_safe : forall p qs loc, remove_slash ("/" :: p) qs = Some loc -> safe loc = true.
Proof. exact remove_slash_safe. Qed.
Print Assumptions C17_remove_slash_safe.

(* directory redirect of Echo.Static / Group.Static (both use StaticDirectoryHandler + echo_fs.go's sanitizeURI) *)
Theorem C17_static_dir_safe : forall p is_dir loc, static_dir ("/" :: p) is_dir = Some loc -> safe loc = true.
Proof. exact static_dir_safe. Qed.
Print Assumptions C17_static_dir_safe.

(* ordinary paths: the target is the path with the slash added / removed, query preserved *)
Theorem C17_add_ordinary : forall p qs, ordinary p = true -> ends_with_slash p = false ->
  add_slash p qs = Some (with_qs (p ++ ["/"]) qs).
Proof. exact add_slash_ordinary. Qed.
Print Assumptions C17_add_ordinary.

Theorem C17_remove_ordinary : forall p qs, ordinary p = true -> ends_with_slash p = true ->
  (1 < List.length p)%nat -> remove_slash p qs = Some (with_qs (removelast p) qs).
Proof. exact remove_slash_ordinary. Qed.
Print Assumptions C17_remove_ordinary.

(* forwarding mode (no redirect code): the path handed on is the request path with the slash added / removed -
   nothing else changes - and the request URI is rewritten exactly when the path is *)
Theorem C17_add_forward : forall p qs,
  fst (add_slash_forward p qs) = (if ends_with_slash p then p else p ++ ["/"]) /\
  ends_with_slash (fst (add_slash_forward p qs)) = true /\
  (snd (add_slash_forward p qs) = None <-> ends_with_slash p = true).
Proof. exact add_forward_spec. Qed.
Print Assumptions C17_add_forward.

Theorem C17_remove_forward : forall p qs,
  fst (remove_slash_forward p qs) = (if Nat.ltb 1 (List.length p) && ends_with_slash p then removelast p else p) /\
  (snd (remove_slash_forward p qs) = None <-> (Nat.ltb 1 (List.length p) && ends_with_slash p) = false).
Proof. exact remove_forward_spec. Qed.
Print Assumptions C17_remove_forward.

(* non-vacuity and the historic counterexample: "/<TAB>/example.com" *)
Example C17_example :
  add_slash (lit "/" ++ ["009"] ++ lit "/example.com") (lit "a=b") = Some (lit "/example.com/?a=b")
  /\ safe (lit "/" ++ ["009"] ++ lit "/example.com/") = false.
Proof. split; vm_compute; reflexivity. Qed.

(* ---- the directory redirect of the static-file handler (Echo.Static / Group.Static / StaticFS), from the statement-level
   translation of its closure (Gen/Src_staticdir.v, re-translated from echo_fs.go on every run): whatever the request, the
   file system and the unescaper, the only Location this handler ever passes to c.Redirect is sanitizeURI(URL.Path + "/") *)
From Coq Require Import String ZArith.
From Echo Require Import Base.Sx Base.GoLoop Gen.Src_staticdir Mw.StaticDirSrc.

Theorem C17_source_dir_redirect_sanitised : forall unescape stat sanitize p urlpath,
  let '(st', _) := GoLoop.run (ssym p urlpath) (spred unescape stat sanitize) src_static_dir_handler_results src_static_dir_handler StaticDirSrc.start in
  forall args, In ("c.Redirect"%string, args) (events st') -> args = [VZ 301%Z; VS (sanitize (urlpath ++ lit "/")%list)].
Proof. exact src_static_dir_redirects_sanitised. Qed.
Print Assumptions C17_source_dir_redirect_sanitised.

(* ---- the two trailing-slash middlewares, from the statement-level translation of their request handlers
   (Gen/Src_slashmw.v, re-translated from middleware/slash.go on every run): for every path, query, redirect code and
   skipper verdict the handler issues the model's Location - [add_slash] / [remove_slash], the functions the safety
   theorems above are about - or forwards exactly the model's path and request URI, or hands the request on untouched *)
From Echo Require Import Gen.Src_slashmw Mw.SlashSrc.
Theorem C17_source_add_slash_handler : forall (skip : bool) (code : Z) (path qs : str),
  let '(st', ret) := GoLoop.run (SlashSrc.ssym code path qs) SlashSrc.spred src_add_slash_handler_results src_add_slash_handler (SlashSrc.start skip) in
  handler_spec skip code (add_slash path qs) (add_slash_forward path qs) st' ret.
Proof. exact SlashSrc.C17_source_add_slash_handler. Qed.
Print Assumptions C17_source_add_slash_handler.
Theorem C17_source_remove_slash_handler : forall (skip : bool) (code : Z) (path qs : str),
  let '(st', ret) := GoLoop.run (SlashSrc.ssym code path qs) SlashSrc.spred src_remove_slash_handler_results src_remove_slash_handler (SlashSrc.start skip) in
  handler_spec skip code (remove_slash path qs) (remove_slash_forward path qs) st' ret.
Proof. exact SlashSrc.C17_source_remove_slash_handler. Qed.
Print Assumptions C17_source_remove_slash_handler.
