(* Model of binder.go's typed ValueBinder (scalar and slice methods, fail-fast chains) and of bind.go's
   setWithProperType, driven by the tables that go/gen extracts from the current source.  (C08)
   Families: 0 signed and 1 unsigned integers are parsed by the model itself (Bind/ParseNum.v);
   2 float, 3 bool, 4 duration are parsed by the standard library - strconv.ParseFloat / ParseBool,
   time.ParseDuration - which enters the model as the oracle [orc family bitSize text] (floats as their
   IEEE bit pattern at the destination width, bool as 0/1, duration as nanoseconds). *)
From Coq Require Import List Bool Ascii String ZArith.
From Echo Require Import Base.Sx Bind.ParseNum Gen.Src_binder.
Import ListNotations.
Open Scope Z_scope.

Record entry := { fam : Z; bits : Z; dw : Z; cw : Z; must : bool }.
Definition dec_entry (t : string * Z * Z * Z * Z * bool) : string * entry :=
  let '(n, f, b, d, c, m) := t in (n, {| fam := f; bits := b; dw := d; cw := c; must := m |}).

Fixpoint find_entry (tbl : list (string * Z * Z * Z * Z * bool)) (name : string) : option entry :=
  match tbl with
  | [] => None
  | t :: r => let '(n, e) := dec_entry t in if String.eqb n name then Some e else find_entry r name
  end.

(* strings.Split for a non-empty delimiter: leftmost, non-overlapping occurrences (BindWithDelimiter) *)
Fixpoint starts_with (d s : str) : bool :=
  match d, s with
  | [], _ => true
  | x :: d', y :: s' => Ascii.eqb x y && starts_with d' s'
  | _ :: _, [] => false
  end.
Fixpoint split_aux (d s : str) (skip : nat) (cur : str) : list str :=
  match s with
  | [] => [rev cur]
  | c :: r =>
      match skip with
      | S k => split_aux d r k cur                       (* inside an occurrence of the delimiter *)
      | O => if starts_with d s then rev cur :: split_aux d r (List.length d - 1) []
             else split_aux d r 0 (c :: cur)
      end
  end.
Definition split (d s : str) : list str := split_aux d s 0 [].
Fixpoint join (d : str) (l : list str) : str :=
  match l with [] => [] | [x] => x | x :: r => x ++ d ++ join d r end.

Section WithOracle.
Variable orc : Z -> Z -> str -> option Z.

Definition parse (f b : Z) (s : str) : option Z :=
  if f =? 0 then parse_int b s else if f =? 1 then parse_uint b s else orc f b s.
Definition wrap (f w z : Z) : Z := if f =? 0 then wrap_s w z else if f =? 1 then wrap_u w z else z.

(* b.int / b.uint: parse, then the type switch stores through a conversion (no arm: nothing stored) *)
Definition convert (e : entry) (s : str) (dest : Z) : Z * bool :=
  match parse (fam e) (bits e) s with
  | None => (dest, true)
  | Some n => (if 0 <? cw e then wrap (fam e) (cw e) n else dest, false)
  end.

(* intValue / uintValue: empty text = absent *)
Definition scalar_call (e : entry) (v : str) (dest : Z) : Z * bool :=
  match v with
  | [] => (dest, must e)
  | _ => convert e v dest
  end.

(* ints / uints: tmp is filled element by element; it is published only if the binder holds no error *)
Fixpoint fill (e : entry) (ff : bool) (vs : list str) : list Z * bool :=
  match vs with
  | [] => ([], false)
  | v :: r => let '(x, err) := convert e v 0 in
              if err && ff then ([], true)
              else let '(xs, errs) := fill e ff r in (x :: xs, err || errs)
  end.

Definition slice_call (e : entry) (ff had_err : bool) (vs : list str) (dest : list Z) : list Z * bool :=
  match vs with
  | [] => (dest, must e)
  | _ => let '(tmp, err) := fill e ff vs in
         if had_err || err then (dest, err) else (tmp, false)
  end.

(* scalar methods of binder.go that are written out by hand there (no common helper, so the translator has no
   table row for them): same protocol - skip after an error in fail-fast mode, empty text = absent (an error for
   the Must variant), store the converted value only on success.  Families: 5 the destination's own
   UnmarshalText / UnmarshalParam / UnmarshalJSON, 6 the text itself (String), 7 Unix time in s / ms / ns.
   Hand-written rows, tied to the code by the correspondence only. *)
Definition extra_scalars : list (string * Z * Z * Z * Z * bool) := [
  ("TextUnmarshaler", 5, 8, 8, 8, false); ("MustTextUnmarshaler", 5, 8, 8, 8, true);
  ("BindUnmarshaler", 5, 8, 8, 8, false); ("MustBindUnmarshaler", 5, 8, 8, 8, true);
  ("JSONUnmarshaler", 5, 8, 8, 8, false); ("MustJSONUnmarshaler", 5, 8, 8, 8, true);
  ("String", 6, 64, 64, 64, false); ("MustString", 6, 64, 64, 64, true);
  ("UnixTime", 7, 1, 64, 64, false); ("MustUnixTime", 7, 1, 64, 64, true);
  ("UnixTimeMilli", 7, 2, 64, 64, false); ("MustUnixTimeMilli", 7, 2, 64, 64, true);
  ("UnixTimeNano", 7, 3, 64, 64, false); ("MustUnixTimeNano", 7, 3, 64, 64, true)
]%string.
Definition find_scalar (name : string) : option entry :=
  match find_entry binder_scalars name with Some e => Some e | None => find_entry extra_scalars name end.

(* a chain of calls on one binder *)
Inductive call := CScalar (name : string) (v : str) (dest : Z) | CSlice (name : string) (vs : list str) (dest : list Z).
Inductive dest_val := DScalar (z : Z) | DSlice (l : list Z) | DUnknownMethod.

Fixpoint chain (ff had_err : bool) (cs : list call) : list dest_val * bool :=
  match cs with
  | [] => ([], had_err)
  | c :: r =>
      let skip := ff && had_err in
      let '(d, err) :=
        match c with
        | CScalar n v dest =>
            if skip then (DScalar dest, false)
            else match find_scalar n with
                 | Some e => let '(x, er) := scalar_call e v dest in (DScalar x, er)
                 | None => (DUnknownMethod, false)
                 end
        | CSlice n vs dest =>
            if skip then (DSlice dest, false)
            else match find_entry binder_slices n with
                 | Some e => let '(x, er) := slice_call e ff had_err vs dest in (DSlice x, er)
                 | None => (DUnknownMethod, false)
                 end
        end in
      let '(ds, e2) := chain ff (had_err || err) r in (d :: ds, e2)
  end.

(* struct binding: setIntField / setUintField through reflect.SetInt / SetUint; empty text = "0" *)
Fixpoint find_kind (tbl : list (string * Z * Z * Z)) (k : string) : option (Z * Z * Z) :=
  match tbl with
  | [] => None
  | (n, f, b, w) :: r => if String.eqb n k then Some (f, b, w) else find_kind r k
  end.
(* the text an empty value is replaced by: "0", "0.0" (setFloatField), "false" (setBoolField) *)
Definition zero_text (f : Z) : str := if f =? 2 then lit "0.0" else if f =? 3 then lit "false" else lit "0".
Definition bind_kind (k : string) (v : str) (dest : Z) : option (Z * bool) :=
  match find_kind bind_kinds k with
  | None => None
  | Some (f, b, w) =>
      let v' := match v with [] => zero_text f | _ => v end in
      Some (match parse f b v' with None => (dest, true) | Some n => (wrap f w n, false) end)
  end.
End WithOracle.
