package main

import (
	"fmt"
	"math/rand"

	"github.com/labstack/echo/v4"
)

func init() {
	props["C02"] = &propRunner{gen: genC02, rule: "route tables of 2-6 structurally distinct routes, each registered in up to 4 different orders (all 6 orders for 3 routes) on fresh Echo instances x 6 request paths x methods, plus host tables (1-3 hosts, requests with matching / other / case-variant Host); every (order, request) is compared with the model built in that order; predicate: same route chosen in every order, literal routes served by themselves, a matching route for the method is never answered 404/405; non-trivial = the outcome was compared across >= 3 registration orders of a table with >= 3 routes, or a host-routed request; distinct by (table order, method, path)"}
}

func rPermutations(rng *rand.Rand, n, max int) [][]int {
	var out [][]int
	id := make([]int, n)
	for i := range id {
		id[i] = i
	}
	out = append(out, id)
	if n <= 3 {
		var rec func(p []int, k int)
		rec = func(p []int, k int) {
			if k == len(p) {
				q := append([]int(nil), p...)
				same := true
				for i := range q {
					same = same && q[i] == i
				}
				if !same {
					out = append(out, q)
				}
				return
			}
			for i := k; i < len(p); i++ {
				p[k], p[i] = p[i], p[k]
				rec(p, k+1)
				p[k], p[i] = p[i], p[k]
			}
		}
		rec(append([]int(nil), id...), 0)
		return out
	}
	for len(out) < max {
		out = append(out, rng.Perm(n))
	}
	return out
}

func genC02(rng *rand.Rand, n int, emit func(Case), dist map[string]int) {
	rKnownCollisions(emit, true)
	reqMethods := []string{"GET", "POST", "GET", "PUT", "PURGE"}
	for it := 0; it < n; {
		if rng.Intn(6) == 0 {
			// ---------------- host routing
			hosts := []string{"", "api.example.com", "admin.example.com", "Api.Example.com"}
			nh := 1 + rng.Intn(3)
			srvOut := &rOutcome{}
			s := &rServer{out: srvOut}
			_ = s
			e := rBuild(nil, nil)
			if rng.Intn(2) == 0 {
				// a pass-through Pre middleware: routing then happens inside the chain, after Pre
				e.e.Pre(func(next echo.HandlerFunc) echo.HandlerFunc { return func(c echo.Context) error { return next(c) } })
				dist["host_tables_with_pre_middleware"]++
			}
			var hs []Sx
			tables := map[string][]rRoute{}
			base := 0
			ids := map[string]int{}
			for k := 0; k < nh+1; k++ {
				h := hosts[k]
				rs := rGenTable(rng, 3)
				tables[h] = rs
				ids[h] = base
				var hg *echo.Group
				if h != "" {
					hg = e.e.Host(h) // Echo.Host creates a fresh router each call: one group per host
				}
				for j, r := range rs {
					id := base + j
					hf := func(c echo.Context) error {
						*e.out = rOutcome{status: 200, id: id, names: append([]string(nil), c.ParamNames()...), vals: append([]string(nil), c.ParamValues()...), path: c.Path()}
						return c.NoContent(200)
					}
					if h == "" {
						e.e.Add(r.method, r.pattern, hf)
					} else {
						hg.Add(r.method, r.pattern, hf)
					}
				}
				base += 100
				hs = append(hs, L(S(h), rTableSx(rs)))
			}
			for q := 0; q < 6 && it < n; q++ {
				it++
				reqHost := hosts[rng.Intn(len(hosts))]
				if reqHost != "" && rng.Intn(4) == 0 {
					// the same name with a port or a trailing dot is ANOTHER Host value: it belongs to the default router
					reqHost += []string{":8080", ":443", "."}[rng.Intn(3)]
				}
				if rng.Intn(5) == 0 {
					reqHost = "other.example.com"
				}
				eff := tables[""]
				effBase := 0
				if t, okh := tables[reqHost]; okh && reqHost != "" {
					eff, effBase = t, ids[reqHost]
				}
				path := rGenPaths(rng, eff, 1)[0]
				if rng.Intn(3) == 0 {
					for _, t := range tables {
						path = rGenPaths(rng, t, 1)[0]
						break
					}
				}
				m := reqMethods[rng.Intn(len(reqMethods))]
				o := rServeOn(e.e, e.out, m, path, reqHost)
				ok, why := true, ""
				if o.status == 200 {
					if o.id < effBase || o.id >= effBase+len(eff) {
						ok, why = false, fmt.Sprintf("request for Host %q served by a route of another host's router (route id %d)", reqHost, o.id)
					} else {
						o.id -= effBase
						ok, why = rCheck(eff, m, path, o)
					}
				}
				cs := Case{In: L(I(1), L(hs...), S(reqHost), S(m), S(rRouterPath(path))), Out: o.sx(), Ok: ok, Why: why,
					Key:   fmt.Sprintf("host|%v|%s|%s|%s", tables, reqHost, m, path),
					Human: fmt.Sprintf("hosts %v; Host=%q %s %s -> %s", tables, reqHost, m, path, o)}
				dist["host_requests"]++
				emit(cs)
			}
			continue
		}
		rs := rGenTable(rng, 6)
		if len(rs) < 2 {
			continue
		}
		perms := rPermutations(rng, len(rs), 4)
		paths := rGenPaths(rng, rs, 6)
		var ms []string
		for range paths {
			m := reqMethods[rng.Intn(len(reqMethods))]
			if rng.Intn(2) == 0 {
				m = rs[rng.Intn(len(rs))].method
				if m == rNF {
					m = "GET"
				}
			}
			ms = append(ms, m)
		}
		// structural tie: after EVERY registration (first order) echo's real radix tree equals the model's tree
		if rng.Intn(2) == 0 {
			te := echo.New()
			for k, r := range rs {
				if it >= n {
					break
				}
				it++
				te.Add(r.method, r.pattern, func(c echo.Context) error { return nil })
				emit(Case{In: L(I(3), rTableSx(rs[:k+1])), Out: rParseDump(echo.VerifDumpRouter(te.Router())), Ok: true,
					Key:   "tree|" + rShowTable(rs[:k+1]),
					Human: fmt.Sprintf("radix tree after registering [%s]: %s", rShowTable(rs[:k+1]), echo.VerifDumpRouter(te.Router()))})
				dist["tree_dumps_compared"]++
			}
		}
		base := make([]string, len(paths)) // outcome in the first order, by route identity
		for pi, perm := range perms {
			prs := make([]rRoute, len(rs))
			for i, j := range perm {
				prs[i] = rs[j]
			}
			ids := make([]int, len(prs))
			for i := range ids {
				ids[i] = i
			}
			srv := rBuild(prs, ids)
			for qi, path := range paths {
				if it >= n {
					break
				}
				it++
				o := srv.serve(ms[qi], path)
				ok, why := rCheck(prs, ms[qi], path, o)
				ident := fmt.Sprint(o.status, o.allow)
				if o.status == 200 {
					ident = fmt.Sprintf("%s %s %q", prs[o.id].method, prs[o.id].pattern, o.vals)
				}
				if pi == 0 {
					base[qi] = ident
				} else if ok && ident != base[qi] {
					ok, why = false, fmt.Sprintf("registration order changes the result: order %v gives [%s], the first order gives [%s]", perm, ident, base[qi])
				}
				rp := rRouterPath(path)
				if ok {
					for i, r := range prs {
						// a path equal to a registered literal pattern is served by that route
						if r.method == ms[qi] && r.pattern == rp && !containsAny(r.pattern, ":*\\") && !(o.status == 200 && o.id == i) {
							ok, why = false, fmt.Sprintf("literal route %s %s is not served by itself: %s", r.method, r.pattern, o)
						}
						// a matching route for the method: never 404/405
						if r.method == ms[qi] && r.method != rNF && rMatch(r.pattern, rp) && o.status != 200 {
							ok, why = false, fmt.Sprintf("route %s %s matches the path but the request was answered %s", r.method, r.pattern, o)
						}
					}
				}
				cs := Case{In: L(I(0), rTableSx(prs), S(ms[qi]), S(rp)), Out: o.sx(), Ok: ok, Why: why,
					Human: fmt.Sprintf("order %v of table [%s] %s %s -> %s", perm, rShowTable(rs), ms[qi], path, o)}
				if len(rs) >= 3 && len(perms) >= 3 {
					cs.Key = fmt.Sprintf("%s|%s|%s", rShowTable(prs), ms[qi], path)
				}
				// known finding D11: a RouteNotFound route on a wildcard node ends the search although a
				// route for the method matches further up the backtracking path
				if ok && o.status == 200 && prs[o.id].method == rNF {
					for _, r := range prs {
						if r.method == ms[qi] && rMatch(r.pattern, rp) {
							cs.Ok, cs.Why = false, fmt.Sprintf("route %s %s matches the path but the custom not-found route %s answered", r.method, r.pattern, prs[o.id].pattern)
							cs.Key = "known:router.nf_wildcard_preempts"
						}
					}
				}
				dist[fmt.Sprintf("status_%d", o.status)]++
				dist[fmt.Sprintf("orders_%d", len(perms))]++
				emit(cs)
			}
		}
	}
}

func containsAny(s, chars string) bool {
	for i := 0; i < len(s); i++ {
		for j := 0; j < len(chars); j++ {
			if s[i] == chars[j] {
				return true
			}
		}
	}
	return false
}
