From Coq Require Import List ZArith Bool Arith.
From Echo Require Import Base.Sx Http.Context.
Import ListNotations.
(* input: ((event ...)); event = (req maxparam match prog); match = () | (handler path (name ...) (value ...))
   prog op: (0 k v) Set (1 l) SetLogger (2 p) SetPath (3 (n ...)) SetParamNames (4 (v ...)) SetParamValues
            (5) QueryParams (6 h) Before (7 h) After (8 code) WriteHeader (9 n) Write
   output: per event (req status size committed (before ...) (after ...) query-owner|-1 ((k v) ...) path (names) (values) rest-blank logger|-1 handler) *)
Definition dec_cop (x : sx) : cop :=
  let a := nth_sx 1 x in
  match as_Z (nth_sx 0 x) with
  | 0%Z => CSet (as_str a) (as_str (nth_sx 2 x))
  | 1%Z => CSetLogger (Z.to_nat (as_Z a))
  | 2%Z => CSetPath (as_str a)
  | 3%Z => CSetParamNames (map as_str (as_list a))
  | 4%Z => CSetParamValues (map as_str (as_list a))
  | 5%Z => CQuery
  | 6%Z => CBefore (Z.to_nat (as_Z a))
  | 7%Z => CAfter (Z.to_nat (as_Z a))
  | 8%Z => CWriteHeader (Z.to_nat (as_Z a))
  | _ => CWrite (Z.to_nat (as_Z a))
  end.
Definition dec_match (x : sx) : option matched :=
  match as_list x with
  | [] => None
  | _ => Some {| m_handler := Z.to_nat (as_Z (nth_sx 0 x)); m_path := as_str (nth_sx 1 x);
                 m_names := map as_str (as_list (nth_sx 2 x)); m_values := map as_str (as_list (nth_sx 3 x)) |}
  end.
Definition dec_event (x : sx) : nat * nat * option matched * list cop :=
  (Z.to_nat (as_Z (nth_sx 0 x)), Z.to_nat (as_Z (nth_sx 1 x)), dec_match (nth_sx 2 x), map dec_cop (as_list (nth_sx 3 x))).
Definition enc_opt (o : option nat) : sx := match o with Some n => of_nat n | None => SZ (-1) end.
Definition enc_obs (o : observation) : sx :=
  let r := o_resp o in
  SL [of_nat (o_req o); of_nat (rs_status r); of_nat (rs_size r); of_bool (rs_committed r);
      SL (map of_nat (rs_before r)); SL (map of_nat (rs_after r)); enc_opt (o_query o);
      SL (map (fun kv => SL [SS (fst kv); SS (snd kv)]) (o_store o)); SS (o_path o);
      SL (map SS (o_names o)); SL (map SS (o_values o)); of_bool (o_rest_blank o); enc_opt (o_logger o); of_nat (o_handler o)].
Definition run_sx (x : sx) : sx :=
  SL (map enc_obs (history (new_context 0 0) (map dec_event (as_list (nth_sx 0 x))))).
