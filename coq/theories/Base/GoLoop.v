(* GoLoop: GoLite (Base/GoLite.v) extended for the request-handler closures that decide over STRINGS and LISTS:
   values are integers or strings, `for _, x := range list` with `break`, and pure functions of the program's
   environment (len, strings.Contains, matchSubdomain, a compiled pattern's MatchString ...) as named predicates whose
   meaning is a parameter of the interpreter.  Same discipline as GoLite: the translator (go/gen/golite.go) emits a closed
   [list stmt]; a theorem per function relates running it to the hand-written model for every state. *)
From Coq Require Import List ZArith Bool String Ascii.
From Echo Require Import Base.Sx.
Import ListNotations.
Open Scope Z_scope.

Inductive val := VZ (z : Z) | VS (s : str) | VL (l : list val).     (* VL: a slice handed around as a value (the keys an extractor found) *)
Definition val_eqb (a b : val) : bool :=
  match a, b with
  | VZ x, VZ y => x =? y
  | VS x, VS y => str_eqb x y
  | _, _ => false
  end.
Definition as_z (v : val) : Z := match v with VZ z => z | _ => 0 end.
Definition as_l (v : val) : list val := match v with VL l => l | _ => [] end.

Inductive cmp := CLt | CLe | CGt | CGe | CEq | CNe.

Inductive expr :=
| EV (v : val)
| EVar (x : string)
| EField (f : string)
| ESym (s : string)
| EAdd (a b : expr)
| ESub (a b : expr)
| ECmp (c : cmp) (a b : expr)
| ENot (a : expr)
| EAnd (a b : expr)                        (* short-circuit, like Go's && and || *)
| EOr (a b : expr)
| EPred (p : string) (args : list expr).   (* a pure function of the environment *)

Inductive stmt :=
| SSet (x : string) (e : expr)
| SFSet (f : string) (e : expr)
| SIf (c : expr) (t e : list stmt)
| SRet (es : list expr)
| SEmit (tag : string) (args : list expr)
| SCall (xs : list string) (tag : string) (args : list expr)
| SRange (x : string) (l : string) (body : list stmt)     (* for _, x := range l { body }: l is a local holding a slice, else a list cell *)
| SForTo (i : string) (hi : expr) (body : list stmt)      (* for i := 0; i < hi; i++ { body }: hi is read once, on entry *)
| SWhile (fuel c : expr) (body post : list stmt)         (* [init;] for ; c; post { body } with i mutated freely: at most [fuel] (read once, on
                                                            entry) iterations; running out of fuel is the impossible result [Ret []] *)
| SBreak
| SCont
| SCallP (xs : list string) (p : string) (args : list expr).   (* xs := p(args) for a function of the environment that is a fixed
                                                                  (per request) function of its arguments: results from [pred], the call is recorded *)

Definition env := list (string * val).
Fixpoint get (m : env) (x : string) : val :=
  match m with [] => VZ 0 | (y, v) :: r => if String.eqb x y then v else get r x end.
Fixpoint put (m : env) (x : string) (v : val) : env :=
  match m with
  | [] => [(x, v)]
  | (y, w) :: r => if String.eqb x y then (x, v) :: r else (y, w) :: put r x v
  end.
Fixpoint getl (m : list (string * list val)) (x : string) : list val :=
  match m with [] => [] | (y, v) :: r => if String.eqb x y then v else getl r x end.

Record state := { locals : env; fields : env; lists : list (string * list val);
                  events : list (string * list val); inputs : list (list val) }.

Inductive ctl := Next | Ret (vs : list val) | Brk | Cont.

Section Interp.
Variable sym : string -> val.
Variable pred : string -> list val -> val.

Definition b2v (b : bool) : val := VZ (if b then 1 else 0).
Definition truthy (v : val) : bool := match v with VZ z => negb (z =? 0) | _ => false end.

Fixpoint eval (e : expr) (st : state) : val :=
  match e with
  | EV v => v
  | EVar x => get (locals st) x
  | EField f => get (fields st) f
  | ESym s => sym s
  | EAdd a b => VZ (as_z (eval a st) + as_z (eval b st))
  | ESub a b => VZ (as_z (eval a st) - as_z (eval b st))
  | ECmp c a b =>
      let va := eval a st in let vb := eval b st in
      let x := as_z va in let y := as_z vb in
      b2v (match c with CLt => x <? y | CLe => x <=? y | CGt => y <? x | CGe => y <=? x
                   | CEq => val_eqb va vb | CNe => negb (val_eqb va vb) end)
  | ENot a => b2v (negb (truthy (eval a st)))
  | EAnd a b => b2v (if truthy (eval a st) then truthy (eval b st) else false)
  | EOr a b => b2v (if truthy (eval a st) then true else truthy (eval b st))
  | EPred p args => pred p (map (fun a => eval a st) args)
  end.

Fixpoint assign (xs : list string) (vs : list val) (m : env) : env :=
  match xs, vs with
  | x :: xs', v :: vs' => assign xs' vs' (put m x v)
  | _, _ => m
  end.

Definition set_local (st : state) (x : string) (v : val) : state :=
  {| locals := put (locals st) x v; fields := fields st; lists := lists st; events := events st; inputs := inputs st |}.

(* for _, x := range vs { body }: break ends the loop, return ends the function *)
Fixpoint range_loop (run_body : state -> state * ctl) (x : string) (vs : list val) (st : state) {struct vs} : state * ctl :=
  match vs with
  | [] => (st, Next)
  | v :: rest =>
      match run_body (set_local st x v) with
      | (st2, Next) => range_loop run_body x rest st2
      | (st2, Cont) => range_loop run_body x rest st2
      | (st2, Brk) => (st2, Next)
      | (st2, Ret w) => (st2, Ret w)
      end
  end.

(* for ; cond; post { body }: `continue` still runs post; out of fuel = Ret [] (no translated function returns nothing) *)
Fixpoint while_loop (cond : state -> bool) (run_body run_post : state -> state * ctl) (n : nat) (st : state) {struct n} : state * ctl :=
  match n with
  | O => (st, Ret [])
  | S n' =>
      if cond st then
        match run_body st with
        | (st2, Brk) => (st2, Next)
        | (st2, Ret w) => (st2, Ret w)
        | (st2, _) => match run_post st2 with
                      | (st3, Next) => while_loop cond run_body run_post n' st3
                      | other => other
                      end
        end
      else (st, Next)
  end.

Fixpoint exec_s (results : list string) (s : stmt) (st : state) {struct s} : state * ctl :=
  match s with
  | SSet x e => (set_local st x (eval e st), Next)
  | SFSet f e => ({| locals := locals st; fields := put (fields st) f (eval e st); lists := lists st; events := events st; inputs := inputs st |}, Next)
  | SEmit tag args => ({| locals := locals st; fields := fields st; lists := lists st;
                          events := events st ++ [(tag, map (fun a => eval a st) args)]; inputs := inputs st |}, Next)
  | SCall xs tag args =>
      let vs := match inputs st with v :: _ => v | [] => [] end in
      ({| locals := assign xs vs (locals st); fields := fields st; lists := lists st;
          events := events st ++ [(tag, map (fun a => eval a st) args)]; inputs := tl (inputs st) |}, Next)
  | SRet [] => (st, Ret (map (get (locals st)) results))
  | SRet es => (st, Ret (map (fun e => eval e st) es))
  | SBreak => (st, Brk)
  | SCont => (st, Cont)
  | SCallP xs p args =>
      let vals := map (fun a => eval a st) args in
      ({| locals := assign xs (as_l (pred p vals)) (locals st); fields := fields st; lists := lists st;
          events := events st ++ [(p, vals)]; inputs := inputs st |}, Next)
  | SIf c t e =>
      (fix go (l : list stmt) (st : state) {struct l} : state * ctl :=
         match l with
         | [] => (st, Next)
         | x :: r => match exec_s results x st with
                     | (st', Next) => go r st'
                     | other => other
                     end
         end) (if truthy (eval c st) then t else e) st
  | SForTo x hi body =>
      range_loop (fun st' =>
        (fix go (b : list stmt) (st : state) {struct b} : state * ctl :=
           match b with
           | [] => (st, Next)
           | y :: b' => match exec_s results y st with
                        | (st', Next) => go b' st'
                        | other => other
                        end
           end) body st') x (map (fun k => VZ (Z.of_nat k)) (seq 0 (Z.to_nat (as_z (eval hi st))))) st
  | SWhile fu c body post =>
      while_loop (fun st' => truthy (eval c st'))
        (fun st' =>
          (fix go (b : list stmt) (st : state) {struct b} : state * ctl :=
             match b with
             | [] => (st, Next)
             | y :: b' => match exec_s results y st with
                          | (st', Next) => go b' st'
                          | other => other
                          end
             end) body st')
        (fun st' =>
          (fix go (b : list stmt) (st : state) {struct b} : state * ctl :=
             match b with
             | [] => (st, Next)
             | y :: b' => match exec_s results y st with
                          | (st', Next) => go b' st'
                          | other => other
                          end
             end) post st')
        (Z.to_nat (as_z (eval fu st))) st
  | SRange x l body =>
      range_loop (fun st' =>
        (fix go (b : list stmt) (st : state) {struct b} : state * ctl :=
           match b with
           | [] => (st, Next)
           | y :: b' => match exec_s results y st with
                        | (st', Next) => go b' st'
                        | other => other
                        end
           end) body st') x (match get (locals st) l with VL vs => vs | _ => getl (lists st) l end) st
  end.

Fixpoint exec (results : list string) (l : list stmt) (st : state) : state * ctl :=
  match l with
  | [] => (st, Next)
  | x :: r => match exec_s results x st with
              | (st', Next) => exec results r st'
              | other => other
              end
  end.

Definition run (results : list string) (body : list stmt) (st : state) : state * list val :=
  match exec results body st with
  | (st', Ret v) => (st', v)
  | (st', _) => (st', map (get (locals st')) results)
  end.
Lemma truthy_b2v b : truthy (b2v b) = b.
Proof. destruct b; reflexivity. Qed.

(* sequential composition: a body can be run in pieces *)
Lemma exec_app results l1 l2 st :
  exec results (l1 ++ l2) st =
  match exec results l1 st with
  | (st', Next) => exec results l2 st'
  | other => other
  end.
Proof.
  revert st. induction l1 as [|x r IH]; intros st; cbn [app exec].
  - reflexivity.
  - destruct (exec_s results x st) as [st' [| vs | |]]; [apply IH | reflexivity | reflexivity | reflexivity].
Qed.
End Interp.

(* an iteration that ends by falling through or by `continue`: both mean "on to the next element" *)
Definition goes_on (c : ctl) : Prop := c = Next \/ c = Cont.

(* does a statement contain a range loop?  (used to cut a body at its loops) *)
Fixpoint has_range (s : stmt) : bool :=
  match s with
  | SRange _ _ _ => true
  | SForTo _ _ _ => true
  | SIf _ t e => (fix any (l : list stmt) : bool := match l with [] => false | x :: r => has_range x || any r end) t
                 || (fix any (l : list stmt) : bool := match l with [] => false | x :: r => has_range x || any r end) e
  | _ => false
  end.
Fixpoint first_range (l : list stmt) : nat :=
  match l with [] => O | x :: r => if has_range x then O else S (first_range r) end.

(* symbolic evaluation of a translated body: as far as the state decides *)
Ltac goloop_eval := repeat (cbn [exec exec_s eval get put getl assign set_local locals fields lists events inputs String.eqb Ascii.eqb Bool.eqb
                                 map tl app negb andb orb fst snd as_z as_l val_eqb]; rewrite ?truthy_b2v).
