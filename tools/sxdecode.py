#!/usr/bin/env python3
"""Pretty-prints sx text read from stdin with hex strings decoded."""
import re, sys
print(re.sub(r'#([0-9a-f]*)', lambda m: '"' + bytes.fromhex(m.group(1)).decode('latin1') + '"', sys.stdin.read()))
