(* C02 — route choice = static > param > wildcard search with full backtracking, order-free.
   Statements only; proofs in Router/*.v (3 kLoC refinement: radix tree built by replaying echo's
   insertNode call sequence = order-free specification [search] over the list of patterns).
   Domain [wf_table]: escape-free patterns (leading "/", no literal ':' '*', '*' last), no structural
   duplicates.  The goto state machine of Router.Find is represented by its structured equivalent
   [find_node] on the same tree (see DESIGN: trusted base). *)
From Coq Require Import List Arith Bool Ascii String Permutation.
From Echo.Router Require Import Spec2 Fuel Refine Insert InsProof Walk Live Toks Build Sound Complete Top.
Import ListNotations.

(* the tree echo builds, searched as Find does, equals the documented priority search over the set *)
Theorem C02_refines : forall rs m p, wf_table rs ->
  dispatch (build rs) m p = spec_dispatch (fuel_for rs) rs m p.
Proof. exact dispatch_spec. Qed.
Print Assumptions C02_refines.

(* the chosen handler depends only on the set of routes, never on the registration order *)
Theorem C02_order_free : forall rs rs' m p,
  Forall (fun r => wf_toks (rt_toks r)) rs -> NoDup (map rkey rs) -> Permutation rs rs' ->
  dispatch (build rs) m p = dispatch (build rs') m p.
Proof. exact dispatch_order_free. Qed.
Print Assumptions C02_order_free.

(* the specification itself is invariant under permutation of the live set *)
Theorem C02_spec_perm : forall fuel m pre ls ls' p vals best,
  Permutation ls ls' -> live_ok pre ls -> uniq ls -> any_last ls ->
  search fuel m pre ls p vals best = search fuel m pre ls' p vals best.
Proof. exact search_perm. Qed.
Print Assumptions C02_spec_perm.

(* a request that some registered pattern matches for its method is never answered 404 or 405 -
   also when deeper wildcard / parameter routes exist only for other methods *)
Theorem C02_complete : forall rs m p r, wf_table rs -> m <> NF -> In r rs -> rt_m r = m ->
  matchT (rt_toks r) p -> is_found (dispatch (build rs) m p).
Proof. exact instance_complete. Qed.
Print Assumptions C02_complete.
