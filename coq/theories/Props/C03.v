(* C03 — 404 / 405 / OPTIONS contract and truthful Allow.  Statements only; proofs in Router/Top.v,
   Router/Allow.v.  [Miss None] = 404; [Miss (Some b)] = 405 (OPTIONS: 204) whose Allow lists OPTIONS
   and the methods registered at the pattern position b (Glue/GRouter.v allow_of).
   [matchQ]: pattern instance relation incl. echo's documented quirk (a parameter ending the pattern
   may absorb the rest). *)
From Coq Require Import List Arith Bool Ascii String Permutation.
From Echo.Router Require Import Spec2 Fuel Refine Insert InsProof Walk Live Toks Build Sound Complete Allow Top Methods.
From Echo Require Import Gen.Src_methods.
Import ListNotations.
From Echo Require Import PropLemmas.C03.

(* a path no registered pattern (of any method, RouteNotFound included) matches: 404 *)
Theorem C03_404 : forall rs m p, wf_table rs ->
  (forall r, In r rs -> ~ matchQ (rt_toks r) p) -> dispatch (build rs) m p = Miss None.
Proof. exact instance_404. Qed.
Print Assumptions C03_404.

(* 404 is independent of the method; hence a path matched by some route of another method is never 404 *)
Theorem C03_404_method_independent : forall rs m m' p, wf_table rs ->
  dispatch (build rs) m p = Miss None -> dispatch (build rs) m' p = Miss None.
Proof. exact instance_404_method_indep. Qed.
Print Assumptions C03_404_method_independent.

Theorem C03_matched_by_other_method_not_404 : forall rs m m' p r, wf_table rs -> m' <> NF ->
  In r rs -> rt_m r = m' -> matchT (rt_toks r) p -> dispatch (build rs) m p <> Miss None.
Proof. exact C03_matched_by_other_method_not_404_l. Qed.
Print Assumptions C03_matched_by_other_method_not_404.

(* every method advertised for the 405 position, sent to the same path, is really served *)
Theorem C03_allow_truthful : forall rs m m' p b r', wf_table rs -> m' <> NF ->
  dispatch (build rs) m p = Miss (Some b) -> In r' rs -> rt_toks r' = b -> rt_m r' = m' ->
  is_found (dispatch (build rs) m' p).
Proof. exact instance_allow_truthful. Qed.
Print Assumptions C03_allow_truthful.

(* the four hand-written method <-> slot tables of router.go (regenerated from the source on every run):
   each of the 11 built-in methods is read from the slot it is written to, that slot makes the node a handler
   node and Allow advertises it under the method's own name; custom methods go through the per-name map in
   all places; the not-found pseudo method is neither a handler slot nor ever advertised *)
Theorem C03_tables_agree : tables_ok = true.
Proof. exact tables_agree. Qed.
Print Assumptions C03_tables_agree.

Theorem C03_method_agrees : forall m, In m standard_methods -> method_ok m = true.
Proof. exact method_agrees. Qed.
Print Assumptions C03_method_agrees.

(* ---- the two responders themselves, from their statement-level translation (Gen/Src_allowhandlers.v, re-translated from echo.go
   and router.go on every run): the 405 answer sets Allow to exactly the value the router left in the context (a non-empty
   string; otherwise no Allow) and is ErrMethodNotAllowed; the automatic OPTIONS answer adds exactly the Allow value it was built
   with and answers 204 through NoContent *)
From Coq Require Import ZArith String.
From Echo Require Import Base.GoLite Gen.Src_allowhandlers Router.AllowHandlersSrc.
Theorem C03_source_method_not_allowed : forall (sym : String.string -> Z) (allow ok : Z),
  let '(st', ret) := GoLite.run sym src_method_not_allowed_handler_results src_method_not_allowed_handler
                       {| GoLite.locals := [("c"%string, 0%Z)]; GoLite.fields := []; GoLite.events := []; GoLite.inputs := [[allow; ok]] |} in
  ret = [sym "ErrMethodNotAllowed"%string] /\
  GoLite.events st' = ("c.Get(ContextKeyHeaderAllow).(string)"%string, []) ::
               (if (negb (ok =? 0) && negb (allow =? sym """"""%string))%Z then [("c.Response().Header().Set"%string, [sym "HeaderAllow"%string; allow])] else []).
Proof. exact AllowHandlersSrc.C03_source_method_not_allowed. Qed.
Print Assumptions C03_source_method_not_allowed.
Theorem C03_source_options_responder : forall (sym : String.string -> Z),
  let '(st', ret) := GoLite.run sym src_options_method_handler_results src_options_method_handler
                       {| GoLite.locals := [("c"%string, 0%Z)]; GoLite.fields := []; GoLite.events := []; GoLite.inputs := [] |} in
  ret = [sym "result of c.NoContent"%string] /\
  GoLite.events st' = [("c.Response().Header().Add"%string, [sym "HeaderAllow"%string; sym "allowMethods"%string]); ("c.NoContent"%string, [sym "http.StatusNoContent"%string])].
Proof. exact AllowHandlersSrc.C03_source_options_responder. Qed.
Print Assumptions C03_source_options_responder.
