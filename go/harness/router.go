package main

import (
	"fmt"
	"math/rand"
	"net/http"
	"net/http/httptest"
	"net/url"
	"sort"
	"strings"

	"github.com/labstack/echo/v4"
)

// shared machinery of the router family C01 C02 C03 C20

type rRoute struct{ method, pattern string }

type rOutcome struct {
	status int
	id     int
	names  []string
	vals   []string
	allow  []string
	path   string // c.Path() seen by the handler
}

func (o rOutcome) sx() Sx {
	switch o.status {
	case 200:
		return L(I(200), I(o.id), LS(o.names), LS(o.vals))
	case 404:
		return L(I(404))
	case 405, 204:
		return L(I(o.status), LS(o.allow))
	}
	return L(I(o.status))
}
func (o rOutcome) String() string {
	switch o.status {
	case 200:
		return fmt.Sprintf("route#%d %q names=%q values=%q", o.id, o.path, o.names, o.vals)
	case 405, 204:
		return fmt.Sprintf("%d Allow=%v", o.status, o.allow)
	}
	return fmt.Sprint(o.status)
}

const rNF = echo.RouteNotFound

var rSegs = []string{"a", "b", "ab", "ba", "abc", "users", "us", ":x", ":y", ":id", "a:x", "u:n", "*", "", "a*", "v1", "caf\u00e9", "cafe", "caf\u00e8"} // (the last ones: multi-byte UTF-8 in literal text, sharing a byte prefix)
var rMethods = []string{"GET", "POST", "GET", "GET", rNF, "PURGE", "PUT", "LOCK"}

// all eleven built-in methods, the not-found pseudo method and custom names (C03)
var rAllMethods = []string{"CONNECT", "DELETE", "GET", "HEAD", "OPTIONS", "PATCH", "POST", "PROPFIND", "PUT", "TRACE", "REPORT", rNF, "PURGE", "LOCK", "get", "QUERY"}

func rGenPattern(rng *rand.Rand) string {
	n := rng.Intn(4)
	p := ""
	for i := 0; i < n; i++ {
		s := rSegs[rng.Intn(len(rSegs))]
		p += "/" + s
		if strings.HasSuffix(s, "*") {
			return p
		}
	}
	if p == "" || rng.Intn(4) == 0 {
		p += "/"
	}
	return p
}

// rRenameParams gives every parameter of the pattern another name (same structure, same tree nodes).
func rRenameParams(p string) string {
	var sb strings.Builder
	for i := 0; i < len(p); i++ {
		sb.WriteByte(p[i])
		if p[i] == ':' && (i == 0 || p[i-1] != '\\') {
			for i+1 < len(p) && p[i+1] != '/' {
				i++
				sb.WriteByte(p[i])
			}
			sb.WriteString("2")
		}
	}
	return sb.String()
}

// structural key: method + pattern with parameter names erased
func rKey(r rRoute) string {
	var sb strings.Builder
	p := r.pattern
	for i := 0; i < len(p); i++ {
		switch {
		case p[i] == '\\' && i+1 < len(p) && p[i+1] == ':':
			sb.WriteString("\\:")
			i++
		case p[i] == ':':
			sb.WriteByte(':')
			for i+1 < len(p) && p[i+1] != '/' {
				i++
			}
		case p[i] == '*':
			sb.WriteByte('*')
			i = len(p)
		default:
			sb.WriteByte(p[i])
		}
	}
	return r.method + " " + sb.String()
}

// structural template: a static node with both a parameter child and a wildcard child, a route that
// splits that node later, and fall-back routes higher up (exercises re-parenting and backtracking)
func rGenTemplate(rng *rand.Rand) []rRoute {
	bases := []string{"/users", "/ab", "/a/b", "/v1/us", "/abc/a"}
	base := bases[rng.Intn(len(bases))]
	m1, m2 := "GET", "POST"
	if rng.Intn(2) == 0 {
		m1, m2 = m2, m1
	}
	tails := []string{"/profile", "/a", "", "/b/:y"}
	rs := []rRoute{{m1, base + "/*"}, {m2, base + "/:id" + tails[rng.Intn(len(tails))]}}
	switch rng.Intn(3) {
	case 0:
		rs = append(rs, rRoute{m2, "/*"})
	case 1:
		rs = append(rs, rRoute{m2, "/:section" + base[strings.IndexByte(base[1:], '/')+1:] + "/:name"}, rRoute{m2, "/:section/*"})
	default:
		rs = append(rs, rRoute{m2, base + "/:id/*"})
	}
	cut := 2 + rng.Intn(len(base)-1) // up to the whole base: the node owning the parameter and wildcard children is split
	rs = append(rs, rRoute{rMethods[rng.Intn(len(rMethods))], base[:cut] + []string{"x", "ploads", "/z", ""}[rng.Intn(4)]})
	if rng.Intn(2) == 0 {
		rs = append(rs, rRoute{rNF, base + "/*"})
	}
	if rng.Intn(2) == 0 {
		// a not-found route sharing its node with method handlers, and a less specific route matching the same paths
		rs = append(rs, rRoute{rNF, rs[1].pattern}, rRoute{m2, "/:kind/:name"})
		if rng.Intn(2) == 0 {
			// ... which carries a not-found route of its own: two fully matching nodes, each with a snapshot of values
			rs = append(rs, rRoute{rNF, "/:kind/:name"})
		}
	}
	seen := map[string]bool{}
	var out []rRoute
	for _, r := range rs {
		if !seen[rKey(r)] {
			seen[rKey(r)] = true
			out = append(out, r)
		}
	}
	rng.Shuffle(len(out), func(i, j int) { out[i], out[j] = out[j], out[i] })
	return out
}

var rMethodPool = rMethods

// tables with escaped colons (literal ':' in the path) next to parameters and wildcards; none of them puts an escaped colon
// and a parameter at the SAME tree position (that collision is the known finding D3)
var rEscTables = [][]string{
	{`/v1/things\::verb`},
	{`/books\::id`, `/books`},
	{`/v1/docs\:*`, `/v1/docs`},
	{`/v1/items/:id/state`, `/v1/items/:id/state\:lock`, `/v1/items/:id/state\:unlock`},
	{`/v1/:kind/:name/actions\:restart`, `/v1/:kind/:name/actions\:reload`, `/v1/:kind/:name/actions`},
	{`/k\:v/:id`, `/k\:v`, `/k\:w/:id`},
	{`/mixed/:id/second\:something`, `/mixed/:id/second`},
}

func rGenTable(rng *rand.Rand, max int) []rRoute {
	rMethods := rMethodPool
	if max >= 5 && rng.Intn(12) == 0 {
		var rs []rRoute
		for _, p := range rEscTables[rng.Intn(len(rEscTables))] {
			rs = append(rs, rRoute{[]string{"GET", "POST"}[rng.Intn(2)], p})
		}
		rng.Shuffle(len(rs), func(i, j int) { rs[i], rs[j] = rs[j], rs[i] })
		return rs
	}
	if max >= 5 && rng.Intn(150) == 0 {
		// one route with more than 255 parameters in front of a wildcard (counters and indices wider than a byte)
		p := ""
		for i, n := 0, 250+rng.Intn(15); i < n; i++ {
			p += fmt.Sprintf("/:p%d", i)
		}
		return []rRoute{{"GET", p + "/*"}, {"GET", "/a/:x"}}
	}
	if max >= 5 && rng.Intn(30) == 0 {
		// a pattern with 5-9 parameters that carries both a method handler and a not-found route (the values of the not-found
		// route are a snapshot taken while the search goes on), and a less specific route next to it
		p := "/o"
		for i, n := 0, 5+rng.Intn(5); i < n; i++ {
			p += fmt.Sprintf("/:p%d", i)
		}
		m1 := []string{"GET", "POST"}[rng.Intn(2)]
		rs := []rRoute{{m1, p}, {rNF, p}}
		if rng.Intn(2) == 0 {
			rs = append(rs, rRoute{[]string{"GET", "POST", rNF}[rng.Intn(3)], "/o/*"})
		}
		rng.Shuffle(len(rs), func(i, j int) { rs[i], rs[j] = rs[j], rs[i] })
		return rs
	}
	if max >= 3 && rng.Intn(25) == 0 {
		// a node whose ONLY handler is one of the rarely used built-in methods, split by a later registration (the flags of the
		// node are rebuilt from its method table when it is split)
		m := rAllMethods[rng.Intn(11)]
		b := []string{"/reports/da", "/ab", "/users/x"}[rng.Intn(3)]
		rs := []rRoute{{m, b + "ily"}, {[]string{"GET", m, "POST"}[rng.Intn(3)], b + "ta"}}
		if rng.Intn(2) == 0 {
			rs = append(rs, rRoute{m, b[:len(b)-1] + "/:x"})
		}
		if rng.Intn(2) == 0 {
			rs[0], rs[1] = rs[1], rs[0]
		}
		return rs
	}
	if max >= 5 && rng.Intn(3) == 0 {
		return rGenTemplate(rng)
	}
	n := 1 + rng.Intn(max)
	var rs []rRoute
	seen := map[string]bool{}
	for tries := 0; len(rs) < n && tries < 50; tries++ {
		r := rRoute{rMethods[rng.Intn(len(rMethods))], rGenPattern(rng)}
		if len(rs) > 0 && rng.Intn(3) == 0 { // same path, another method
			r.pattern = rs[rng.Intn(len(rs))].pattern
			if rng.Intn(2) == 0 {
				// ... with parameter NAMES of its own: pattern and names are per method, the tree node is shared
				r.pattern = rRenameParams(r.pattern)
			}
		}
		if seen[rKey(r)] {
			continue
		}
		seen[rKey(r)] = true
		rs = append(rs, r)
	}
	return rs
}

type rServer struct {
	e    *echo.Echo
	out  *rOutcome
	host string // non-empty: the table lives in the router of this host, registered through a sub-group of the host group
	hg   *echo.Group
}

// add registers one more route on a server that has already served requests.
func (s *rServer) add(r rRoute, id int) {
	h := func(c echo.Context) error {
		*s.out = rOutcome{status: 200, id: id, names: append([]string(nil), c.ParamNames()...), vals: append([]string(nil), c.ParamValues()...), path: c.Path()}
		return c.NoContent(http.StatusOK)
	}
	if s.hg != nil {
		s.hg.Add(r.method, r.pattern, h)
		return
	}
	s.e.Add(r.method, r.pattern, h)
}

var rBuildCount int

func rBuild(rs []rRoute, ids []int) *rServer {
	s := &rServer{e: echo.New(), out: &rOutcome{}}
	rBuildCount++
	if rBuildCount%3 == 0 {
		// every third instance routes inside the chain, behind a pass-through Pre middleware (the other entry into Router.Find)
		s.e.Pre(func(next echo.HandlerFunc) echo.HandlerFunc { return func(c echo.Context) error { return next(c) } })
	}
	var hostGroup *echo.Group
	if rBuildCount%5 == 0 {
		// every fifth table is served for a host name, registered through Echo.Host(name).Group(""): host routing in front of it
		s.host = "tables.example.com"
		hostGroup = s.e.Host(s.host).Group("")
		s.hg = hostGroup
	}
	for k, r := range rs {
		id := ids[k]
		h := func(c echo.Context) error {
			*s.out = rOutcome{status: 200, id: id, names: append([]string(nil), c.ParamNames()...), vals: append([]string(nil), c.ParamValues()...), path: c.Path()}
			if id%3 == 0 {
				// application code renames the parameters of ITS request afterwards: the route table must not notice
				renamed := make([]string, len(c.ParamNames()))
				for i := range renamed {
					renamed[i] = fmt.Sprintf("renamed%d", i)
				}
				c.SetParamNames(renamed...)
			}
			return c.NoContent(http.StatusOK)
		}
		if hostGroup != nil {
			hostGroup.Add(r.method, r.pattern, h)
			continue
		}
		rAdd(s.e, rBuildCount+k, r.method, r.pattern, h)
	}
	return s
}

// rAdd registers through the per-method helper (Echo.GET, Echo.PATCH, ..., Echo.RouteNotFound) every other time, else through Echo.Add.
func rAdd(e *echo.Echo, salt int, method, pattern string, h echo.HandlerFunc) {
	if salt%2 == 0 {
		switch method {
		case http.MethodGet:
			e.GET(pattern, h)
			return
		case http.MethodPost:
			e.POST(pattern, h)
			return
		case http.MethodPut:
			e.PUT(pattern, h)
			return
		case http.MethodDelete:
			e.DELETE(pattern, h)
			return
		case http.MethodPatch:
			e.PATCH(pattern, h)
			return
		case http.MethodHead:
			e.HEAD(pattern, h)
			return
		case http.MethodOptions:
			e.OPTIONS(pattern, h)
			return
		case http.MethodConnect:
			e.CONNECT(pattern, h)
			return
		case http.MethodTrace:
			e.TRACE(pattern, h)
			return
		case rNF:
			e.RouteNotFound(pattern, h)
			return
		}
	}
	e.Add(method, pattern, h)
}

func rServeOn(e *echo.Echo, out *rOutcome, method, path, host string) (o rOutcome) {
	req := httptest.NewRequest(http.MethodGet, "/", nil)
	req.Method = method
	u, err := url.ParseRequestURI(path)
	if err != nil {
		u = &url.URL{Path: path}
	}
	req.URL = u
	if host != "" {
		req.Host = host
	}
	rec := httptest.NewRecorder()
	*out = rOutcome{}
	defer func() {
		if r := recover(); r != nil {
			o = rOutcome{status: 599}
		}
	}()
	e.ServeHTTP(rec, req)
	if out.status == 200 {
		return *out
	}
	o = rOutcome{status: rec.Code}
	if rec.Code == 405 || rec.Code == 204 {
		for _, m := range strings.Split(rec.Header().Get("Allow"), ",") {
			if m = strings.TrimSpace(m); m != "" {
				o.allow = append(o.allow, m)
			}
		}
		sort.Strings(o.allow)
	}
	return o
}

func (s *rServer) serve(method, path string) rOutcome {
	return rServeOn(s.e, s.out, method, path, s.host)
}

// the path as the router sees it: RawPath if set, else Path
func rRouterPath(path string) string {
	u, err := url.ParseRequestURI(path)
	if err != nil {
		return path
	}
	if u.RawPath != "" {
		return u.RawPath
	}
	return u.Path
}

// rebuild the path from pattern + values (property C01), "" , false if the value count is wrong
func rSubst(pattern string, vals []string) (string, bool, bool) {
	var sb strings.Builder
	vi := 0
	slashOK := true
	p := pattern
	if p == "" || p[0] != '/' {
		p = "/" + p
	}
	for i := 0; i < len(p); i++ {
		switch {
		case p[i] == '\\' && i+1 < len(p) && p[i+1] == ':':
			sb.WriteByte(':')
			i++
		case p[i] == ':':
			for i+1 < len(p) && p[i+1] != '/' {
				i++
			}
			if vi >= len(vals) {
				return "", false, false
			}
			if i+1 < len(p) && strings.Contains(vals[vi], "/") {
				slashOK = false // a parameter followed by more pattern text must not hold '/'
			}
			sb.WriteString(vals[vi])
			vi++
		case p[i] == '*':
			if vi >= len(vals) {
				return "", false, false
			}
			sb.WriteString(vals[vi])
			vi++
			i = len(p)
		default:
			sb.WriteByte(p[i])
		}
	}
	return sb.String(), vi == len(vals), slashOK
}

// table-independent matching of the property: literal text, a parameter = text up to the next '/'
// (needs a non-empty remaining path), '*' = the rest
func rMatch(pattern, path string) bool {
	p := pattern
	if p == "" || p[0] != '/' {
		p = "/" + p
	}
	var rec func(i int, s string) bool
	rec = func(i int, s string) bool {
		if i >= len(p) {
			return s == ""
		}
		switch {
		case p[i] == '\\' && i+1 < len(p) && p[i+1] == ':':
			return s != "" && s[0] == ':' && rec(i+2, s[1:])
		case p[i] == ':':
			j := i
			for j+1 < len(p) && p[j+1] != '/' {
				j++
			}
			if s == "" {
				return false
			}
			k := strings.IndexByte(s, '/')
			if k < 0 {
				k = len(s)
			}
			return rec(j+1, s[k:])
		case p[i] == '*':
			return true
		}
		return s != "" && s[0] == p[i] && rec(i+1, s[1:])
	}
	return rec(0, path)
}

func rGenPaths(rng *rand.Rand, rs []rRoute, k int) []string {
	vals := []string{"1", "x", "ab", "a", "users", "", "a.b", "v1", "b", "a|b", "caf\u00e9", "{x}"} // (|, { and raw non-ASCII: bytes net/url would escape by itself)
	var out []string
	for len(out) < k {
		r := rs[rng.Intn(len(rs))]
		var sb strings.Builder
		p := r.pattern
		if p == "" || p[0] != '/' {
			p = "/" + p
		}
		for i := 0; i < len(p); i++ {
			switch {
			case p[i] == '\\' && i+1 < len(p) && p[i+1] == ':':
				sb.WriteByte(':')
				i++
			case p[i] == ':':
				for i+1 < len(p) && p[i+1] != '/' {
					i++
				}
				sb.WriteString(vals[rng.Intn(len(vals))])
			case p[i] == '*':
				switch rng.Intn(4) {
				case 0:
				case 1:
					sb.WriteString("x")
				case 2:
					sb.WriteString("a/b")
				default:
					sb.WriteString("users/1/")
				}
				i = len(p)
			default:
				sb.WriteByte(p[i])
			}
		}
		path := sb.String()
		if strings.Contains(p, `\:`) && rng.Intn(4) == 0 {
			path = strings.ReplaceAll(p, `\:`, ":") // the pattern's own text as a path (parameter markers and all)
		}
		switch rng.Intn(9) {
		case 0:
			path += "/"
		case 1:
			path += "/x"
		case 2:
			if len(path) > 1 {
				path = path[:len(path)-1]
			}
		case 3:
			path = strings.TrimSuffix(path, "/")
		case 4:
			path = "/" + rSegs[rng.Intn(7)] + "/" + rSegs[rng.Intn(7)]
		case 5:
			path += "%2Fz" // sets RawPath
		}
		if path == "" {
			path = "/"
		}
		if rng.Intn(40) == 0 {
			// request targets that are legal HTTP but not rooted paths: `OPTIONS *`, the empty path of an absolute-form target
			// (`GET http://example.com`), a relative path handed to Router.Find directly - no rooted pattern has them as instance
			path = []string{"*", "", "users/1", "a", "ab/"}[rng.Intn(5)]
		}
		out = append(out, path)
	}
	return out
}

func rTableSx(rs []rRoute) Sx {
	l := make([]Sx, len(rs))
	for i, r := range rs {
		l[i] = L(S(r.method), S(r.pattern))
	}
	return L(l...)
}

func rShowTable(rs []rRoute) string {
	var parts []string
	for _, r := range rs {
		parts = append(parts, r.method+" "+r.pattern)
	}
	return strings.Join(parts, "; ")
}

// rPatternNames: the parameter names a pattern declares, in order (":name" up to the next '/', "*" for the wildcard;
// an escaped colon is literal text)
func rPatternNames(p string) []string {
	names := []string{}
	for i := 0; i < len(p); i++ {
		switch {
		case p[i] == '\\' && i+1 < len(p) && p[i+1] == ':':
			i++
		case p[i] == ':':
			j := i + 1
			for j < len(p) && p[j] != '/' {
				j++
			}
			names = append(names, p[i+1:j])
			i = j - 1
		case p[i] == '*':
			names = append(names, "*")
			return names
		}
	}
	return names
}

// shared per-request predicate evaluation; returns ok, why
func rCheck(rs []rRoute, method, path string, o rOutcome) (bool, string) {
	rp := rRouterPath(path)
	switch o.status {
	case 599:
		return false, "router panicked"
	case 200:
		if o.id < 0 || o.id >= len(rs) {
			return false, "unknown route served"
		}
		r := rs[o.id]
		if r.method != method && r.method != rNF {
			return false, fmt.Sprintf("request %s served by the %s route %q", method, r.method, r.pattern)
		}
		if want := rPatternNames(r.pattern); fmt.Sprint(o.names) != fmt.Sprint(want) {
			return false, fmt.Sprintf("route %q: the handler sees parameter names %q, the pattern declares %q", r.pattern, o.names, want)
		}
		got, cnt, slashOK := rSubst(r.pattern, o.vals)
		if !cnt || len(o.vals) != len(o.names) {
			return false, fmt.Sprintf("route %q: %d names %q but %d values %q", r.pattern, len(o.names), o.names, len(o.vals), o.vals)
		}
		if got != rp {
			return false, fmt.Sprintf("route %q with values %q rebuilds %q, but the request path is %q", r.pattern, o.vals, got, rp)
		}
		_ = slashOK
	}
	return true, ""
}

// rParseDump turns echo.VerifDumpRouter's text into the canonical sx of Glue/GRouter.v tree_sx
func rParseDump(s string) Sx {
	pos := 0
	var node func() Sx
	node = func() Sx {
		if s[pos] == '-' {
			pos++
			return L()
		}
		pos++ // (
		kind := map[byte]int{'S': 0, 'P': 1, 'A': 2}[s[pos]]
		pos += 2
		j := strings.IndexByte(s[pos:], ' ') + pos
		pfx, _ := hexDecode(s[pos:j])
		pos = j + 1
		j = strings.IndexByte(s[pos:], ']') + pos
		var ms []string
		for _, m := range strings.Split(s[pos+1:j], ",") {
			if m != "" {
				ms = append(ms, m)
			}
		}
		sort.Strings(ms)
		pos = j + 2
		nf := s[pos:pos+2] == "NF"
		pos += 3
		leaf, handler := s[pos] == 'L', s[pos+1] == 'H'
		pos += 4 // flags, space, {
		type kid struct {
			sx  Sx
			pfx string
		}
		var kids []kid
		for s[pos] != '}' {
			start := pos
			c := node()
			// the child's prefix: second token of its text
			txt := s[start:pos]
			f := strings.Fields(txt)
			p, _ := hexDecode(f[1])
			kids = append(kids, kid{c, p})
		}
		pos += 2
		sort.SliceStable(kids, func(a, b int) bool { return kids[a].pfx < kids[b].pfx })
		var ks []Sx
		for _, k := range kids {
			ks = append(ks, k.sx)
		}
		pc := node()
		pos++
		ac := node()
		pos++ // )
		return L(I(kind), S(pfx), LS(ms), B(nf), B(leaf), B(handler), L(ks...), pc, ac)
	}
	return node()
}

func hexDecode(h string) (string, error) {
	b := make([]byte, len(h)/2)
	for i := range b {
		var v int
		fmt.Sscanf(h[2*i:2*i+2], "%02X", &v)
		b[i] = byte(v)
	}
	return string(b), nil
}
