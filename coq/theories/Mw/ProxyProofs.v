From Coq Require Import List Arith Lia Bool.
From Echo Require Import Mw.Proxy.
Import ListNotations.

Section RR.
Variable T : Type.
Variable eqb : T -> T -> bool.
Hypothesis eqb_spec : forall a b, eqb a b = true <-> a = b.

Notation st := (st T).
Notation next := (next T).
Notation add := (add T eqb).
Notation remove := (remove T eqb).
Notation remove1 := (remove1 T eqb).

Theorem next_in_range s last s' last' i : next s last = (s', last', Some i) ->
  i < length (targets T s) /\ targets T s' = targets T s.
Proof.
  unfold Proxy.next. destruct (targets T s) as [|a [|b l]] eqn:E.
  - discriminate.
  - intros H. injection H as <- <- <-. rewrite E. simpl. split; [lia|auto].
  - remember (a :: b :: l) as L eqn:EL. assert (HL : 2 <= length L) by (subst L; simpl; lia). clear EL.
    destruct last as [j|].
    + intros H. injection H as <- <- <-. rewrite E. split; auto.
      destruct (S j <? length L) eqn:El; [apply Nat.ltb_lt in El; exact El|lia].
    + intros H. injection H as <- <- <-. cbn [targets]. split; auto.
      destruct (length L <=? idx T s) eqn:El; [lia|apply Nat.leb_gt in El; exact El].
Qed.

Theorem next_none_iff s last s' last' : next s last = (s', last', None) <-> targets T s = [] /\ s' = s /\ last' = last.
Proof.
  unfold Proxy.next. destruct (targets T s) as [|a [|b l]] eqn:E.
  - split; [intros H; inversion H; auto|intros [_ [-> ->]]; reflexivity].
  - split; [discriminate|intros [H _]; discriminate].
  - split; [destruct last; discriminate|intros [H _]; discriminate].
Qed.

(* the chosen target is a current member *)
Corollary next_member s last s' last' i : next s last = (s', last', Some i) ->
  exists t, nth_error (targets T s) i = Some t /\ In t (targets T s).
Proof. intro H. destruct (next_in_range _ _ _ _ _ H) as [Hi _].
  destruct (nth_error (targets T s) i) as [t|] eqn:En.
  - exists t. split; [reflexivity|eapply nth_error_In; eassumption].
  - apply nth_error_None in En. lia. Qed.

(* ---------- Add / Remove *)
Lemma add_member s t : In t (targets T (fst (add s t))).
Proof. unfold Proxy.add. destruct (existsb (eqb t) (targets T s)) eqn:E; simpl.
  - apply existsb_exists in E as [x [Hin Hx]]. apply eqb_spec in Hx. subst x. exact Hin.
  - apply in_or_app. right. left. reflexivity. Qed.

Lemma add_keeps s t u : In u (targets T s) -> In u (targets T (fst (add s t))).
Proof. unfold Proxy.add. destruct (existsb (eqb t) (targets T s)); simpl; [auto|]. intro H. apply in_or_app. left. exact H. Qed.

Lemma remove1_spec : forall l t, NoDup l -> forall u, In u (fst (remove1 l t)) <-> (In u l /\ u <> t).
Proof.
  induction l as [|x r IH]; intros t Hnd u; simpl; [tauto|].
  inversion Hnd as [|? ? Hx Hr]; subst.
  destruct (eqb x t) eqn:E; simpl.
  - apply eqb_spec in E. subst x. split.
    + intro H. split; [right; exact H|]. intro; subst u. contradiction.
    + intros [[H|H] Hne]; [congruence|exact H].
  - destruct (remove1 r t) as [r' b] eqn:Er. simpl. specialize (IH t Hr u). rewrite Er in IH. simpl in IH.
    assert (x <> t) by (intro; subst x; assert (eqb t t = true) by (apply eqb_spec; reflexivity); congruence).
    split.
    + intros [H0|H0]; [subst u; split; [left; reflexivity|assumption]|]. apply IH in H0. tauto.
    + intros [[H0|H0] Hne]; [left; exact H0|right; apply IH; tauto].
Qed.

Theorem remove_gone s t : NoDup (targets T s) -> ~ In t (targets T (fst (remove s t))).
Proof. intros Hnd Hin. unfold Proxy.remove in Hin. destruct (remove1 (targets T s) t) as [l b] eqn:E. simpl in Hin.
  pose proof (remove1_spec (targets T s) t Hnd t) as H. rewrite E in H. simpl in H. apply H in Hin. tauto. Qed.

Theorem remove_keeps_others s t u : NoDup (targets T s) -> In u (targets T s) -> u <> t ->
  In u (targets T (fst (remove s t))).
Proof. intros Hnd Hin Hne. unfold Proxy.remove. destruct (remove1 (targets T s) t) as [l b] eqn:E. simpl.
  pose proof (remove1_spec (targets T s) t Hnd u) as H. rewrite E in H. simpl in H. apply H. tauto. Qed.

Lemma remove1_nodup : forall l t, NoDup l -> NoDup (fst (remove1 l t)).
Proof.
  induction l as [|x r IH]; intros t Hnd; simpl; [constructor|].
  inversion Hnd as [|? ? Hx Hr]; subst. destruct (eqb x t); simpl; [exact Hr|].
  destruct (remove1 r t) as [r' b] eqn:Er. simpl. constructor.
  - intro Hin. pose proof (remove1_spec r t Hr x) as H. rewrite Er in H. simpl in H. apply H in Hin. tauto.
  - specialize (IH t Hr). rewrite Er in IH. exact IH.
Qed.

Lemma add_nodup s t : NoDup (targets T s) -> NoDup (targets T (fst (add s t))).
Proof.
  unfold Proxy.add. destruct (existsb (eqb t) (targets T s)) eqn:E; simpl; [auto|]. intro H.
  assert (Hn : ~ In t (targets T s)).
  { intro Hin. assert (existsb (eqb t) (targets T s) = true).
    { apply existsb_exists. exists t. split; [exact Hin|apply eqb_spec; reflexivity]. } congruence. }
  clear E. induction (targets T s) as [|x r IH]; simpl.
  - constructor; [intros []|constructor].
  - inversion H as [|? ? Hx Hr]; subst. constructor.
    + intro Hin. apply in_app_or in Hin as [Hin|[Hin|[]]]; [contradiction|]. subst x. apply Hn. left. reflexivity.
    + apply IH; [exact Hr|]. intro Hin. apply Hn. right. exact Hin.
Qed.

(* ---------- cyclic rotation on a fixed list *)
Lemma firsts_cyclic : forall k s n, length (targets T s) = n -> 2 <= n -> idx T s <= n ->
  firsts T s k = map (fun j => (idx T s + j) mod n) (seq 0 k).
Proof.
  induction k as [|k IH]; intros s n Hn H2 Hi; [reflexivity|].
  cbn [firsts]. unfold Proxy.next. destruct (targets T s) as [|a [|b l]] eqn:E; simpl in Hn; try lia.
  cbn [seq map]. rewrite Nat.add_0_r.
  destruct (length (a :: b :: l) <=? idx T s) eqn:El.
  - apply Nat.leb_le in El. simpl in El. assert (idx T s = n) by lia.
    rewrite (IH {| targets := a :: b :: l; idx := 1 |} n) by (simpl; lia). cbn [idx].
    f_equal. { rewrite H. symmetry. apply Nat.mod_same. lia. }
    rewrite <- seq_shift, map_map. apply map_ext. intros j. rewrite H.
    replace (n + S j) with (S j + 1 * n) by lia. rewrite Nat.mod_add by lia. reflexivity.
  - apply Nat.leb_gt in El. simpl in El.
    rewrite (IH {| targets := a :: b :: l; idx := S (idx T s) |} n) by (simpl; lia). cbn [idx].
    f_equal. { symmetry. apply Nat.mod_small. lia. }
    rewrite <- seq_shift, map_map. apply map_ext. intros j. f_equal. lia.
Qed.

(* ---------- the retry loop *)
Lemma attempt_bounds alive : forall r s last s' is ok, attempt T r s last alive = (s', is, ok) ->
  length is <= S r /\ targets T s' = targets T s /\
  Forall (fun i => i < length (targets T s)) is /\
  (ok = true -> exists pre i t, is = pre ++ [i] /\ nth_error (targets T s) i = Some t /\ alive t = true /\
                 Forall (fun j => exists u, nth_error (targets T s) j = Some u /\ alive u = false) pre) /\
  (ok = false -> Forall (fun j => exists u, nth_error (targets T s) j = Some u /\ alive u = false) is).
Proof.
  induction r as [|r IH]; intros s last s' is ok H; cbn [attempt] in H.
  - destruct (next s last) as [[s1 last1] [i|]] eqn:En.
    + destruct (next_in_range _ _ _ _ _ En) as [Hi Ht]. rewrite Ht in H.
      destruct (nth_error (targets T s) i) as [t|] eqn:Et; [|apply nth_error_None in Et; lia].
      destruct (alive t) eqn:Ea; injection H as <- <- <-.
      * split; [simpl; lia|]. split; [exact Ht|]. split; [repeat constructor; exact Hi|]. split; [|discriminate].
        intros _. exists [], i, t. repeat split; auto.
      * split; [simpl; lia|]. split; [exact Ht|]. split; [repeat constructor; exact Hi|]. split; [discriminate|].
        intros _. repeat constructor. exists t. auto.
    + injection H as <- <- <-. apply next_none_iff in En as [_ [-> _]].
      split; [simpl; lia|]. split; [reflexivity|]. split; [constructor|]. split; [discriminate|]. intros _. constructor.
  - destruct (next s last) as [[s1 last1] [i|]] eqn:En.
    + destruct (next_in_range _ _ _ _ _ En) as [Hi Ht]. rewrite Ht in H.
      destruct (nth_error (targets T s) i) as [t|] eqn:Et; [|apply nth_error_None in Et; lia].
      destruct (alive t) eqn:Ea.
      * injection H as <- <- <-.
        split; [simpl; lia|]. split; [exact Ht|]. split; [repeat constructor; exact Hi|]. split; [|discriminate].
        intros _. exists [], i, t. repeat split; auto.
      * destruct (attempt T r s1 last1 alive) as [[s2 is2] ok2] eqn:Er. injection H as <- <- <-.
        destruct (IH _ _ _ _ _ Er) as [Hl [Ht2 [Hr [Hok Hfail]]]]. rewrite Ht in *.
        split; [simpl; lia|]. split; [exact Ht2|]. split; [constructor; assumption|]. split.
        -- intro Ho. destruct (Hok Ho) as [pre [j [u [-> [Hj [Hu Hpre]]]]]].
           exists (i :: pre), j, u. repeat split; auto. constructor; [exists t; auto|exact Hpre].
        -- intro Ho. constructor; [exists t; auto|apply Hfail; exact Ho].
    + injection H as <- <- <-. apply next_none_iff in En as [_ [-> _]].
      split; [simpl; lia|]. split; [reflexivity|]. split; [constructor|]. split; [discriminate|]. intros _. constructor.
Qed.

(* ---------- a retry goes to the NEXT target of the list (cyclically), never to the one that just failed *)
Fixpoint steps_ok (n : nat) (l : list nat) : Prop :=
  match l with
  | a :: ((b :: _) as r) => b = (if S a <? n then S a else 0) /\ steps_ok n r
  | _ => True
  end.

Lemma next_two s last s' last' i : 2 <= length (targets T s) -> next s last = (s', last', Some i) ->
  last' = Some i /\ targets T s' = targets T s /\
  (forall a, last = Some a -> i = (if S a <? length (targets T s) then S a else 0)).
Proof.
  unfold next. destruct (targets T s) as [|x [|y l]] eqn:Et; simpl length; try lia. intros _.
  destruct last as [a|]; intro H; inversion H; subst; clear H.
  - split; [reflexivity|]. split; [exact Et|]. intros a0 Ha. inversion Ha; subst. reflexivity.
  - split; [reflexivity|]. split; [reflexivity|]. intros a Ha. discriminate.
Qed.

Lemma attempt_head alive : forall r s a s' is ok, 2 <= length (targets T s) ->
  attempt T r s (Some a) alive = (s', is, ok) ->
  match is with j :: _ => j = (if S a <? length (targets T s) then S a else 0) | [] => True end.
Proof.
  intros r s a s' is ok Hn H. destruct r; cbn [attempt] in H;
    destruct (next s (Some a)) as [[s1 last1] [i|]] eqn:En;
    try (injection H as <- <- <-; exact I);
    destruct (next_two _ _ _ _ _ Hn En) as [_ [Ht Hi]];
    destruct (nth_error (targets T s1) i); try (injection H as <- <- <-; apply Hi; reflexivity);
    destruct (alive t); try (injection H as <- <- <-; apply Hi; reflexivity).
  destruct (attempt T r s1 last1 alive) as [[s2 is2] ok2]. injection H as <- <- <-. apply Hi. reflexivity.
Qed.

Theorem attempt_steps alive : forall r s last s' is ok, 2 <= length (targets T s) ->
  attempt T r s last alive = (s', is, ok) -> steps_ok (length (targets T s)) is.
Proof.
  induction r as [|r IH]; intros s last s' is ok Hn H; cbn [attempt] in H.
  - destruct (next s last) as [[s1 last1] [i|]]; [|injection H as <- <- <-; exact I].
    destruct (nth_error (targets T s1) i); [|injection H as <- <- <-; exact I].
    destruct (alive t); injection H as <- <- <-; exact I.
  - destruct (next s last) as [[s1 last1] [i|]] eqn:En; [|injection H as <- <- <-; exact I].
    destruct (next_two _ _ _ _ _ Hn En) as [Hl [Ht _]]. subst last1.
    destruct (nth_error (targets T s1) i); [|injection H as <- <- <-; exact I].
    destruct (alive t); [injection H as <- <- <-; exact I|].
    destruct (attempt T r s1 (Some i) alive) as [[s2 is2] ok2] eqn:Er. injection H as <- <- <-.
    assert (Hn1 : 2 <= length (targets T s1)) by (rewrite Ht; exact Hn).
    pose proof (attempt_head alive _ _ _ _ _ _ Hn1 Er) as Hh. pose proof (IH _ _ _ _ _ Hn1 Er) as Hs.
    rewrite Ht in Hh, Hs. destruct is2 as [|j r2]; [exact I|]. split; [exact Hh|exact Hs].
Qed.
End RR.
