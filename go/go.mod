module verifharness

go 1.20

require (
	github.com/labstack/echo/v4 v4.13.3
	github.com/labstack/gommon v0.4.2
	golang.org/x/time v0.8.0
)

require (
	github.com/mattn/go-colorable v0.1.13 // indirect
	github.com/mattn/go-isatty v0.0.20 // indirect
	github.com/valyala/bytebufferpool v1.0.0 // indirect
	github.com/valyala/fasttemplate v1.2.2 // indirect
	golang.org/x/crypto v0.31.0 // indirect
	golang.org/x/net v0.33.0 // indirect
	golang.org/x/sys v0.28.0 // indirect
	golang.org/x/text v0.21.0 // indirect
)

replace github.com/labstack/echo/v4 => /repo
