(* C02 — route choice = static > param > wildcard search with full backtracking, order-free.
   Statements only; proofs in Router/*.v (3 kLoC refinement: radix tree built by replaying echo's
   insertNode call sequence = order-free specification [search] over the list of patterns).
   Domain [wf_table]: escape-free patterns (leading "/", no literal ':' '*', '*' last), no structural
   duplicates.  The goto state machine of Router.Find is represented by its structured equivalent
   [find_node] on the same tree (see DESIGN: trusted base). *)
From Coq Require Import List Arith Bool Ascii String Permutation.
From Echo.Router Require Import Spec2 Fuel Refine Insert InsProof Walk Live Toks Build Sound Complete Top Tail Literal Host HostSrc.
From Echo Require Base.GoLite Gen.Src_echo.
Import ListNotations.

(* the tree echo builds, searched as Find does, equals the documented priority search over the set *)
Theorem C02_refines : forall rs m p, wf_table rs ->
  dispatch (build rs) m p = spec_dispatch (fuel_for rs) rs m p.
Proof. exact dispatch_spec. Qed.
Print Assumptions C02_refines.

(* the chosen handler depends only on the set of routes, never on the registration order *)
Theorem C02_order_free : forall rs rs' m p,
  Forall (fun r => wf_toks (rt_toks r)) rs -> NoDup (map rkey rs) -> Permutation rs rs' ->
  dispatch (build rs) m p = dispatch (build rs') m p.
Proof. exact dispatch_order_free. Qed.
Print Assumptions C02_order_free.

(* the specification itself is invariant under permutation of the live set *)
Theorem C02_spec_perm : forall fuel m pre ls ls' p vals best,
  Permutation ls ls' -> live_ok pre ls -> uniq ls -> any_last ls ->
  search fuel m pre ls p vals best = search fuel m pre ls' p vals best.
Proof. exact search_perm. Qed.
Print Assumptions C02_spec_perm.

(* a request that some registered pattern matches for its method is never answered 404 or 405 -
   also when deeper wildcard / parameter routes exist only for other methods *)
Theorem C02_complete : forall rs m p r, wf_table rs -> m <> NF -> In r rs -> rt_m r = m ->
  matchT (rt_toks r) p -> is_found (dispatch (build rs) m p).
Proof. exact instance_complete. Qed.
Print Assumptions C02_complete.

(* a path equal to a registered literal route is always served by that route *)
Theorem C02_literal_wins : forall rs m p r, wf_table rs -> m <> NF -> In r rs -> rt_m r = m ->
  rt_toks r = map TLit p -> dispatch (build rs) m p = Found (fst (entry_of r)) [].
Proof. exact literal_wins. Qed.
Print Assumptions C02_literal_wins.

(* routes registered for one host are used for exactly that Host value ... *)
Theorem C02_host_exact : forall hs dflt h t, h <> [] -> NoDup (map fst hs) -> In (h, t) hs ->
  find_router hs dflt h = t.
Proof. exact host_exact. Qed.
Print Assumptions C02_host_exact.

(* ... every other Host value (case variants included: names are compared byte for byte) gets the default router ... *)
Theorem C02_host_other : forall hs dflt h, (forall x, In x hs -> fst x <> h) -> find_router hs dflt h = dflt.
Proof. exact host_other. Qed.
Print Assumptions C02_host_other.

(* ... and whatever serves a request was registered in the router selected by its Host value *)
Theorem C02_host_isolation : forall hs dflt h m p r v, wf_table (find_router hs dflt h) ->
  host_request hs dflt h m p = Served r v -> In r (map fst (table (find_router hs dflt h))).
Proof. exact host_isolation. Qed.
Print Assumptions C02_host_isolation.

(* the tie to the source by proof: Echo.findRouter, translated statement by statement from echo.go on every run
   (Gen/Src_echo.v; language Base/GoLite.v) - the router found under exactly the request's Host value when there is
   one, the default router otherwise (also when no host router exists at all) *)
Theorem C02_source_find_router : forall (sym : String.string -> BinNums.Z) nrouters dflt found ok,
  let st := {| GoLite.locals := [("host"%string, BinNums.Z0)];
               GoLite.fields := [("len(e.routers)"%string, nrouters); ("e.router"%string, dflt)];
               GoLite.events := []; GoLite.inputs := [[found; ok]] |} in
  let '(_, ret) := GoLite.run sym Src_echo.src_find_router_results Src_echo.src_find_router st in
  ret = [if andb (BinInt.Z.ltb BinNums.Z0 nrouters) (negb (BinInt.Z.eqb ok BinNums.Z0)) then found else dflt].
Proof. exact HostSrc.src_find_router. Qed.
Print Assumptions C02_source_find_router.

(* NOT proved at full strength: [is_found] includes being answered by a RouteNotFound route.  The
   stronger reading "the handler of a route registered for the method runs" is refuted on the faithful
   model (and on echo: known finding D11): a RouteNotFound route on a wildcard node ends the search. *)
Example C02_complete_real_handler_refuted :
  exists rs m p r, In r rs /\ rt_m r = m /\ m <> NF /\ matchT (rt_toks r) p /\
    Forall (fun r => wf_toks (rt_toks r)) rs /\
    exists r' v, dispatch (build rs) m p = Found r' v /\ r_method r' = NF.
Proof.
  pose (get := list_ascii_of_string "GET").
  pose (t1 := L "/" ++ [TParam] ++ L "/us/" ++ [TParam]).
  pose (t2 := L "/v1/us/" ++ [TAny]).
  pose (r1 := {| rt_m := get; rt_toks := t1; rt_rm := ([], 0) |}).
  pose (r2 := {| rt_m := NF; rt_toks := t2; rt_rm := ([], 1) |}).
  exists [r1; r2], get, (list_ascii_of_string "/v1/us/x"), r1.
  split; [left; reflexivity|]. split; [reflexivity|]. split; [discriminate|]. split.
  - unfold r1, t1. cbn. repeat constructor; discriminate.
  - split.
    + repeat constructor; (eexists; split; [reflexivity|reflexivity]).
    + eexists. eexists. split; [vm_compute; reflexivity|reflexivity].
Qed.
