package main

import (
	"bytes"
	"compress/gzip"
	"fmt"
	"io"
	"math/rand"
	"net/http"
	"net/http/httptest"
	"strings"

	"github.com/labstack/echo/v4"
	"github.com/labstack/echo/v4/middleware"
)

func init() {
	props["C15"] = &propRunner{gen: genC15, rule: "histories of 2-5 requests through ONE Gzip middleware instance (pooled writer and buffer reuse): handler programs over {WriteHeader(code), Write(chunk), Flush, Stream(reader)} with chunk sizes around MinLength (0, small, large), flush before / after the threshold, header only, nothing at all, a stale Content-Length set by the handler, Accept-Encoding variants; plus Decompress requests (gzip / identity / other Content-Encoding); the client side undoes the advertised encoding with the real gzip reader; non-trivial = gzip-accepting request whose program crosses the threshold after buffering, or flushes, or follows a flushed request on the same instance; distinct by (MinLength, program)"}
}

type c15Writer struct {
	*httptest.ResponseRecorder
	touched bool
}

func (w *c15Writer) WriteHeader(c int) { w.touched = true; w.ResponseRecorder.WriteHeader(c) }
func (w *c15Writer) Write(b []byte) (int, error) {
	w.touched = true
	return w.ResponseRecorder.Write(b)
}
func (w *c15Writer) Flush() { w.touched = true; w.ResponseRecorder.Flush() }

type c15Reader struct{ r io.Reader } // hides WriterTo so that io.Copy performs reads and writes

func (r c15Reader) Read(p []byte) (int, error) { return r.r.Read(p) }

func genC15(rng *rand.Rand, n int, emit func(Case), dist map[string]int) {
	degenerate := func() (Sx, Sx) { return L(I(0), I(0), L()), L(I(-1), I(0), I(0), I(1), S(""), L()) }
	for it := 0; it < n; {
		minlen := []int{0, 1, 5, 8, 32, 1000}[rng.Intn(6)]
		e := echo.New()
		e.Logger.SetOutput(io.Discard)
		switch {
		case minlen == 0 && rng.Intn(3) == 0:
			e.Use(middleware.Gzip()) // the short constructor: no minimum length
		case minlen == 0 && rng.Intn(2) == 0:
			e.Use(middleware.GzipWithConfig(middleware.GzipConfig{MinLength: -5, Level: 1})) // a negative minimum means the default (0)
		default:
			e.Use(middleware.GzipWithConfig(middleware.GzipConfig{MinLength: minlen, Level: []int{0, -1, 1, 9}[rng.Intn(4)]}))
		}
		if rng.Intn(2) == 0 {
			e.Use(middleware.Decompress())
		} else {
			e.Use(middleware.DecompressWithConfig(middleware.DecompressConfig{}))
		}
		type opT struct {
			kind  int
			code  int
			chunk []byte
		}
		var prog []opT
		var rets []int
		var streamErr error
		setCL := false
		clVal := "12345"
		var bodySeen []byte
		var bodyErr error
		handlerRan := false
		echoBody := false
		e.Any("/", func(c echo.Context) error {
			handlerRan = true
			if echoBody {
				// an echo endpoint: the (decompressed) request body is streamed straight back with c.Stream
				bodyErr = c.Stream(http.StatusCreated, "application/octet-stream", c.Request().Body)
				return nil
			}
			if c.Request().Body != nil {
				bodySeen, bodyErr = io.ReadAll(c.Request().Body)
			}
			if setCL {
				c.Response().Header().Set(echo.HeaderContentLength, clVal)
			}
			for _, o := range prog {
				switch o.kind {
				case 0:
					c.Response().WriteHeader(o.code)
				case 1:
					k, _ := c.Response().Write(o.chunk)
					rets = append(rets, k)
				case 2:
					c.Response().Flush()
				case 3:
					streamErr = c.Stream(o.code, "application/octet-stream", c15Reader{bytes.NewReader(o.chunk)})
				}
			}
			return nil
		})
		prevFlushed := false
		for q := 2 + rng.Intn(4); q > 0 && it < n; q-- {
			it++
			if rng.Intn(8) == 0 {
				// ---------------- Decompress
				data := make([]byte, rng.Intn(60))
				rng.Read(data)
				enc := []string{"gzip", "gzip", "gzip", "", "identity", "br", "GZIP"}[rng.Intn(7)]
				var body bytes.Buffer
				if enc == "gzip" && rng.Intn(6) == 0 {
					data = nil // nothing at all behind "Content-Encoding: gzip": an empty body, not an error
				} else if enc == "gzip" {
					zw := gzip.NewWriter(&body)
					zw.Write(data)
					zw.Close()
					if rng.Intn(3) == 0 {
						// not a complete gzip stream behind the label: cut short (also inside the 10-byte header), a few raw
						// bytes, damaged, or followed by garbage - the handler must not be handed a body it can read to the end
						full := append([]byte(nil), body.Bytes()...)
						body.Reset()
						switch rng.Intn(5) {
						case 0:
							body.Write(full[:1+rng.Intn(9)])
						case 1:
							body.Write(full[:10+rng.Intn(len(full)-10)])
						case 2:
							raw := []byte("{\"a\":1}  plain text, not gzip")
							body.Write(raw[:1+rng.Intn(len(raw))])
						case 3:
							full[len(full)-1-rng.Intn(8)] ^= 0x55 // checksum or length trailer
							body.Write(full)
						default:
							body.Write(full)
							body.Write([]byte("trailing garbage")[:1+rng.Intn(16)])
						}
						dist["decompress_malformed_gzip"]++
					}
				} else {
					body.Write(data)
				}
				sent := append([]byte(nil), body.Bytes()...)
				req := httptest.NewRequest(http.MethodPost, "/", &body)
				if rng.Intn(3) == 0 {
					req = httptest.NewRequest(http.MethodPost, "/", c15Reader{&body}) // a streamed upload: the length is not announced (ContentLength -1)
					req.ContentLength = -1
				}
				if enc != "" {
					req.Header.Set(echo.HeaderContentEncoding, enc)
				}
				prog, rets, bodySeen, bodyErr, handlerRan = nil, nil, nil, nil, false
				echoBody = rng.Intn(3) == 0
				rec := httptest.NewRecorder()
				e.ServeHTTP(rec, req)
				if echoBody {
					bodySeen = rec.Body.Bytes() // what the handler read is what it streamed back (no Accept-Encoding: sent as it is)
					if handlerRan && bodyErr == nil && rec.Code != http.StatusCreated {
						bodyErr = fmt.Errorf("status %d", rec.Code)
					}
					dist["decompress_echo_through_stream"]++
				}
				echoBody = false
				ok, why := true, ""
				want := sent
				gunzipOK := true
				if enc == "gzip" {
					// the oracle: compress/gzip's reader over exactly the bytes that were sent
					want = nil
					if len(sent) > 0 {
						zr, err := gzip.NewReader(bytes.NewReader(sent))
						if err == nil {
							want, err = io.ReadAll(zr)
						}
						if err != nil {
							gunzipOK, want = false, nil
						}
					}
				}
				delivered := handlerRan && bodyErr == nil
				switch {
				case gunzipOK && (!delivered || !bytes.Equal(bodySeen, want)):
					ok, why = false, fmt.Sprintf("Decompress: Content-Encoding %q, handler ran=%v read %d bytes %x (error %v), expected %x", enc, handlerRan, len(bodySeen), bodySeen, bodyErr, want)
				case !gunzipOK && delivered:
					ok, why = false, fmt.Sprintf("Decompress: the %d bytes sent as gzip are not a gzip stream, yet the handler read a body of %d bytes %x to its end without an error", len(sent), len(bodySeen), bodySeen)
				}
				labelled := enc == "gzip"
				in := L(I(-1), B(labelled), S(string(sent)), B(gunzipOK), S(string(want)))
				out := L(I(9), I(0), S(""))
				if delivered {
					out = L(I(9), I(1), S(string(bodySeen)))
				}
				emit(Case{In: in, Out: out, Ok: ok, Why: why, Key: "dec|" + enc + "|" + string(sent), Human: fmt.Sprintf("Decompress Content-Encoding=%q body %d bytes -> handler read %d bytes", enc, len(sent), len(bodySeen))})
				dist["decompress_requests"]++
				continue
			}
			// ---------------- Gzip
			prog, rets, streamErr = nil, nil, nil
			setCL = rng.Intn(4) == 0
			clVal = []string{"12345", "12345", "5", "3", "0", "1"}[rng.Intn(6)] // (also lengths BELOW the threshold: the handler's figure is for the plain body in any case)
			var ops []Sx
			var payload []byte
			chosen := -1
			crossedAfterBuffer, flushed := false, false
			nops := rng.Intn(6)
			for k := 0; k < nops; k++ {
				switch r := rng.Intn(10); {
				case r < 2:
					code := []int{200, 201, 204, 404, 500}[rng.Intn(5)]
					prog = append(prog, opT{kind: 0, code: code})
					ops = append(ops, L(I(0), I(code)))
					if chosen < 0 {
						chosen = code
					}
				case r < 7:
					sz := []int{0, 1, minlen - 1, minlen, minlen + 1, 3, 40}[rng.Intn(7)]
					if sz < 0 {
						sz = 0
					}
					if sz > 200 {
						sz = 200
					}
					ch := make([]byte, sz)
					for i := range ch {
						ch[i] = byte('a' + rng.Intn(26))
					}
					if len(payload) > 0 && len(payload) < minlen && len(payload)+sz >= minlen {
						crossedAfterBuffer = true
					}
					prog = append(prog, opT{kind: 1, chunk: ch})
					ops = append(ops, L(I(1), S(string(ch))))
					payload = append(payload, ch...)
					if chosen < 0 {
						chosen = 200
					}
				case r < 9:
					prog = append(prog, opT{kind: 2})
					ops = append(ops, L(I(2)))
					flushed = true
					if chosen < 0 {
						chosen = 200
					}
				default:
					code := []int{200, 206}[rng.Intn(2)]
					sz := 1 + rng.Intn(2*minlen+5)
					if sz > 300 {
						sz = 300
					}
					ch := make([]byte, sz)
					for i := range ch {
						ch[i] = byte('A' + rng.Intn(26))
					}
					if len(payload) > 0 && len(payload) < minlen && len(payload)+sz >= minlen {
						crossedAfterBuffer = true
					}
					prog = append(prog, opT{kind: 3, code: code, chunk: ch})
					ops = append(ops, L(I(0), I(code)), L(I(1), S(string(ch))))
					payload = append(payload, ch...)
					if chosen < 0 {
						chosen = code
					}
				}
			}
			ae := "gzip"
			switch rng.Intn(8) {
			case 0:
				ae = "gzip, deflate, br"
			case 1:
				ae = "br"
			case 2:
				ae = ""
			}
			req := httptest.NewRequest(http.MethodGet, "/", nil)
			if ae != "" {
				req.Header.Set(echo.HeaderAcceptEncoding, ae)
			}
			w := &c15Writer{ResponseRecorder: httptest.NewRecorder()}
			panicked := false
			func() {
				defer func() {
					if r := recover(); r != nil {
						panicked = true
					}
				}()
				e.ServeHTTP(w, req)
			}()
			res := w.Result()
			ce := res.Header.Get(echo.HeaderContentEncoding)
			cl := res.Header.Get(echo.HeaderContentLength) != ""
			if !w.touched { // no status line / headers ever went out
				ce, cl = "", false
			}
			raw := w.Body.Bytes()
			var decoded []byte
			decOK := true
			if ce == "gzip" {
				zr, err := gzip.NewReader(bytes.NewReader(raw))
				if err != nil {
					decOK = false
				} else {
					decoded, err = io.ReadAll(zr)
					if err != nil {
						decOK = false
					}
				}
			} else {
				decoded = raw
				if len(raw) >= 2 && raw[0] == 0x1f && raw[1] == 0x8b {
					decOK = false // a gzip stream without Content-Encoding
				}
			}
			status := -1
			if w.touched {
				status = w.Code
			}
			ok, why := true, ""
			switch {
			case panicked:
				ok, why = false, "gzip middleware panicked"
			case !decOK:
				ok, why = false, fmt.Sprintf("client cannot undo Content-Encoding %q: body %x", ce, raw)
			case !bytes.Equal(decoded, payload):
				ok, why = false, fmt.Sprintf("handler wrote %q, client recovers %q (Content-Encoding %q)", payload, decoded, ce)
			case status != chosen:
				ok, why = false, fmt.Sprintf("handler chose status %d, client sees %d", chosen, status)
			case ce == "gzip" && cl:
				ok, why = false, "stale Content-Length next to Content-Encoding: gzip"
			case ce == "gzip" && !strings.Contains(ae, "gzip"):
				ok, why = false, "gzip sent to a client that does not accept it"
			case streamErr != nil:
				ok, why = false, fmt.Sprintf("Stream failed: %v", streamErr)
			}
			wi := 0
			for _, o := range prog {
				if o.kind == 1 {
					if wi < len(rets) && rets[wi] != len(o.chunk) {
						ok, why = false, fmt.Sprintf("Write of %d bytes reported %d", len(o.chunk), rets[wi])
					}
					wi++
				}
			}
			var in, out Sx
			if strings.Contains(ae, "gzip") {
				var ns []Sx
				ri := 0
				for _, o := range prog {
					switch o.kind {
					case 1:
						k := -1
						if ri < len(rets) {
							k = rets[ri]
						}
						ri++
						ns = append(ns, I(k))
					case 3:
						ns = append(ns, I(0), I(len(o.chunk)))
					default:
						ns = append(ns, I(0))
					}
				}
				in = L(I(minlen), B(setCL), L(ops...))
				out = L(I(status), B(ce == "gzip"), B(cl), B(decOK), S(string(decoded)), L(ns...))
				if streamErr != nil {
					out = L(I(status), B(ce == "gzip"), B(cl), I(0), S("stream-error"), L())
				}
			} else {
				in, out = degenerate()
			}
			cs := Case{In: in, Out: out, Ok: ok, Why: why,
				Human: fmt.Sprintf("MinLength=%d Accept-Encoding=%q stale-CL=%v program=%s -> status=%d CE=%q CL=%v decoded=%q returns=%v", minlen, ae, setCL, Show(L(ops...)), status, ce, cl, decoded, rets)}
			if strings.Contains(ae, "gzip") && (crossedAfterBuffer || flushed || prevFlushed) {
				cs.Key = fmt.Sprintf("%d|%v|%s", minlen, setCL, Show(L(ops...)))
			}
			prevFlushed = flushed
			dist[fmt.Sprintf("minlength_%d", minlen)]++
			if ce == "gzip" {
				dist["gzip_responses"]++
			}
			emit(cs)
		}
	}
}
