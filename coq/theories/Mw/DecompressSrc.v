(* The statement-level translation of the request handler of DecompressWithConfig (Gen/Src_decompress.v, regenerated from
   middleware/decompress.go on every run, language Base/GoLite.v).  For every skipper verdict, Content-Encoding, pool content
   and outcome of gzip.Reader.Reset:
   - only a request whose Content-Encoding is EXACTLY the gzip token gets another body; everything else is handed on untouched;
   - the body is replaced by the pooled reader only after Reset accepted the original body, and then next runs once;
   - an empty body (Reset = io.EOF) is handed on untouched; any other Reset error is returned and next does NOT run - the
     handler never sees a body labelled gzip that is not a gzip stream;
   - the reader goes back to the pool in every case in which it was taken out, and it is Closed only after a successful Reset;
   - nothing else is called: in particular the reader is used as Reset left it (a multi-member stream is read to its end).  (C15) *)
From Coq Require Import List ZArith Bool String Lia.
From Echo Require Import Base.GoLite Gen.Src_decompress.
Import ListNotations.
Open Scope Z_scope.

Section Src.
Variable sym : string -> Z.
Hypothesis sym_nil : sym "nil" = 0.
Hypothesis eof_not_nil : sym "io.EOF" <> 0.
Variables (skip ce pooled gr ok err : Z).

Definition start : state :=
  {| locals := [("c", 0)]; fields := [("c.Request().Header.Get(echo.HeaderContentEncoding)", ce)]; events := [];
     inputs := [[skip]; [pooled]; [gr; ok]; [err]] |}.
Definition names (st : state) : list string := map fst (events st).
Definition body_of (st : state) : Z := get (fields st) "c.Request().Body".      (* 0 = the request's own body *)

Ltac golite := repeat (cbn [exec exec_s eval get put assign locals fields events inputs String.eqb Ascii.eqb Bool.eqb
                            map tl app negb andb orb fst snd names body_of]; rewrite ?truthy_b2z).

Ltac use_facts := repeat match goal with
                         | H : ?l = true |- context [?l] => rewrite H
                         | H : ?l = false |- context [?l] => rewrite H
                         end.
Lemma nb2z (b : bool) : negb ((if b then 1 else 0) =? 0) = b.
Proof. destruct b; reflexivity. Qed.
Ltac go0 := repeat (progress (golite; unfold truthy, b2z; rewrite ?nb2z, ?sym_nil)).

Definition taken : list string := ["config.Skipper"; "pool.Get"; "i.(*gzip.Reader)"].
Definition prepared : list string := (taken ++ ["defer pool.Put(gr)"; "defer b.Close()"; "gr.Reset"])%list.

Theorem src_decompress_handler_spec :
  let '(st', ret) := run sym src_decompress_handler_results src_decompress_handler start in
  if negb (skip =? 0) || negb (ce =? sym "GZIPEncoding")
  then names st' = ["config.Skipper"; "next"] /\ body_of st' = 0 /\ ret = [sym "result of next"]
  else if (ok =? 0) || (gr =? 0)
  then names st' = taken /\ body_of st' = 0 /\ ret = [sym "echo.NewHTTPError(http.StatusInternalServerError,i.(error).Error())"]
  else if err =? 0
  then names st' = (prepared ++ ["defer gr.Close()"; "next"])%list /\ body_of st' = gr /\ ret = [sym "result of next"]
  else if err =? sym "io.EOF"
  then names st' = (prepared ++ ["next"])%list /\ body_of st' = 0 /\ ret = [sym "result of next"]
  else names st' = prepared /\ body_of st' = 0 /\ ret = [err].
Proof.
  unfold run, src_decompress_handler, src_decompress_handler_results, start, taken, prepared.
  go0. destruct (skip =? 0) eqn:Es; go0; [|repeat split; reflexivity].
  destruct (ce =? sym "GZIPEncoding") eqn:Ec; go0; [|repeat split; reflexivity].
  destruct (ok =? 0) eqn:Eo; go0; [repeat split; reflexivity|].
  destruct (gr =? 0) eqn:Eg; go0; [repeat split; reflexivity|].
  destruct (err =? 0) eqn:Ee; go0; [repeat split; reflexivity|].
  destruct (err =? sym "io.EOF") eqn:Ef; go0; repeat split; reflexivity.
Qed.
End Src.

Theorem C15_source_decompress_handler : forall sym, sym "nil" = 0 -> sym "io.EOF" <> 0 -> forall skip ce pooled gr ok err,
  let '(st', ret) := run sym src_decompress_handler_results src_decompress_handler (start skip ce pooled gr ok err) in
  if negb (skip =? 0) || negb (ce =? sym "GZIPEncoding")
  then names st' = ["config.Skipper"; "next"] /\ body_of st' = 0 /\ ret = [sym "result of next"]
  else if (ok =? 0) || (gr =? 0)
  then names st' = taken /\ body_of st' = 0 /\ ret = [sym "echo.NewHTTPError(http.StatusInternalServerError,i.(error).Error())"]
  else if err =? 0
  then names st' = (prepared ++ ["defer gr.Close()"; "next"])%list /\ body_of st' = gr /\ ret = [sym "result of next"]
  else if err =? sym "io.EOF"
  then names st' = (prepared ++ ["next"])%list /\ body_of st' = 0 /\ ret = [sym "result of next"]
  else names st' = prepared /\ body_of st' = 0 /\ ret = [err].
Proof. intros sym H1 H2. apply src_decompress_handler_spec; assumption. Qed.
Print Assumptions C15_source_decompress_handler.

(* non-vacuity: an interpretation of the constants that meets both hypotheses; a gzip request whose body Reset accepts *)
Example decompress_src_example :
  let sym := fun s : string => if String.eqb s "io.EOF" then 5 else if String.eqb s "GZIPEncoding" then 7 else if String.eqb s "result of next" then 200 else 0 in
  sym "nil" = 0 /\ sym "io.EOF" <> 0 /\
  (let '(st', ret) := run sym src_decompress_handler_results src_decompress_handler (start 0 7 1 9 1 0) in
   names st' = (prepared ++ ["defer gr.Close()"; "next"])%list /\ body_of st' = 9 /\ ret = [200]).
Proof. split; [reflexivity|]. split; [discriminate|]. vm_compute. repeat split; reflexivity. Qed.
