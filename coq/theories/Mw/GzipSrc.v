(* The statement-level translation of gzipResponseWriter.WriteHeader / Write / Flush and of the deferred finaliser of
   the Gzip handler (Gen/Src_gzip.v, regenerated from middleware/compress.go on every run) refines the model of
   Mw/Gzip.v: running the translated body on the cells of a model state [g] and replaying the events it emits on [g]
   gives exactly [g_write_header] / [g_write] / [g_flush] / [finish].  (C15) *)
From Coq Require Import List ZArith Bool String Lia Arith.
From Echo Require Import Base.GoLite Gen.Src_gzip Mw.Gzip.
Import ListNotations.
Open Scope Z_scope.

(* the named constants the translated code compares or passes on *)
Definition gsym (s : string) : Z :=
  if String.eqb s "echo.HeaderContentEncoding" then 1
  else if String.eqb s "w.buffer.Bytes()" then 2
  else if String.eqb s "io.Discard" then 3
  else if String.eqb s "gzipScheme" then 4
  else if String.eqb s "echo.HeaderContentLength" then 5
  else 0.

Definition zb (b : bool) : Z := if b then 1 else 0.
Definition zn (n : nat) : Z := Z.of_nat n.

(* record updates of the model state *)
Definition set_hce (g : grw) (v : bool) : grw :=
  {| wrote_header := wrote_header g; wrote_body := wrote_body g; exceeded := exceeded g; code := code g; buffer := buffer g;
     h_ce := v; h_cl := h_cl g; committed := committed g; out := out g |}.
Definition set_hcl (g : grw) (v : bool) : grw :=
  {| wrote_header := wrote_header g; wrote_body := wrote_body g; exceeded := exceeded g; code := code g; buffer := buffer g;
     h_ce := h_ce g; h_cl := v; committed := committed g; out := out g |}.
Definition set_buffer (g : grw) (v : bytes) : grw :=
  {| wrote_header := wrote_header g; wrote_body := wrote_body g; exceeded := exceeded g; code := code g; buffer := v;
     h_ce := h_ce g; h_cl := h_cl g; committed := committed g; out := out g |}.
(* the four plain fields of the writer, as the translated code leaves them in its cells *)
Definition set_flags (g : grw) (wh wb ex : bool) (c : nat) : grw :=
  {| wrote_header := wh; wrote_body := wb; exceeded := ex; code := c; buffer := buffer g;
     h_ce := h_ce g; h_cl := h_cl g; committed := committed g; out := out g |}.

(* the cells a method of the writer reads *)
Definition cells (pre : string) (minlen : nat) (g : grw) (cz : Z) (b : bytes) (ctype : Z) : env :=
  [ ((pre ++ ".minLengthExceeded")%string, zb (exceeded g)); ((pre ++ ".wroteHeader")%string, zb (wrote_header g));
    ((pre ++ ".wroteBody")%string, zb (wrote_body g)); ((pre ++ ".code")%string, cz);
    ((pre ++ ".minLength")%string, zn minlen); ("w.buffer.Len()"%string, zn (List.length (buffer g)));
    ("len(b)"%string, zn (List.length b)); ("w.Header().Get(echo.HeaderContentType)"%string, ctype);
    ("res.Header().Get(echo.HeaderContentEncoding)"%string, if h_ce g then 4 else 0) ].

(* what an event does to the parts of the model state that live outside the writer's plain fields:
   the header map, the pooled buffer, the wire.  [b] is the argument of Write. *)
Definition apply_ev (b : bytes) (g : grw) (e : string * list Z) : grw :=
  let '(tag, args) := e in
  if String.eqb tag "w.Header().Set" then
    match args with 1 :: _ => set_hce g true | _ => g end
  else if String.eqb tag "w.Header().Del" then
    match args with 5 :: _ => set_hcl g false | _ => g end
  else if String.eqb tag "w.buffer.Write" then set_buffer g (buffer g ++ b)%list
  else if String.eqb tag "w.ResponseWriter.WriteHeader" then
    match args with c :: _ => upd_out g (send_header g (Z.to_nat c)) | _ => g end
  else if String.eqb tag "w.Writer.Write" then
    match args with 2 :: _ => gz_write g (buffer g) | _ => gz_write g b end
  else if String.eqb tag "w.Writer.(*gzip.Writer).Flush" then implicit g
  else if String.eqb tag "http.NewResponseController(w.ResponseWriter).Flush" then implicit g
  else g.

Definition zbool (z : Z) : bool := negb (z =? 0).
(* the model state after a method: plain fields from the cells, the rest from replaying the events *)
Definition after (pre : string) (b : bytes) (g : grw) (st : state) : grw :=
  let g' := fold_left (apply_ev b) (events st) g in
  set_flags g' (zbool (get (fields st) (pre ++ ".wroteHeader")%string)) (zbool (get (fields st) (pre ++ ".wroteBody")%string))
               (zbool (get (fields st) (pre ++ ".minLengthExceeded")%string)) (Z.to_nat (get (fields st) (pre ++ ".code")%string)).

Lemma zbool_zb b : zbool (zb b) = b.  Proof. destruct b; reflexivity. Qed.
Lemma set_flags_id g : set_flags g (wrote_header g) (wrote_body g) (exceeded g) (code g) = g.
Proof. destruct g; reflexivity. Qed.


Lemma leb_len m (buf b : bytes) :
  Nat.leb m (List.length (buf ++ b)%list) = (zn m <=? zn (List.length buf) + zn (List.length b)).
Proof.
  unfold zn. rewrite app_length.
  destruct (Nat.leb_spec m (List.length buf + List.length b)); destruct (Z.leb_spec (Z.of_nat m) (Z.of_nat (List.length buf) + Z.of_nat (List.length b))); try reflexivity; lia.
Qed.

Ltac gz_cases :=
  repeat (golite_eval; cbv [gsym]; golite_eval;
          match goal with
          | |- context [truthy ?x] => unfold truthy
          | |- context [if ?b then _ else _] => let E := fresh "E" in destruct b eqn:E
          end).
(* the model side is kept folded (as [rhs]) while the translated code is evaluated; at a leaf both sides are closed up to
   the variables and are computed by the VM *)
Ltac gz_hide f := match goal with |- context [f ?x] => set (rhs := f x) | |- context [f ?x ?y] => set (rhs := f x y) | |- context [f ?x ?y ?z] => set (rhs := f x y z) end.
Ltac gz_leaves :=
  match goal with x := _ |- _ => subst x end; cbv beta delta [g_write]; cbn [exceeded buffer]; rewrite ?leb_len;
  repeat match goal with H : (_ <=? _) = _ |- _ => rewrite H; clear H end;
  match goal with o : wire |- _ => destruct o as [ws wce wcl wp wg wgo wgc]; destruct ws end;
  vm_compute; repeat split; try reflexivity; try discriminate.

(* In all theorems [cz] is the integer in the cell w.code; the model keeps the code as a natural number. *)

(* ---------------- WriteHeader *)
Theorem src_gzip_writeheader_refines minlen g cz0 cz ctype :
  code g = Z.to_nat cz0 ->
  let st := {| locals := [("code"%string, cz)]; fields := cells "w" minlen g cz0 [] ctype; events := []; inputs := [] |} in
  let '(st', _) := GoLite.run gsym src_gzip_writeheader_results src_gzip_writeheader st in
  after "w" [] g st' = g_write_header g (Z.to_nat cz).
Proof.
  unfold GoLite.run, src_gzip_writeheader, src_gzip_writeheader_results, cells, after.
  destruct g as [wh wb ex cd buf hce hcl com o]. cbn [wrote_header wrote_body exceeded code buffer h_ce h_cl committed out String.append].
  intros ->. gz_hide g_write_header. gz_cases; destruct wh, wb, ex; gz_leaves.
Qed.

(* ---------------- Write *)
(* [b] is passed on as an opaque value (7: anything but the symbol of w.buffer.Bytes()); bytes.Buffer.Write accepts all
   of b; the gzip stream accepts what it is given (no error) *)
Theorem src_gzip_write_refines minlen g cz b ctype :
  code g = Z.to_nat cz ->
  let st := {| locals := [("b"%string, 7)]; fields := cells "w" minlen g cz b ctype; events := [];
               inputs := [[zn (List.length b); 0]; [0; 0]] |} in
  let '(st', ret) := GoLite.run gsym src_gzip_write_results src_gzip_write st in
  after "w" b g st' = fst (g_write minlen g b) /\
  (exceeded g = false -> ret = [zn (List.length b); 0]).
Proof.
  unfold GoLite.run, src_gzip_write, src_gzip_write_results, cells, after.
  destruct g as [wh wb ex cd buf hce hcl com o]. cbn [wrote_header wrote_body exceeded code buffer h_ce h_cl committed out String.append].
  intros ->. gz_hide g_write.
  destruct ex, wh; gz_cases; destruct wb; gz_leaves.
Qed.

(* ---------------- Flush *)
Theorem src_gzip_flush_refines minlen g cz ctype :
  code g = Z.to_nat cz ->
  let st := {| locals := []; fields := cells "w" minlen g cz [] ctype; events := []; inputs := [[0; 0]; [0]] |} in
  let '(st', _) := GoLite.run gsym src_gzip_flush_results src_gzip_flush st in
  after "w" [] g st' = g_flush g.
Proof.
  unfold GoLite.run, src_gzip_flush, src_gzip_flush_results, cells, after.
  destruct g as [wh wb ex cd buf hce hcl com o]. cbn [wrote_header wrote_body exceeded code buffer h_ce h_cl committed out String.append].
  intros ->. gz_hide g_flush. destruct ex, wh, wb; gz_cases; gz_leaves.
Qed.

(* ---------------- the deferred finaliser of the handler *)
(* the events of the finaliser replayed on the model state; the flag says that the gzip stream was redirected to
   io.Discard (so that closing it puts nothing on the wire) *)
Definition plain_append (g : grw) : grw :=
  let g2 := implicit g in
  let w := out g2 in
  upd_out g2 {| w_status := w_status w; w_ce := w_ce w; w_cl := w_cl w; w_plain := (w_plain w ++ buffer g2)%list; w_gz := w_gz w;
                w_gz_open := w_gz_open w; w_gz_closed := w_gz_closed w |}.
Definition gz_close (g : grw) : grw :=
  let g2 := implicit g in
  let w := out g2 in
  upd_out g2 {| w_status := w_status w; w_ce := w_ce w; w_cl := w_cl w; w_plain := w_plain w; w_gz := w_gz w;
                w_gz_open := true; w_gz_closed := true |}.
Definition apply_fin (s : grw * bool) (e : string * list Z) : grw * bool :=
  let '(g, d) := s in
  let '(tag, args) := e in
  if String.eqb tag "res.Header().Del" then
    match args with 1 :: _ => (set_hce g false, d) | _ => s end
  else if String.eqb tag "rw.WriteHeader" || String.eqb tag "grw.ResponseWriter.WriteHeader" then
    match args with c :: _ => (upd_out g (send_header g (Z.to_nat c)), d) | _ => s end
  else if String.eqb tag "grw.buffer.WriteTo" then (plain_append g, d)
  else if String.eqb tag "w.Reset" then
    match args with 3 :: _ => (g, true) | _ => s end
  else if String.eqb tag "w.Close" then (if d then g else gz_close g, d)
  else s.

Theorem src_gzip_finish_refines minlen g cz ctype :
  code g = Z.to_nat cz ->
  let st := {| locals := []; fields := cells "grw" minlen g cz [] ctype; events := []; inputs := [] |} in
  let '(st', _) := GoLite.run gsym src_gzip_finish_results src_gzip_finish st in
  out (fst (fold_left apply_fin (events st') (g, false))) = finish g /\
  (* the stream is closed, then buffer and writer go back to their pools - last *)
  map fst (skipn (List.length (events st') - 3) (events st')) = ["w.Close"; "bpool.Put"; "pool.Put"]%string.
Proof.
  unfold GoLite.run, src_gzip_finish, src_gzip_finish_results, cells.
  destruct g as [wh wb ex cd buf hce hcl com o]. cbn [wrote_header wrote_body exceeded code buffer h_ce h_cl committed out String.append].
  intros ->. gz_hide finish. destruct wb, ex, wh, hce; gz_cases; gz_leaves.
Qed.
