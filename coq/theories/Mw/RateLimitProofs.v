From Coq Require Import List ZArith Lia Bool.
From Echo Require Import Mw.RateLimit.
Import ListNotations.
Open Scope Z_scope.

Section Proofs.
Variables (a b B E : Z).
Hypotheses (Ha : 0 <= a) (Hb : 0 < b) (HB : 0 <= B) (HE : 0 <= E).

Notation bucket := RateLimit.bucket.
Notation cap := (cap b B).
Notation avail := (avail a b B).
Notation allow := (allow a b B).
Notation fresh := (fresh b B).
Notation run := (run a b B).
Notation final := (final a b B).

Definition binv (bk0 : bucket) : Prop := 0 <= tok bk0 <= cap.

Lemma fresh_inv now : binv (fresh now).
Proof. unfold binv, RateLimit.fresh, RateLimit.cap. simpl. nia. Qed.

Lemma allow_inv bk0 now : binv bk0 -> last bk0 <= now ->
  binv (fst (allow bk0 now)) /\ last (fst (allow bk0 now)) <= now /\ last bk0 <= last (fst (allow bk0 now)).
Proof.
  unfold binv, RateLimit.allow, RateLimit.avail, RateLimit.cap. intros [H1 H2] Hl.
  destruct (b <=? Z.min (B * b) (tok bk0 + a * (now - last bk0))) eqn:Eq; simpl.
  - apply Z.leb_le in Eq. split; [nia|lia].
  - split; [lia|lia].
Qed.

(* ---------- single bucket: admitted * b + avail(end) <= avail(start) + a * elapsed *)
Theorem window_bound : forall ts bk0 t0,
  binv bk0 -> last bk0 <= t0 -> sorted_from t0 ts ->
  count (run bk0 ts) * b + avail (final bk0 ts) (lastt t0 ts) <= avail bk0 t0 + a * (lastt t0 ts - t0).
Proof.
  induction ts as [|t ts IH]; intros bk0 t0 Hi Hl Hs.
  - simpl. unfold count. simpl. lia.
  - destruct Hs as [Ht Hs]. cbn [RateLimit.run RateLimit.final lastt].
    destruct (allow bk0 t) as [bk' ok] eqn:Ea. cbn [fst].
    pose proof (allow_inv bk0 t Hi ltac:(lia)) as [Hi' [Hl' _]]. rewrite Ea in Hi', Hl'. cbn [fst] in Hi', Hl'.
    specialize (IH bk' t Hi' Hl' Hs).
    assert (Hstep : (if ok then b else 0) + avail bk' t <= avail bk0 t0 + a * (t - t0)).
    { unfold RateLimit.allow in Ea. unfold RateLimit.avail in *. unfold binv, RateLimit.cap in *.
      destruct (b <=? Z.min (B * b) (tok bk0 + a * (t - last bk0))) eqn:Eq; injection Ea as <- <-; simpl.
      - apply Z.leb_le in Eq. rewrite Z.sub_diag, Z.mul_0_r, Z.add_0_r.
        assert (tok bk0 + a * (t - last bk0) <= tok bk0 + a * (t0 - last bk0) + a * (t - t0)) by nia.
        assert (0 <= a * (t - t0)) by nia. lia.
      - assert (tok bk0 + a * (t - last bk0) <= tok bk0 + a * (t0 - last bk0) + a * (t - t0)) by nia.
        assert (0 <= a * (t - t0)) by nia. lia. }
    unfold count in *. destruct ok; cbn [filter List.length] in *; rewrite ?Nat2Z.inj_succ; lia.
Qed.

Lemma final_avail_nonneg : forall ts bk0 t0, binv bk0 -> last bk0 <= t0 -> sorted_from t0 ts ->
  0 <= avail (final bk0 ts) (lastt t0 ts).
Proof.
  induction ts as [|t ts IH]; intros bk0 t0 Hi Hl Hs; simpl.
  - unfold RateLimit.avail, binv, RateLimit.cap in *. assert (0 <= a * (t0 - last bk0)) by nia. lia.
  - destruct Hs as [Ht Hs]. pose proof (allow_inv bk0 t Hi ltac:(lia)) as [Hi' [Hl' _]]. apply IH; auto.
Qed.

(* admitted <= burst + rate * elapsed, from every state satisfying the bucket invariant *)
Theorem admitted_bound ts bk0 t0 :
  binv bk0 -> last bk0 <= t0 -> sorted_from t0 ts ->
  count (run bk0 ts) * b <= B * b + a * (lastt t0 ts - t0).
Proof.
  intros Hi Hl Hs. pose proof (window_bound ts bk0 t0 Hi Hl Hs) as H.
  pose proof (final_avail_nonneg ts bk0 t0 Hi Hl Hs).
  assert (avail bk0 t0 <= B * b) by (unfold RateLimit.avail, RateLimit.cap; lia). lia.
Qed.

Lemma final_inv : forall ts bk0 t0, binv bk0 -> last bk0 <= t0 -> sorted_from t0 ts ->
  binv (final bk0 ts) /\ last (final bk0 ts) <= lastt t0 ts.
Proof.
  induction ts as [|t ts IH]; intros bk0 t0 Hi Hl Hs; simpl; [auto|].
  destruct Hs as [Ht Hs]. pose proof (allow_inv bk0 t Hi ltac:(lia)) as [Hi' [Hl' _]]. apply IH; auto.
Qed.

Lemma run_app : forall pre win bk0, run bk0 (pre ++ win) = run bk0 pre ++ run (final bk0 pre) win.
Proof. induction pre as [|t pre IH]; intros win bk0; simpl; [reflexivity|].
  destruct (allow bk0 t) as [bk' ok] eqn:Ea. simpl. rewrite IH. reflexivity. Qed.

(* every window of a history: the requests admitted after time t1 (t1 >= everything before) *)
Theorem every_window pre win now0 t1 :
  sorted_from now0 pre -> lastt now0 pre <= t1 -> sorted_from t1 win ->
  count (run (final (fresh now0) pre) win) * b <= B * b + a * (lastt t1 win - t1).
Proof.
  intros Hp Ht1 Hw.
  destruct (final_inv pre (fresh now0) now0 (fresh_inv now0) ltac:(simpl; lia) Hp) as [Hi Hl].
  apply admitted_bound; auto. lia.
Qed.

(* refusal only when the identifier's own allowance is used up *)
Lemma refuse_only_if_empty bk0 now : snd (allow bk0 now) = false -> avail bk0 now < b.
Proof. unfold RateLimit.allow. destruct (b <=? avail bk0 now) eqn:Eq; simpl; [discriminate|].
  intros _. apply Z.leb_gt in Eq. exact Eq. Qed.

(* ---------- store refines "one never-evicted bucket per identifier" when ExpiresIn * rate >= burst *)
Hypothesis HEr : B * b <= a * E.
Variable ident : Type.
Variable id_eqb : ident -> ident -> bool.
Hypothesis id_eqb_spec : forall x y, id_eqb x y = true <-> x = y.

Notation store := (RateLimit.store ident).
Notation store_allow := (store_allow a b B E ident id_eqb).
Notation spec_allow := (spec_allow a b B ident id_eqb).

Definition equiv_from (t : Z) (b1 b2 : bucket) : Prop := forall t', t <= t' -> avail b1 t' = avail b2 t'.
Definition full_from (t : Z) (bk0 : bucket) : Prop := forall t', t <= t' -> avail bk0 t' = cap.

Lemma fresh_full now : full_from now (fresh now).
Proof. intros t' Ht. unfold RateLimit.avail, RateLimit.fresh, RateLimit.cap. simpl.
  assert (0 <= a * (t' - now)) by nia. lia. Qed.

Lemma full_equiv t b1 b2 : full_from t b1 -> full_from t b2 -> equiv_from t b1 b2.
Proof. intros H1 H2 t' Ht. rewrite H1, H2 by exact Ht. reflexivity. Qed.

Lemma equiv_refl t bk0 : equiv_from t bk0 bk0.
Proof. intros t' _. reflexivity. Qed.

Lemma equiv_mono t t2 b1 b2 : t <= t2 -> equiv_from t b1 b2 -> equiv_from t2 b1 b2.
Proof. intros Hle H t' Ht. apply H. lia. Qed.

Lemma full_mono t t2 bk0 : t <= t2 -> full_from t bk0 -> full_from t2 bk0.
Proof. intros Hle H t' Ht. apply H. lia. Qed.

Lemma stale_full bk0 sn now : binv bk0 -> last bk0 <= sn -> E < now - sn -> full_from now bk0.
Proof.
  intros [H1 H2] Hl Hst t' Ht. unfold RateLimit.avail, RateLimit.cap in *.
  assert (a * E <= a * (t' - last bk0)) by nia. lia.
Qed.

Lemma allow_equiv t b1 b2 now : equiv_from t b1 b2 -> t <= now ->
  snd (allow b1 now) = snd (allow b2 now) /\ equiv_from now (fst (allow b1 now)) (fst (allow b2 now)).
Proof.
  intros He Hle. pose proof (He now Hle) as Hn. unfold RateLimit.allow. cbv zeta. rewrite Hn.
  destruct (b <=? avail b2 now); simpl.
  - split; [reflexivity|]. apply equiv_refl.
  - split; [reflexivity|]. apply (equiv_mono t now); assumption.
Qed.

Definition Sim (s : store) (m : smap ident) (t : Z) : Prop :=
  (forall x v, vis ident s x = Some v ->
     exists ba, m x = Some ba /\ equiv_from t (bk v) ba /\ binv (bk v) /\ last (bk v) <= seen v /\ seen v <= t) /\
  (forall x, vis ident s x = None -> match m x with None => True | Some ba => full_from t ba end).

Lemma Sim0 now : Sim (store0 ident now) (fun _ => None) now.
Proof. split; [intros x v H; discriminate|intros x _; exact I]. Qed.

Lemma id_eqb_refl x : id_eqb x x = true.
Proof. apply id_eqb_spec. reflexivity. Qed.

Lemma Sim_step s m t x now s' ok m' ok' :
  Sim s m t -> t <= now -> store_allow s x now = (s', ok) -> spec_allow m x now = (m', ok') ->
  ok = ok' /\ Sim s' m' now.
Proof.
  intros [S1 S2] Hle Hc Ha'. unfold RateLimit.store_allow in Hc. unfold RateLimit.spec_allow in Ha'.
  set (v := match vis ident s x with Some v => v | None => {| bk := fresh now; seen := now |} end) in *.
  set (bk0 := match m x with Some bk0 => bk0 | None => fresh now end) in *.
  cbn [bk] in Hc.
  (* the two buckets about to be asked are equivalent from now on *)
  assert (Hx : equiv_from now (bk v) bk0 /\ binv (bk v) /\ last (bk v) <= now).
  { unfold v, bk0. destruct (vis ident s x) as [v0|] eqn:Ev.
    - destruct (S1 x v0 Ev) as [ba [Em [Heq [Hi [Hl Hs]]]]]. rewrite Em.
      split; [apply (equiv_mono t now); assumption|]. split; [exact Hi|lia].
    - specialize (S2 x Ev). cbn [bk]. destruct (m x) as [ba|].
      + split; [apply full_equiv; [apply fresh_full|apply (full_mono t now); assumption]|].
        split; [apply fresh_inv|simpl; lia].
      + split; [apply equiv_refl|]. split; [apply fresh_inv|simpl; lia]. }
  destruct Hx as [Heq [Hinv Hlast]].
  destruct (allow_equiv now (bk v) bk0 now Heq ltac:(lia)) as [Hok Heq'].
  pose proof (allow_inv (bk v) now Hinv Hlast) as [Hinv' [Hlast' _]].
  destruct (allow (bk v) now) as [b1 ok1] eqn:E1. destruct (allow bk0 now) as [b2 ok2] eqn:E2.
  cbn [fst snd] in *. injection Hc as <- <-. injection Ha' as <- <-.
  split; [exact Hok|].
  set (vis1 := upd ident id_eqb x {| bk := bk v; seen := now |} (vis ident s)) in *.
  assert (Hkeep : E <? now - now = false) by (apply Z.ltb_ge; lia).
  split.
  - intros y w Hy. cbn [vis] in Hy. destruct (id_eqb y x) eqn:Eyx.
    + apply id_eqb_spec in Eyx. subst y.
      assert (Hs1 : exists w0, vis ident (if E <? now - last_cleanup ident s
                then {| vis := cleanup E ident vis1 now; last_cleanup := now |}
                else {| vis := vis1; last_cleanup := last_cleanup ident s |}) x = Some w0).
      { destruct (E <? now - last_cleanup ident s); cbn [vis]; unfold cleanup, vis1, upd; rewrite id_eqb_refl;
          cbn [seen]; rewrite ?Hkeep; eauto. }
      destruct Hs1 as [w0 Hw0]. rewrite Hw0 in Hy. injection Hy as <-. cbn [bk seen].
      exists b2. split; [reflexivity|]. split; [exact Heq'|]. split; [exact Hinv'|]. lia.
    + assert (Hy0 : vis ident s y = Some w).
      { destruct (E <? now - last_cleanup ident s); cbn [vis] in Hy; unfold cleanup, vis1, upd in Hy; rewrite Eyx in Hy.
        - destruct (vis ident s y) as [w'|]; [|discriminate]. destruct (E <? now - seen w'); [discriminate|exact Hy].
        - exact Hy. }
      destruct (S1 y w Hy0) as [ba [Em [Heqy [Hi [Hl Hs]]]]]. exists ba.
      split; [exact Em|]. split; [apply (equiv_mono t now); assumption|]. split; [exact Hi|]. lia.
  - intros y Hy. cbn [vis] in Hy. destruct (id_eqb y x) eqn:Eyx.
    + exfalso. apply id_eqb_spec in Eyx. subst y.
      destruct (E <? now - last_cleanup ident s); cbn [vis] in Hy; unfold cleanup, vis1, upd in Hy;
        rewrite id_eqb_refl in Hy; cbn [seen] in Hy; rewrite ?Hkeep in Hy; discriminate.
    + destruct (vis ident s y) as [w|] eqn:Ey0.
      * (* present before: it was evicted, hence stale, hence full on both sides *)
        destruct (S1 y w Ey0) as [ba [Em [Heqy [Hi [Hl Hs]]]]]. rewrite Em.
        destruct (E <? now - last_cleanup ident s); cbn [vis] in Hy; unfold cleanup, vis1, upd in Hy;
          rewrite Eyx, Ey0 in Hy; [|discriminate].
        destruct (E <? now - seen w) eqn:Est; [|discriminate]. apply Z.ltb_lt in Est.
        pose proof (stale_full (bk w) (seen w) now Hi Hl Est) as Hf.
        intros t' Ht'. rewrite <- (Heqy t' ltac:(lia)). apply Hf. exact Ht'.
      * specialize (S2 y Ey0). destruct (m y) as [ba|]; [apply (full_mono t now); assumption|exact I].
Qed.

Theorem store_refines_spec : forall evs s m t,
  Sim s m t -> ev_sorted_from ident t evs ->
  store_run a b B E ident id_eqb s evs = spec_run a b B ident id_eqb m evs.
Proof.
  induction evs as [|[x now] evs IH]; intros s m t HS Hs; [reflexivity|].
  destruct Hs as [Hle Hs]. cbn [store_run spec_run].
  destruct (store_allow s x now) as [s' ok] eqn:E1. destruct (spec_allow m x now) as [m' ok'] eqn:E2.
  destruct (Sim_step s m t x now s' ok m' ok' HS Hle E1 E2) as [-> HS'].
  f_equal. eapply IH; eassumption.
Qed.

(* ---------- the specification is per identifier: x's answers are the single-bucket run on x's
   own sub-history *)
Fixpoint sub_history (x : ident) (evs : list (ident * Z)) : list Z :=
  match evs with [] => [] | (y, t) :: r => if id_eqb y x then t :: sub_history x r else sub_history x r end.
Fixpoint sub_answers (x : ident) (evs : list (ident * Z)) (outs : list bool) : list bool :=
  match evs, outs with
  | (y, _) :: r, o :: os => if id_eqb y x then o :: sub_answers x r os else sub_answers x r os
  | _, _ => []
  end.

Definition bucket_of (m : smap ident) (x : ident) (first : Z) : bucket :=
  match m x with Some bk0 => bk0 | None => fresh first end.

Lemma spec_isolated x : forall evs m,
  sub_answers x evs (spec_run a b B ident id_eqb m evs) =
  match sub_history x evs with
  | [] => []
  | t0 :: _ => run (bucket_of m x t0) (sub_history x evs)
  end.
Proof.
  induction evs as [|[y t] evs IH]; intros m; [reflexivity|].
  cbn [spec_run sub_history]. unfold RateLimit.spec_allow.
  set (bk0 := match m y with Some bk0 => bk0 | None => fresh t end).
  destruct (allow bk0 t) as [b' ok] eqn:Ea. cbn [sub_answers].
  destruct (id_eqb y x) eqn:Eyx.
  - apply id_eqb_spec in Eyx. subst y. cbn [RateLimit.run]. unfold bucket_of. fold bk0. rewrite Ea.
    f_equal. rewrite IH. destruct (sub_history x evs) as [|t1 ts] eqn:Eh; [reflexivity|].
    unfold bucket_of. rewrite id_eqb_refl. reflexivity.
  - rewrite IH. destruct (sub_history x evs) as [|t1 ts]; [reflexivity|].
    unfold bucket_of. assert (Exy : id_eqb x y = false).
    { destruct (id_eqb x y) eqn:Ex; [|reflexivity]. apply id_eqb_spec in Ex. subst y.
      rewrite id_eqb_refl in Eyx. discriminate. }
    rewrite Exy. reflexivity.
Qed.
End Proofs.

Section PerIdentifier.
Variables (a b B E : Z).
Hypotheses (Ha : 0 <= a) (Hb : 0 < b) (HB : 0 <= B) (HE : 0 <= E) (HEr : B * b <= a * E).
Variable ident : Type.
Variable id_eqb : ident -> ident -> bool.
Hypothesis id_eqb_spec : forall x y, id_eqb x y = true <-> x = y.

Lemma sub_history_sorted x : forall evs t, ev_sorted_from ident t evs -> sorted_from t (sub_history ident id_eqb x evs).
Proof.
  induction evs as [|[y u] evs IH]; intros t H; [exact I|]. destruct H as [Hle H]. cbn [sub_history].
  destruct (id_eqb y x).
  - split; [exact Hle|]. apply IH. exact H.
  - specialize (IH u H). destruct (sub_history ident id_eqb x evs) as [|t1 ts]; [exact I|].
    destruct IH as [H1 H2]. split; [lia|exact H2].
Qed.

(* the real store, per identifier: x's answers are those of ONE token bucket that is full at x's
   first request and never evicted, run on x's own requests only *)
Theorem store_per_identifier x evs now0 :
  ev_sorted_from ident now0 evs ->
  sub_answers ident id_eqb x evs (store_run a b B E ident id_eqb (store0 ident now0) evs) =
  match sub_history ident id_eqb x evs with
  | [] => []
  | t0 :: _ => run a b B (fresh b B t0) (sub_history ident id_eqb x evs)
  end.
Proof.
  intro Hs.
  rewrite (store_refines_spec a b B E Ha Hb HB HE HEr ident id_eqb id_eqb_spec evs (store0 ident now0) (fun _ => None) now0
             (Sim0 a b B ident now0) Hs).
  rewrite (spec_isolated a b B ident id_eqb id_eqb_spec). reflexivity.
Qed.
End PerIdentifier.
