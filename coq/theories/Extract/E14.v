From Coq Require Extraction.
From Coq Require Import ExtrOcamlBasic.
From Echo Require Import Glue.G14.
Extraction "extracted/m14.ml" G14.run_sx.
