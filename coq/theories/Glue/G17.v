From Coq Require Import List ZArith Ascii.
From Echo Require Import Base.Sx Mw.Slash.
Import ListNotations.
Open Scope Z_scope.
(* input: (component path qs isdir); component 0 AddTrailingSlash, 1 RemoveTrailingSlash, 2/3 Echo/Group static
   4/5 Add/RemoveTrailingSlash without redirect code (forwarding)
   output: (1 location) | (0 #) | (2 path-seen modified new-request-uri) *)
Definition fwd_sx (r : list Ascii.ascii * option (list Ascii.ascii)) : sx :=
  match r with
  | (p, Some u) => SL [SZ 2; SS p; SZ 1; SS u]
  | (p, None) => SL [SZ 2; SS p; SZ 0; SS []]
  end.
Definition run_sx (x : sx) : sx :=
  let comp := as_Z (nth_sx 0 x) in
  let path := as_str (nth_sx 1 x) in
  let qs := as_str (nth_sx 2 x) in
  let isdir := as_bool (nth_sx 3 x) in
  if comp =? 4 then fwd_sx (add_slash_forward path qs) else
  if comp =? 5 then fwd_sx (remove_slash_forward path qs) else
  let r := match comp with
           | 0 => add_slash path qs
           | 1 => remove_slash path qs
           | _ => static_dir path isdir
           end in
  match r with Some l => SL [SZ 1; SS l] | None => SL [SZ 0; SS []] end.
