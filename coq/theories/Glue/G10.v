From Coq Require Import List ZArith NArith Bool.
From Echo Require Import Base.Sx Net.IP Net.Xff.
Import ListNotations.
(* input: (kind (loop link priv ((net mask) ...)) (xff-line ...) xreal direct ((entry valid (bytes) canonical) ...))
   output: #result *)
Definition dec_bytes (x : sx) : list N := map (fun b => Z.to_N (as_Z b)) (as_list x).
Definition dec_cfg (x : sx) : cfg :=
  {| t_loopback := as_bool (nth_sx 0 x); t_linklocal := as_bool (nth_sx 1 x); t_private := as_bool (nth_sx 2 x);
     t_ranges := map (fun r => (dec_bytes (nth_sx 0 r), dec_bytes (nth_sx 1 r))) (as_list (nth_sx 3 x)) |}.
Fixpoint lookup (tbl : list sx) (e : str) : option (ip * str) :=
  match tbl with
  | [] => None
  | t :: r => if str_eqb (as_str (nth_sx 0 t)) e
              then (if as_bool (nth_sx 1 t) then Some (dec_bytes (nth_sx 2 t), as_str (nth_sx 3 t)) else None)
              else lookup r e
  end.
Definition run_sx (x : sx) : sx :=
  let kind := Z.to_nat (as_Z (nth_sx 0 x)) in
  let c := dec_cfg (nth_sx 1 x) in
  let lines := map as_str (as_list (nth_sx 2 x)) in
  let xreal := as_str (nth_sx 3 x) in
  let direct := as_str (nth_sx 4 x) in
  let tbl := as_list (nth_sx 5 x) in
  SS (real_ip (lookup tbl) c kind lines xreal direct).
