(* Host routing (Echo.findRouter): the request's Host value selects the router registered for exactly that
   name, otherwise the default router; the route that serves comes from the selected table only. *)
From Coq Require Import List Arith Bool Ascii String Lia Permutation.
Import ListNotations.
From Echo.Router Require Import Spec2 Fuel Refine Insert InsProof Walk Live Toks Build Sound Complete Allow Top Tail.

Definition hosts := list (str * list rt).

Definition find_router (hs : hosts) (dflt : list rt) (h : str) : list rt :=
  match h with
  | [] => dflt
  | _ => match List.find (fun x => str_eqb (fst x) h) hs with Some x => snd x | None => dflt end
  end.

Definition host_request (hs : hosts) (dflt : list rt) (h m p : str) : outcome :=
  route_request (find_router hs dflt h) m p.

Lemma str_eqb_refl s : str_eqb s s = true.
Proof. unfold str_eqb. destruct (str_dec s s); congruence. Qed.
Lemma str_eqb_true a b : str_eqb a b = true -> a = b.
Proof. unfold str_eqb. destruct (str_dec a b); congruence. Qed.

(* exactly that Host value: the registered name selects its own table ... *)
Theorem host_exact hs dflt h t : h <> [] -> NoDup (map fst hs) -> In (h, t) hs -> find_router hs dflt h = t.
Proof.
  intros Hne Hnd Hin. unfold find_router. destruct h as [|c h']; [congruence|].
  induction hs as [|[hx tx] hs IH]; [destruct Hin|].
  inversion Hnd as [|? ? Hnot Hnd']; subst. simpl in Hnot.
  change (List.find (fun x : str * list rt => str_eqb (fst x) (c :: h')) ((hx, tx) :: hs))
    with (if str_eqb hx (c :: h') then Some (hx, tx) else List.find (fun x : str * list rt => str_eqb (fst x) (c :: h')) hs).
  destruct (str_eqb hx (c :: h')) eqn:E.
  - apply str_eqb_true in E. subst hx. destruct Hin as [Hin|Hin]; [inversion Hin; reflexivity|].
    exfalso. apply Hnot. apply (in_map fst) in Hin. exact Hin.
  - destruct Hin as [Hin|Hin]; [inversion Hin; subst; rewrite str_eqb_refl in E; discriminate|]. apply IH; assumption.
Qed.

(* ... and every other Host value (also a case variant or a prefix of a registered name) the default one *)
Theorem host_other hs dflt h : (forall x, In x hs -> fst x <> h) -> find_router hs dflt h = dflt.
Proof.
  intros Hno. unfold find_router. destruct h as [|c h']; [reflexivity|].
  destruct (List.find _ hs) as [x|] eqn:E; [|reflexivity].
  apply find_some in E as [Hin E]. apply str_eqb_true in E. exfalso. exact (Hno x Hin E).
Qed.

(* the route found by the specification search is one of the live set *)
Lemma find_m_in_list rs m r : find_m rs m = Some r -> In r rs.
Proof. intros H. apply find_m_in in H. tauto. Qed.

Lemma advance_fst t ls r : In r (map fst (advance t ls)) -> In r (map fst ls).
Proof.
  intros H. apply in_map_iff in H as [x [<- Hx]]. apply advance_in in Hx as [y [Hy [Hf _]]].
  rewrite <- Hf. apply in_map. exact Hy.
Qed.

Lemma terminals_fst ls r : In r (terminals ls) -> In r (map fst ls).
Proof. unfold terminals. intros H. apply in_map_iff in H as [x [<- Hx]]. apply filter_In in Hx as [Hx _]. apply in_map. exact Hx. Qed.

Theorem search_found_in : forall f m pre ls p vals best r v,
  search f m pre ls p vals best = Found r v -> In r (map fst ls).
Proof.
  induction f as [|f IH]; intros m pre ls p vals best r v H; [discriminate|].
  cbn [search] in H.
  destruct (end_check m pre (terminals ls) p vals best) as [r0 v0|b0] eqn:E0; cbn [orelse] in H.
  { inversion H; subst. unfold end_check in E0. destruct p; [|discriminate].
    destruct (is_handler (terminals ls)).
    - destruct (find_m (terminals ls) m) eqn:Ef; [|discriminate]. inversion E0; subst.
      apply terminals_fst. eapply find_m_in_list; eassumption.
    - destruct (find_m (terminals ls) NF) eqn:Ef; [|discriminate]. inversion E0; subst.
      apply terminals_fst. eapply find_m_in_list; eassumption. }
  match type of H with orelse ?X _ = _ => destruct X as [r1 v1|b1] eqn:E1 end; cbn [orelse] in H.
  { inversion H; subst. destruct p as [|c p']; [discriminate|].
    destruct (nonempty (advance (TLit c) ls)); [|discriminate].
    eapply advance_fst. eapply IH. exact E1. }
  match type of H with orelse ?X _ = _ => destruct X as [r2 v2|b2] eqn:E2 end; cbn [orelse] in H.
  { inversion H; subst. destruct p as [|c p']; [discriminate|].
    destruct (nonempty (advance TParam ls)); [|discriminate].
    eapply advance_fst. eapply IH. exact E2. }
  unfold any_step in H. destruct (nonempty (advance TAny ls)); [|discriminate]. cbn zeta in H.
  destruct (find_m (map fst (advance TAny ls)) m) eqn:Ef.
  - inversion H; subst. eapply advance_fst. eapply find_m_in_list; eassumption.
  - destruct (find_m (map fst (advance TAny ls)) NF) eqn:Ef2; [|discriminate].
    inversion H; subst. eapply advance_fst. eapply find_m_in_list; eassumption.
Qed.

Theorem route_request_in rs m p r v : wf_table rs ->
  route_request rs m p = Served r v -> In r (map fst (table rs)).
Proof.
  intros HWf H. unfold route_request, finish in H.
  rewrite (dispatch_spec rs m p HWf) in H. unfold spec_dispatch in H.
  destruct (search (fuel_for rs) m [] (table rs) p [] None) as [r0 v0|[pre|]] eqn:Es.
  - inversion H; subst. eapply search_found_in. exact Es.
  - destruct (nf_at rs pre) as [rnf|] eqn:En; [|discriminate].
    destruct (search _ NF [] [entry_of rnf] p [] None) as [r0 v0|b] eqn:Es2; [|discriminate].
    inversion H; subst. apply search_found_in in Es2. simpl in Es2. destruct Es2 as [<-|[]].
    apply find_some in En as [Hin _]. apply in_rev in Hin. unfold table. rewrite map_map. apply in_map_iff. exists rnf. auto.
  - discriminate.
Qed.

(* never for others: whatever serves a request was registered for the selected host's router *)
Theorem host_isolation hs dflt h m p r v : wf_table (find_router hs dflt h) ->
  host_request hs dflt h m p = Served r v -> In r (map fst (table (find_router hs dflt h))).
Proof. intros HWf H. eapply route_request_in; eassumption. Qed.
