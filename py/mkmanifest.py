#!/usr/bin/env python3
"""Regenerates MANIFEST.json from py/propcfg.py (kept valid at all times)."""
import json, os, subprocess, sys
ROOT = os.path.dirname(os.path.dirname(os.path.abspath(__file__)))
sys.path.insert(0, os.path.join(ROOT, "py"))
from propcfg import PROPS, TRUSTED_BASE_COMMON
ALL = [json.loads(l)["id"] for l in open(os.path.join(ROOT, "properties.jsonl"))]
hook = subprocess.run("git -C /repo log --format=%H --grep='^verif:' ", shell=True, capture_output=True, text=True).stdout.split()
m = {
    "version": 1,
    "setup_cmd": "./check --setup",
    "hooks": {"guard": "verif", "enable": "go build -tags verif (the harness module go/ uses `replace github.com/labstack/echo/v4 => /repo`)",
              "baseline_off_cmd": "cd /repo && GOFLAGS=-mod=mod go test -vet=off -count=1 -json ./...",
              "source_commits": hook, "add_only": True},
    "engines": [{"name": "coq-proof+correspondence", "path": "check", "serves_properties": sorted(PROPS),
                 "kind_free_text": "Coq 8.16.1 theorems over a hand-written Gallina model (+ go/ast translator for table-shaped code), tied to /repo on every run by a differential correspondence check (Go harness on the implementation vs extracted OCaml model and in-Coq vm_compute)"}],
    "checks": [], "not_applicable": [],
    "notes": "Every check rebuilds the harness against /repo's working tree, regenerates coq/theories/Gen from the source, re-checks the property theorems with coqc (Print Assumptions under each) and runs the correspondence. See DESIGN.md.",
}
for p in ALL:
    if p in PROPS:
        c = PROPS[p]
        m["checks"].append({
            "property_id": p, "quick_cmd": "./check %s --tier quick" % p, "thorough_cmd": "./check %s --tier thorough" % p,
            "evidence_file": "evidence/%s.json" % p, "replay_cmd_template": "./check %s --replay {path}" % p,
            "engine": "coq-proof+correspondence",
            "level_claimed": {"category": "proof", "text": c.get("level_text", ""), "design_ref": "DESIGN.md section 5, " + p},
            "level_note": "; ".join(TRUSTED_BASE_COMMON[:2] + c.get("trusted", []) + c.get("assumptions", [])),
            "technique": c.get("technique", "machine-checked Coq proof over a Gallina model + differential correspondence check against the implementation"),
        })
    else:
        m["not_applicable"].append({"property_id": p, "reason": "check not built yet in this revision (proof technique applies; see DESIGN.md section 5)"})
json.dump(m, open(os.path.join(ROOT, "MANIFEST.json"), "w"), indent=1)
print("checks:", len(m["checks"]), "not claimed:", len(m["not_applicable"]))
