package main

import (
	"fmt"
	"math/rand"
	"net"
	"net/http"
	"net/http/httptest"
	"strings"

	"github.com/labstack/echo/v4"
)

func init() {
	props["C10"] = &propRunner{gen: genC10, rule: "requests with 0-3 X-Forwarded-For lines of 1-4 entries (v4/v6/mapped/bracketed/spaced/garbage), X-Real-IP values, peer addresses (incl. unparsable RemoteAddr) x trust options (loopback/link-local/private on/off, extra CIDR ranges) x the three extractors through Context.RealIP; non-trivial = XFF or X-Real-IP extractor with a header present and a trusted peer (so the header is actually consulted); distinct by full input"}
}

var c10RFC = func() []*net.IPNet {
	var out []*net.IPNet
	for _, s := range []string{"127.0.0.0/8", "::1/128", "169.254.0.0/16", "fe80::/10", "10.0.0.0/8", "172.16.0.0/12", "192.168.0.0/16", "fc00::/7"} {
		_, n, _ := net.ParseCIDR(s)
		out = append(out, n)
	}
	return out
}()

type c10Cfg struct {
	loop, link, priv bool
	ranges           []*net.IPNet
}

// reference trust, written from the RFC ranges (independent of ip.go)
func (c c10Cfg) trusted(ip net.IP) bool {
	if ip == nil {
		return false
	}
	in := func(i int) bool { return c10RFC[i].Contains(ip) }
	if c.loop && (in(0) || in(1)) {
		return true
	}
	if c.link && (in(2) || in(3)) {
		return true
	}
	if c.priv && (in(4) || in(5) || in(6) || in(7)) {
		return true
	}
	for _, r := range c.ranges {
		if r.Contains(ip) {
			return true
		}
	}
	return false
}

func c10Strip(s string) string {
	return strings.TrimSuffix(strings.TrimPrefix(s, "["), "]")
}
func c10Clean(s string) string { return c10Strip(strings.TrimSpace(s)) }

func c10Reference(kind int, cfg c10Cfg, lines []string, hasXReal bool, xreal, direct string) string {
	switch kind {
	case 0:
		return direct
	case 1:
		if !hasXReal || xreal == "" {
			return direct
		}
		if cfg.trusted(net.ParseIP(direct)) {
			h := c10Strip(xreal)
			if net.ParseIP(h) != nil {
				return h
			}
		}
		return direct
	}
	if len(lines) == 0 {
		return direct
	}
	var ents []string
	for _, l := range lines {
		for _, e := range strings.Split(l, ",") {
			ents = append(ents, c10Clean(e))
		}
	}
	ents = append(ents, c10Clean(direct))
	for i := len(ents) - 1; i >= 0; i-- {
		ip := net.ParseIP(ents[i])
		if ip == nil {
			return direct
		}
		if !cfg.trusted(ip) {
			return ip.String()
		}
	}
	return ents[0]
}

var c10Echo = echo.New()

func genC10(rng *rand.Rand, n int, emit func(Case), dist map[string]int) {
	pool := []string{"8.8.8.8", "1.2.3.4", "203.0.113.7", "198.51.100.200", "10.0.0.1", "10.255.255.254", "172.16.0.1", "172.31.255.255", "172.15.0.1", "172.32.0.1",
		"192.168.1.1", "192.169.0.1", "127.0.0.1", "127.255.0.3", "128.0.0.1", "169.254.10.10", "169.253.0.1", "::1", "::2", "fe80::1", "febf::1", "fec0::1",
		"fc00::1", "fd12:3456::1", "fe00::1", "2001:db8::1", "2001:DB8::2", "::ffff:10.0.0.1", "::ffff:8.8.4.4", "0.0.0.0", "255.255.255.255", "11.0.0.1", "9.255.255.255"}
	garbage := []string{"unknown", "", " ", "1.2.3", "1.2.3.4:80", "_hidden", "fe80::1%eth0", "010.0.0.1", "[", "]", "1.2.3.4.5", "::ffff:999.0.0.1", "localhost"}
	cidrs := []string{"203.0.113.0/24", "2001:db8::/32", "8.8.0.0/16", "::ffff:10.0.0.0/104", "1.2.3.4/32", "198.51.100.128/25", "fe00::/9"}
	decorate := func(s string) string {
		switch rng.Intn(8) {
		case 0:
			return " " + s
		case 1:
			return s + " "
		case 2:
			return "[" + s + "]"
		case 3:
			return " [" + s + "] "
		case 4:
			return "\t" + s
		}
		return s
	}
	entry := func() string {
		if rng.Intn(7) == 0 {
			return garbage[rng.Intn(len(garbage))]
		}
		return decorate(pool[rng.Intn(len(pool))])
	}
	var cfg c10Cfg
	var rangesSx []Sx
	kind := 0
	for it := 0; it < n; it++ {
		e := c10Echo // ONE instance (and so one recycled context) for the whole run: only the extractor changes
		if it > 0 && rng.Intn(3) != 0 {
			// the extractor installed for the previous request serves this one too (an extractor is created once per server)
			dist["extractor_reused"]++
		} else {
			cfg = c10Cfg{loop: rng.Intn(4) != 0, link: rng.Intn(4) != 0, priv: rng.Intn(4) != 0}
			var opts []echo.TrustOption
			opts = append(opts, echo.TrustLoopback(cfg.loop), echo.TrustLinkLocal(cfg.link), echo.TrustPrivateNet(cfg.priv))
			rangesSx = nil
			for k := rng.Intn(3); k > 0; k-- {
				_, nw, _ := net.ParseCIDR(cidrs[rng.Intn(len(cidrs))])
				cfg.ranges = append(cfg.ranges, nw)
				opts = append(opts, echo.TrustIPRange(nw))
				// net.IPNet.Contains normalises a v4-mapped network and its mask to 4 bytes (networkNumberAndMask)
				nb, mb := []byte(nw.IP), []byte(nw.Mask)
				if v4 := nw.IP.To4(); v4 != nil {
					nb = v4
					if len(mb) == 16 && string(mb[:12]) == strings.Repeat("\xff", 12) {
						mb = mb[12:]
					}
				}
				rangesSx = append(rangesSx, L(c10Bytes(nb), c10Bytes(mb)))
			}
			kind = rng.Intn(3)
			if rng.Intn(2) == 0 {
				kind = 2
			}
			switch kind {
			case 0:
				e.IPExtractor = echo.ExtractIPDirect()
			case 1:
				e.IPExtractor = echo.ExtractIPFromRealIPHeader(opts...)
			default:
				e.IPExtractor = echo.ExtractIPFromXFFHeader(opts...)
			}
		}
		req := httptest.NewRequest(http.MethodGet, "/", nil)
		// peer
		peer := pool[rng.Intn(len(pool))]
		if rng.Intn(3) == 0 {
			peer = []string{"127.0.0.1", "10.0.0.1", "::1", "192.168.1.1"}[rng.Intn(4)]
		}
		switch r := rng.Intn(14); {
		case r == 0:
			req.RemoteAddr = "@"
		case r == 1:
			req.RemoteAddr = ""
		case r == 2:
			req.RemoteAddr = peer // no port
		default:
			req.RemoteAddr = net.JoinHostPort(peer, "12345")
		}
		direct, _, _ := net.SplitHostPort(req.RemoteAddr)
		var lines []string
		if kind == 2 || rng.Intn(2) == 0 {
			for k := rng.Intn(4); k > 0; k-- {
				var es []string
				cnt := 1 + rng.Intn(4)
				if rng.Intn(40) == 0 {
					cnt = 30 + rng.Intn(12) // a long chain of hops (or of forged entries in front of the real ones)
					dist["xff_long_lines"]++
				}
				for j := cnt; j > 0; j-- {
					es = append(es, entry())
				}
				sep := ","
				if rng.Intn(2) == 0 {
					sep = ", "
				}
				lines = append(lines, strings.Join(es, sep))
			}
		}
		for _, l := range lines {
			req.Header.Add(echo.HeaderXForwardedFor, l)
		}
		hasXReal := false
		xreal := ""
		if kind == 1 || rng.Intn(2) == 0 {
			hasXReal = true
			xreal = entry()
			if rng.Intn(10) == 0 {
				xreal = ""
			}
			req.Header.Set(echo.HeaderXRealIP, xreal)
		}
		c := recycledContext(e, req, httptest.NewRecorder())
		got := c.RealIP()
		want := c10Reference(kind, cfg, lines, hasXReal, xreal, direct)
		ok, why := true, ""
		if got != want {
			ok, why = false, fmt.Sprintf("RealIP()=%q, the property's reference gives %q", got, want)
		}
		if net.ParseIP(direct) != nil && net.ParseIP(got) == nil {
			ok, why = false, fmt.Sprintf("peer %q is a valid IP but the result %q is not", direct, got)
		}
		// oracle table for the model: every string the model may hand to ParseIP
		seen := map[string]bool{}
		var tbl []Sx
		add := func(s string) {
			if seen[s] {
				return
			}
			seen[s] = true
			ip := net.ParseIP(s)
			if ip == nil {
				tbl = append(tbl, L(S(s), I(0), L(), S("")))
				return
			}
			b := ip
			if ip4 := ip.To4(); ip4 != nil {
				b = ip4
			}
			tbl = append(tbl, L(S(s), I(1), c10Bytes(b), S(ip.String())))
		}
		add(direct)
		add(c10Clean(direct))
		add(c10Strip(xreal))
		for _, l := range lines {
			for _, en := range strings.Split(l, ",") {
				add(c10Clean(en))
			}
		}
		in := L(I(kind), L(B(cfg.loop), B(cfg.link), B(cfg.priv), L(rangesSx...)), LS(lines), S(xreal), S(direct), L(tbl...))
		cs := Case{In: in, Out: S(got), Ok: ok, Why: why,
			Human: fmt.Sprintf("extractor=%d trust(loopback=%v linklocal=%v private=%v ranges=%v) RemoteAddr=%q XFF=%q X-Real-IP=%q(set=%v) -> RealIP()=%q", kind, cfg.loop, cfg.link, cfg.priv, cfg.ranges, req.RemoteAddr, lines, xreal, hasXReal, got)}
		if kind >= 1 && cfg.trusted(net.ParseIP(direct)) && (kind == 2 && len(lines) > 0 || kind == 1 && xreal != "") {
			cs.Key = Show(in)
		}
		dist[fmt.Sprintf("extractor_%d", kind)]++
		dist[fmt.Sprintf("xff_lines_%d", len(lines))]++
		if direct == "" {
			dist["unparsable_remote_addr"]++
		}
		emit(cs)
	}
}

func c10Bytes(b []byte) Sx {
	l := make([]Sx, len(b))
	for i, x := range b {
		l[i] = I(int(x))
	}
	return L(l...)
}
