(* Model of DefaultBinder.bindData / Bind (bind.go): which fields of a destination struct are written
   from path, query, form or header data.  (C09) *)
From Coq Require Import List Bool Ascii String Arith ZArith.
From Echo Require Import Base.Sx Mw.Auth Bind.ParseNum.
Import ListNotations.
Open Scope nat_scope.

(* sources: 0 param, 1 query, 2 form, 3 header *)
Definition source := nat.

Inductive skind := SString | SInt | SUint8 | SUint16 | SInt8.
Inductive ty :=
| TScalar (k : skind)
| TSlice (k : skind)
| TStruct (fields : list field)
with field :=
| Field (settable : bool) (anonymous : bool) (tags : list (source * str)) (t : ty).

Definition tag_of (tags : list (source * str)) (s : source) : str :=
  match find (fun x => Nat.eqb (fst x) s) tags with Some x => snd x | None => [] end.

(* data[key], else the first key equal under strings.EqualFold *)
Definition data := list (str * list str).
Definition lookup (d : data) (key : str) : option (list str) :=
  match find (fun kv => str_eqb (fst kv) key) d with
  | Some kv => Some (snd kv)
  | None => match find (fun kv => eq_fold (fst kv) key) d with Some kv => Some (snd kv) | None => None end
  end.

(* a write: path of field indices from the root, and the values stored *)
Definition path := list nat.
Inductive result := Writes (ws : list (path * list str)) | Error.

Definition conv_ok (k : skind) (v : str) : bool :=
  let v' := match v with [] => lit "0" | _ => v end in
  let some (o : option Z) := match o with Some _ => true | None => false end in
  match k with
  | SString => true
  | SInt => some (parse_int 64 v')
  | SUint8 => some (parse_uint 8 v')
  | SUint16 => some (parse_uint 16 v')
  | SInt8 => some (parse_int 8 v')
  end.

(* what a field holds after text [v] was converted into it: an empty text stands for the zero value of a number *)
Definition stored (k : skind) (v : str) : str :=
  match k, v with
  | SString, _ => v
  | _, [] => lit "0"
  | _, _ => v
  end.

Definition cat (a b : result) : result :=
  match a, b with Writes x, Writes y => Writes (x ++ y) | _, _ => Error end.

(* bindData over the fields of a struct; [pre] = path of the struct itself *)
Fixpoint bind_ty (fuel : nat) (t : ty) (d : data) (s : source) (pre : path) : result :=
  match fuel with O => Writes [] | S f =>
  match t with
  | TStruct fs =>
      (fix go (fs : list field) (i : nat) : result :=
         match fs with
         | [] => Writes []
         | Field settable anon tags ft :: r =>
             let here :=
               if negb settable then Writes []
               else
                 let name := tag_of tags s in
                 match name with
                 | [] => match ft with TStruct _ => bind_ty f ft d s (pre ++ [i]) | _ => Writes [] end
                 | _ => match ft, anon with
                        | TStruct _, true => Error      (* tags are not allowed with an anonymous struct field *)
                        | _, _ =>
                          match lookup d name with
                          | None => Writes []
                          | Some vals =>
                              match ft with
                              | TScalar k => match vals with
                                             | v :: _ => if conv_ok k v then Writes [(pre ++ [i], [stored k v])] else Error
                                             | [] => Writes []
                                             end
                              | TSlice k => if forallb (conv_ok k) vals then Writes [(pre ++ [i], map (stored k) vals)] else Error
                              | TStruct _ => Error      (* unknown type: a tagged non-anonymous struct cannot be set from text *)
                              end
                          end
                        end
                 end in
             match here with
             | Error => Error                            (* bindData returns at the first error *)
             | Writes w => cat (Writes w) (go r (S i))
             end
         end) fs 0
  | _ => Writes []
  end end.

Fixpoint depth (t : ty) : nat :=
  match t with
  | TStruct fs => S (fold_right (fun fl acc => match fl with Field _ _ _ ft => Nat.max (depth ft) acc end) 0 fs)
  | _ => 1
  end.

Definition bind_data (t : ty) (d : data) (s : source) : result :=
  match d with [] => Writes [] | _ => bind_ty (S (depth t)) t d s [] end.

(* DefaultBinder.Bind: path params, then query (GET / DELETE / HEAD only), then the body by media type *)
Inductive body := BNone | BForm (d : data) | BMalformedForm | BUnsupported | BOracle (ws : list (path * list str)) | BOracleError.
Inductive outcome := Bound (ws : list (path * list str)) | Status (code : nat).

Definition is_query_method (m : str) : bool :=
  str_eqb m (lit "GET") || str_eqb m (lit "DELETE") || str_eqb m (lit "HEAD").

Definition bind (t : ty) (m : str) (params query : data) (b : body) : outcome :=
  match bind_data t params 0 with
  | Error => Status 400
  | Writes w1 =>
      let q := if is_query_method m then bind_data t query 1 else Writes [] in
      match q with
      | Error => Status 400
      | Writes w2 =>
          match b with
          | BNone => Bound (w1 ++ w2)
          | BForm d => match bind_data t d 2 with Writes w3 => Bound (w1 ++ w2 ++ w3) | Error => Status 400 end
          | BMalformedForm => Status 400
          | BUnsupported => Status 415
          | BOracle w3 => Bound (w1 ++ w2 ++ w3)       (* JSON / XML decoders are oracles *)
          | BOracleError => Status 400
          end
      end
  end.

(* the final value of a field: the last write to its path *)
Definition at_p (p : path) (w : path * list str) : bool := if list_eq_dec Nat.eq_dec (fst w) p then true else false.
Definition final (ws : list (path * list str)) (p : path) : option (list str) :=
  match find (at_p p) (rev ws) with Some w => Some (snd w) | None => None end.

(* ---- map destinations: map[string]string and map[string]interface{} take the first value of every key,
   map[string][]string all of them; any other element type is left alone.  No tags are involved: every key of every
   applicable source is bound, later sources overriding earlier ones key by key. *)
Inductive mapmode := MFirst | MAll | MIgnored.
Definition map_entries (mode : mapmode) (d : data) : data :=
  match mode with
  | MIgnored => []
  | MFirst => map (fun kv => (fst kv, firstn 1 (snd kv))) d
  | MAll => d
  end.
Inductive map_outcome := MBound (kvs : data) | MStatus (code : nat).
Definition bind_map (mode : mapmode) (m : str) (params query : data) (b : body) : map_outcome :=
  let w1 := map_entries mode params in
  let w2 := if is_query_method m then map_entries mode query else [] in
  match b with
  | BNone => MBound (w1 ++ w2)
  | BForm d => MBound (w1 ++ w2 ++ map_entries mode d)
  | BMalformedForm => MStatus 400
  | BUnsupported => MStatus 415
  | BOracle _ => MBound (w1 ++ w2)
  | BOracleError => MStatus 400
  end.
(* the value a key ends up with: that of the last entry for it *)
Definition map_final (kvs : data) (k : str) : option (list str) :=
  match find (fun kv => str_eqb (fst kv) k) (rev kvs) with Some kv => Some (snd kv) | None => None end.
