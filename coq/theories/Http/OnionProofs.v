From Coq Require Import List Arith Bool Ascii String Lia.
From Echo Require Import Base.Sx.
From Echo.Router Require Import Spec2.
From Echo Require Import Http.Onion.
Import ListNotations.

Definition passes (m : mw) : bool := match mw_kind_of m with MFail _ => false | _ => true end.
Definition ids (ms : list mw) : list nat := map mw_id ms.

(* all layers pass: enter in order, the core, unwind in exactly the reverse order, each layer once,
   every layer seeing the error returned below *)
Theorem onion_pass : forall ms core, forallb passes ms = true ->
  run_mws ms core = (map Enter (ids ms) ++ fst core ++ map (fun i => Exit i (snd core)) (rev (ids ms)), snd core).
Proof.
  induction ms as [|m r IH]; intros core H.
  - simpl. rewrite app_nil_r. destruct core; reflexivity.
  - simpl in H. apply andb_true_iff in H as [Hm Hr]. cbn [run_mws]. unfold passes in Hm.
    destruct (mw_kind_of m) eqn:Ek; try discriminate;
      rewrite (IH core Hr); cbn [ids map rev fst snd]; rewrite map_app; cbn [map];
      rewrite <- !app_assoc; reflexivity.
Qed.

(* a layer that fails without calling next: nothing below it runs, the layers above unwind with its error *)
Theorem onion_fail : forall pre f post core c, forallb passes pre = true -> mw_kind_of f = MFail c ->
  run_mws (pre ++ f :: post) core =
  (map Enter (ids pre) ++ [Enter (mw_id f); Exit (mw_id f) c] ++ map (fun i => Exit i c) (rev (ids pre)), c).
Proof.
  induction pre as [|m r IH]; intros f post core c Hp Hf.
  - simpl. rewrite Hf. reflexivity.
  - simpl in Hp. apply andb_true_iff in Hp as [Hm Hr]. cbn [app run_mws]. unfold passes in Hm.
    destruct (mw_kind_of m) eqn:Ek; try discriminate;
      rewrite (IH f post core c Hr Hf); cbn [ids map rev]; rewrite map_app; cbn [map];
      rewrite <- !app_assoc; reflexivity.
Qed.

(* ServeHTTP with layers that all pass: Pre, then Use, then the route's chain (group middleware
   outermost first, then route level), the handler, and the exact reverse on the way out *)
Theorem request_onion s host method path :
  let p' := fold_left apply_rewrite (s_pre s) path in
  let t := select s (fold_left apply_host (s_pre s) host) method p' in
  forallb passes (s_pre s) = true -> forallb passes (s_use s) = true -> forallb passes (t_chain t) = true ->
  request s host method path =
  (map Enter (ids (s_pre s)) ++ map Enter (ids (s_use s)) ++ map Enter (ids (t_chain t)) ++
   [Handler (t_handler t) (t_err t)] ++
   map (fun i => Exit i (t_err t)) (rev (ids (t_chain t))) ++
   map (fun i => Exit i (t_err t)) (rev (ids (s_use s))) ++
   map (fun i => Exit i (t_err t)) (rev (ids (s_pre s))), t_err t).
Proof.
  intros p' t Hp Hu Hc. unfold request.
  assert (Hreach : forall ms p, forallb passes ms = true ->
     (fix reach (ms : list mw) (p : Spec2.str) : Spec2.str :=
        match ms with
        | [] => p
        | m :: r => match mw_kind_of m with MFail _ => p | _ => reach r (apply_rewrite p m) end
        end) ms p = fold_left apply_rewrite ms p).
  { induction ms as [|m r IH]; intros p H; [reflexivity|]. simpl in H. apply andb_true_iff in H as [Hm Hr].
    cbn [fold_left]. unfold passes in Hm. destruct (mw_kind_of m) eqn:Ek; try discriminate; apply IH; exact Hr. }
  assert (Hreachh : forall ms h, forallb passes ms = true ->
     (fix reachh (ms : list mw) (h : Spec2.str) : Spec2.str :=
        match ms with
        | [] => h
        | m :: r => match mw_kind_of m with MFail _ => h | _ => reachh r (apply_host h m) end
        end) ms h = fold_left apply_host ms h).
  { induction ms as [|m r IH]; intros h H; [reflexivity|]. simpl in H. apply andb_true_iff in H as [Hm Hr].
    cbn [fold_left]. unfold passes in Hm. destruct (mw_kind_of m) eqn:Ek; try discriminate; apply IH; exact Hr. }
  rewrite (Hreach (s_pre s) path Hp), (Hreachh (s_pre s) host Hp). fold p'. fold t.
  rewrite (onion_pass (t_chain t) _ Hc). cbn [fst snd].
  rewrite (onion_pass (s_use s) _ Hu). cbn [fst snd].
  rewrite (onion_pass (s_pre s) _ Hp). cbn [fst snd].
  rewrite <- !app_assoc. reflexivity.
Qed.

(* Pre runs before route selection: the route is chosen for the path AFTER all Pre rewrites *)
Theorem pre_before_routing s host method path : forallb passes (s_pre s) = true ->
  exists tr, request s host method path =
    run_mws (s_pre s) (run_mws (s_use s) (run_mws (t_chain (select s (fold_left apply_host (s_pre s) host) method (fold_left apply_rewrite (s_pre s) path))) tr)).
Proof.
  intro Hp. eexists. unfold request.
  assert (Hreach : forall ms p, forallb passes ms = true ->
     (fix reach (ms : list mw) (p : Spec2.str) : Spec2.str :=
        match ms with
        | [] => p
        | m :: r => match mw_kind_of m with MFail _ => p | _ => reach r (apply_rewrite p m) end
        end) ms p = fold_left apply_rewrite ms p).
  { induction ms as [|m r IH]; intros p H; [reflexivity|]. simpl in H. apply andb_true_iff in H as [Hm Hr].
    cbn [fold_left]. unfold passes in Hm. destruct (mw_kind_of m) eqn:Ek; try discriminate; apply IH; exact Hr. }
  assert (Hreachh : forall ms h, forallb passes ms = true ->
     (fix reachh (ms : list mw) (h : Spec2.str) : Spec2.str :=
        match ms with
        | [] => h
        | m :: r => match mw_kind_of m with MFail _ => h | _ => reachh r (apply_host h m) end
        end) ms h = fold_left apply_host ms h).
  { induction ms as [|m r IH]; intros h H; [reflexivity|]. simpl in H. apply andb_true_iff in H as [Hm Hr].
    cbn [fold_left]. unfold passes in Hm. destruct (mw_kind_of m) eqn:Ek; try discriminate; apply IH; exact Hr. }
  rewrite (Hreach (s_pre s) path Hp), (Hreachh (s_pre s) host Hp). reflexivity.
Qed.

(* ---------------- registration: snapshots *)
Lemma group_use_routes s g x ms : exists extra, s_routes (group_use s g x ms) = s_routes s ++ extra.
Proof. unfold group_use. destruct (g_mw x ++ ms) eqn:E; [exists []; simpl; rewrite app_nil_r; reflexivity|].
  eexists. unfold add_route. cbn [s_routes]. rewrite <- app_assoc. reflexivity. Qed.

(* except for Echo.Host (which installs a fresh router), an operation only ADDS routes: the chain
   of an already registered route never changes - middleware added to a group later does not apply *)
Theorem registered_routes_are_kept s o : (forall g h ms, o <> ONewHost g h ms) ->
  exists extra, s_routes (step s o) = s_routes s ++ extra.
Proof.
  intro Hn. destruct o as [m|m|g parent prefix ms|g host ms|g ms|owner method path h err ms]; cbn [step].
  - exists []. simpl. rewrite app_nil_r. reflexivity.
  - exists []. simpl. rewrite app_nil_r. reflexivity.
  - destruct parent as [p|]; [destruct (find_group (s_groups s) p)|]; apply group_use_routes.
  - exfalso. eapply Hn. reflexivity.
  - destruct (find_group (s_groups s) g); [apply group_use_routes|exists []; rewrite app_nil_r; reflexivity].
  - destruct owner as [g|]; [destruct (find_group (s_groups s) g)|]; unfold add_route; cbn [s_routes]; eauto.
    exists []. rewrite app_nil_r. reflexivity.
Qed.

(* the chain of a route added through group g: g's middleware at that instant, then the route level *)
Theorem add_chain s g x method path h err ms : find_group (s_groups s) g = Some x ->
  s_routes (step s (OAdd (Some g) method path h err ms)) =
  s_routes s ++ [{| rr_host := g_host x; rr_method := method; rr_path := g_prefix x ++ path;
                    rr_target := {| t_handler := h; t_err := err; t_chain := g_mw x ++ ms |} |}].
Proof. intro H. cbn [step]. rewrite H. reflexivity. Qed.

Lemma find_set_group gs g x : find_group (set_group gs g x) g = Some x.
Proof. induction gs as [|[k y] r IH]; simpl; [rewrite Nat.eqb_refl; reflexivity|].
  destruct (Nat.eqb k g) eqn:E; simpl; rewrite E; [reflexivity|exact IH]. Qed.

Lemma group_use_group s g x ms :
  find_group (s_groups (group_use s g x ms)) g = Some {| g_host := g_host x; g_prefix := g_prefix x; g_mw := g_mw x ++ ms |}.
Proof. unfold group_use. cbn [g_mw g_host g_prefix]. destruct (g_mw x ++ ms) eqn:E; unfold add_route; cbn [s_groups]; rewrite find_set_group; reflexivity. Qed.

(* a sub-group starts with its parent's middleware (outermost first, as of this instant) followed by its own *)
Theorem subgroup_middleware s g p x prefix ms : find_group (s_groups s) p = Some x ->
  find_group (s_groups (step s (ONewGroup g (Some p) prefix ms))) g =
  Some {| g_host := g_host x; g_prefix := g_prefix x ++ prefix; g_mw := g_mw x ++ ms |}.
Proof. intro H. cbn [step]. rewrite H. rewrite group_use_group. reflexivity. Qed.

(* a group with middleware owns the two catch-all not-found routes carrying that middleware *)
Theorem group_catch_all s g x ms : g_mw x ++ ms <> [] ->
  let t := {| t_handler := nf_handler; t_err := 404; t_chain := g_mw x ++ ms |} in
  s_routes (group_use s g x ms) = s_routes s ++
    [{| rr_host := g_host x; rr_method := NF; rr_path := g_prefix x; rr_target := t |};
     {| rr_host := g_host x; rr_method := NF; rr_path := g_prefix x ++ ["/"; "*"]%char; rr_target := t |}].
Proof. intro Hne. unfold group_use. destruct (g_mw x ++ ms) eqn:E; [congruence|].
  unfold add_route. cbn [s_routes g_host g_prefix g_mw]. rewrite <- app_assoc. reflexivity. Qed.
