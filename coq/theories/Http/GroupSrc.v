(* The statement-level translation of Group.Use / Group.Group / Group.Add / Group.RouteNotFound (Gen/Src_group.v, regenerated
   from group.go on every run, language Base/GoLoop.v) registers what the model of Http/Onion.v says ([step] on OGroupUse,
   ONewGroup, OAdd): a route's chain is the group's middleware at that instant followed by the route-level middleware, under
   the group's host and prefix + path; Use appends and registers the two catch-all not-found routes exactly when the group then
   has middleware; a sub-group inherits host, prefix + its own prefix, and the parent's middleware followed by its own.
   Slices are values here: sharing of backing arrays is not visible at this level (the correspondence covers it).  (C04) *)
From Coq Require Import List ZArith Bool String Ascii.
From Echo Require Import Base.Sx Base.GoLoop Gen.Src_group.
Import ListNotations.
Open Scope Z_scope.

Definition gpred (f : string) (args : list val) : val :=
  if String.eqb f "append..." then match args with [VL a; VL b] => VL (a ++ b) | _ => VZ 0 end
  else if String.eqb f "make" then VL []
  else if String.eqb f "len" then match args with [VL l] => VZ (Z.of_nat (List.length l)) | _ => VZ 0 end
  else if String.eqb f "concat" then match args with [VS a; VS b] => VS (a ++ b) | _ => VZ 0 end
  else VZ 0.
Definition gsym (s : string) : val :=
  if String.eqb s "NotFoundHandler" then VZ 1000
  else if String.eqb s "RouteNotFound" then VZ 77
  else VZ 0.

Lemma truthy_0 : truthy (VZ 0) = false.  Proof. reflexivity. Qed.
Lemma truthy_1 : truthy (VZ 1) = true.  Proof. reflexivity. Qed.
Ltac grp_eval :=
  repeat (rewrite ?truthy_b2v, ?truthy_0, ?truthy_1;
          cbn [exec exec_s eval get put getl assign set_local locals fields lists events inputs String.eqb Ascii.eqb Bool.eqb
               map tl app negb andb orb fst snd as_z as_l val_eqb gsym gpred lit list_ascii_of_string str_eqb Z.eqb Pos.eqb List.length Z.of_nat];
          try unfold set_local).

Section Src.
Variables (host echo : val) (pre : str) (gm ms : list val).

Definition gstate (ls : env) : state :=
  {| locals := ls; fields := [("g.host"%string, host); ("g.prefix"%string, VS pre); ("g.echo"%string, echo); ("g.middleware"%string, VL gm)];
     lists := []; events := []; inputs := [] |}.

(* Group.Add *)
Theorem src_group_add_spec method handler p :
  let st := gstate [("method"%string, method); ("path"%string, VS p); ("handler"%string, handler); ("middleware"%string, VL ms); ("m"%string, VZ 0)] in
  let '(st', _) := run gsym gpred src_group_add_results src_group_add st in
  events st' = [("g.echo.add"%string, [host; method; VS (pre ++ p); handler; VL (gm ++ ms)])] /\
  get (fields st') "g.middleware" = VL gm.
Proof. vm_compute. split; reflexivity. Qed.

(* Group.Use *)
Theorem src_group_use_spec :
  let st := gstate [("middleware"%string, VL ms)] in
  let '(st', _) := run gsym gpred src_group_use_results src_group_use st in
  get (fields st') "g.middleware" = VL (gm ++ ms) /\
  events st' = match (gm ++ ms)%list with
               | [] => []
               | _ => [("g.RouteNotFound"%string, [VS []; VZ 1000]); ("g.RouteNotFound"%string, [VS (lit "/*"); VZ 1000])]
               end.
Proof.
  unfold run, src_group_use, src_group_use_results, gstate. grp_eval.
  destruct (gm ++ ms)%list as [|x r]; grp_eval; split; reflexivity.
Qed.

(* Group.Group *)
Theorem src_group_group_spec p :
  let st := gstate [("prefix"%string, VS p); ("middleware"%string, VL ms); ("m"%string, VZ 0)] in
  let '(st', _) := run gsym gpred src_group_group_results src_group_group st in
  get (fields st') "sg.host" = host /\ get (fields st') "sg.prefix" = VS (pre ++ p) /\ get (fields st') "sg.echo" = echo /\
  events st' = [("sg.Use"%string, [VL (gm ++ ms)])] /\ get (fields st') "g.middleware" = VL gm.
Proof. vm_compute. repeat split; reflexivity. Qed.

(* Group.RouteNotFound: a route of the group like any other *)
Theorem src_group_routenotfound_spec path h m :
  let st := gstate [("path"%string, path); ("h"%string, h); ("m"%string, m)] in
  let '(st', _) := run gsym gpred src_group_routenotfound_results src_group_routenotfound st in
  events st' = [("g.Add"%string, [VZ 77; path; h; m])].
Proof. vm_compute. reflexivity. Qed.
End Src.
