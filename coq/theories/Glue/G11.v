From Coq Require Import List ZArith Bool.
From Echo Require Import Base.Sx Mw.Cors.
Import ListNotations.
(* input: ((origin-pattern ...) creds unsafe preflight origin)
   output: (acao-present acao acac forced ran) *)
Definition run_sx (x : sx) : sx :=
  let os := map as_str (as_list (nth_sx 0 x)) in
  let os := match os with [] => [[star]] | _ => os end in      (* DefaultCORSConfig.AllowOrigins *)
  let c := {| origins := os; creds := as_bool (nth_sx 1 x); unsafe_wild := as_bool (nth_sx 2 x) |} in
  let r := cors c (as_bool (nth_sx 3 x)) (as_str (nth_sx 4 x)) in
  SL [of_bool (match acao r with Some _ => true | None => false end);
      SS (match acao r with Some v => v | None => [] end); of_bool (acac r); SZ (forced r); of_bool (ran r)].
