(* Model of echo's middleware composition (echo.go ServeHTTP / applyMiddleware / add, group.go):
   Pre and Use lists, groups and host groups with middleware snapshots, the catch-all not-found routes
   a group registers, and the event trace of one request.  Route selection reuses the router model
   (Router/Tail.v route_request).  (C04) *)
From Coq Require Import List Arith Bool Ascii String.
From Echo Require Import Base.Sx.
From Echo.Router Require Import Spec2 Fuel Refine Insert InsProof Walk Live Toks Build Sound Reverse Top Tail.
From Echo Require Import Glue.GRouter.
Import ListNotations.

(* a middleware: passes through, rewrites the path (Pre), or fails without calling next *)
Inductive mw_kind := MPass | MRewrite (newpath : Spec2.str) | MFail (code : nat) | MHost (newhost : Spec2.str).   (* MHost: a Pre middleware that rewrites the request's Host *)
Record mw := { mw_id : nat; mw_kind_of : mw_kind }.

Inductive ev := Enter (i : nat) | Exit (i : nat) (err : nat) | Handler (h : nat) (err : nat).

(* what a route runs: the handler id (with the error it returns) wrapped by its middleware snapshot *)
Record target := { t_handler : nat; t_err : nat; t_chain : list mw }.

(* applyMiddleware: run [ms] around a core that yields (trace, error) *)
Fixpoint run_mws (ms : list mw) (core : list ev * nat) : list ev * nat :=
  match ms with
  | [] => core
  | m :: r =>
      match mw_kind_of m with
      | MFail c => ([Enter (mw_id m); Exit (mw_id m) c], c)
      | _ => let '(tr, e) := run_mws r core in (Enter (mw_id m) :: tr ++ [Exit (mw_id m) e], e)
      end
  end.

(* ---------------- registration state *)
Record group := { g_host : Spec2.str; g_prefix : Spec2.str; g_mw : list mw }.
Record reg_route := { rr_host : Spec2.str; rr_method : Spec2.str; rr_path : Spec2.str; rr_target : target }.
Record state := { s_pre : list mw; s_use : list mw; s_groups : list (nat * group); s_routes : list reg_route }.
Definition state0 : state := {| s_pre := []; s_use := []; s_groups := []; s_routes := [] |}.

Definition nf_handler : nat := 1000.      (* echo.NotFoundHandler registered by Group.Use: returns 404 *)

Fixpoint find_group (gs : list (nat * group)) (g : nat) : option group :=
  match gs with [] => None | (k, x) :: r => if Nat.eqb k g then Some x else find_group r g end.
Fixpoint set_group (gs : list (nat * group)) (g : nat) (x : group) : list (nat * group) :=
  match gs with
  | [] => [(g, x)]
  | (k, y) :: r => if Nat.eqb k g then (k, x) :: r else (k, y) :: set_group r g x
  end.

(* Group.Add: snapshot of the group's middleware, then the route-level middleware *)
Definition add_route (s : state) (host method path : Spec2.str) (t : target) : state :=
  {| s_pre := s_pre s; s_use := s_use s; s_groups := s_groups s;
     s_routes := s_routes s ++ [{| rr_host := host; rr_method := method; rr_path := path; rr_target := t |}] |}.

(* Group.Use: append, and (if the group now has middleware) register the two catch-all 404 routes *)
Definition group_use (s : state) (g : nat) (x : group) (ms : list mw) : state :=
  let x' := {| g_host := g_host x; g_prefix := g_prefix x; g_mw := g_mw x ++ ms |} in
  let s1 := {| s_pre := s_pre s; s_use := s_use s; s_groups := set_group (s_groups s) g x'; s_routes := s_routes s |} in
  match g_mw x' with
  | [] => s1
  | _ => let t := {| t_handler := nf_handler; t_err := 404; t_chain := g_mw x' |} in
         add_route (add_route s1 (g_host x') NF (g_prefix x') t) (g_host x') NF (g_prefix x' ++ ["/"; "*"]%char) t
  end.

Inductive op :=
| OPre (m : mw) | OUse (m : mw)
| ONewGroup (g : nat) (parent : option nat) (prefix : Spec2.str) (ms : list mw)   (* Echo.Group / Group.Group *)
| ONewHost (g : nat) (host : Spec2.str) (ms : list mw)                            (* Echo.Host *)
| OGroupUse (g : nat) (ms : list mw)
| OAdd (owner : option nat) (method path : Spec2.str) (h err : nat) (ms : list mw).

Definition step (s : state) (o : op) : state :=
  match o with
  | OPre m => {| s_pre := s_pre s ++ [m]; s_use := s_use s; s_groups := s_groups s; s_routes := s_routes s |}
  | OUse m => {| s_pre := s_pre s; s_use := s_use s ++ [m]; s_groups := s_groups s; s_routes := s_routes s |}
  | ONewGroup g parent prefix ms =>
      let '(host, pfx, inherited) :=
        match parent with
        | None => ([], prefix, [])
        | Some p => match find_group (s_groups s) p with
                    | Some x => (g_host x, g_prefix x ++ prefix, g_mw x)
                    | None => ([], prefix, [])
                    end
        end in
      group_use s g {| g_host := host; g_prefix := pfx; g_mw := [] |} (inherited ++ ms)
  | ONewHost g host ms =>
      (* Echo.Host installs a FRESH router for that host *)
      let s1 := {| s_pre := s_pre s; s_use := s_use s; s_groups := s_groups s;
                   s_routes := filter (fun r => negb (Spec2.str_eqb (rr_host r) host)) (s_routes s) |} in
      group_use s1 g {| g_host := host; g_prefix := []; g_mw := [] |} ms
  | OGroupUse g ms =>
      match find_group (s_groups s) g with Some x => group_use s g x ms | None => s end
  | OAdd owner method path h err ms =>
      match owner with
      | None => add_route s [] method path {| t_handler := h; t_err := err; t_chain := ms |}
      | Some g => match find_group (s_groups s) g with
                  | Some x => add_route s (g_host x) method (g_prefix x ++ path)
                                {| t_handler := h; t_err := err; t_chain := g_mw x ++ ms |}
                  | None => s
                  end
      end
  end.

Definition interp (ops : list op) : state := fold_left step ops state0.

(* ---------------- one request *)
Definition apply_rewrite (p : Spec2.str) (m : mw) : Spec2.str :=
  match mw_kind_of m with MRewrite q => q | _ => p end.
Definition apply_host (h : Spec2.str) (m : mw) : Spec2.str :=
  match mw_kind_of m with MHost q => q | _ => h end.

(* the router of the request's host: exact Host match, else the default router *)
Definition host_known (s : state) (h : Spec2.str) : bool :=
  negb (Spec2.str_eqb h []) && existsb (fun r => Spec2.str_eqb (rr_host r) h) (s_routes s).
Definition table_of (s : state) (host : Spec2.str) : list reg_route :=
  let h := if host_known s host then host else [] in
  filter (fun r => Spec2.str_eqb (rr_host r) h) (s_routes s).

Definition global_404 : nat := 1001.
Definition global_405 : nat := 1002.
Definition global_options : nat := 1003.

(* the handler chain Router.Find installs for this request *)
Definition select (s : state) (host method path : Spec2.str) : target :=
  let tbl := table_of s host in
  let rs := map (fun '(i, r) => mk_rt i (rr_method r) (rr_path r)) (combine (seq 0 (List.length tbl)) tbl) in
  match route_request rs method path with
  | Served r _ => match nth_error tbl (r_id r) with
                  | Some rr => rr_target rr
                  | None => {| t_handler := global_404; t_err := 404; t_chain := [] |}
                  end
  | NotFound => {| t_handler := global_404; t_err := 404; t_chain := [] |}
  | NotAllowed _ => if Spec2.str_eqb method options_m
                    then {| t_handler := global_options; t_err := 0; t_chain := [] |}
                    else {| t_handler := global_405; t_err := 405; t_chain := [] |}
  end.

(* ServeHTTP: Pre middleware (may rewrite, may fail) -> routing -> Use -> route chain -> handler *)
Definition request (s : state) (host method path : Spec2.str) : list ev * nat :=
  (* the path the router will see: all rewrites of the Pre middlewares that are reached *)
  let fix reach (ms : list mw) (p : Spec2.str) : Spec2.str :=
    match ms with
    | [] => p
    | m :: r => match mw_kind_of m with MFail _ => p | _ => reach r (apply_rewrite p m) end
    end in
  let fix reachh (ms : list mw) (h : Spec2.str) : Spec2.str :=
    match ms with
    | [] => h
    | m :: r => match mw_kind_of m with MFail _ => h | _ => reachh r (apply_host h m) end
    end in
  let p' := reach (s_pre s) path in
  (* the router of the Host value the Pre middlewares leave behind *)
  let t := select s (reachh (s_pre s) host) method p' in
  run_mws (s_pre s) (run_mws (s_use s) (run_mws (t_chain t) ([Handler (t_handler t) (t_err t)], t_err t))).
