(* Generic model runner: reads one sx term per line on stdin, applies the extracted
   [Model.run : sx -> sx], prints the result sx per line.  Trusted glue: the text
   parser/printer below and the conversions between OCaml strings/ints and the
   extracted Coq datatypes (ascii, positive, Z), which are kept as Coq inductives. *)
open Model

let bit n i = (n lsr i) land 1 = 1
let asc n = Ascii (bit n 0, bit n 1, bit n 2, bit n 3, bit n 4, bit n 5, bit n 6, bit n 7)
let code (Ascii (a,b,c,d,e,f,g,h)) =
  let v x i = if x then 1 lsl i else 0 in
  v a 0 + v b 1 + v c 2 + v d 3 + v e 4 + v f 5 + v g 6 + v h 7

(* positive <-> bit list (lsb first), so that arbitrarily large numbers pass in hex *)
let rec pos_of_bits = function
  | [] -> XH | [true] -> XH
  | b :: t -> if List.for_all (fun x -> not x) t then XH
              else if b then XI (pos_of_bits t) else XO (pos_of_bits t)
let rec bits_of_pos = function XH -> [true] | XO p -> false :: bits_of_pos p | XI p -> true :: bits_of_pos p

let z_of_bits neg bits =
  if List.for_all (fun x -> not x) bits then Z0
  else if neg then Zneg (pos_of_bits bits) else Zpos (pos_of_bits bits)

let bits_of_int n = let rec go n = if n = 0 then [] else (n land 1 = 1) :: go (n lsr 1) in go n
let hexdig c = match c with
  | '0'..'9' -> Char.code c - 48 | 'a'..'f' -> Char.code c - 87 | 'A'..'F' -> Char.code c - 55
  | _ -> failwith "hex"
let bits_of_hex s =   (* s: hex digits, msb first; result lsb first *)
  let l = ref [] in
  for i = 0 to String.length s - 1 do
    let v = hexdig s.[i] in
    l := (v land 1 = 1) :: (v land 2 = 2) :: (v land 4 = 4) :: (v land 8 = 8) :: !l
  done; !l

let parse_num tok =
  let neg = String.length tok > 0 && tok.[0] = '-' in
  let body = if neg then String.sub tok 1 (String.length tok - 1) else tok in
  if String.length body > 2 && body.[0] = '0' && body.[1] = 'x' then
    z_of_bits neg (bits_of_hex (String.sub body 2 (String.length body - 2)))
  else z_of_bits neg (bits_of_int (int_of_string body))

let int_of_bits bits = List.fold_right (fun b acc -> (acc lsl 1) lor (if b then 1 else 0)) bits 0
let hex_of_bits bits =
  let rec nibs = function
    | [] -> []
    | a :: b :: c :: d :: t -> int_of_bits [a;b;c;d] :: nibs t
    | l -> [int_of_bits l] in
  let ns = List.rev (nibs bits) in
  String.concat "" (List.map (Printf.sprintf "%x") ns)
let print_pos buf p =
  let bits = bits_of_pos p in
  if List.length bits <= 61 then Buffer.add_string buf (string_of_int (int_of_bits bits))
  else (Buffer.add_string buf "0x"; Buffer.add_string buf (hex_of_bits bits))

let rec print buf = function
  | SZ Z0 -> Buffer.add_char buf '0'
  | SZ (Zpos p) -> print_pos buf p
  | SZ (Zneg p) -> Buffer.add_char buf '-'; print_pos buf p
  | SS s -> Buffer.add_char buf '#';
            List.iter (fun c -> Buffer.add_string buf (Printf.sprintf "%02x" (code c))) s
  | SL l -> Buffer.add_char buf '(';
            List.iteri (fun i x -> if i > 0 then Buffer.add_char buf ' '; print buf x) l;
            Buffer.add_char buf ')'

let parse (s : Stdlib.String.t) : sx =
  let n = String.length s in
  let pos = ref 0 in
  let rec skip () = if !pos < n && (s.[!pos] = ' ' || s.[!pos] = '\t') then (incr pos; skip ()) in
  let rec term () =
    skip ();
    if !pos >= n then failwith "eof";
    match s.[!pos] with
    | '(' -> incr pos;
        let items = ref [] in
        let rec loop () = skip ();
          if !pos >= n then failwith "unclosed"
          else if s.[!pos] = ')' then incr pos
          else (items := term () :: !items; loop ()) in
        loop (); SL (List.rev !items)
    | '#' -> incr pos;
        let st = !pos in
        while !pos < n && (match s.[!pos] with '0'..'9' | 'a'..'f' | 'A'..'F' -> true | _ -> false) do incr pos done;
        let h = String.sub s st (!pos - st) in
        let rec go i = if i + 1 >= String.length h then []
                       else asc (hexdig h.[i] * 16 + hexdig h.[i+1]) :: go (i + 2) in
        SS (go 0)
    | _ -> let st = !pos in
        while !pos < n && s.[!pos] <> ' ' && s.[!pos] <> ')' && s.[!pos] <> '(' do incr pos done;
        SZ (parse_num (String.sub s st (!pos - st)))
  in term ()

let () =
  let buf = Buffer.create 65536 in
  try
    while true do
      let line = input_line stdin in
      if String.length line > 0 then begin
        Buffer.clear buf;
        (try print buf (run_sx (parse line)) with e -> Buffer.add_string buf ("!ERR " ^ Printexc.to_string e));
        print_endline (Buffer.contents buf)
      end else print_endline ""
    done
  with End_of_file -> ()
