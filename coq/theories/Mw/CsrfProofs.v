From Coq Require Import List Bool Ascii String Arith NArith Lia.
From Echo Require Import Base.Sx Mw.Auth Mw.AuthProofs Gen.Src_csrf Mw.Csrf.
Import ListNotations.

(* the generated safe-method list is exactly GET, HEAD, OPTIONS, TRACE (re-proved each run) *)
Lemma safe_list : csrf_safe_methods = ["GET"; "HEAD"; "OPTIONS"; "TRACE"]%string.
Proof. reflexivity. Qed.

Lemma is_safe_spec m : is_safe m = true <->
  m = lit "GET" \/ m = lit "HEAD" \/ m = lit "OPTIONS" \/ m = lit "TRACE".
Proof.
  unfold is_safe, safe_methods. rewrite safe_list. cbn [map existsb]. rewrite !orb_true_iff, !str_eqb_eq.
  unfold lit. split; [intros [H|[H|[H|[H|H]]]]; auto; discriminate|intros [H|[H|[H|H]]]; auto].
Qed.

Lemma token_loop_found token : forall ls te ee te' ee', token_loop token ls te ee = (true, te', ee') ->
  exists l toks, In l ls /\ extract l = inl toks /\ In token toks /\ present l token.
Proof.
  induction ls as [|l r IH]; intros te ee te' ee' H; simpl in H; [discriminate|].
  destruct (extract l) as [toks|e] eqn:Ee.
  - destruct (existsb (str_eqb token) toks) eqn:Ex.
    + apply existsb_exists in Ex as [t [Hin Ht]]. apply str_eqb_eq in Ht. subst t.
      exists l, toks. repeat split; auto; [left; reflexivity|eapply extract_present; eassumption].
    + destruct (IH _ _ _ _ H) as [l' [tk [Hl R]]]. exists l', tk. split; [right; exact Hl|exact R].
  - destruct (IH _ _ _ _ H) as [l' [tk [Hl R]]]. exists l', tk. split; [right; exact Hl|exact R].
Qed.

Lemma token_loop_notfound token : forall ls te ee te' ee', ls <> [] -> token_loop token ls te ee = (false, te', ee') ->
  te' = true \/ ee' = true.
Proof.
  induction ls as [|l r IH]; intros te ee te' ee' Hne H; [congruence|]. simpl in H.
  destruct (extract l) as [toks|e].
  - destruct (existsb (str_eqb token) toks); [discriminate|].
    destruct r as [|l2 r2]; [simpl in H; inversion H; auto|]. eapply IH; [discriminate|exact H].
  - destruct r as [|l2 r2]; [simpl in H; inversion H; auto|]. eapply IH; [discriminate|exact H].
Qed.

Definition the_token (cookie : option str) (fresh : str) : str := match cookie with Some v => v | None => fresh end.

(* an unsafe request passes only if a configured location literally holds the token: the cookie's
   value when the cookie is present, otherwise the freshly generated (unguessable) one *)
Theorem unsafe_needs_match method cookie fresh ls t : ls <> [] -> is_safe method = false ->
  csrf method cookie fresh ls = Pass t ->
  t = the_token cookie fresh /\
  exists l toks, In l ls /\ extract l = inl toks /\ In t toks /\ present l t.
Proof.
  intros Hne Hs H. unfold csrf in H. rewrite Hs in H. fold (the_token cookie fresh) in H.
  destruct (token_loop (the_token cookie fresh) ls false false) as [[found te] ee] eqn:El.
  destruct found.
  - inversion H; subst t. split; [reflexivity|]. eapply token_loop_found; eassumption.
  - destruct (token_loop_notfound _ _ _ _ _ _ Hne El) as [->| ->]; [discriminate|].
    destruct te; discriminate.
Qed.

Theorem unsafe_rejected_4xx method cookie fresh ls : ls <> [] -> is_safe method = false ->
  (forall l toks, In l ls -> extract l = inl toks -> ~ In (the_token cookie fresh) toks) ->
  csrf method cookie fresh ls = Reject 403 \/ csrf method cookie fresh ls = Reject 400.
Proof.
  intros Hne Hs Hno. unfold csrf. rewrite Hs. fold (the_token cookie fresh).
  destruct (token_loop (the_token cookie fresh) ls false false) as [[found te] ee] eqn:El.
  destruct found.
  - destruct (token_loop_found _ _ _ _ _ _ El) as [l [toks [Hl [He [Hin _]]]]]. exfalso. eapply Hno; eassumption.
  - destruct (token_loop_notfound _ _ _ _ _ _ Hne El) as [->| ->]; [left; reflexivity|].
    destruct te; [left|right]; reflexivity.
Qed.

Theorem safe_pass method cookie fresh ls : is_safe method = true ->
  csrf method cookie fresh ls = Pass (the_token cookie fresh).
Proof. intro H. unfold csrf. rewrite H. reflexivity. Qed.

Theorem publish method cookie fresh ls t : csrf method cookie fresh ls = Pass t ->
  published (csrf method cookie fresh ls) = Some (t, t) /\ t = the_token cookie fresh.
Proof.
  intro H. rewrite H. split; [reflexivity|]. unfold csrf in H. fold (the_token cookie fresh) in H.
  destruct (is_safe method); [inversion H; reflexivity|].
  destruct (token_loop _ ls false false) as [[found te] ee].
  destruct found; [inversion H; reflexivity|]. destruct te; [discriminate|]. destruct ee; [discriminate|inversion H; reflexivity].
Qed.

(* ---------- randomString *)
Definition is_letter (c : ascii) : bool :=
  let n := N_of_ascii c in (((65 <=? n) && (n <=? 90)) || ((97 <=? n) && (n <=? 122)))%N.

Definition all_bytes : list N := map N.of_nat (seq 0 256).
Lemma byte_in b : (b < 256)%N -> In b all_bytes.
Proof. intro H. unfold all_bytes. apply in_map_iff. exists (N.to_nat b). split; [lia|]. apply in_seq. lia. Qed.

Lemma letters_sweep : forallb (fun b => is_letter (letter b)) all_bytes = true.
Proof. vm_compute. reflexivity. Qed.

Lemma letter_is_letter b : (b < 256)%N -> is_letter (letter b) = true.
Proof. intro H. pose proof letters_sweep as S. rewrite forallb_forall in S. apply S. apply byte_in. exact H. Qed.

Theorem token_shape n stream : Forall (fun b => (b < 256)%N) stream ->
  List.length (random_string n stream) <= n /\
  (n <= List.length (filter accept stream) -> List.length (random_string n stream) = n) /\
  forallb is_letter (random_string n stream) = true.
Proof.
  intro Hb. unfold random_string. split; [rewrite firstn_length; lia|]. split.
  - intro Hn. rewrite firstn_length, map_length. lia.
  - apply forallb_forall. intros c Hc. apply firstn_incl in Hc. apply in_map_iff in Hc as [b [<- Hin]].
    apply filter_In in Hin as [Hin _]. rewrite Forall_forall in Hb. apply letter_is_letter. apply Hb. exact Hin.
Qed.

(* unbiased: every letter of the charset is produced by exactly 4 of the accepted byte values *)
Definition count_for (c : ascii) : nat :=
  List.length (filter (fun b => accept b && Ascii.eqb (letter b) c) all_bytes).
Theorem unbiased : forallb (fun c => Nat.eqb (count_for c) 4) charset = true /\ List.length charset = 52 /\ NoDup charset.
Proof. split; [vm_compute; reflexivity|]. split; [reflexivity|].
  unfold charset. vm_compute. repeat (constructor; [simpl; intuition discriminate|]). constructor. Qed.
