package main

import (
	"bytes"
	"context"
	"fmt"
	"io"
	"math/rand"
	"net/http"
	"net/http/httptest"
	"net/url"
	"strings"
	"sync"
	"time"

	"github.com/labstack/echo/v4"
	"github.com/labstack/echo/v4/middleware"
)

func init() {
	props["C19"] = &propRunner{gen: genC19, rule: "balancer histories of 10-40 operations (AddTarget / RemoveTarget / proxied request) over real upstream servers, some of them dead (reserved ports that refuse connections), with RetryCount 0-3; requests vary method, encoded path, query, body, headers; the sequence of targets Next returned per request is recorded through a wrapping balancer; non-trivial = history in which some request needed a retry and a target was removed or added between requests; distinct by (retry count, operations)"}
}

type c19Hit struct {
	name, method, uri, body, hdr string
}

type c19RecBalancer struct {
	middleware.ProxyBalancer
	log *[]string
}

// c19Ctx is a request context whose deadline "passes" when the harness says so: 15 ms after the balancer has picked the
// hung upstream.  Requests that never meet that target are not under any time limit, so the run does not depend on
// how fast the machine is.
type c19Ctx struct {
	context.Context
	done chan struct{}
	once *sync.Once
}

func (c c19Ctx) Done() <-chan struct{} { return c.done }
func (c c19Ctx) Err() error {
	select {
	case <-c.done:
		return context.DeadlineExceeded
	default:
		return nil
	}
}
func (c c19Ctx) expire() { c.once.Do(func() { close(c.done) }) }

func (r c19RecBalancer) Next(c echo.Context) *middleware.ProxyTarget {
	t := r.ProxyBalancer.Next(c)
	if t != nil && t.Name == "h0" {
		if hc, isHung := c.Request().Context().(c19Ctx); isHung {
			time.AfterFunc(15*time.Millisecond, hc.expire)
		}
	}
	if t != nil {
		*r.log = append(*r.log, t.Name)
	} else {
		*r.log = append(*r.log, "<nil>")
	}
	return t
}

func genC19(rng *rand.Rand, n int, emit func(Case), dist map[string]int) {
	var mu sync.Mutex
	var hits []c19Hit
	mkAlive := func(name string) *httptest.Server {
		return httptest.NewServer(http.HandlerFunc(func(w http.ResponseWriter, r *http.Request) {
			b, _ := io.ReadAll(r.Body)
			mu.Lock()
			hits = append(hits, c19Hit{name, r.Method, r.RequestURI, string(b), r.Header.Get("X-Custom") + "|" + strings.Join(r.Header.Values("X-Forwarded-Proto"), ",") + "|" + strings.SplitN(r.Header.Get("X-Forwarded-For"), ",", 2)[0]})
			mu.Unlock()
			w.Header().Set("X-Upstream", name)
			w.Header().Set("X-Up-Header", "v-"+name)
			code := 200
			if r.URL.Query().Get("code") == "404" {
				code = 404
			}
			w.WriteHeader(code)
			io.WriteString(w, "body-from-"+name)
		}))
	}
	servers := map[string]*httptest.Server{}
	urls := map[string]*url.URL{}
	// h0 accepts the connection and never answers (until the client gives up): used only with RetryCount = 0
	hung := httptest.NewServer(http.HandlerFunc(func(w http.ResponseWriter, r *http.Request) {
		select {
		case <-r.Context().Done():
		case <-time.After(2 * time.Second):
		}
	}))
	defer hung.Close()
	hu, _ := url.Parse(hung.URL)
	urls["h0"] = hu
	isDown := func(nm string) bool { return nm[0] == 'd' || nm[0] == 'h' || nm[0] == 'e' }
	// b0 / e0: targets with names of their own whose URL EQUALS that of a0 / d0 (one upstream given a double share, or a
	// replacement entry registered before the old one is removed): membership goes by name, so they are targets like any other
	srvName := func(nm string) string {
		switch nm[0] {
		case 'b':
			return "a" + nm[1:]
		case 'e':
			return "d" + nm[1:]
		}
		return nm
	}
	names := []string{"a0", "a1", "a2", "a3", "d0", "d1", "d2"}
	for _, nm := range names {
		if nm[0] == 'd' {
			u, _ := url.Parse("http://" + reservedDeadAddr()) // dead: connection refused, and nobody else can take the port
			urls[nm] = u
			continue
		}
		s := mkAlive(nm)
		u, _ := url.Parse(s.URL)
		urls[nm] = u
		servers[nm] = s
	}
	for _, al := range []string{"b0", "e0"} {
		cp := *urls[srvName(al)]
		urls[al] = &cp
		names = append(names, al)
	}
	defer func() {
		for _, s := range servers {
			s.Close()
		}
	}()
	paths := []string{"/", "/a/b", "/a%2Fb", "/x%20y", "/files/report.pdf", "/api/v1/users/42", "/%E2%9C%93"}
	queries := []string{"", "q=1", "a=b&c=d%20e", "code=404", "x=%2F", "tags=a;b&sort=asc", "k=%zz&ok=1"}
	methods := []string{"GET", "POST", "PUT", "DELETE", "PATCH"}
	for it := 0; it < n; it++ {
		if it%10 == 9 {
			// ---- the random balancer: same target bookkeeping, Next picks any CURRENT target
			var cur []string
			var tg []*middleware.ProxyTarget
			for _, k := range rng.Perm(len(names))[:1+rng.Intn(3)] {
				cur = append(cur, names[k])
				tg = append(tg, &middleware.ProxyTarget{Name: names[k], URL: urls[names[k]]})
			}
			init := append([]string(nil), cur...)
			rb := middleware.NewRandomBalancer(tg)
			ec := echo.New()
			var ops, outs []Sx
			ok, why := true, ""
			for k := 20 + rng.Intn(40); k > 0; k-- {
				nm := names[rng.Intn(len(names))]
				has := false
				for _, c := range cur {
					has = has || c == nm
				}
				switch rng.Intn(4) {
				case 0:
					res := rb.AddTarget(&middleware.ProxyTarget{Name: nm, URL: urls[nm]})
					if res == has {
						ok, why = false, fmt.Sprintf("random balancer: AddTarget(%s) returned %v with targets %v", nm, res, cur)
					}
					if !has {
						cur = append(cur, nm)
					}
					ops, outs = append(ops, L(I(0), S(nm))), append(outs, L(B(res)))
				case 1:
					res := rb.RemoveTarget(nm)
					if res != has {
						ok, why = false, fmt.Sprintf("random balancer: RemoveTarget(%s) returned %v with targets %v", nm, res, cur)
					}
					for i, c := range cur {
						if c == nm {
							cur = append(cur[:i:i], cur[i+1:]...)
							break
						}
					}
					ops, outs = append(ops, L(I(1), S(nm))), append(outs, L(B(res)))
				default:
					t := rb.Next(ec.NewContext(httptest.NewRequest("GET", "/", nil), httptest.NewRecorder()))
					member := false
					for _, c := range cur {
						member = member || (t != nil && c == t.Name)
					}
					if (t == nil) != (len(cur) == 0) || t != nil && !member {
						ok, why = false, fmt.Sprintf("random balancer: Next returned %v with current targets %v", t, cur)
					}
				}
			}
			in := L(I(0), LS(init), L(ops...))
			emit(Case{In: in, Out: L(outs...), Ok: ok, Why: why, Key: Show(in), Human: fmt.Sprintf("random balancer over %v: %d add/remove operations, Next checked for membership", init, len(ops))})
			dist["random_balancer_histories"]++
			continue
		}
		R := rng.Intn(4)
		var init []string
		perm := rng.Perm(len(names))
		for _, k := range perm[:1+rng.Intn(4)] {
			init = append(init, names[k])
		}
		withHung := R == 0 && rng.Intn(6) == 0
		if withHung {
			init = append(init, "h0")
			dist["histories_with_a_hung_upstream"]++
		}
		var tgts []*middleware.ProxyTarget
		for _, nm := range init {
			tgts = append(tgts, &middleware.ProxyTarget{Name: nm, URL: urls[nm]})
		}
		rrb := middleware.NewRoundRobinBalancer(tgts)
		var nextLog []string
		e := echo.New()
		e.Logger.SetOutput(io.Discard)
		pcfg := middleware.ProxyConfig{Balancer: c19RecBalancer{rrb, &nextLog}, RetryCount: R}
		rewriting := rng.Intn(2) == 0
		if rewriting {
			pcfg.Rewrite = map[string]string{"/api/*": "/$1", "/files/*": "/static/$1", "/pair/*/of/*": "/p/$2/$1", "/img/*/thumb": "/thumbs/$1_small.png"} // (last: a capture followed by identifier characters)
		}
		e.Use(middleware.ProxyWithConfig(pcfg))
		cur := append([]string(nil), init...)
		nops := 10 + rng.Intn(31)
		var ops, outs []Sx
		ok, why := true, ""
		retried, changed := false, false
		human := fmt.Sprintf("RetryCount=%d targets=%v;", R, init)
		firstCount := map[string]int{}
		stable := true // list unchanged so far and all alive: fairness check applies
		for _, nm := range init {
			if isDown(nm) {
				stable = false
			}
		}
		for k := 0; k < nops; k++ {
			switch r := rng.Intn(20); {
			case r < 3:
				nm := names[rng.Intn(len(names))]
				res := rrb.AddTarget(&middleware.ProxyTarget{Name: nm, URL: urls[nm]})
				has := false
				for _, c := range cur {
					has = has || c == nm
				}
				if res == has {
					ok, why = false, fmt.Sprintf("AddTarget(%s) returned %v with targets %v", nm, res, cur)
				}
				if !has {
					cur = append(cur, nm)
				}
				ops = append(ops, L(I(0), S(nm)))
				outs = append(outs, L(B(res)))
				human += fmt.Sprintf(" Add(%s)", nm)
				changed, stable = true, false
			case r < 6:
				nm := names[rng.Intn(len(names))]
				if len(cur) == 1 && cur[0] == nm {
					continue // keep at least one target: Next on an empty balancer is outside the property
				}
				res := rrb.RemoveTarget(nm)
				idx := -1
				for i, c := range cur {
					if c == nm {
						idx = i
					}
				}
				if res != (idx >= 0) {
					ok, why = false, fmt.Sprintf("RemoveTarget(%s) returned %v with targets %v", nm, res, cur)
				}
				if idx >= 0 {
					cur = append(cur[:idx:idx], cur[idx+1:]...)
				}
				ops = append(ops, L(I(1), S(nm)))
				outs = append(outs, L(B(res)))
				human += fmt.Sprintf(" Remove(%s)", nm)
				changed, stable = true, false
			default:
				method := methods[rng.Intn(len(methods))]
				p := paths[rng.Intn(len(paths))]
				q := queries[rng.Intn(len(queries))]
				if rewriting && rng.Intn(2) == 0 {
					p = []string{"/api/", "/api/a%2Fb", "/api/v1", "/files/", "/files/x/y.txt", "/pair/left/of/right", "/pair/l/of/", "/api", "/v1/api/users", "/x/files/y.txt", "/img/42/thumb", "/img/a/thumb/b/thumb"}[rng.Intn(12)]
				}
				target := p
				if q != "" {
					target += "?" + q
				}
				// the documented rewrite: `*` captures (possibly nothing) up to the end of the request URI
				upstreamURI := target
				if rewriting {
					// (a rule without a leading ^ matches wherever its literal text first occurs in the request URI)
					switch {
					case strings.Contains(target, "/api/"):
						upstreamURI = "/" + target[strings.Index(target, "/api/")+len("/api/"):]
					case strings.Contains(target, "/files/"):
						upstreamURI = "/static/" + target[strings.Index(target, "/files/")+len("/files/"):]
					case strings.Contains(target, "/img/") && strings.HasSuffix(target, "/thumb"):
						upstreamURI = "/thumbs/" + target[strings.Index(target, "/img/")+len("/img/"):len(target)-len("/thumb")] + "_small.png"
					case strings.HasPrefix(target, "/pair/") && strings.Contains(target, "/of/"):
						rest := target[len("/pair/"):]
						k := strings.Index(rest, "/of/")
						upstreamURI = "/p/" + rest[k+4:] + "/" + rest[:k]
					}
				}
				body := fmt.Sprintf("payload-%d", rng.Intn(1000000))
				var rd io.Reader
				if method != "GET" && method != "DELETE" {
					rd = strings.NewReader(body)
				} else {
					body = ""
				}
				reqTarget := target
				if rewriting && rng.Intn(4) == 0 {
					reqTarget = "http://front.example.com" + target // absolute-form request target: rules still see the path and query only
					dist["absolute_form_request_targets"]++
				}
				req := httptest.NewRequest(method, reqTarget, rd)
				if withHung {
					// the client's deadline passes 15 ms after the hung target was chosen: a target that does not answer in
					// time is a failed attempt (502), not a client abort
					req = req.WithContext(c19Ctx{Context: req.Context(), done: make(chan struct{}), once: new(sync.Once)})
				}
				custom := fmt.Sprintf("c-%d", rng.Intn(1000))
				req.Header.Set("X-Custom", custom)
				// what an earlier proxy in front already recorded about the client travels on
				protoWant := "https"
				req.Header.Set("X-Forwarded-Proto", "https")
				if rng.Intn(3) == 0 {
					// a chain of proxies in front, each with its own header line: all of them travel on
					req.Header.Add("X-Forwarded-Proto", "http")
					protoWant = "https,http"
					dist["requests_with_two_forwarded_proto_lines"]++
				}
				req.Header.Set("X-Forwarded-For", "203.0.113.7")
				rec := httptest.NewRecorder()
				nextLog = nextLog[:0]
				mu.Lock()
				hits = hits[:0]
				mu.Unlock()
				func() {
					defer func() {
						if r := recover(); r != nil {
							ok, why = false, fmt.Sprintf("proxy panicked: %v", r)
							rec.Code = 599
						}
					}()
					e.ServeHTTP(rec, req)
				}()
				attempts := append([]string(nil), nextLog...)
				served := rec.Code != http.StatusBadGateway && rec.Code != 599
				mu.Lock()
				hs := append([]c19Hit(nil), hits...)
				mu.Unlock()
				// ---- property on the implementation alone
				isCur := func(nm string) bool {
					for _, c := range cur {
						if c == nm {
							return true
						}
					}
					return false
				}
				for _, a := range attempts {
					if !isCur(a) {
						ok, why = false, fmt.Sprintf("attempt at %q which is not among the current targets %v", a, cur)
					}
				}
				if len(attempts) > R+1 || len(attempts) == 0 {
					ok, why = false, fmt.Sprintf("%d attempts with RetryCount=%d", len(attempts), R)
				}
				allDead := true
				for _, a := range attempts {
					if !isDown(a) {
						allDead = false
					}
				}
				if !served && !allDead {
					ok, why = false, fmt.Sprintf("client got 502 although an attempted target (%v) is alive", attempts)
				}
				if served {
					if len(hs) != 1 {
						ok, why = false, fmt.Sprintf("request reached %d upstream handlers (want exactly 1): %v", len(hs), hs)
					} else {
						h := hs[0]
						wantCode := 200
						if uu, perr := url.Parse(upstreamURI); perr == nil && uu.Query().Get("code") == "404" {
							wantCode = 404
						}
						if h.name != srvName(attempts[len(attempts)-1]) || h.method != method || h.uri != upstreamURI || h.body != body || h.hdr != custom+"|"+protoWant+"|203.0.113.7" {
							ok, why = false, fmt.Sprintf("upstream saw %+v, sent %s %s body=%q X-Custom=%q (+ X-Forwarded-Proto https, X-Forwarded-For starting with 203.0.113.7) via attempts %v (expected upstream URI %s)", h, method, target, body, custom, attempts, upstreamURI)
						}
						if rec.Code != wantCode || rec.Body.String() != "body-from-"+h.name || rec.Header().Get("X-Up-Header") != "v-"+h.name {
							ok, why = false, fmt.Sprintf("upstream %s answered %d, client got %d body=%q", h.name, wantCode, rec.Code, rec.Body.String())
						}
					}
					for i, a := range attempts[:len(attempts)-1] {
						if !isDown(a) {
							ok, why = false, fmt.Sprintf("attempt %d at alive target %s was retried", i, a)
						}
					}
				}
				if len(cur) >= 2 {
					for i := 1; i < len(attempts); i++ {
						pi, ci := -1, -1
						for j, c := range cur {
							if c == attempts[i-1] {
								pi = j
							}
							if c == attempts[i] {
								ci = j
							}
						}
						if ci != (pi+1)%len(cur) {
							ok, why = false, fmt.Sprintf("retry went from %s to %s, not to the next target of %v", attempts[i-1], attempts[i], cur)
						}
					}
				}
				if len(attempts) > 1 {
					retried = true
				}
				if stable && len(attempts) > 0 {
					firstCount[attempts[0]]++
					mn, mx := 1<<30, 0
					for _, c := range cur {
						v := firstCount[c]
						if v < mn {
							mn = v
						}
						if v > mx {
							mx = v
						}
					}
					if mx-mn > 1 {
						ok, why = false, fmt.Sprintf("round robin over fixed targets %v is unfair: counts %v", cur, firstCount)
					}
				}
				var dead []string
				for _, c := range cur {
					if isDown(c) {
						dead = append(dead, c)
					}
				}
				ops = append(ops, L(I(2), LS(dead)))
				outs = append(outs, L(LS(attempts), B(served)))
				if len(human) < 700 {
					human += fmt.Sprintf(" %s %s->%v/%d", method, target, attempts, rec.Code)
				}
				dist["requests"]++
				if !served {
					dist["answered_502"]++
				}
				dist["attempts"] += len(attempts)
			}
		}
		in := L(I(R), LS(init), L(ops...))
		cs := Case{In: in, Out: L(outs...), Ok: ok, Why: why, Human: human}
		if retried && changed {
			cs.Key = Show(in)
		}
		dist[fmt.Sprintf("retry_count_%d", R)]++
		emit(cs)
	}
	_ = bytes.MinRead
}
