package main

import (
	"errors"
	"fmt"
	"math/rand"
	"net"
	"net/http"
	"net/http/httptest"
	"time"

	"github.com/labstack/echo/v4"
	"github.com/labstack/echo/v4/middleware"
	"golang.org/x/time/rate"
)

func init() {
	props["C18"] = &propRunner{gen: genC18, rule: "timed histories of 10-80 requests over 1-4 identifiers (incl. case variants) on a virtual clock with 2^-9 s ticks and rates 0.5 ... 64 per second that are multiples of 1/1024 per tick (so float64 arithmetic in x/time/rate is exact): bursts at one instant, exact refill instants, idle gaps crossing ExpiresIn (cleanup) x configs (rate, burst or default burst, ExpiresIn with ExpiresIn*rate >= burst), through the RateLimiter middleware; non-trivial = history with at least one refusal and at least one gap longer than ExpiresIn; distinct by (config, history)"}
}

const c18Tick = 1953125 * time.Nanosecond // 2^-9 s

func genC18(rng *rand.Rand, n int, emit func(Case), dist map[string]int) {
	base := time.Date(2024, 1, 1, 0, 0, 0, 0, time.UTC)
	ids := []string{"10.0.0.1", "10.0.0.2", "2001:db8::1", "2001:DB8::1", "key-A", "key-a", ""} // ("": the optional header the extractor reads is absent)
	for it := 0; it < n; it++ {
		// rate = A tokens per Bt ticks (512 ticks per second): integers, and 0.5 / 1.5 / 2.5 per second as x/1024 ticks
		rt := [][2]int{{1, 512}, {2, 512}, {4, 512}, {8, 512}, {16, 512}, {64, 512}, {1, 1024}, {3, 1024}, {5, 1024}}[rng.Intn(9)]
		A, Bt := rt[0], rt[1]
		rateF := float64(A) * 512 / float64(Bt)
		burstCfg := []int{0, 1, 2, 3, 5, 10}[rng.Intn(6)]
		burst := burstCfg
		if burst == 0 {
			burst = A * 512 / Bt // documented default: int(rate), i.e. rounded down
			if burst == 0 {
				burstCfg, burst = 1, 1 // (a store that can never admit anything is not interesting)
			}
		}
		// ExpiresIn in ticks with ExpiresIn*rate >= burst:  E * A/Bt >= burst
		minE := (burst*Bt + A - 1) / A
		E := minE + rng.Intn(3)*rng.Intn(600)
		if E == 0 {
			E = 1
		}
		now := int64(rng.Intn(1000))
		start := now
		store := middleware.NewRateLimiterMemoryStoreWithConfig(middleware.RateLimiterMemoryStoreConfig{
			Rate: rate.Limit(rateF), Burst: burstCfg, ExpiresIn: time.Duration(E) * c18Tick})
		if burstCfg == 0 && rng.Intn(2) == 0 {
			// the short constructor: default burst and the default ExpiresIn of 3 minutes
			E = 180 * 512
			store = middleware.NewRateLimiterMemoryStore(rate.Limit(rateF))
			dist["short_store_constructor"]++
		}
		store.VerifSetClock(func() time.Time { return base.Add(time.Duration(now) * c18Tick) })
		ran := false
		rlCfg := middleware.RateLimiterConfig{Store: store,
			IdentifierExtractor: func(c echo.Context) (string, error) { return c.Request().Header.Get("X-Id"), nil }}
		switch rng.Intn(4) {
		case 0: // a deny handler that writes the response itself and returns nil (as in the package documentation)
			rlCfg.DenyHandler = func(c echo.Context, identifier string, err error) error {
				return c.JSON(http.StatusTooManyRequests, map[string]string{"message": "slow down"})
			}
		case 1:
			rlCfg.DenyHandler = func(c echo.Context, identifier string, err error) error {
				return echo.NewHTTPError(http.StatusTooManyRequests, "custom deny")
			}
			rlCfg.BeforeFunc = func(c echo.Context) {}
		}
		rlCfg.IdentifierExtractor = func(c echo.Context) (string, error) {
			if c.Request().Header.Get("X-Id-Error") != "" {
				return "", errors.New("no identifier") // the extractor fails: 403 through the error handler, the store is not consulted
			}
			return c.Request().Header.Get("X-Id"), nil
		}
		mw := middleware.RateLimiterWithConfig(rlCfg)
		byRealIP := rng.Intn(5) == 0
		if byRealIP {
			mw = middleware.RateLimiter(store) // default configuration: identified by Context.RealIP (here: the peer address)
			dist["default_middleware_by_real_ip"]++
		}
		h := mw(func(c echo.Context) error { ran = true; return nil })
		e := echo.New()
		nids := 1 + rng.Intn(4)
		off := rng.Intn(len(ids))
		nev := 10 + rng.Intn(71)
		var evs, outs []Sx
		type rec struct {
			t  int64
			ok bool
		}
		per := map[string][]rec{}
		// reference per identifier: one exact bucket, never evicted (units of 1/512 token)
		type bucket struct{ tok, last int64 }
		ref := map[string]*bucket{}
		ok, why := true, ""
		refusals, longGaps := 0, 0
		refill := int64((Bt + A - 1) / A) // ticks until one more token
		human := fmt.Sprintf("rate=%v/s burst=%d(cfg %d) expiresIn=%d ticks; events(id@tick->admitted):", rateF, burst, burstCfg, E)
		for k := 0; k < nev; k++ {
			switch rng.Intn(10) {
			case 0, 1, 2, 3:
				// same instant
			case 4, 5:
				now += 1 + int64(rng.Intn(3))
			case 6, 7:
				now += refill * int64(1+rng.Intn(3))
			case 8:
				now += refill - 1
			default:
				now += int64(E) + int64(rng.Intn(3)) - 1 + int64(rng.Intn(2))*int64(E)
				longGaps++
			}
			id := ids[(off+rng.Intn(nids))%len(ids)]
			req := httptest.NewRequest(http.MethodGet, "/", nil)
			req.Header.Set("X-Id", id)
			if byRealIP {
				id = []string{"10.0.0.1", "10.0.0.2", "2001:db8::1", "2001:DB8::1"}[(off+rng.Intn(nids))%4]
				req.RemoteAddr = net.JoinHostPort(id, "4711")
			}
			extractorFails := !byRealIP && rng.Intn(12) == 0
			if extractorFails {
				req.Header.Set("X-Id-Error", "1")
			}
			wrec := httptest.NewRecorder()
			c := recycledContext(e, req, wrec)
			ran = false
			err := h(c)
			status := 0
			if c.Response().Committed {
				status = wrec.Code
			}
			if err != nil {
				if he, isHE := err.(*echo.HTTPError); isHE {
					status = he.Code
				} else {
					status = 500
				}
			}
			if extractorFails {
				if ran || status != http.StatusForbidden {
					ok, why = false, fmt.Sprintf("identifier extraction failed but the handler ran=%v, status %d (want 403, handler not run)", ran, status)
				}
				dist["extractor_errors"]++
				continue // not an event of the store: later answers must be as if it never happened
			}
			admitted := ran
			evs = append(evs, L(S(id), I64(now)))
			outs = append(outs, L(B(ran), I(status)))
			if len(human) < 900 {
				human += fmt.Sprintf(" %s@%d->%v", id, now, admitted)
			}
			if !admitted {
				refusals++
				if status != http.StatusTooManyRequests {
					ok, why = false, fmt.Sprintf("refused request answered %d, not 429", status)
				}
			} else if status != 0 {
				ok, why = false, "handler ran but the middleware returned an error"
			}
			per[id] = append(per[id], rec{now, admitted})
			// reference bucket of this identifier
			bk := ref[id]
			if bk == nil {
				bk = &bucket{tok: int64(burst) * int64(Bt), last: now}
				ref[id] = bk
			}
			avail := bk.tok + int64(A)*(now-bk.last) // in units of 1/Bt token
			if avail > int64(burst)*int64(Bt) {
				avail = int64(burst) * int64(Bt)
			}
			want := avail >= int64(Bt)
			if want {
				bk.tok, bk.last = avail-int64(Bt), now
			}
			if admitted != want {
				ok, why = false, fmt.Sprintf("event %d: identifier %q at tick %d admitted=%v, but its own allowance (%d/%d tokens) says %v", k, id, now, admitted, avail, Bt, want)
			}
		}
		// window bound per identifier: admitted in [ti, tj] <= burst + rate*(tj-ti)
		for id, rs := range per {
			for i := range rs {
				if !rs[i].ok {
					continue
				}
				cnt := int64(0)
				for j := i; j < len(rs); j++ {
					if rs[j].ok {
						cnt++
					}
					if cnt*int64(Bt) > int64(burst)*int64(Bt)+int64(A)*(rs[j].t-rs[i].t) {
						ok, why = false, fmt.Sprintf("identifier %q: %d requests admitted between ticks %d and %d, more than burst %d + rate %v/s x %d/512 s", id, cnt, rs[i].t, rs[j].t, burst, rateF, rs[j].t-rs[i].t)
					}
				}
			}
		}
		in := L(I(A), I(burst), I(E), I64(start), L(evs...), I(Bt))
		cs := Case{In: in, Out: L(outs...), Ok: ok, Why: why, Human: human}
		if refusals > 0 && longGaps > 0 {
			cs.Key = Show(in)
		}
		dist[fmt.Sprintf("rate_%v", rateF)]++
		dist[fmt.Sprintf("identifiers_%d", nids)]++
		if burstCfg == 0 {
			dist["default_burst"]++
		}
		dist["events"] += nev
		dist["refusals"] += refusals
		dist["gaps_over_expiry"] += longGaps
		emit(cs)
	}
}
