(* Model of middleware/basic_auth.go, middleware/key_auth.go and the value extractors of
   middleware/extractor.go.  (C13; the extractors are shared with C12) *)
From Coq Require Import List Bool Ascii String Arith NArith.
From Echo Require Import Base.Sx.
Import ListNotations.
Open Scope char_scope.

(* strings.EqualFold on ASCII *)
Definition lower (c : ascii) : ascii :=
  let n := N_of_ascii c in if ((65 <=? n) && (n <=? 90))%N then ascii_of_N (n + 32) else c.
Fixpoint eq_fold (a b : str) : bool :=
  match a, b with
  | [], [] => true
  | x :: a', y :: b' => Ascii.eqb (lower x) (lower y) && eq_fold a' b'
  | _, _ => false
  end.

Inductive vres := VTrue | VFalse | VErr.          (* validator: (true,nil) / (false,nil) / (_, err) *)

(* outcome of a middleware: handler ran, or rejected with a status (0 = the validator's own error) *)
Inductive outcome := Ran | Rejected (code : nat).

(* ---------------- BasicAuth *)
Section Basic.
Variable decode : str -> option str.              (* base64.StdEncoding.DecodeString *)
Variable validator : str -> str -> vres.

(* split at the first colon *)
Fixpoint split_colon (s : str) : option (str * str) :=
  match s with
  | [] => None
  | c :: r => if Ascii.eqb c ":" then Some ([], r)
              else match split_colon r with Some (u, p) => Some (c :: u, p) | None => None end
  end.

Definition basic_lit : str := ["B"; "a"; "s"; "i"; "c"].

(* returns the outcome and the validator calls made *)
Definition basic_auth (auth : str) : outcome * list (str * str) :=
  if Nat.ltb 6 (List.length auth) && eq_fold (firstn 5 auth) basic_lit then
    match decode (skipn 6 auth) with
    | None => (Rejected 400, [])
    | Some cred =>
        match split_colon cred with
        | Some (u, p) => match validator u p with
                         | VTrue => (Ran, [(u, p)])
                         | VFalse => (Rejected 401, [(u, p)])
                         | VErr => (Rejected 0, [(u, p)])
                         end
        | None => (Rejected 401, [])
        end
    end
  else (Rejected 401, []).
End Basic.

(* ---------------- extractors *)
Inductive xerr := XMissing | XInvalid.
Definition limit : nat := 20.

(* valuesFromHeader: i is the index into Header.Values *)
Fixpoint header_loop (prefix : str) (vals : list str) (i : nat) : list str :=
  match vals with
  | [] => []
  | v :: r =>
      match prefix with
      | [] => v :: (if Nat.leb (limit - 1) i then [] else header_loop prefix r (S i))
      | _ => if Nat.ltb (List.length prefix) (List.length v) && eq_fold (firstn (List.length prefix) v) prefix
             then skipn (List.length prefix) v :: (if Nat.leb (limit - 1) i then [] else header_loop prefix r (S i))
             else header_loop prefix r (S i)
      end
  end.
Definition from_header (prefix : str) (vals : list str) : list str + xerr :=
  match vals with
  | [] => inr XMissing
  | _ => match header_loop prefix vals 0 with
         | [] => inr (match prefix with [] => XMissing | _ => XInvalid end)
         | l => inl l
         end
  end.

(* valuesFromQuery / valuesFromForm *)
Definition from_values (vals : list str) : list str + xerr :=
  match vals with [] => inr XMissing | _ => inl (firstn limit vals) end.

(* valuesFromCookie *)
Fixpoint cookie_loop (name : str) (cs : list (str * str)) (i : nat) : list str :=
  match cs with
  | [] => []
  | (n, v) :: r => if str_eqb name n
                   then v :: (if Nat.leb (limit - 1) i then [] else cookie_loop name r (S i))
                   else cookie_loop name r (S i)
  end.
Definition from_cookie (name : str) (cs : list (str * str)) : list str + xerr :=
  match cookie_loop name cs 0 with [] => inr XMissing | l => inl l end.

(* one configured lookup with the request data found at its location *)
Inductive lookup :=
| LHeader (prefix : str) (vals : list str)
| LValues (vals : list str)                        (* query or form *)
| LCookie (name : str) (cookies : list (str * str)).

Definition extract (l : lookup) : list str + xerr :=
  match l with
  | LHeader p vs => from_header p vs
  | LValues vs => from_values vs
  | LCookie n cs => from_cookie n cs
  end.

(* ---------------- KeyAuth (default error handling; ContinueOnIgnoredError off) *)
Section Key.
Variable validator : str -> vres.

Fixpoint try_keys (keys : list str) (calls : list str) : bool * bool * list str :=   (* ran?, validator-complained?, calls *)
  match keys with
  | [] => (false, false, calls)
  | k :: r => match validator k with
              | VTrue => (true, false, calls ++ [k])
              | _ => let '(ran, _, cs) := try_keys r (calls ++ [k]) in (ran, true, cs)
              end
  end.

Fixpoint key_loop (ls : list lookup) (complained : bool) (calls : list str) : outcome * list str :=
  match ls with
  | [] => (Rejected (if complained then 401 else 400), calls)
  | l :: r => match extract l with
              | inr _ => key_loop r complained calls
              | inl keys => let '(ran, comp, cs) := try_keys keys calls in
                            if ran then (Ran, cs) else key_loop r (complained || comp) cs
              end
  end.
Definition key_auth (ls : list lookup) : outcome * list str := key_loop ls false [].
End Key.
