"""Per-property configuration of the checks (volumes bound the correspondence sample and the
failing-input search only; never a theorem)."""

AXIOM_WHITELIST = {
    # standard-library axioms that tactics may bring in; each is reported in the evidence when used
    "functional_extensionality_dep", "FunctionalExtensionality.functional_extensionality_dep",
    "Eqdep.Eq_rect_eq.eq_rect_eq", "Coq.Logic.Eqdep.Eq_rect_eq.eq_rect_eq",
}

TRUSTED_BASE_COMMON = [
    "Coq 8.16.1 kernel; vm_compute (used in reflection proofs over finite generated tables and in cases.v); no native_compute",
    "extraction with ExtrOcamlBasic only (bool, option, unit, list, prod, sumbool, sumor -> OCaml natives; no Extract Constant); N/Z/positive/ascii stay Coq inductives",
    "OCaml 4.13.1 + ocaml/driver.ml (sx text parser/printer, string<->ascii list, int<->Z conversions)",
    "Go harness go/harness (generators, projections of observables, implementation-only predicates) and py/orchestrator.py (differ, verdict)",
    "hand-written Gallina model tied to /repo by the correspondence run of this check; Glue/Gxx.v decoders",
]

PROPS = {
    "C14": dict(
        n_quick=3000, n_thorough=120000, incoq=150, gen=["Src_bodylimit.v"],
        level_text="Theorems C14_* (Props/C14.v) hold for every limit, every sequence of underlying read results (all chunkings/read sizes) and every history of pooled reuse; the comparisons and the reset are regenerated from body_limit.go on every run; the model is compared with BodyLimit on generated request histories.",
        technique="Coq proof by induction over read sequences + go/ast-generated comparisons + differential correspondence",
        trusted=["net/http request body contract (io.Reader): the underlying reader's per-call results are recorded by the harness and handed to the model",
                 "sync.Pool modelled as: may hand back the reader with any stale count (C14_no_carry_over is proved for every stale count)",
                 "go/gen translator: the two comparison operators of body_limit.go (Src_bodylimit.v)"],
        assumptions=["echo.ErrStatusRequestEntityTooLarge is what the handler sees as the 413 error",
                     "bytes.Parse of the limit string is not modelled (limits are given as '<n>B')"],
    ),
    "C17": dict(
        n_quick=4000, n_thorough=200000, incoq=150, gen=["Src_slash.v"],
        level_text="Theorems C17_* (Props/C17.v): for every decoded path starting with '/' and every query the Location produced by AddTrailingSlash, RemoveTrailingSlash and the static directory redirect is, as a browser reads it, a same-host path-absolute reference; ordinary paths get exactly path+-slash+query. The byte classes, loop shape and threshold of both sanitizeURI copies are regenerated from the source on every run and their specification lemmas re-proved.",
        technique="Coq proof by induction over the URI bytes + go/ast-generated sanitizeURI predicates + differential correspondence",
        trusted=["browser reading of Location modelled as WHATWG URL preprocessing (strip leading C0/space, remove TAB/LF/CR); a second implementation of it in the harness is the implementation-only predicate",
                 "whether the static handler sees a directory is an oracle taken from the observed response (file-name resolution is C16's subject)",
                 "net/http header writing (httptest recorder keeps Location verbatim)"],
        assumptions=["request paths as the router sees them start with '/' (net/http rejects other request targets)"],
    ),
    "C06": dict(
        n_quick=5000, n_thorough=200000, incoq=150,
        level_text="Theorems C06_* (Props/C06.v) hold for every finite handler program over WriteHeader/Write/Flush/Before/After/JSON/String/Blob/Stream/NoContent/Redirect (incl. partial writes), by an invariant over all op sequences: one header write, Committed <-> headers sent, reported status/size = sent, late status writes ignored, hook order. The model is compared with echo.Response after every op of generated programs.",
        technique="Coq invariant proof by induction over operation sequences + differential correspondence after every step",
        trusted=["net/http ResponseWriter contract (first WriteHeader wins; Write/Flush imply 200) as implemented by the harness's recording writer",
                 "hooks are observers (a hook that itself writes re-enters Write; out of scope as the property excludes direct field assignment)"],
        assumptions=["context helpers modelled: JSON/JSONPretty (preset + one serializer write), String/Blob/Stream (WriteHeader + Write), NoContent, Redirect; XML/JSONP helpers are not modelled"],
    ),
    "C10": dict(
        n_quick=6000, n_thorough=250000, incoq=120, gen=["Src_ip.v"],
        level_text="Theorems C10_* (Props/C10.v): for every header list, peer and trust configuration the direct extractor ignores headers; X-Real-IP is used iff the peer is trusted and the header parses; the X-Forwarded-For result is decided by the right-most untrusted/unparsable entry so that anything to its left is irrelevant (relational theorem); results are valid IPs when the peer is; isPrivateIPRange (regenerated from ip.go each run) equals the RFC 1918 / RFC 4193 ranges for every byte value, loopback/link-local per RFC. Model compared with Context.RealIP on generated requests.",
        technique="Coq proofs (induction over the entry list; finite byte sweeps lifted with forallb_forall) + go/ast-generated isPrivateIPRange + differential correspondence",
        trusted=["net.ParseIP / IP.String / IP.To4 / net.SplitHostPort / net.ParseCIDR are oracles (their verdict per string is supplied by the harness); IsLoopback, IsLinkLocalUnicast, IPNet.Contains are modelled by hand and validated by the correspondence",
                 "strings.TrimSpace modelled for ASCII whitespace (generator is ASCII-only)",
                 "the reference extractor in the harness (written from the property text with RFC CIDR ranges) is the implementation-only predicate"],
        assumptions=["C10_xff_valid assumes the canonical form of a parsed address parses again (net.IP.String / ParseIP round trip)"],
    ),
    "C11": dict(
        n_quick=6000, n_thorough=250000, incoq=100,
        level_text="Theorems C11_* (Props/C11.v): for every allow-list, flag combination and scheme://-shaped origin, Access-Control-Allow-Origin is emitted only if the origin is literally listed, '*' is listed, or some listed pattern matches the whole origin as a glob ('*' any run, '?' one char), and its value is '*' or the origin verbatim; matchSubdomain is sound w.r.t. the glob reading (string level, via split/join on '.'); credentials only with an allowed origin; disallowed non-preflight requests are blocked with 401; preflights get 204 without the handler. Model compared with the real middleware incl. the compiled regexp.",
        technique="Coq proofs (induction over patterns/labels; split/join inverse) + differential correspondence against CORSWithConfig",
        trusted=["regexp: QuoteMeta + \\* -> .* + \\? -> . + anchoring is modelled as the glob matcher rm ('.' excludes newline); validated against the real compiled regexp by the correspondence (ASCII origins; '.' matches one rune, modelled as one byte)",
                 "AllowOriginFunc, Skipper and the non-origin CORS headers (methods, headers, max-age) are outside the model"],
        assumptions=["allow-list entries containing ':' have the shape scheme://rest (their first ':' starts '://'); for other entries matchSubdomain compares a different scheme split than the pattern text (documented restriction of C11_only_allowed)"],
    ),
    "C18": dict(
        n_quick=1500, n_thorough=40000, incoq=40,
        level_text="Theorems C18_* (Props/C18.v): for every timed history over any identifiers on a monotone clock, the store with expiry/cleanup answers exactly like 'one never-evicted token bucket per identifier' when ExpiresIn*rate >= burst (simulation proof); an identifier's answers depend on its own sub-history only; every window of a bucket history admits at most burst + rate*elapsed (potential-function invariant, nia); refusal only when the own allowance is below one token; middleware: handler iff admitted else 429. Model compared with the real store+middleware on a virtual clock.",
        technique="Coq simulation/refinement proof to a per-identifier bucket spec + potential-function invariant + differential correspondence on a virtual clock",
        trusted=["golang.org/x/time/rate modelled as an exact token bucket (integer scaled); exact on the harness's 2^-9 s time grid with integer rates; its sub-nanosecond truncation slack is the dependency's",
                 "each Allow call is one atomic step with ONE clock reading (sync.Mutex sections atomic; the second timeNow() read and real-clock interleavings are not modelled: partial)",
                 "verif hook VerifSetClock installs the virtual clock"],
        assumptions=["clock readings are non-decreasing", "ExpiresIn*rate >= burst (as the property states)"],
    ),
    "C19": dict(
        n_quick=400, n_thorough=15000, incoq=40,
        level_text="Theorems C19_* (Props/C19.v): for every balancer state (hence every history of Add/Remove/Next) the index Next returns is within the current target list and names a current member; Add/Remove keep names unique, an added target stays, a removed one is gone; round-robin over a fixed list visits it cyclically; the retry loop makes at most RetryCount+1 attempts, relays from exactly one alive target after failed attempts only, and answers 502 only if every attempt failed. Model compared with the real ProxyWithConfig + round-robin balancer over live/dead upstream servers; forwarding fidelity is checked differentially by the implementation-only predicate.",
        technique="Coq proofs over the balancer state machine and the retry loop (induction on retries) + differential correspondence over real upstream servers",
        trusted=["httputil.ReverseProxy, net/http transport and sockets (byte-faithful relaying is observed differentially, not proved)",
                 "every balancer operation is one atomic step (commonBalancer.mutex); goroutine interleavings are sequences of these steps (partial: Go memory model not modelled)",
                 "an attempt's outcome is an oracle (alive/dead per target name)"],
        assumptions=["Next on an empty balancer returns nil and the proxy dereferences it: requests with zero targets are outside the property (generator keeps >= 1 target)",
                     "rewrite rules and the random balancer are not modelled"],
    ),
    "C13": dict(
        n_quick=6000, n_thorough=250000, incoq=120,
        level_text="Theorems C13_* (Props/C13.v): for every Authorization value, base64 oracle and validator function, BasicAuth runs the handler iff the header decodes to u:p split at the FIRST colon and the validator returned (true,nil), consulting the validator at most once; for every KeyAuth lookup list and request data the handler runs iff some value literally present at a configured location (scheme prefix removed, within the 20-value limit) is accepted; validator errors never reach the handler. Model compared with the real middlewares incl. the validator call log, over request histories through one instance.",
        technique="Coq proofs (soundness + completeness over all headers/lookup data, validator as a universally quantified function) + differential correspondence incl. validator call logs",
        trusted=["encoding/base64 (oracle), net/http header/cookie/form/query parsing (the harness reads what is present at each location from an identical request)",
                 "strings.EqualFold modelled for ASCII",
                 "KeyAuth with default ErrorHandler; ContinueOnIgnoredError (the documented opt-in exception) is outside the model"],
        assumptions=[],
    ),
    "C12": dict(
        n_quick=5000, n_thorough=200000, incoq=60, gen=["Src_csrf.v"],
        level_text="Theorems C12_* (Props/C12.v): for every method, cookie state, lookup configuration and request data, an unsafe request passes only if a configured location literally holds the token (the cookie's value when present, else the fresh one) and is otherwise rejected with 400/403; the exempt methods are exactly GET/HEAD/OPTIONS/TRACE (list regenerated from csrf.go each run); passed requests publish one token as Set-Cookie and context value; randomString yields n ASCII letters for every byte stream and each letter has exactly 4 accepted byte values (constants regenerated from util.go). Model compared with the real middleware and, through the verif hook, with randomString on known byte streams.",
        technique="Coq proofs (all request data; byte sweep lifted with forallb_forall for randomString) + go/ast-generated method list and constants + differential correspondence",
        trusted=["net/http cookie/form/query/header parsing (read from an identical request)", "crypto/rand as an arbitrary byte stream (theorem quantifies over all streams); verif hook VerifSetRandomSource/VerifRandomString",
                 "subtle.ConstantTimeCompare = byte equality", "when the cookie is absent the fresh token is unguessable (a client token equal to it is not generated)"],
        assumptions=["custom ErrorHandler and Skipper are outside the model"],
    ),
    "C08": dict(
        n_quick=8000, n_thorough=300000, incoq=150, gen=["Src_binder.v"],
        level_text="Theorems C08_* (Props/C08.v): the models of ParseInt/ParseUint accept exactly an optional sign plus ASCII digits whose value fits the width, for every string and width; every entry of the tables regenerated from binder.go/bind.go on each run (all exported int/uint/float scalar and slice methods; the numeric kinds of setWithProperType) hands strconv the width of its destination and converts through the same width, hence a call without error stored exactly the denoted number (no wrap), a failing call leaves the destination unchanged, empty text is absent (value binder) or zero (struct), and in fail-fast mode nothing is written after the first error. Model compared with the real binders on boundary texts for every method found by reflection.",
        technique="Coq proofs over all strings (decimal exactness; wrap = identity in range) + go/ast-generated method/kind tables re-checked by reflection (vm_compute) + differential correspondence",
        trusted=["strconv.ParseInt/ParseUint/ParseBool are modelled (validated by the correspondence); ParseFloat, time.ParseDuration, time parsing and Text/Bind/JSON unmarshalers are oracles: for floats/bools the harness compares with strconv at the destination's width (implementation-only predicate), durations/times are not exercised",
                 "Go's type checker guarantees that a type-switch arm's conversion has the destination's type (so conversion width = destination width)",
                 "reflect.SetInt/SetUint truncate to the field width (modelled as wrap)"],
        assumptions=["int/uint are 64 bit (bitSize 0)", "BindWithDelimiter and CustomFunc variants are not modelled"],
    ),
    "C01": dict(
        n_quick=6000, n_thorough=300000, incoq=60,
        level_text="Theorems C01_* (Props/C01.v): for every well-formed route table in any registration order, every method and path, if echo's radix tree (built by replaying the insertNode call sequence) dispatches to route r with values v then substituting v into r's parsed pattern yields the path byte for byte (one value per parameter). Proved on the order-free specification and transferred through the 3 kLoC refinement proof dispatch(build rs) = spec. Model compared with real echo (route id, ParamNames, ParamValues, c.Path()) on generated tables; the implementation-only predicate rebuilds the path from pattern + observed values.",
        technique="Coq refinement proof (radix-tree insertion/search = order-free priority search) + soundness invariant + differential correspondence",
        trusted=["the hand-written goto state machine of Router.Find (parent pointers, backtracking labels) is represented by its structured recursive equivalent find_node on the same tree; tied by outcome comparison on generated tables, not by a proof about the goto code",
                 "pattern scan of Router.insert modelled by parse_pat/parse_names (validated by the correspondence); net/http URL parsing supplies RawPath/Path",
                 "theorems cover escape-free patterns without structural duplicates (wf_table); tables where an escaped colon collides with a parameter at the same tree position are known finding D3"], assumptions=["the value array is cleared between requests (C05)"],
    ),
    "C02": dict(
        n_quick=6000, n_thorough=300000, incoq=60,
        level_text="Theorems C02_* (Props/C02.v): dispatch on the tree echo builds equals the documented static > param > wildcard search with full backtracking over the SET of routes (refinement), hence is invariant under every permutation of the registration order; a route of the request's method that matches the path is always found (never 404/405). Host routers: exact Host match else default (modelled in the glue, compared differentially). Model compared with real echo for several registration orders of each table.",
        technique="Coq refinement proof + permutation-invariance proof (search_perm) + completeness by induction + differential correspondence across registration orders",
        trusted=["the hand-written goto state machine of Router.Find (parent pointers, backtracking labels) is represented by its structured recursive equivalent find_node on the same tree; tied by outcome comparison on generated tables, not by a proof about the goto code",
                 "pattern scan of Router.insert modelled by parse_pat/parse_names (validated by the correspondence); net/http URL parsing supplies RawPath/Path",
                 "theorems cover escape-free patterns without structural duplicates (wf_table); tables where an escaped colon collides with a parameter at the same tree position are known finding D3"], assumptions=["'a literal route is served by itself' is checked by the implementation-only predicate, not proved"],
    ),
}
