From Coq Require Import List Arith Bool Ascii String Lia.
From Echo Require Import Base.Sx Http.Context.
Import ListNotations.

Lemma blank_length l : List.length (blank l) = List.length l.
Proof. apply map_length. Qed.

Lemma blank_repeat n : blank (repeat [] n) = repeat [] n.
Proof. unfold blank. induction n as [|n IHn]; simpl; [reflexivity|]. f_equal. exact IHn. Qed.

Lemma is_blank_blank l : is_blank (blank l) = true.
Proof. induction l; simpl; auto. Qed.
Lemma is_blank_repeat n : is_blank (repeat [] n) = true.
Proof. induction n; simpl; auto. Qed.

(* Reset leaves an array that is blank and at least maxParam long *)
Theorem array_long_enough c r maxp : maxp <= List.length (c_pvalues (reset c r maxp)) /\ is_blank (c_pvalues (reset c r maxp)) = true.
Proof.
  unfold reset. cbn [c_pvalues]. destruct (Nat.ltb (List.length (c_pvalues c)) maxp) eqn:E.
  - rewrite repeat_length. split; [lia|apply is_blank_repeat].
  - apply Nat.ltb_ge in E. rewrite blank_length. split; [exact E|apply is_blank_blank].
Qed.

(* nothing of the past is observable after Reset: a recycled context is indistinguishable from a new one *)
Theorem reset_fresh c r maxp : observe (reset c r maxp) = observe (new_context r maxp).
Proof.
  unfold observe, reset, new_context. cbn [c_req c_resp c_query c_store c_path c_pnames c_pvalues c_logger c_handler].
  cbn [List.length firstn skipn]. f_equal.
  destruct (Nat.ltb (List.length (c_pvalues c)) maxp); [reflexivity|].
  rewrite is_blank_blank, is_blank_repeat. reflexivity.
Qed.

(* writing k values into a blank array of sufficient length: the first k cells are the values, the rest stays blank *)
Lemma write_values_firstn : forall arr vals, List.length vals <= List.length arr ->
  firstn (List.length vals) (write_values arr vals) = vals /\
  skipn (List.length vals) (write_values arr vals) = skipn (List.length vals) arr.
Proof.
  induction arr as [|a arr IH]; intros vals H.
  - destruct vals; [split; reflexivity|simpl in H; lia].
  - destruct vals as [|v vs]; [split; reflexivity|]. simpl in H. cbn [write_values List.length firstn skipn].
    destruct (IH vs ltac:(lia)) as [H1 H2]. rewrite H1, H2. split; reflexivity.
Qed.

Lemma is_blank_skipn : forall n l, is_blank l = true -> is_blank (skipn n l) = true.
Proof. induction n as [|n IHn]; intros l H; [exact H|]. destruct l; [reflexivity|]. simpl in H. apply andb_true_iff in H as [_ H]. simpl. apply IHn. exact H. Qed.

(* what a handler sees at its start depends on the current request and the matched route only -
   whatever context was recycled for it (provided the route's arity fits maxParam, which Echo.add maintains) *)
Theorem start_observation_indep c c' r maxp m :
  match m with Some x => List.length (m_values x) <= maxp /\ List.length (m_names x) = List.length (m_values x) | None => True end ->
  observe (find (reset c r maxp) m) = observe (find (reset c' r maxp) m).
Proof.
  intro Hm. destruct m as [x|]; [|cbn [find]; rewrite !reset_fresh; reflexivity].
  destruct Hm as [Hl Hn]. unfold observe, find.
  cbn [c_req c_resp c_query c_store c_path c_pnames c_pvalues c_logger c_handler]. rewrite Hn.
  destruct (array_long_enough c r maxp) as [L1 B1]. destruct (array_long_enough c' r maxp) as [L2 B2].
  destruct (write_values_firstn (c_pvalues (reset c r maxp)) (m_values x) ltac:(lia)) as [F1 S1].
  destruct (write_values_firstn (c_pvalues (reset c' r maxp)) (m_values x) ltac:(lia)) as [F2 S2].
  rewrite F1, F2, S1, S2. rewrite (is_blank_skipn _ _ B1), (is_blank_skipn _ _ B2). reflexivity.
Qed.

(* hence in every history the i-th observation is that of the i-th request served on a brand-new context *)
Theorem history_isolated : forall evs c,
  Forall (fun e => let '(r, maxp, m, prog) := e in
          match m with Some x => List.length (m_values x) <= maxp /\ List.length (m_names x) = List.length (m_values x) | None => True end) evs ->
  history c evs = map (fun e => let '(r, maxp, m, prog) := e in observe (find (new_context r maxp) m)) evs.
Proof.
  induction evs as [|[[[r maxp] m] prog] t IH]; intros c H; [reflexivity|].
  inversion H as [|? ? Hh Ht]; subst. cbn [history map]. unfold serve. f_equal.
  - rewrite (start_observation_indep c (new_context r maxp) r maxp m Hh).
    assert (E : reset (new_context r maxp) r maxp = new_context r maxp).
    { unfold reset, new_context. cbn [c_pvalues]. rewrite repeat_length, Nat.ltb_irrefl, blank_repeat. reflexivity. }
    rewrite E. reflexivity.
  - apply IH. exact Ht.
Qed.

(* the matched values the handler reads are exactly those Find wrote, with no residue after them *)
Theorem values_exact c r maxp x : List.length (m_values x) <= maxp -> List.length (m_names x) = List.length (m_values x) ->
  o_values (observe (find (reset c r maxp) (Some x))) = m_values x /\
  o_rest_blank (observe (find (reset c r maxp) (Some x))) = true.
Proof.
  intros Hl Hn. unfold observe, find. cbn [o_values o_rest_blank c_pnames c_pvalues]. rewrite Hn.
  destruct (array_long_enough c r maxp) as [L1 B1].
  destruct (write_values_firstn (c_pvalues (reset c r maxp)) (m_values x) ltac:(lia)) as [F1 S1].
  rewrite F1, S1. split; [reflexivity|apply is_blank_skipn; exact B1].
Qed.
