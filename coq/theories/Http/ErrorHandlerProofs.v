From Coq Require Import List ZArith Bool Lia String.
From Echo Require Import Base.Sx Http.Response Http.ResponseProofs Http.ErrorHandler.
Import ListNotations.
Open Scope Z_scope.

Lemma handle_inv debug hd txt e r : Inv r -> Inv (fst (handle debug hd txt e r)).
Proof.
  intro HI. unfold handle. destruct (committed r) eqn:Ec; [exact HI|].
  destruct (effective e) as [code m]. destruct hd; cbn [fst]; apply Inv_step; auto; simpl; lia.
Qed.

(* an error on an uncommitted response: exactly one status line goes out, carrying the effective code *)
Theorem one_response debug hd txt e r : Inv r -> committed r = false -> fst (effective e) <> 0 ->
  let r' := fst (handle debug hd txt e r) in
  committed r' = true /\ w_hdr_calls (wr r') = 1%nat /\
  w_status (wr r') = Some (fst (effective e)) /\ status r' = fst (effective e) /\
  snd (handle debug hd txt e r) =
    Some (fst (effective e), if hd then BEmpty else body_of debug txt (snd (effective e))).
Proof.
  intros HI Hc Hne. unfold handle. rewrite Hc. destruct (effective e) as [code m]. cbn [fst snd] in *.
  destruct HI as [H0 HI]. rewrite Hc in HI. destruct HI as [Hs [Hb [Hz Hh]]].
  assert (E0 : (code =? 0) = false) by (apply Z.eqb_neq; exact Hne).
  destruct hd; cbn [fst snd step].
  - unfold write_header. rewrite Hc. cbn. rewrite Hs, Hh. auto.
  - unfold write, commit_if_needed, preset. rewrite Hc. cbn [committed status]. unfold write_header. cbn [committed wr status].
    rewrite E0. cbn. unfold w_write, w_implicit, w_header. rewrite Hs, Hh. cbn. auto.
Qed.

(* a committed response: the error handler adds nothing *)
Theorem committed_silent debug hd txt e r : committed r = true -> handle debug hd txt e r = (r, None).
Proof. intro H. unfold handle. rewrite H. reflexivity. Qed.

(* whatever the program and the error: at most one status line, and the bookkeeping stays truthful *)
Theorem serve_inv debug hd s0 prog result : Forall op_ok prog -> Inv (fst (serve debug hd s0 prog result)).
Proof.
  intro Hp. unfold serve. pose proof (invariant s0 prog Hp) as HI.
  destruct result as [[e txt]|]; [apply handle_inv; exact HI|exact HI].
Qed.

Theorem serve_one_response debug hd s0 prog e txt : Forall op_ok prog -> fst (effective e) <> 0 ->
  let r' := fst (serve debug hd s0 prog (Some (e, txt))) in
  committed r' = true /\ w_hdr_calls (wr r') = 1%nat.
Proof.
  intros Hp Hne. unfold serve. pose proof (invariant s0 prog Hp) as HI.
  destruct (committed (run s0 prog)) eqn:Ec.
  - rewrite committed_silent by exact Ec. cbn [fst]. split; [exact Ec|].
    destruct HI as [_ HI]. rewrite Ec in HI. tauto.
  - pose proof (one_response debug hd txt e _ HI Ec Hne) as H. cbv zeta in H. tauto.
Qed.

(* no leak: with debug off the response depends only on the public part of the error (codes and
   messages of the HTTP error and of the HTTP error it directly carries), never on internal /
   plain error texts, nor on err.Error() *)
Lemma effective_public e : effective (public e) = effective e.
Proof. destruct e as [t|t i|c m [[t|t i|c' m' i']|]]; reflexivity. Qed.

Theorem no_leak hd e e' txt txt' r : public e = public e' ->
  handle false hd txt e r = handle false hd txt' e' r.
Proof.
  intro H. unfold handle. destruct (committed r); [reflexivity|].
  rewrite <- (effective_public e), <- (effective_public e'), H.
  destruct (effective (public e')) as [code m]. destruct hd; [reflexivity|].
  destruct m; reflexivity.
Qed.

(* Recover: a panic value is handled exactly like the error it denotes *)
Theorem recover_as_error debug hd s0 prog v :
  serve debug hd s0 prog (Some (recovered v)) =
  handle debug hd (snd (recovered v)) (fst (recovered v)) (run s0 prog).
Proof. unfold serve. destruct (recovered v). reflexivity. Qed.

(* non-HTTP errors: 500 with the generic message *)
Theorem plain_is_500 t : effective (Plain t) = (500, MStr (lit "Internal Server Error"%string)) /\
  forall t' i, effective (Wrapped t' i) = (500, MStr (lit "Internal Server Error"%string)).
Proof. split; reflexivity. Qed.
