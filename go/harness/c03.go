package main

import (
	"fmt"
	"math/rand"
	"strings"
)

func init() {
	props["C03"] = &propRunner{gen: genC03, rule: "route tables of 1-8 routes incl. arbitrary custom method names and RouteNotFound routes x 8 paths x request methods (standard, custom, OPTIONS, unknown); every 405/204 answer is followed up by one request per advertised method; non-trivial = request answered 405/204 or served by a RouteNotFound route, or 404 in a table of >= 3 routes; distinct by (table, method, path)"}
}

// matching incl. echo's documented quirk: a parameter that ends the pattern may absorb the rest
func rMatchQ(pattern, path string) bool {
	if rMatch(pattern, path) {
		return true
	}
	p := pattern
	if p == "" || p[0] != '/' {
		p = "/" + p
	}
	// last token is a parameter: find its start
	i := strings.LastIndexByte(p, ':')
	if i < 0 || strings.IndexByte(p[i:], '/') >= 0 || (i > 0 && p[i-1] == '\\') {
		return false
	}
	// the prefix must match a prefix of the path and something must remain
	for k := 0; k < len(path); k++ {
		if rMatch(p[:i]+"*", path[:k]+"") && rMatchPrefixExact(p[:i], path[:k]) {
			return true
		}
	}
	return false
}

// p (no trailing param) matches exactly s
func rMatchPrefixExact(p, s string) bool { return rMatch(p, s) }

func genC03(rng *rand.Rand, n int, emit func(Case), dist map[string]int) {
	reqMethods := []string{"GET", "POST", "OPTIONS", "PUT", "PURGE", "LOCK", "DELETE", "OPTIONS", "get", "X-CUSTOM", "CONNECT", "HEAD", "PATCH", "PROPFIND", "TRACE", "REPORT"}
	rMethodPool = rAllMethods
	defer func() { rMethodPool = rMethods }()
	{ // recorded witness of known finding D12
		rs := []rRoute{{"GET", "/a/b"}, {"GET", "/a/:x"}, {rNF, "/a/:x"}}
		srv := rBuild(rs, []int{0, 1, 2})
		o := srv.serve("POST", "/a/b")
		ok, why := true, ""
		if o.status == 405 {
			ok, why = false, "custom not-found route /a/:x covers /a/b but the answer is 405"
		}
		emit(Case{In: L(I(0), rTableSx(rs), S("POST"), S("/a/b")), Out: o.sx(), Ok: ok, Why: why, Key: "known:router.nf_on_later_handler_node",
			Human: fmt.Sprintf("table [%s] POST /a/b -> %s", rShowTable(rs), o)})
	}
	for it := 0; it < n; {
		rs := rGenTable(rng, 8)
		ids := make([]int, len(rs))
		for i := range ids {
			ids[i] = i
		}
		srv := rBuild(rs, ids)
		for _, path := range rGenPaths(rng, rs, 8) {
			if it >= n {
				break
			}
			it++
			if rng.Intn(6) == 0 {
				// one more method on a path that is already registered - AFTER requests (also OPTIONS) have been answered:
				// what was advertised or cached for the path before must not survive
				base := rs[rng.Intn(len(rs))]
				nm := []string{"GET", "POST", "PUT", "DELETE", "PATCH", "HEAD"}[rng.Intn(6)]
				dup := false
				for _, r := range rs {
					dup = dup || rKey(r) == rKey(rRoute{nm, base.pattern})
				}
				if !dup && base.method != rNF {
					nr := rRoute{nm, base.pattern}
					rs = append(rs, nr)
					srv.add(nr, len(rs)-1)
					dist["registrations_after_requests"]++
				}
			}
			m := reqMethods[rng.Intn(len(reqMethods))]
			if rng.Intn(3) == 0 {
				m = "OPTIONS"
			}
			o := srv.serve(m, path)
			rp := rRouterPath(path)
			ok, why := rCheck(rs, m, path, o)
			anyQ, anyT, ownT, nfT := false, false, false, false
			for _, r := range rs {
				q, t := rMatchQ(r.pattern, rp), rMatch(r.pattern, rp)
				anyQ = anyQ || q
				if r.method != rNF {
					anyT = anyT || t
					ownT = ownT || (t && r.method == m)
				} else {
					nfT = nfT || t
				}
			}
			switch {
			case !ok:
			case !anyQ && o.status != 404:
				ok, why = false, fmt.Sprintf("no registered pattern matches %q but the answer is %s", rp, o)
			case o.status == 404 && anyT:
				ok, why = false, fmt.Sprintf("a registered pattern matches %q but the answer is 404", rp)
			case ownT && o.status != 200:
				ok, why = false, fmt.Sprintf("a %s route matches %q but the answer is %s", m, rp, o)
			case (o.status == 405 || o.status == 204):
				if (o.status == 204) != (m == "OPTIONS") {
					ok, why = false, fmt.Sprintf("%s request answered %d", m, o.status)
				}
				hasOpt := false
				for _, a := range o.allow {
					hasOpt = hasOpt || a == "OPTIONS"
				}
				if !hasOpt {
					ok, why = false, fmt.Sprintf("Allow %v is empty or does not list OPTIONS", o.allow)
				}
				for _, a := range o.allow {
					if a == "OPTIONS" {
						continue
					}
					f := srv.serve(a, path)
					if f.status != 200 || rs[f.id].method != a {
						ok, why = false, fmt.Sprintf("Allow advertises %s for %q but a %s request is answered %s", a, rp, a, f)
					}
					dist["allow_followups"]++
				}
				// ... and the automatic OPTIONS answer carries the SAME Allow as the 405 for that path (also after a method
				// was registered once earlier requests had been answered)
				probe := "OPTIONS"
				if m == "OPTIONS" {
					probe = "XVERIFY" // a method no table registers
				}
				if f := srv.serve(probe, path); ok && (f.status == 405 || f.status == 204) && fmt.Sprint(f.allow) != fmt.Sprint(o.allow) {
					ok, why = false, fmt.Sprintf("%s %s is answered with Allow %v, %s %s with Allow %v", m, rp, o.allow, probe, rp, f.allow)
				}
			}
			known := ""
			if ok && (o.status == 405 || o.status == 204) && nfT {
				// a custom not-found route covers the path but 405 was answered
				onHandlerNode := true
				var cover []string
				for _, r := range rs {
					if r.method == rNF && rMatch(r.pattern, rp) {
						cover = append(cover, r.pattern)
						// known finding D12 needs: the not-found route shares its node with method handlers AND another,
						// higher-priority handler node matches the whole path as well (so this node is not the first best match)
						shared, other := false, false
						for _, r2 := range rs {
							if r2.method != rNF && rKey(rRoute{"", r2.pattern}) == rKey(rRoute{"", r.pattern}) {
								shared = true
							}
							if r2.method != rNF && rKey(rRoute{"", r2.pattern}) != rKey(rRoute{"", r.pattern}) && rMatchQ(r2.pattern, rp) { // (as the router matches: a trailing parameter takes the rest)
								other = true
							}
						}
						onHandlerNode = onHandlerNode && shared && other
					}
				}
				ok, why = false, fmt.Sprintf("custom not-found route(s) %q cover %q but the answer is %s", cover, rp, o)
				if onHandlerNode {
					known = "known:router.nf_on_later_handler_node"
				}
			}
			cs := Case{In: L(I(0), rTableSx(rs), S(m), S(rp)), Out: o.sx(), Ok: ok, Why: why,
				Human: fmt.Sprintf("table [%s] %s %s -> %s", rShowTable(rs), m, path, o)}
			if o.status == 405 || o.status == 204 || o.status == 200 && rs[o.id].method == rNF || o.status == 404 && len(rs) >= 3 {
				cs.Key = fmt.Sprintf("%s|%s|%s", rShowTable(rs), m, path)
			}
			if known != "" {
				cs.Key = known
			}
			dist[fmt.Sprintf("status_%d", o.status)]++
			emit(cs)
		}
	}
}
