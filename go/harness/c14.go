package main

import (
	"errors"
	"fmt"
	"io"
	"math/rand"
	"net/http"
	"net/http/httptest"

	"github.com/labstack/echo/v4"
	"github.com/labstack/echo/v4/middleware"
)

// scripted underlying body: chunk sizes, where EOF is reported, optional injected error
type c14Body struct {
	data    []byte
	pos     int
	chunks  []int // max bytes returned by i-th underlying Read (cyclic)
	call    int
	eofWith bool // report EOF together with the last bytes
	failAt  int  // underlying call index at which a non-EOF error is returned (-1: never)
	log     [][2]int
	closed  bool
}

var errC14Other = errors.New("c14: injected read error")
var errC14Handler = echo.NewHTTPError(http.StatusBadRequest, "c14: handler failed")

func (b *c14Body) Read(p []byte) (int, error) {
	idx := b.call
	b.call++
	if idx == b.failAt {
		b.log = append(b.log, [2]int{0, 2})
		return 0, errC14Other
	}
	if b.pos >= len(b.data) {
		b.log = append(b.log, [2]int{0, 1})
		return 0, io.EOF
	}
	k := b.chunks[idx%len(b.chunks)]
	if k > len(p) {
		k = len(p)
	}
	if k > len(b.data)-b.pos {
		k = len(b.data) - b.pos
	}
	copy(p, b.data[b.pos:b.pos+k])
	b.pos += k
	if b.pos >= len(b.data) && b.eofWith {
		b.log = append(b.log, [2]int{k, 1})
		return k, io.EOF
	}
	b.log = append(b.log, [2]int{k, 0})
	return k, nil
}
func (b *c14Body) Close() error { b.closed = true; return nil }

func c14Limit(l int) string { return fmt.Sprintf("%dB", l) }

func init() {
	props["C14"] = &propRunner{gen: genC14, rule: "histories of 1-6 requests through ONE BodyLimit instance (pooled reader reuse); non-trivial = history in which some body is longer than L and is read past the limit, or an injected underlying error occurs; distinct by (L, per-request length class, chunking, read sizes)"}
}

var c14Echo = echo.New()

func genC14(rng *rand.Rand, n int, emit func(Case), dist map[string]int) {
	for it := 0; it < n; it++ {
		lim := []int{0, 1, 2, 5, 8, 16, 33, 100}[rng.Intn(8)]
		mw := middleware.BodyLimit(c14Limit(lim))
		if rng.Intn(4) == 0 {
			// a second, more generous instance closer to the handler (application-wide limit + route-level limit):
			// the stricter outer one still bounds what the handler can read
			outer, inner := mw, middleware.BodyLimit(c14Limit(4*lim+50))
			if rng.Intn(2) == 0 {
				outer, inner = inner, outer // the generous one in front, the strict one closer to the handler
			}
			mw = func(next echo.HandlerFunc) echo.HandlerFunc { return outer(inner(next)) }
			dist["stacked_instances"]++
		}
		e := c14Echo
		nreq := 1 + rng.Intn(6)
		var inReqs, outReqs []Sx
		ok := true
		why := ""
		nontriv := false
		key := fmt.Sprintf("L%d", lim)
		human := fmt.Sprintf("L=%d:", lim)
		for r := 0; r < nreq; r++ {
			var blen int
			switch rng.Intn(6) {
			case 0:
				blen = lim - 1
			case 1:
				blen = lim
			case 2:
				blen = lim + 1
			case 3:
				blen = 10*lim + 3
			case 4:
				blen = rng.Intn(2*lim + 2)
			default:
				blen = lim + 1 + rng.Intn(lim+3)
			}
			if blen < 0 {
				blen = 0
			}
			data := make([]byte, blen)
			rng.Read(data)
			// sometimes the handler does not read the body itself but lets net/http parse it as a form (c.FormParams): the
			// bytes then are urlencoded text, and the reads are those of the form parser, logged below the limiting reader
			formRead := rng.Intn(8) == 0
			if formRead {
				for i := range data {
					data[i] = 'a' + byte(i%26)
				}
				if blen >= 2 {
					data[1] = '='
				}
				dist["handler_reads_through_FormParams"]++
			}
			body := &c14Body{data: data, failAt: -1, eofWith: rng.Intn(2) == 0}
			for k := 1 + rng.Intn(3); k > 0; k-- {
				body.chunks = append(body.chunks, 1+rng.Intn(lim+4))
			}
			if rng.Intn(8) == 0 {
				body.failAt = rng.Intn(4)
			}
			declared := int64(blen)
			switch rng.Intn(5) {
			case 0:
				declared = -1 // unknown / chunked
			case 1:
				declared = int64(rng.Intn(blen + 1)) // understated
			case 2:
				if rng.Intn(3) == 0 {
					declared = int64(blen + 1 + rng.Intn(5)) // overstated
				}
			}
			var sizes []int
			for k := 1 + rng.Intn(3); k > 0; k-- {
				sizes = append(sizes, 1+rng.Intn(lim+6))
			}
			extra := rng.Intn(3) // reads after the first error
			handlerFails := rng.Intn(4) == 0
			maxReads := 400
			if rng.Intn(5) == 0 {
				maxReads = 1 + rng.Intn(3) // handler stops reading early
			}
			// handler
			var seen [][2]int
			var got []byte
			var formErr error
			ran := false
			h := func(c echo.Context) error {
				ran = true
				if formRead {
					lg := &c14LogReader{inner: c.Request().Body, seen: &seen, got: &got}
					c.Request().Body = lg
					_, formErr = c.FormParams()
					if handlerFails {
						return errC14Handler
					}
					return nil
				}
				rd := c.Request().Body
				after := -1
				for i := 0; i < maxReads; i++ {
					buf := make([]byte, sizes[i%len(sizes)])
					k, err := rd.Read(buf)
					code := 0
					if err == io.EOF {
						code = 1
					} else if he, isHE := err.(*echo.HTTPError); isHE && he.Code == http.StatusRequestEntityTooLarge {
						code = 3
					} else if err != nil {
						code = 2
					}
					seen = append(seen, [2]int{k, code})
					got = append(got, buf[:k]...)
					if code != 0 && after < 0 {
						after = extra
					}
					if after == 0 {
						break
					}
					if after > 0 {
						after--
					}
				}
				if handlerFails {
					return errC14Handler
				}
				return nil
			}
			method := []string{http.MethodPost, http.MethodPost, http.MethodPut, http.MethodPatch, http.MethodGet, http.MethodDelete, http.MethodOptions, http.MethodHead, "TRACE"}[rng.Intn(9)]
			if formRead {
				method = http.MethodPost
			}
			dist["method_"+method]++
			req := httptest.NewRequest(method, "/", nil) // (a body is legal with every method)
			if formRead {
				req.Header.Set(echo.HeaderContentType, echo.MIMEApplicationForm)
			}
			req.Body = body
			req.ContentLength = declared
			rec := httptest.NewRecorder()
			c := recycledContext(e, req, rec)
			err := mw(h)(c)
			rejected := false
			if err != nil {
				if he, isHE := err.(*echo.HTTPError); isHE && he.Code == http.StatusRequestEntityTooLarge && !ran {
					rejected = true
				} else if !(handlerFails && ran && err == errC14Handler) {
					ok, why = false, "middleware returned unexpected error"
				}
			}
			// model input: declared + what the underlying reader returned per call
			var ur []Sx
			for _, x := range body.log {
				ur = append(ur, L2(x[0], x[1]))
			}
			inReqs = append(inReqs, L(I64(declared), L(ur...)))
			var hr []Sx
			for _, x := range seen {
				hr = append(hr, L2(x[0], x[1]))
			}
			outReqs = append(outReqs, L(B(rejected), L(hr...)))
			// property predicate on the implementation's observables alone
			if declared > int64(lim) && ran {
				ok, why = false, "declared length above the limit reached the handler"
			}
			if ran && formRead && blen > lim && formErr == nil && body.failAt < 0 {
				ok, why = false, fmt.Sprintf("the handler parsed a %d-byte form (limit %d) through c.FormParams without any error", blen, lim)
			}
			if ran {
				before := 0
				saw413 := false
				cleanEOF := false
				for _, x := range seen {
					if x[1] == 3 {
						saw413 = true
					}
					if !saw413 {
						before += x[0]
						if x[1] == 1 {
							cleanEOF = true
						}
					} else if x[1] != 3 {
						ok, why = false, "read after 413 did not report 413"
					}
				}
				if before > lim {
					ok, why = false, "more than L bytes handed over before the first 413"
				}
				if blen > lim && cleanEOF {
					ok, why = false, "clean EOF on a body longer than the limit"
				}
				if blen <= lim && body.failAt < 0 {
					if saw413 {
						ok, why = false, "413 on a body within the limit"
					}
					if len(got) > len(data) || string(got) != string(data[:len(got)]) || (cleanEOF && len(got) != len(data)) {
						ok, why = false, "small body not delivered unchanged"
					}
				}
				if blen > lim && before > 0 && string(got[:before]) != string(data[:before]) {
					ok, why = false, "delivered prefix differs from the body"
				}
				if blen > lim && saw413 || body.failAt >= 0 {
					nontriv = true
				}
			}
			cls := "small"
			if blen > lim {
				cls = "long"
			}
			dist["req_"+cls]++
			if rejected {
				dist["rejected"]++
			}
			if body.failAt >= 0 {
				dist["injected_error"]++
			}
			if declared < 0 {
				dist["declared_unknown"]++
			} else if declared < int64(blen) {
				dist["declared_understated"]++
			}
			key += fmt.Sprintf("|%d,%d,%v,%v,%d", blen-lim, declared, body.chunks, sizes, body.failAt)
			human += fmt.Sprintf(" [len=%d declared=%d chunks=%v reads=%v rejected=%v seen=%v]", blen, declared, body.chunks, sizes, rejected, seen)
		}
		dist[fmt.Sprintf("history_len_%d", nreq)]++
		cs := Case{In: L(I(lim), L(inReqs...)), Out: L(outReqs...), Ok: ok, Why: why, Human: human}
		if nontriv {
			cs.Key = key
		}
		emit(cs)
	}
}

func L2(a, b int) Sx { return L(I(a), I(b)) }

// c14LogReader records what a reader ABOVE the limiting reader asks for and gets (the form parser of net/http)
type c14LogReader struct {
	inner io.ReadCloser
	seen  *[][2]int
	got   *[]byte
}

func (l *c14LogReader) Read(p []byte) (int, error) {
	k, err := l.inner.Read(p)
	code := 0
	if err == io.EOF {
		code = 1
	} else if he, isHE := err.(*echo.HTTPError); isHE && he.Code == http.StatusRequestEntityTooLarge {
		code = 3
	} else if err != nil {
		code = 2
	}
	*l.seen = append(*l.seen, [2]int{k, code})
	*l.got = append(*l.got, p[:k]...)
	return k, err
}
func (l *c14LogReader) Close() error { return l.inner.Close() }
