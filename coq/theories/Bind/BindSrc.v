(* The statement-level translation of DefaultBinder.Bind and DefaultBinder.BindBody (Gen/Src_bind.v, regenerated from bind.go
   on every run): which sources are consulted, in which order, and which decoder a media type selects.  (C09) *)
From Coq Require Import List ZArith Bool String Lia.
From Echo Require Import Base.GoLite Gen.Src_bind.
Import ListNotations.
Open Scope Z_scope.

(* named constants: the three methods whose query string is bound, the media types, nil *)
Definition bsym (s : string) : Z :=
  if String.eqb s "http.MethodGet" then 1
  else if String.eqb s "http.MethodDelete" then 2
  else if String.eqb s "http.MethodHead" then 3
  else if String.eqb s "MIMEApplicationJSON" then 11
  else if String.eqb s "MIMEApplicationXML" then 12
  else if String.eqb s "MIMETextXML" then 13
  else if String.eqb s "MIMEApplicationForm" then 14
  else if String.eqb s "MIMEMultipartForm" then 15
  else if String.eqb s "result of b.BindBody" then 100
  else if String.eqb s "ErrUnsupportedMediaType" then 415
  else if String.eqb s """form""" then 77
  else 0.                                                    (* nil and the rest *)

Definition names (st : state) : list string := map fst (events st).
Definition query_method (m : Z) : bool := (m =? 1) || (m =? 2) || (m =? 3).

Ltac bind_cases :=
  repeat (golite_eval; cbv [bsym]; golite_eval;
          match goal with
          | |- context [truthy ?x] => unfold truthy
          | |- context [if ?b then _ else _] => let E := fresh "E" in destruct b eqn:E
          end).

(* Bind: path parameters first; the query string only for GET / DELETE / HEAD; the body last - and nothing after the first
   source that fails.  [m] = the request method, [e1] / [e2] = the errors of the path / query binder (0 = nil). *)
Theorem src_bind_order m e1 e2 :
  let st := {| locals := [("i"%string, 0); ("c"%string, 0)]; fields := [("c.Request().Method"%string, m)]; events := [];
               inputs := [[e1]; [e2]] |} in
  let '(st', ret) := run bsym src_binder_bind_results src_binder_bind st in
  if negb (e1 =? 0) then names st' = ["b.BindPathParams"%string] /\ ret = [e1]
  else if query_method m then
    (if negb (e2 =? 0) then names st' = ["b.BindPathParams"; "b.BindQueryParams"]%string /\ ret = [e2]
     else names st' = ["b.BindPathParams"; "b.BindQueryParams"; "b.BindBody"]%string /\ ret = [100])
  else names st' = ["b.BindPathParams"; "b.BindBody"]%string /\ ret = [100].
Proof.
  unfold run, src_binder_bind, src_binder_bind_results, names, query_method.
  bind_cases; cbn in *; repeat split; try reflexivity; try congruence; try lia.
Qed.

(* BindBody: nothing at all for an empty body (Content-Length 0); otherwise the decoder is chosen by the media type alone:
   JSON -> the configured serializer, the two XML types -> encoding/xml, urlencoded and multipart forms -> bindData with the
   tag "form"; any other type is refused (415) without touching the destination.  [mt] = the media type, decoders succeed. *)
Definition decoder_calls (mt : Z) : list string :=
  if mt =? 11 then ["c.Echo().JSONSerializer.Deserialize"%string]
  else if (mt =? 12) || (mt =? 13) then ["xml.NewDecoder(req.Body).Decode"%string]
  else if mt =? 14 then ["c.FormParams"; "b.bindData"]%string
  else if mt =? 15 then ["c.MultipartForm"; "b.bindData"]%string
  else [].

Theorem src_bindbody_dispatch cl mt :
  let st := {| locals := [("i"%string, 0); ("c"%string, 0); ("err"%string, 0)]; fields := [("req.ContentLength"%string, cl)]; events := [];
               inputs := [[9; 0; 0]; [mt]; [0; 0]; [0]] |} in
  let '(st', ret) := run bsym src_binder_bindbody_results src_binder_bindbody st in
  if cl =? 0 then events st' = [] /\ ret = [0]
  else names st' = (["strings.Cut"; "strings.TrimSpace"] ++ decoder_calls mt)%list%string /\
       ret = [if (mt =? 11) || (mt =? 12) || (mt =? 13) || (mt =? 14) || (mt =? 15) then 0 else 415] /\
       (forall args, In ("b.bindData"%string, args) (events st') -> nth 2 args 0 = 77).
Proof.
  unfold run, src_binder_bindbody, src_binder_bindbody_results, names, decoder_calls.
  bind_cases; cbn in *; repeat split; try reflexivity; try congruence; try lia;
    intros args H; repeat (destruct H as [H|H]; [inversion H; subst; try reflexivity|]); try contradiction.
Qed.

(* ---- the single-source binders: each hands bindData ITS source under ITS tag - the query values under "query", the request
   headers under "header" -, once, and turns a failure into a 400.  [sym] is arbitrary: the statement is about which constants
   reach bindData, whatever they denote. *)
Section Single.
Variable sym : string -> Z.
Variables (dst err : Z).
Definition single_start : state := {| locals := [("i"%string, dst); ("c"%string, 0)]; fields := []; events := []; inputs := [[err]] |}.
Definition bad_request : Z := sym "NewHTTPError(http.StatusBadRequest,err.Error()).SetInternal(err)".

Theorem src_bind_query_params_spec :
  let '(st', ret) := run sym src_binder_bindqueryparams_results src_binder_bindqueryparams single_start in
  events st' = [("b.bindData"%string, [dst; sym "c.QueryParams()"; sym """query"""; sym "nil"])] /\
  ret = [if err =? sym "nil" then sym "nil" else bad_request].
Proof.
  unfold run, src_binder_bindqueryparams, src_binder_bindqueryparams_results, single_start, bad_request.
  golite_eval. unfold truthy. golite_eval. destruct (err =? sym "nil"); golite_eval; split; reflexivity.
Qed.
Theorem src_bind_headers_spec :
  let '(st', ret) := run sym src_binder_bindheaders_results src_binder_bindheaders single_start in
  events st' = [("b.bindData"%string, [dst; sym "c.Request().Header"; sym """header"""; sym "nil"])] /\
  ret = [if err =? sym "nil" then sym "nil" else bad_request].
Proof.
  unfold run, src_binder_bindheaders, src_binder_bindheaders_results, single_start, bad_request.
  golite_eval. unfold truthy. golite_eval. destruct (err =? sym "nil"); golite_eval; split; reflexivity.
Qed.
End Single.
