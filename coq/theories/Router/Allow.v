From Coq Require Import List Arith Bool Ascii String Lia Permutation.
Import ListNotations.
From Echo.Router Require Import Spec2 Fuel Complete.
Open Scope char_scope.

(* ---------- C03 on the specification: the 405 candidate is truthful ---------- *)
Definition is_prefix_of (a b : list tok) : Prop := exists d, b = a ++ d.

Lemma orelse_miss r k b : orelse r k = Miss b -> exists b0, r = Miss b0 /\ k b0 = Miss b.
Proof. destruct r; simpl; [discriminate|]. eauto. Qed.

Lemma orelse_miss_intro r k b0 b : r = Miss b0 -> k b0 = Miss b -> orelse r k = Miss b.
Proof. intros -> H. exact H. Qed.

(* B: once a candidate is recorded it is never replaced *)
Lemma search_keeps_best : forall f m pre ls p vals b0 b, search f m pre ls p vals (Some b0) = Miss b -> b = Some b0.
Proof.
  induction f as [|f IH]; intros m pre ls p vals b0 b H; [inversion H; reflexivity|].
  cbn [search] in H.
  apply orelse_miss in H. destruct H as [b1 [E1 H]].
  assert (b1 = Some b0).
  { unfold end_check in E1. destruct p; [|inversion E1; reflexivity].
    destruct (is_handler (terminals ls)).
    - destruct (find_m (terminals ls) m); [discriminate|]. inversion E1; reflexivity.
    - destruct (find_m (terminals ls) NF); [discriminate|]. inversion E1; reflexivity. }
  subst b1. apply orelse_miss in H. destruct H as [b2 [E2 H]].
  assert (b2 = Some b0).
  { destruct p as [|c p']; [inversion E2; reflexivity|]. cbn zeta in E2.
    destruct (nonempty (advance (TLit c) ls)); [eapply IH; eauto|inversion E2; reflexivity]. }
  subst b2. apply orelse_miss in H. destruct H as [b3 [E3 H]].
  assert (b3 = Some b0).
  { destruct p as [|c p']; [inversion E3; reflexivity|]. cbn zeta in E3.
    destruct (nonempty (advance TParam ls)); [eapply IH; eauto|inversion E3; reflexivity]. }
  subst b3. unfold any_step in H. destruct (nonempty (advance TAny ls)); [|inversion H; reflexivity].
  cbn zeta in H. destruct (find_m (map fst (advance TAny ls)) m); [discriminate|].
  cbn [set_best] in H. destruct (find_m (map fst (advance TAny ls)) NF); [discriminate|]. inversion H; reflexivity.
Qed.

(* the steps that do not look at the request method *)
Lemma end_check_none_indep m m' pre term p vals :
  end_check m pre term p vals None = Miss None -> end_check m' pre term p vals None = Miss None.
Proof. unfold end_check. destruct p; auto. destruct (is_handler term).
  - destruct (find_m term m); [discriminate|]. intros H. inversion H.
  - auto. Qed.

(* A: a total miss is independent of the method *)
Lemma search_none_indep : forall f m m' pre ls p vals,
  search f m pre ls p vals None = Miss None -> search f m' pre ls p vals None = Miss None.
Proof.
  induction f as [|f IH]; intros m m' pre ls p vals H; [reflexivity|].
  cbn [search] in *.
  apply orelse_miss in H. destruct H as [b1 [E1 H]].
  destruct b1 as [b1|].
  { (* candidate recorded at this level: the final result cannot be Miss None *)
    exfalso. apply orelse_miss in H. destruct H as [b2 [E2 H]].
    assert (b2 = Some b1).
    { destruct p as [|c p']; [inversion E2; reflexivity|]. cbn zeta in E2.
      destruct (nonempty (advance (TLit c) ls)); [eapply search_keeps_best; eauto|inversion E2; reflexivity]. }
    subst b2. apply orelse_miss in H. destruct H as [b3 [E3 H]].
    assert (b3 = Some b1).
    { destruct p as [|c p']; [inversion E3; reflexivity|]. cbn zeta in E3.
      destruct (nonempty (advance TParam ls)); [eapply search_keeps_best; eauto|inversion E3; reflexivity]. }
    subst b3. unfold any_step in H. destruct (nonempty (advance TAny ls)); [|discriminate].
    cbn zeta in H. destruct (find_m (map fst (advance TAny ls)) m); [discriminate|]. cbn [set_best] in H.
    destruct (find_m (map fst (advance TAny ls)) NF); discriminate. }
  apply (orelse_miss_intro _ _ None); [apply (end_check_none_indep m m'); exact E1|].
  apply orelse_miss in H. destruct H as [b2 [E2 H]].
  destruct b2 as [b2|].
  { exfalso. apply orelse_miss in H. destruct H as [b3 [E3 H]].
    assert (b3 = Some b2).
    { destruct p as [|c p']; [inversion E3; reflexivity|]. cbn zeta in E3.
      destruct (nonempty (advance TParam ls)); [eapply search_keeps_best; eauto|inversion E3; reflexivity]. }
    subst b3. unfold any_step in H. destruct (nonempty (advance TAny ls)); [|discriminate].
    cbn zeta in H. destruct (find_m (map fst (advance TAny ls)) m); [discriminate|]. cbn [set_best] in H.
    destruct (find_m (map fst (advance TAny ls)) NF); discriminate. }
  apply (orelse_miss_intro _ _ None).
  { destruct p as [|c p']; [reflexivity|]. cbn zeta in *. destruct (nonempty (advance (TLit c) ls)); [eapply IH; eauto|reflexivity]. }
  apply orelse_miss in H. destruct H as [b3 [E3 H]].
  destruct b3 as [b3|].
  { exfalso. unfold any_step in H. destruct (nonempty (advance TAny ls)); [|discriminate].
    cbn zeta in H. destruct (find_m (map fst (advance TAny ls)) m); [discriminate|]. cbn [set_best] in H.
    destruct (find_m (map fst (advance TAny ls)) NF); discriminate. }
  apply (orelse_miss_intro _ _ None).
  { destruct p as [|c p']; [reflexivity|]. cbn zeta in *. destruct (nonempty (advance TParam ls)); [eapply IH; eauto|reflexivity]. }
  unfold any_step in *. destruct (nonempty (advance TAny ls)); [|reflexivity].
  cbn zeta in H. destruct (find_m (map fst (advance TAny ls)) m); [discriminate|]. cbn [set_best] in H.
  destruct (find_m (map fst (advance TAny ls)) NF); discriminate.
Qed.
Print Assumptions search_none_indep.

(* C: a candidate recorded by a search started at `pre` extends `pre` *)
Lemma search_best_extends : forall f m pre ls p vals b,
  search f m pre ls p vals None = Miss (Some b) -> is_prefix_of pre b.
Proof.
  induction f as [|f IH]; intros m pre ls p vals b H; [discriminate|].
  cbn [search] in H.
  apply orelse_miss in H. destruct H as [b1 [E1 H]].
  assert (Hb1 : b1 = None \/ b1 = Some pre).
  { unfold end_check in E1. destruct p; [|inversion E1; auto]. destruct (is_handler (terminals ls)).
    - destruct (find_m (terminals ls) m); [discriminate|]. inversion E1; auto.
    - destruct (find_m (terminals ls) NF); [discriminate|]. inversion E1; auto. }
  assert (Hkeep : forall b0, b1 = Some b0 -> b = b0).
  { intros b0 ->. apply orelse_miss in H. destruct H as [b2 [E2 H]].
    assert (b2 = Some b0).
    { destruct p as [|c p']; [inversion E2; reflexivity|]. cbn zeta in E2.
      destruct (nonempty (advance (TLit c) ls)); [eapply search_keeps_best; eauto|inversion E2; reflexivity]. }
    subst b2. apply orelse_miss in H. destruct H as [b3 [E3 H]].
    assert (b3 = Some b0).
    { destruct p as [|c p']; [inversion E3; reflexivity|]. cbn zeta in E3.
      destruct (nonempty (advance TParam ls)); [eapply search_keeps_best; eauto|inversion E3; reflexivity]. }
    subst b3. unfold any_step in H. destruct (nonempty (advance TAny ls)); [|inversion H; reflexivity].
    cbn zeta in H. destruct (find_m (map fst (advance TAny ls)) m); [discriminate|]. cbn [set_best] in H.
    destruct (find_m (map fst (advance TAny ls)) NF); [discriminate|]. inversion H; reflexivity. }
  destruct Hb1 as [->| ->].
  2:{ rewrite (Hkeep pre eq_refl). exists []. rewrite app_nil_r. reflexivity. }
  clear Hkeep.
  apply orelse_miss in H. destruct H as [b2 [E2 H]].
  destruct b2 as [b2|].
  { assert (b = b2).
    { apply orelse_miss in H. destruct H as [b3 [E3 H]].
      assert (b3 = Some b2).
      { destruct p as [|c p']; [inversion E3; reflexivity|]. cbn zeta in E3.
        destruct (nonempty (advance TParam ls)); [eapply search_keeps_best; eauto|inversion E3; reflexivity]. }
      subst b3. unfold any_step in H. destruct (nonempty (advance TAny ls)); [|inversion H; reflexivity].
      cbn zeta in H. destruct (find_m (map fst (advance TAny ls)) m); [discriminate|]. cbn [set_best] in H.
      destruct (find_m (map fst (advance TAny ls)) NF); [discriminate|]. inversion H; reflexivity. }
    subst b2. destruct p as [|c p']; [discriminate|]. cbn zeta in E2.
    destruct (nonempty (advance (TLit c) ls)); [|discriminate].
    destruct (IH _ _ _ _ _ _ E2) as [d Hd]. exists ([TLit c] ++ d). rewrite Hd, <- app_assoc. reflexivity. }
  apply orelse_miss in H. destruct H as [b3 [E3 H]].
  destruct b3 as [b3|].
  { assert (b = b3).
    { unfold any_step in H. destruct (nonempty (advance TAny ls)); [|inversion H; reflexivity].
      cbn zeta in H. destruct (find_m (map fst (advance TAny ls)) m); [discriminate|]. cbn [set_best] in H.
      destruct (find_m (map fst (advance TAny ls)) NF); [discriminate|]. inversion H; reflexivity. }
    subst b3. destruct p as [|c p']; [discriminate|]. cbn zeta in E3.
    destruct (nonempty (advance TParam ls)); [|discriminate].
    destruct (IH _ _ _ _ _ _ E3) as [d Hd]. exists ([TParam] ++ d). rewrite Hd, <- app_assoc. reflexivity. }
  unfold any_step in H. destruct (nonempty (advance TAny ls)); [|discriminate].
  cbn zeta in H. destruct (find_m (map fst (advance TAny ls)) m); [discriminate|]. cbn [set_best] in H.
  destruct (find_m (map fst (advance TAny ls)) NF); [discriminate|]. inversion H; subst. exists [TAny]. reflexivity.
Qed.

(* a live entry whose full token list extends pre ++ [t] is in the advanced set *)
Lemma in_advance_of_prefix t pre ls r rem d :
  live_ok pre ls -> In (r, rem) ls -> r_toks r = (pre ++ [t]) ++ d -> In (r, d) (advance t ls).
Proof.
  intros Hok Hin Ht. unfold live_ok in Hok. rewrite Forall_forall in Hok. pose proof (Hok _ Hin) as E. simpl in E.
  rewrite Ht, <- app_assoc in E. apply app_inv_head in E. simpl in E. subst rem. apply in_advance. exact Hin.
Qed.

Lemma orelse_skip r k b0 : r = Miss b0 -> is_found (k b0) -> is_found (orelse r k).
Proof. intros -> H. exact H. Qed.

(* C03: every method advertised by the 405 candidate is really served *)
Theorem allow_truthful : forall f m m' pre ls p vals b r' rem,
  m' <> NF -> live_ok pre ls ->
  search f m pre ls p vals None = Miss (Some b) ->
  In (r', rem) ls -> r_toks r' = b -> r_method r' = m' ->
  is_found (search f m' pre ls p vals None).
Proof.
  induction f as [|f IH]; intros m m' pre ls p vals b r' rem Hm' Hok H Hin Ht Hr'; [discriminate|].
  cbn [search] in *.
  apply orelse_miss in H. destruct H as [b1 [E1 H]].
  destruct b1 as [b1|].
  - (* candidate recorded right here: r' is a terminal of this position *)
    assert (Hb : b = b1).
    { apply orelse_miss in H. destruct H as [b2 [E2 H]].
      assert (b2 = Some b1).
      { destruct p as [|c p']; [inversion E2; reflexivity|]. cbn zeta in E2.
        destruct (nonempty (advance (TLit c) ls)); [eapply search_keeps_best; eauto|inversion E2; reflexivity]. }
      subst b2. apply orelse_miss in H. destruct H as [b3 [E3 H]].
      assert (b3 = Some b1).
      { destruct p as [|c p']; [inversion E3; reflexivity|]. cbn zeta in E3.
        destruct (nonempty (advance TParam ls)); [eapply search_keeps_best; eauto|inversion E3; reflexivity]. }
      subst b3. unfold any_step in H. destruct (nonempty (advance TAny ls)); [|inversion H; reflexivity].
      cbn zeta in H. destruct (find_m (map fst (advance TAny ls)) m); [discriminate|]. cbn [set_best] in H.
      destruct (find_m (map fst (advance TAny ls)) NF); [discriminate|]. inversion H; reflexivity. }
    subst b1. apply orelse_found_l. unfold end_check in *. destruct p; [|discriminate].
    destruct (is_handler (terminals ls)) eqn:Eh.
    + destruct (find_m (terminals ls) m); [discriminate|]. inversion E1 as [Eb]. 
      assert (Hrem : rem = []).
      { unfold live_ok in Hok. rewrite Forall_forall in Hok. pose proof (Hok _ Hin) as E. simpl in E. rewrite Ht, <- Eb in E.
        rewrite <- (app_nil_r pre) in E at 1. apply app_inv_head in E. auto. }
      subst rem. destruct (find_m_some (terminals ls) m' r' (in_term ls r' Hin) Hr') as [x ->]. exact I.
    + destruct (find_m (terminals ls) NF); [discriminate|]. discriminate.
  - apply (orelse_skip _ _ None); [eapply end_check_none_indep; eauto|].
    apply orelse_miss in H. destruct H as [b2 [E2 H]].
    destruct b2 as [b2|].
    + (* recorded inside the literal branch *)
      assert (Hb : b = b2).
      { apply orelse_miss in H. destruct H as [b3 [E3 H]].
        assert (b3 = Some b2).
        { destruct p as [|c p']; [inversion E3; reflexivity|]. cbn zeta in E3.
          destruct (nonempty (advance TParam ls)); [eapply search_keeps_best; eauto|inversion E3; reflexivity]. }
        subst b3. unfold any_step in H. destruct (nonempty (advance TAny ls)); [|inversion H; reflexivity].
        cbn zeta in H. destruct (find_m (map fst (advance TAny ls)) m); [discriminate|]. cbn [set_best] in H.
        destruct (find_m (map fst (advance TAny ls)) NF); [discriminate|]. inversion H; reflexivity. }
      subst b2. apply orelse_found_l. destruct p as [|c p']; [discriminate|]. cbn zeta in *.
      destruct (nonempty (advance (TLit c) ls)); [|discriminate].
      destruct (search_best_extends _ _ _ _ _ _ _ E2) as [d Hd].
      eapply (IH m m' _ _ _ _ b r' d); eauto using advance_ok.
      eapply in_advance_of_prefix; eauto. rewrite Ht. exact Hd.
    + apply (orelse_skip _ _ None).
      { destruct p as [|c p']; [reflexivity|]. cbn zeta in *. destruct (nonempty (advance (TLit c) ls)); [eapply search_none_indep; eauto|reflexivity]. }
      apply orelse_miss in H. destruct H as [b3 [E3 H]].
      destruct b3 as [b3|].
      * (* recorded inside the parameter branch *)
        assert (Hb : b = b3).
        { unfold any_step in H. destruct (nonempty (advance TAny ls)); [|inversion H; reflexivity].
          cbn zeta in H. destruct (find_m (map fst (advance TAny ls)) m); [discriminate|]. cbn [set_best] in H.
          destruct (find_m (map fst (advance TAny ls)) NF); [discriminate|]. inversion H; reflexivity. }
        subst b3. apply orelse_found_l. destruct p as [|c p']; [discriminate|]. cbn zeta in *.
        destruct (nonempty (advance TParam ls)); [|discriminate].
        destruct (search_best_extends _ _ _ _ _ _ _ E3) as [d Hd].
        eapply (IH m m' _ _ _ _ b r' d); eauto using advance_ok.
        eapply in_advance_of_prefix; eauto. rewrite Ht. exact Hd.
      * apply (orelse_skip _ _ None).
        { destruct p as [|c p']; [reflexivity|]. cbn zeta in *. destruct (nonempty (advance TParam ls)); [eapply search_none_indep; eauto|reflexivity]. }
        (* recorded at the wildcard node *)
        unfold any_step in *. destruct (nonempty (advance TAny ls)); [|discriminate]. cbn zeta in *.
        destruct (find_m (map fst (advance TAny ls)) m); [discriminate|]. cbn [set_best] in H.
        destruct (find_m (map fst (advance TAny ls)) NF); [discriminate|]. inversion H as [Eb].
        assert (Hinr : In r' (map fst (advance TAny ls))).
        { apply in_map_iff. exists (r', []). split; auto. eapply in_advance_of_prefix; eauto. rewrite Ht, <- Eb, app_nil_r. reflexivity. }
        destruct (find_m_some _ m' r' Hinr Hr') as [x ->]. exact I.
Qed.
Print Assumptions allow_truthful.
