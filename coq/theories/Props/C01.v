(* C01 — a dispatched route really matches the path; params reconstruct it.
   Statements only; proofs in Router/Sound.v and Router/Build.v.  [subst toks vals] instantiates a parsed
   pattern (literal bytes, one value per :param, the rest for the trailing wildcard).
   Domain: escape-free patterns ([wf_toks]: leading "/", no literal ':' or '*', '*' last) without
   structural duplicates; tables with an escaped colon colliding with a parameter are the known
   finding D3 (see DESIGN). *)
From Coq Require Import List Arith Bool Ascii String Permutation.
From Echo.Router Require Import Spec2 Fuel Refine Insert InsProof Walk Live Toks Build Sound Top.
Import ListNotations.

(* on the order-free specification, for every live set (table), method and path *)
Theorem C01_spec_sound : forall f m ls p r v,
  live_ok [] ls -> any_last ls -> search f m [] ls p [] None = Found r v -> subst (r_toks r) v = Some p.
Proof. exact spec_sound. Qed.
Print Assumptions C01_spec_sound.

(* on echo's radix tree built by replaying Router.insert's insertNode calls, in any registration order *)
Theorem C01_instance : forall rs m p r v, wf_table rs ->
  dispatch (build rs) m p = Found r v -> subst (r_toks r) v = Some p.
Proof. exact instance_sound. Qed.
Print Assumptions C01_instance.
