From Coq Require Extraction.
From Coq Require Import ExtrOcamlBasic.
From Echo Require Import Glue.G20.
Extraction "extracted/m20.ml" G20.run_sx.
