(* C15 — Gzip is transparent to handler and client.  Statements only; proofs in Mw/GzipProofs.v.
   The gzip codec is abstract: a stream decodes to exactly the bytes fed to it iff it was closed
   (DEFLATE itself is compress/gzip's).  Requests with Accept-Encoding lacking gzip bypass the writer.
   Decompress (request side) and real concurrency are checked differentially only (partial). *)
From Coq Require Import List Arith Bool.
From Echo Require Import Mw.Gzip Mw.GzipProofs.
Import ListNotations.
From Echo Require Import PropLemmas.C15.

(* for every handler program over {WriteHeader, Write chunk, Flush}, every MinLength, every content of
   the recycled buffer and whether or not the handler had set a Content-Length: a client undoing the
   advertised Content-Encoding recovers exactly the bytes written, with the status the handler chose;
   Content-Encoding: gzip is present exactly when the body is a gzip stream; no Content-Length survives
   next to it; every Write reports the length of its chunk *)
Theorem C15_roundtrip : forall minlen pooled cl ops,
  let '(w, ns) := request minlen pooled cl ops in
  decode w = Some (payload ops) /\ w_status w = chosen_status ops /\
  (w_ce w = true <-> w_gz_open w = true) /\ (w_ce w = true -> w_cl w = false) /\
  ns = map op_count ops.
Proof. exact roundtrip. Qed.
Print Assumptions C15_roundtrip.

(* recycled buffers never leak bytes between requests *)
Theorem C15_pool_clean : forall minlen p1 p2 cl ops, request minlen p1 cl ops = request minlen p2 cl ops.
Proof. exact pool_clean. Qed.
Print Assumptions C15_pool_clean.

(* body-less responses stay empty (as decoded) *)
Theorem C15_bodyless_empty : forall minlen pooled cl ops, payload ops = [] ->
  decode (fst (request minlen pooled cl ops)) = Some [].
Proof. exact C15_bodyless_empty_l. Qed.
Print Assumptions C15_bodyless_empty.

(* non-vacuity: threshold crossed by the second chunk, flush before any body, header only *)
Example C15_example :
  decode (fst (request 5 [9;9] true [WriteHeader 201; Write [1;2;3]; Write [4;5;6]; Flush; Write [7]])) = Some [1;2;3;4;5;6;7] /\
  snd (request 5 [] false [Write [1;2;3]; Write [4;5;6]]) = [3; 3] /\
  w_ce (fst (request 5 [] false [Flush])) = true /\ w_ce (fst (request 5 [] false [WriteHeader 204])) = false /\
  w_ce (fst (request 5 [] false [Write [1]])) = false.
Proof. vm_compute. repeat split. Qed.

(* Decompress: bodies that are not labelled gzip reach the handler untouched, whatever they contain (also bytes that
   happen to look like a gzip stream); a labelled body is what the gzip reader makes of it *)
Theorem C15_decompress_untouched : forall sent gunzip, decompress false sent gunzip = Some sent.
Proof. exact decompress_untouched. Qed.
Print Assumptions C15_decompress_untouched.

Theorem C15_decompress_gzip : forall sent gunzip, sent <> [] -> decompress true sent gunzip = gunzip sent.
Proof. exact decompress_gzip. Qed.
Print Assumptions C15_decompress_gzip.

