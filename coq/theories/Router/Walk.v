From Coq Require Import List Arith Bool Ascii String Lia Permutation.
Import ListNotations.
From Echo.Router Require Import Spec2 Fuel Refine Insert InsProof.
Open Scope char_scope.

Definition child_by_label (c : ascii) (n : node) : option node :=
  if existsb (has_label c) (n_st n) then List.find (has_label c) (n_st n)
  else if Ascii.eqb c colon then n_pc n else if Ascii.eqb c star then n_ac n else None.

(* the string s is matched exactly by a path of the tree starting with n's own prefix, ending at a node end *)
Fixpoint walk (fuel : nat) (n : node) (s : str) : option kind :=
  match fuel with 0 => None | S f =>
  let l := lcp s (n_pfx n) in
  if Nat.eqb l (List.length (n_pfx n)) then
    match skipn l s with
    | [] => Some (n_kind n)
    | c :: _ => match child_by_label c n with Some ch => walk f ch (skipn l s) | None => None end
    end
  else None
  end.

Lemma special_colon : special colon = true. Proof. reflexivity. Qed.
Lemma special_star : special star = true. Proof. reflexivity. Qed.

Lemma clean_hd_not_special c s : cleanstr (c :: s) -> special c = false.
Proof. inversion 1; auto. Qed.

Lemma has_label_pfx c ch : has_label c ch = true -> exists r, n_pfx ch = c :: r.
Proof. unfold has_label, label. destruct (n_pfx ch) as [|x r]; simpl; [discriminate|]. intros H. apply Ascii.eqb_eq in H. subst. eauto. Qed.

Lemma WF0_static_labels_clean n c : WF0 n -> special c = true -> existsb (has_label c) (n_st n) = false.
Proof.
  intros H Hs. destruct (existsb (has_label c) (n_st n)) eqn:E; [|reflexivity]. exfalso.
  apply existsb_exists in E. destruct E as [ch [Hin Hl]].
  inversion H as [k pfx ms nf st pc ac G1 G2 G3 G4 G5 G6 G7 G8 G9 G10]; subst. simpl in Hin.
  rewrite Forall_forall in G7. destruct (G7 ch Hin) as [Hw Hk].
  pose proof (WF0_clean_pfx ch Hw Hk) as Hc. destruct (has_label_pfx c ch Hl) as [r Er]. rewrite Er in Hc.
  apply clean_hd_not_special in Hc. congruence.
Qed.

Lemma lcp_cons_pos c r s : 0 < lcp (c :: s) (c :: r).
Proof. simpl. rewrite Ascii.eqb_refl. lia. Qed.

Lemma kind_len1 n : WF0 n -> n_kind n <> KS -> List.length (n_pfx n) = 1.
Proof. inversion 1 as [k pfx ms nf st pc ac G1 G2 G3 G4]; subst. simpl. destruct k; try congruence; intros _.
  - rewrite G3; auto.
  - destruct G4 as [-> _]; auto. Qed.

Lemma skipn_cons_len {A} l (s : list A) c r : skipn l s = c :: r -> l < List.length s.
Proof. intros H. assert (List.length (skipn l s) = S (List.length r)) by (rewrite H; reflexivity). rewrite skipn_length in H0. lia. Qed.

Lemma WF0_child_st n ch : WF0 n -> In ch (n_st n) -> WF0 ch /\ n_kind ch = KS.
Proof. inversion 1; subst; simpl. intros Hin. rewrite Forall_forall in *. auto. Qed.
Lemma WF0_child_pc n ch : WF0 n -> n_pc n = Some ch -> WF0 ch /\ n_kind ch = KP.
Proof. inversion 1; subst; simpl; auto. Qed.
Lemma WF0_child_ac n ch : WF0 n -> n_ac n = Some ch -> WF0 ch /\ n_kind ch = KA.
Proof. inversion 1; subst; simpl; auto. Qed.
Lemma WF0_pfx_ne n : WF0 n -> n_pfx n <> [].
Proof. inversion 1; subst; simpl; auto. Qed.

(* a clean string can always be inserted as static text *)
Lemma insOK_clean : forall f n s, List.length s < f -> WF0 n -> cleanstr s -> 0 < lcp s (n_pfx n) -> InsOK n s KS.
Proof.
  induction f as [|f IH]; intros n s Hf Hwf Hc Hpos; [lia|].
  pose proof (lcp_le_l s (n_pfx n)) as Hl1. pose proof (lcp_le_r s (n_pfx n)) as Hl2.
  destruct (Nat.lt_ge_cases (lcp s (n_pfx n)) (List.length (n_pfx n))) as [Hlt|Hge].
  - assert (Hk : n_kind n = KS).
    { destruct (n_kind n) eqn:E; auto; pose proof (kind_len1 n Hwf ltac:(congruence)); lia. }
    destruct (Nat.eq_dec (lcp s (n_pfx n)) (List.length s)) as [He|Hne].
    + apply IO_split_here; auto.
    + apply IO_split_new; auto; [lia|]. apply clean_skipn. exact Hc.
  - assert (Hl : lcp s (n_pfx n) = List.length (n_pfx n)) by lia.
    destruct (skipn (lcp s (n_pfx n)) s) as [|c rest] eqn:Es.
    + apply IO_here; auto. assert (List.length (skipn (lcp s (n_pfx n)) s) = 0) by (rewrite Es; reflexivity).
      rewrite skipn_length in H. lia.
    + assert (Hcr : cleanstr (c :: rest)) by (rewrite <- Es; apply clean_skipn; exact Hc).
      pose proof (clean_hd_not_special c rest Hcr) as Hsp.
      destruct (List.find (has_label c) (n_st n)) as [ch|] eqn:Ef.
      * destruct (find_some _ _ Ef) as [Hin Hlab]. destruct (has_label_pfx c ch Hlab) as [r Er].
        eapply IO_desc_st; eauto. apply (IH ch (c :: rest)).
        -- pose proof (skipn_cons_len _ _ _ _ Es). assert (List.length (c :: rest) = List.length s - lcp s (n_pfx n)) by (rewrite <- Es, skipn_length; reflexivity). lia.
        -- apply (WF0_child_st n ch Hwf Hin).
        -- exact Hcr.
        -- rewrite Er. apply lcp_cons_pos.
      * assert (Hex : existsb (has_label c) (n_st n) = false).
        { destruct (existsb (has_label c) (n_st n)) eqn:E; auto. apply existsb_exists in E. destruct E as [x [Hx Hlx]].
          pose proof (find_none _ _ Ef x Hx). congruence. }
        eapply IO_new; eauto.
        -- intros ->. rewrite special_colon in Hsp. discriminate.
        -- intros ->. rewrite special_star in Hsp. discriminate.
        -- intros Hka. inversion Hwf as [k pfx ms nf st pc ac G1 G2 G3 G4]; subst. simpl in *. subst k.
           destruct (G4 eq_refl) as [-> _]. destruct s as [|x s]; simpl in Hpos; [lia|].
           destruct (Ascii.eqb x star) eqn:Ex; [|lia]. apply Ascii.eqb_eq in Ex. subst x.
           apply clean_hd_not_special in Hc. rewrite special_star in Hc. discriminate.
Qed.

Lemma lcp_app_full s0 x p : lcp s0 p = List.length p -> lcp (s0 ++ x) p = List.length p.
Proof. revert p. induction s0 as [|a s0 IH]; intros [|b p]; simpl; auto; try discriminate.
  - destruct x; reflexivity.
  - destruct (Ascii.eqb a b); [|discriminate]. intros H. f_equal. apply IH. lia. Qed.

Lemma skipn_app_le {A} l (a b : list A) : l <= List.length a -> skipn l (a ++ b) = skipn l a ++ b.
Proof. revert a. induction l; intros [|x a]; simpl; try lia; auto. intros. apply IHl. lia. Qed.

Lemma child_by_label_cases c n ch : WF0 n -> child_by_label c n = Some ch ->
  (List.find (has_label c) (n_st n) = Some ch) \/
  (c = colon /\ existsb (has_label colon) (n_st n) = false /\ n_pc n = Some ch) \/
  (c = star /\ existsb (has_label star) (n_st n) = false /\ n_ac n = Some ch).
Proof.
  intros Hwf. unfold child_by_label. destruct (existsb (has_label c) (n_st n)) eqn:E; [auto|].
  destruct (Ascii.eqb c colon) eqn:Ec.
  - apply Ascii.eqb_eq in Ec. subst. auto.
  - destruct (Ascii.eqb c star) eqn:Ea; [|discriminate]. apply Ascii.eqb_eq in Ea. subst. auto.
Qed.

Lemma child_wf c n ch : WF0 n -> child_by_label c n = Some ch -> WF0 ch /\ exists r, n_pfx ch = c :: r.
Proof.
  intros Hwf Hc. destruct (child_by_label_cases c n ch Hwf Hc) as [Hf|[[-> [_ Hp]]|[-> [_ Ha]]]].
  - destruct (find_some _ _ Hf) as [Hin Hl]. split; [apply (WF0_child_st n ch Hwf Hin)|apply has_label_pfx; auto].
  - destruct (WF0_child_pc n ch Hwf Hp) as [Hw Hk]. split; auto.
    inversion Hw as [k pfx ms nf st pc ac G1 G2 G3 G4]; subst. simpl in Hk. subst. exists []. simpl. auto.
  - destruct (WF0_child_ac n ch Hwf Ha) as [Hw Hk]. split; auto.
    inversion Hw as [k pfx ms nf st pc ac G1 G2 G3 G4]; subst. simpl in Hk. subst. exists []. simpl. destruct (G4 eq_refl) as [-> _]. auto.
Qed.

(* what may be appended after an existing boundary *)
Definition ext_ok (t : kind) (x : str) : Prop :=
  match t with KS => cleanstr x | KP => x = [colon] | KA => x = [star] end.

Lemma insOK_ext_here : forall f n x t, List.length x < f -> WF0 n -> n_kind n <> KA -> ext_ok t x -> x <> [] ->
  InsOK n (n_pfx n ++ x) t.
Proof.
  intros f n x t Hf Hwf Hka Hext Hx.
  assert (Hp := WF0_pfx_ne n Hwf).
  assert (Hl : lcp (n_pfx n ++ x) (n_pfx n) = List.length (n_pfx n)).
  { apply lcp_app_full. clear. induction (n_pfx n); simpl; auto. rewrite Ascii.eqb_refl. lia. }
  assert (Hpos : 0 < lcp (n_pfx n ++ x) (n_pfx n)) by (rewrite Hl; destruct (n_pfx n); simpl; [congruence|lia]).
  assert (Hs : skipn (lcp (n_pfx n ++ x) (n_pfx n)) (n_pfx n ++ x) = x).
  { rewrite Hl, skipn_app_le, skipn_all by lia. reflexivity. }
  destruct x as [|c rest]; [congruence|].
  destruct t; simpl in Hext.
  - (* static text *)
    pose proof (clean_hd_not_special c rest Hext) as Hsp.
    destruct (List.find (has_label c) (n_st n)) as [ch|] eqn:Ef.
    + destruct (find_some _ _ Ef) as [Hin Hlab]. destruct (has_label_pfx c ch Hlab) as [r Er].
      eapply IO_desc_st; eauto. apply (insOK_clean f); auto.
      * apply (WF0_child_st n ch Hwf Hin).
      * rewrite Er. apply lcp_cons_pos.
    + assert (Hex : existsb (has_label c) (n_st n) = false).
      { destruct (existsb (has_label c) (n_st n)) eqn:E; auto. apply existsb_exists in E. destruct E as [y [Hy Hly]].
        pose proof (find_none _ _ Ef y Hy). congruence. }
      eapply IO_new; eauto.
      * intros ->. rewrite special_colon in Hsp. discriminate.
      * intros ->. rewrite special_star in Hsp. discriminate.
  - inversion Hext; subst.
    pose proof (WF0_static_labels_clean n colon Hwf special_colon) as Hex.
    destruct (n_pc n) as [ch|] eqn:Epc.
    + eapply IO_desc_pc; eauto. destruct (WF0_child_pc n ch Hwf Epc) as [Hw Hk].
      assert (Epf : n_pfx ch = [colon]) by (inversion Hw; subst; simpl in *; subst; auto).
      apply IO_here; rewrite Epf; simpl; lia.
    + eapply IO_new; eauto; simpl; auto. intros E. inversion E.
  - inversion Hext; subst.
    pose proof (WF0_static_labels_clean n star Hwf special_star) as Hex.
    destruct (n_ac n) as [ch|] eqn:Eac.
    + eapply IO_desc_ac; eauto. destruct (WF0_child_ac n ch Hwf Eac) as [Hw Hk].
      assert (Epf : n_pfx ch = [star]).
      { inversion Hw as [k pfx ms nf st pc ac G1 G2 G3 G4]; subst; simpl in *; subst. destruct (G4 eq_refl) as [-> _]. auto. }
      apply IO_here; rewrite Epf; simpl; lia.
    + eapply IO_new; eauto; simpl; auto. intros E. inversion E.
Qed.

Lemma walk_S f n s : walk (S f) n s =
  if Nat.eqb (lcp s (n_pfx n)) (List.length (n_pfx n)) then
    match skipn (lcp s (n_pfx n)) s with
    | [] => Some (n_kind n)
    | c :: _ => match child_by_label c n with Some ch => walk f ch (skipn (lcp s (n_pfx n)) s) | None => None end
    end
  else None.
Proof. reflexivity. Qed.

Lemma skipn_nil_full s p : lcp s p = List.length p -> skipn (lcp s p) s = [] -> s = p.
Proof. intros H1 H2. pose proof (skipn_lcp_full s p H1) as H. rewrite H2, app_nil_r in H. exact H. Qed.

Lemma insOK_after_walk : forall f n s0 k x t f',
  walk f n s0 = Some k -> k <> KA -> WF0 n -> ext_ok t x -> x <> [] -> List.length x < f' ->
  InsOK n (s0 ++ x) t.
Proof.
  induction f as [|f IH]; intros n s0 k x t f' Hw Hk Hwf Hext Hx Hf'; [discriminate|].
  rewrite walk_S in Hw.
  destruct (Nat.eqb (lcp s0 (n_pfx n)) (List.length (n_pfx n))) eqn:El; [|discriminate].
  apply Nat.eqb_eq in El.
  destruct (skipn (lcp s0 (n_pfx n)) s0) as [|c r] eqn:Es.
  - inversion Hw; subst k. rewrite (skipn_nil_full _ _ El Es). apply (insOK_ext_here f'); auto.
  - destruct (child_by_label c n) as [ch|] eqn:Ec; [|discriminate].
    destruct (child_wf c n ch Hwf Ec) as [Hwch [rr Er]].
    pose proof (IH ch (c :: r) k x t f' Hw Hk Hwch Hext Hx Hf') as HI.
    assert (Hp := WF0_pfx_ne n Hwf).
    assert (Hl : lcp (s0 ++ x) (n_pfx n) = List.length (n_pfx n)) by (apply lcp_app_full; exact El).
    assert (Hpos : 0 < lcp (s0 ++ x) (n_pfx n)) by (rewrite Hl; destruct (n_pfx n); simpl; [congruence|lia]).
    assert (Hs : skipn (lcp (s0 ++ x) (n_pfx n)) (s0 ++ x) = c :: (r ++ x)).
    { rewrite Hl, <- El, skipn_app_le by apply lcp_le_l. rewrite Es. reflexivity. }
    destruct (child_by_label_cases c n ch Hwf Ec) as [Hf|[[-> [Hex Hp']]|[-> [Hex Ha]]]].
    + eapply IO_desc_st; eauto.
    + eapply IO_desc_pc; eauto.
    + eapply IO_desc_ac; eauto.
Qed.

Lemma insOK_walk_here : forall f n s0 k t, walk f n s0 = Some k -> WF0 n -> InsOK n s0 t.
Proof.
  induction f as [|f IH]; intros n s0 k t Hw Hwf; [discriminate|].
  rewrite walk_S in Hw.
  destruct (Nat.eqb (lcp s0 (n_pfx n)) (List.length (n_pfx n))) eqn:El; [|discriminate].
  apply Nat.eqb_eq in El.
  assert (Hp := WF0_pfx_ne n Hwf).
  assert (Hpos : 0 < lcp s0 (n_pfx n)) by (rewrite El; destruct (n_pfx n); simpl; [congruence|lia]).
  destruct (skipn (lcp s0 (n_pfx n)) s0) as [|c r] eqn:Es.
  - apply IO_here; auto. rewrite (skipn_nil_full _ _ El Es) at 2. exact El.
  - destruct (child_by_label c n) as [ch|] eqn:Ec; [|discriminate].
    destruct (child_wf c n ch Hwf Ec) as [Hwch [rr Er]].
    pose proof (IH ch (c :: r) k t Hw Hwch) as HI.
    destruct (child_by_label_cases c n ch Hwf Ec) as [Hf|[[-> [Hex Hp']]|[-> [Hex Ha]]]].
    + eapply IO_desc_st; eauto.
    + eapply IO_desc_pc; eauto.
    + eapply IO_desc_ac; eauto.
Qed.

Lemma walk_kind : forall f n s k, walk f n s = Some k -> WF0 n -> k = KA -> exists s1, s = s1 ++ [star].
Proof.
  induction f as [|f IH]; intros n s k Hw Hwf Hk; [discriminate|].
  rewrite walk_S in Hw.
  destruct (Nat.eqb (lcp s (n_pfx n)) (List.length (n_pfx n))) eqn:El; [|discriminate].
  apply Nat.eqb_eq in El.
  destruct (skipn (lcp s (n_pfx n)) s) as [|c r] eqn:Es.
  - inversion Hw; subst k. rewrite (skipn_nil_full _ _ El Es).
    inversion Hwf as [kk pfx ms nf st pc ac G1 G2 G3 G4]; subst. simpl in *. subst kk.
    destruct (G4 eq_refl) as [-> _]. exists []. reflexivity.
  - destruct (child_by_label c n) as [ch|] eqn:Ec; [|discriminate].
    destruct (child_wf c n ch Hwf Ec) as [Hwch _].
    destruct (IH ch (c :: r) k Hw Hwch Hk) as [s1 E].
    exists (firstn (lcp s (n_pfx n)) s ++ s1). rewrite <- app_assoc, <- E, <- Es. symmetry. apply firstn_skipn.
Qed.

(* ---------- case equations for insert_node ---------- *)
Lemma ins_eq_split_here f n s t pl :
  0 < lcp s (n_pfx n) -> lcp s (n_pfx n) < List.length (n_pfx n) -> lcp s (n_pfx n) = List.length s ->
  insert_node (S f) n s t pl = add_payload (set_kind t (split_node n (lcp s (n_pfx n)))) pl.
Proof. intros H1 H2 H3. rewrite insert_node_S. cbn zeta.
  replace (Nat.eqb (lcp s (n_pfx n)) 0) with false by (symmetry; apply Nat.eqb_neq; lia).
  replace (Nat.ltb (lcp s (n_pfx n)) (List.length (n_pfx n))) with true by (symmetry; apply Nat.ltb_lt; lia).
  replace (Nat.eqb (lcp s (n_pfx n)) (List.length s)) with true by (symmetry; apply Nat.eqb_eq; lia).
  reflexivity. Qed.

Lemma ins_eq_split_new f n s t pl :
  0 < lcp s (n_pfx n) -> lcp s (n_pfx n) < List.length (n_pfx n) -> lcp s (n_pfx n) < List.length s ->
  insert_node (S f) n s t pl =
  set_st [set_pfx (skipn (lcp s (n_pfx n)) (n_pfx n)) n; add_payload (leaf_node t (skipn (lcp s (n_pfx n)) s)) pl]
         (split_node n (lcp s (n_pfx n))).
Proof. intros H1 H2 H3. rewrite insert_node_S. cbn zeta.
  replace (Nat.eqb (lcp s (n_pfx n)) 0) with false by (symmetry; apply Nat.eqb_neq; lia).
  replace (Nat.ltb (lcp s (n_pfx n)) (List.length (n_pfx n))) with true by (symmetry; apply Nat.ltb_lt; lia).
  replace (Nat.eqb (lcp s (n_pfx n)) (List.length s)) with false by (symmetry; apply Nat.eqb_neq; lia).
  reflexivity. Qed.

Lemma ins_eq_desc f n s t pl c rest :
  0 < lcp s (n_pfx n) -> lcp s (n_pfx n) = List.length (n_pfx n) -> skipn (lcp s (n_pfx n)) s = c :: rest ->
  insert_node (S f) n s t pl =
      if existsb (has_label c) (n_st n) then
        set_st (upd_first (has_label c) (fun x => insert_node f x (c :: rest) t pl) (n_st n)) n
      else
        match (if Ascii.eqb c colon then n_pc n else if Ascii.eqb c star then n_ac n else None) with
        | Some ch =>
          if Ascii.eqb c colon then set_pc (Some (insert_node f ch (c :: rest) t pl)) n
          else set_ac (Some (insert_node f ch (c :: rest) t pl)) n
        | None =>
          let nn := add_payload (leaf_node t (c :: rest)) pl in
          match t with
          | KS => set_st (n_st n ++ [nn]) n
          | KP => set_pc (Some nn) n
          | KA => set_ac (Some nn) n
          end
        end.
Proof. intros H1 H2 H3. rewrite insert_node_S. cbn zeta.
  pose proof (skipn_cons_len _ _ _ _ H3) as Hlen.
  replace (Nat.eqb (lcp s (n_pfx n)) 0) with false by (symmetry; apply Nat.eqb_neq; lia).
  replace (Nat.ltb (lcp s (n_pfx n)) (List.length (n_pfx n))) with false by (symmetry; apply Nat.ltb_ge; lia).
  replace (Nat.ltb (lcp s (n_pfx n)) (List.length s)) with true by (symmetry; apply Nat.ltb_lt; lia).
  rewrite H3. reflexivity. Qed.

Lemma ins_eq_here f n s t pl :
  0 < lcp s (n_pfx n) -> lcp s (n_pfx n) = List.length (n_pfx n) -> lcp s (n_pfx n) = List.length s ->
  insert_node (S f) n s t pl = add_payload n pl.
Proof. intros H1 H2 H3. rewrite insert_node_S. cbn zeta.
  replace (Nat.eqb (lcp s (n_pfx n)) 0) with false by (symmetry; apply Nat.eqb_neq; lia).
  replace (Nat.ltb (lcp s (n_pfx n)) (List.length (n_pfx n))) with false by (symmetry; apply Nat.ltb_ge; lia).
  replace (Nat.ltb (lcp s (n_pfx n)) (List.length s)) with false by (symmetry; apply Nat.ltb_ge; lia).
  reflexivity. Qed.

Lemma label_insert f n s t pl : 0 < lcp s (n_pfx n) -> label (insert_node f n s t pl) = label n.
Proof.
  intros Hpos. destruct f as [|f]; [reflexivity|]. rewrite insert_node_S. cbn zeta.
  replace (Nat.eqb (lcp s (n_pfx n)) 0) with false by (symmetry; apply Nat.eqb_neq; lia).
  destruct (Nat.ltb (lcp s (n_pfx n)) (List.length (n_pfx n))).
  - destruct (Nat.eqb (lcp s (n_pfx n)) (List.length s)).
    + rewrite label_add_payload. unfold label. simpl. apply hd_firstn. exact Hpos.
    + unfold label. simpl. apply hd_firstn. exact Hpos.
  - destruct (Nat.ltb (lcp s (n_pfx n)) (List.length s)); [|apply label_add_payload].
    destruct (skipn (lcp s (n_pfx n)) s) as [|c r]; [reflexivity|].
    destruct (existsb (has_label c) (n_st n)); [apply label_set_st|].
    destruct (if Ascii.eqb c colon then n_pc n else if Ascii.eqb c star then n_ac n else None).
    + destruct (Ascii.eqb c colon); [apply label_set_pc|apply label_set_ac].
    + destruct t; [apply label_set_st|apply label_set_pc|apply label_set_ac].
Qed.

Lemma walk_full f n : WF0 n -> walk (S f) n (n_pfx n) = Some (n_kind n).
Proof. intros H. rewrite walk_S.
  assert (E : lcp (n_pfx n) (n_pfx n) = List.length (n_pfx n)).
  { clear. induction (n_pfx n); simpl; auto. rewrite Ascii.eqb_refl. lia. }
  rewrite E, Nat.eqb_refl, skipn_all. reflexivity. Qed.

Lemma lcp_refl s : lcp s s = List.length s.
Proof. induction s; simpl; auto. rewrite Ascii.eqb_refl. lia. Qed.

Lemma find_app_skip {A} (p : A -> bool) l1 x l2 : Forall (fun y => p y = false) l1 -> p x = true -> List.find p (l1 ++ x :: l2) = Some x.
Proof. induction 1; simpl; intros Hx; [rewrite Hx; reflexivity|]. rewrite H. auto. Qed.

Lemma existsb_app_r {A} (p : A -> bool) l1 x l2 : p x = true -> existsb p (l1 ++ x :: l2) = true.
Proof. intros. apply existsb_exists. exists x. split; auto. apply in_or_app. right. left. reflexivity. Qed.

Lemma has_label_of_label c n : label n = Some c -> has_label c n = true.
Proof. unfold has_label. intros ->. apply Ascii.eqb_refl. Qed.
Lemma label_of_has_label c n : has_label c n = true -> label n = Some c.
Proof. unfold has_label. destruct (label n); [|discriminate]. intros H. apply Ascii.eqb_eq in H. congruence. Qed.

Lemma existsb_false_forall {A} (p : A -> bool) l : existsb p l = false -> Forall (fun y => p y = false) l.
Proof. induction l; simpl; intros H; constructor; apply orb_false_iff in H; tauto. Qed.

Lemma n_pfx_set_st l n : n_pfx (set_st l n) = n_pfx n. Proof. destruct n; reflexivity. Qed.
Lemma n_pfx_set_pc o n : n_pfx (set_pc o n) = n_pfx n. Proof. destruct n; reflexivity. Qed.
Lemma n_pfx_set_ac o n : n_pfx (set_ac o n) = n_pfx n. Proof. destruct n; reflexivity. Qed.
Lemma n_st_set_st l n : n_st (set_st l n) = l. Proof. destruct n; reflexivity. Qed.
Lemma n_st_set_pc o n : n_st (set_pc o n) = n_st n. Proof. destruct n; reflexivity. Qed.
Lemma n_st_set_ac o n : n_st (set_ac o n) = n_st n. Proof. destruct n; reflexivity. Qed.
Lemma n_pc_set_pc o n : n_pc (set_pc o n) = o. Proof. destruct n; reflexivity. Qed.
Lemma n_ac_set_ac o n : n_ac (set_ac o n) = o. Proof. destruct n; reflexivity. Qed.
Lemma n_ac_set_pc o n : n_ac (set_pc o n) = n_ac n. Proof. destruct n; reflexivity. Qed.
Lemma n_pc_set_ac o n : n_pc (set_ac o n) = n_pc n. Proof. destruct n; reflexivity. Qed.

Lemma walk_leaf f t s pl : s <> [] -> walk (S f) (add_payload (leaf_node t s) pl) s = Some t.
Proof. intros Hs. rewrite walk_S, n_pfx_add_payload. cbn [n_pfx leaf_node]. rewrite lcp_refl, Nat.eqb_refl, skipn_all, n_kind_add_payload. reflexivity. Qed.

Theorem walk_after : forall n s t, InsOK n s t -> forall f pl, List.length s < f -> WF0 n ->
  exists k, walk f (insert_node f n s t pl) s = Some k.
Proof.
  induction 1 as [n s t H1 H2 H3 Ht Hk | n s t H1 H2 H3 Ht Hk Hc
                 | n s t c rest ch H1 H2 Hs Hf Hok IH
                 | n s t rest ch H1 H2 Hs Hex Hpc Hok IH
                 | n s t rest ch H1 H2 Hs Hex Hac Hok IH
                 | n s t c rest H1 H2 Hs Hex Hpc Hac Hnew Hka
                 | n s t H1 H2 H3];
    intros f pl Hfuel Hwf; (destruct f as [|f]; [lia|]).
  - rewrite ins_eq_split_here by assumption. eexists. rewrite walk_S, n_pfx_add_payload. cbn [n_pfx set_kind split_node].
    assert (E : firstn (lcp s (n_pfx n)) (n_pfx n) = s) by (rewrite <- lcp_firstn, H3; apply firstn_all).
    rewrite E, lcp_refl, Nat.eqb_refl, skipn_all. reflexivity.
  - rewrite ins_eq_split_new by assumption.
    destruct (skipn (lcp s (n_pfx n)) s) as [|c rest] eqn:Es.
    { exfalso. assert (List.length (skipn (lcp s (n_pfx n)) s) = 0) by (rewrite Es; reflexivity). rewrite skipn_length in H. lia. }
    exists t. rewrite walk_S, n_pfx_set_st. cbn [n_pfx split_node].
    rewrite lcp_firstn_self, firstn_length_lcp, Nat.eqb_refl, Es.
    unfold child_by_label. rewrite n_st_set_st.
    assert (Hlab : has_label c (add_payload (leaf_node t (c :: rest)) pl) = true).
    { apply has_label_of_label. apply label_newleaf. }
    assert (Hch : has_label c (set_pfx (skipn (lcp s (n_pfx n)) (n_pfx n)) n) = false).
    { unfold has_label, label. assert (Epf : forall p, n_pfx (set_pfx p n) = p) by (intros; destruct n; reflexivity). rewrite Epf.
      destruct (skipn (lcp s (n_pfx n)) (n_pfx n)) as [|d rr] eqn:Ep; [reflexivity|].
      assert (c <> d) by (eapply lcp_next; eauto). simpl. apply Ascii.eqb_neq. congruence. }
    cbn [existsb List.find]. rewrite Hch, Hlab. cbn [orb].
    destruct f as [|f]; [simpl in Hfuel; pose proof (skipn_cons_len _ _ _ _ Es); lia|].
    apply walk_leaf. discriminate.
  - rewrite (ins_eq_desc f n s t pl c rest) by assumption. rewrite (find_existsb _ _ _ Hf).
    destruct (upd_first_split (has_label c) (fun x => insert_node f x (c :: rest) t pl) (n_st n) ch Hf) as [l1 [l2 [Hst [Hl1 Hupd]]]].
    rewrite Hupd.
    assert (Hin : In ch (n_st n)) by (rewrite Hst; apply in_or_app; right; left; reflexivity).
    destruct (WF0_child_st n ch Hwf Hin) as [Hwch _].
    destruct (find_some _ _ Hf) as [_ Hlab]. destruct (has_label_pfx c ch Hlab) as [rr Er].
    assert (Hlen' : List.length (c :: rest) < f).
    { pose proof (skipn_cons_len _ _ _ _ Hs). assert (List.length (c :: rest) = List.length s - lcp s (n_pfx n)) by (rewrite <- Hs, skipn_length; reflexivity). lia. }
    destruct (IH f pl Hlen' Hwch) as [k Hk].
    exists k. rewrite walk_S, n_pfx_set_st, H2, Nat.eqb_refl. rewrite <- H2, Hs.
    unfold child_by_label. rewrite n_st_set_st.
    assert (Hlab' : has_label c (insert_node f ch (c :: rest) t pl) = true).
    { apply has_label_of_label. rewrite label_insert; [apply label_of_has_label; exact Hlab|]. rewrite Er. apply lcp_cons_pos. }
    rewrite (existsb_app_r _ _ _ _ Hlab'), (find_app_skip _ _ _ _ Hl1 Hlab'). exact Hk.
  - rewrite (ins_eq_desc f n s t pl colon rest) by assumption. rewrite Hex. rewrite Ascii.eqb_refl, Hpc.
    destruct (WF0_child_pc n ch Hwf Hpc) as [Hwch _].
    assert (Hlen' : List.length (colon :: rest) < f).
    { pose proof (skipn_cons_len _ _ _ _ Hs). assert (List.length (colon :: rest) = List.length s - lcp s (n_pfx n)) by (rewrite <- Hs, skipn_length; reflexivity). lia. }
    destruct (IH f pl Hlen' Hwch) as [k Hk].
    exists k. rewrite walk_S, n_pfx_set_pc, H2, Nat.eqb_refl. rewrite <- H2, Hs.
    unfold child_by_label. rewrite n_st_set_pc, Hex, Ascii.eqb_refl, n_pc_set_pc. exact Hk.
  - rewrite (ins_eq_desc f n s t pl star rest) by assumption. rewrite Hex.
    assert (Ecs : Ascii.eqb star colon = false) by reflexivity. rewrite Ecs, Ascii.eqb_refl, Hac.
    destruct (WF0_child_ac n ch Hwf Hac) as [Hwch _].
    assert (Hlen' : List.length (star :: rest) < f).
    { pose proof (skipn_cons_len _ _ _ _ Hs). assert (List.length (star :: rest) = List.length s - lcp s (n_pfx n)) by (rewrite <- Hs, skipn_length; reflexivity). lia. }
    destruct (IH f pl Hlen' Hwch) as [k Hk].
    exists k. rewrite walk_S, n_pfx_set_ac, H2, Nat.eqb_refl. rewrite <- H2, Hs.
    unfold child_by_label. rewrite n_st_set_ac, Hex, Ecs, Ascii.eqb_refl, n_ac_set_ac. exact Hk.
  - rewrite (ins_eq_desc f n s t pl c rest) by assumption. rewrite Hex.
    assert (Enone : (if Ascii.eqb c colon then n_pc n else if Ascii.eqb c star then n_ac n else None) = None).
    { destruct (Ascii.eqb c colon) eqn:Ec; [apply Ascii.eqb_eq in Ec; auto|].
      destruct (Ascii.eqb c star) eqn:Ea; [apply Ascii.eqb_eq in Ea; auto|]. reflexivity. }
    rewrite Enone. cbn zeta.
    assert (Hlab : has_label c (add_payload (leaf_node t (c :: rest)) pl) = true).
    { apply has_label_of_label. apply label_newleaf. }
    assert (Hf2 : exists f', f = S f').
    { destruct f; [|eauto]. pose proof (skipn_cons_len _ _ _ _ Hs). simpl in Hfuel.
      assert (0 < List.length (n_pfx n)) by lia. lia. }
    destruct Hf2 as [f' ->].
    exists t. destruct t.
    + rewrite walk_S, n_pfx_set_st, H2, Nat.eqb_refl. rewrite <- H2, Hs.
      unfold child_by_label. rewrite n_st_set_st.
      rewrite (existsb_app_r _ _ _ [] Hlab), (find_app_skip _ _ _ [] (existsb_false_forall _ _ Hex) Hlab).
      apply walk_leaf. discriminate.
    + simpl in Hnew. inversion Hnew; subst.
      rewrite walk_S, n_pfx_set_pc, H2, Nat.eqb_refl. rewrite <- H2, Hs.
      unfold child_by_label. rewrite n_st_set_pc, Hex, Ascii.eqb_refl, n_pc_set_pc.
      apply walk_leaf. discriminate.
    + simpl in Hnew. inversion Hnew; subst.
      rewrite walk_S, n_pfx_set_ac, H2, Nat.eqb_refl. rewrite <- H2, Hs.
      assert (Ecs : Ascii.eqb star colon = false) by reflexivity.
      unfold child_by_label. rewrite n_st_set_ac, Hex, Ecs, Ascii.eqb_refl, n_ac_set_ac.
      apply walk_leaf. discriminate.
  - rewrite ins_eq_here by assumption. eexists. rewrite walk_S, n_pfx_add_payload, H2, Nat.eqb_refl.
    rewrite <- H2, H3, skipn_all. reflexivity.
Qed.
Print Assumptions walk_after.
