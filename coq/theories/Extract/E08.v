From Coq Require Extraction.
From Coq Require Import ExtrOcamlBasic.
From Echo Require Import Glue.G08.
Extraction "extracted/m08.ml" G08.run_sx.
