(* Model of middleware/rate_limiter.go: RateLimiterMemoryStore.Allow over the exact token bucket of
   golang.org/x/time/rate, integer scaled: time in ticks, rate = a tokens per b ticks (tokens are
   counted in units of 1/b), burst B tokens, ExpiresIn = E ticks.  (C18) *)
From Coq Require Import List ZArith Bool.
Import ListNotations.
Open Scope Z_scope.

Section Store.
Variables (a b B E : Z).

Record bucket := { tok : Z; last : Z }.          (* tok in units 1/b *)
Definition cap := B * b.

(* Limiter.advance: tokens available at [now] *)
Definition avail (bk : bucket) (now : Z) : Z := Z.min cap (tok bk + a * (now - last bk)).

(* Limiter.AllowN(now, 1): succeeds iff one whole token (= b units) is available; state is
   updated only on success *)
Definition allow (bk : bucket) (now : Z) : bucket * bool :=
  let t := avail bk now in
  if b <=? t then ({| tok := t - b; last := now |}, true) else (bk, false).

(* rate.NewLimiter: full bucket *)
Definition fresh (now : Z) : bucket := {| tok := cap; last := now |}.

(* ---- the store: visitors map + lastCleanup; identifiers are any type with decidable equality *)
Variable ident : Type.
Variable id_eqb : ident -> ident -> bool.

Record visitor := { bk : bucket; seen : Z }.
Definition vmap := ident -> option visitor.
Record store := { vis : vmap; last_cleanup : Z }.

Definition upd (x : ident) (v : visitor) (f : vmap) : vmap := fun y => if id_eqb y x then Some v else f y.

Definition store0 (now : Z) : store := {| vis := fun _ => None; last_cleanup := now |}.

(* cleanupStaleVisitors *)
Definition cleanup (f : vmap) (now : Z) : vmap :=
  fun y => match f y with
           | Some v => if E <? now - seen v then None else Some v
           | None => None
           end.

(* RateLimiterMemoryStore.Allow: the locked section followed by AllowN on the visitor's limiter *)
Definition store_allow (s : store) (x : ident) (now : Z) : store * bool :=
  let v := match vis s x with Some v => v | None => {| bk := fresh now; seen := now |} end in
  let v1 := {| bk := bk v; seen := now |} in
  let vis1 := upd x v1 (vis s) in
  let s1 := if E <? now - last_cleanup s
            then {| vis := cleanup vis1 now; last_cleanup := now |}
            else {| vis := vis1; last_cleanup := last_cleanup s |} in
  let '(b', ok) := allow (bk v1) now in
  (* the limiter object is shared with the map entry (if it is still there) *)
  ({| vis := fun y => if id_eqb y x then match vis s1 y with Some _ => Some {| bk := b'; seen := now |} | None => None end
                      else vis s1 y;
      last_cleanup := last_cleanup s1 |}, ok).

Fixpoint store_run (s : store) (evs : list (ident * Z)) : list bool :=
  match evs with
  | [] => []
  | (x, t) :: r => let '(s', ok) := store_allow s x t in ok :: store_run s' r
  end.

(* ---- the abstract specification: one bucket per identifier, never evicted *)
Definition smap := ident -> option bucket.
Definition spec_allow (m : smap) (x : ident) (now : Z) : smap * bool :=
  let bk0 := match m x with Some bk0 => bk0 | None => fresh now end in
  let '(b', ok) := allow bk0 now in
  ((fun y => if id_eqb y x then Some b' else m y), ok).

Fixpoint spec_run (m : smap) (evs : list (ident * Z)) : list bool :=
  match evs with
  | [] => []
  | (x, t) :: r => let '(m', ok) := spec_allow m x t in ok :: spec_run m' r
  end.

(* ---- single bucket histories *)
Fixpoint run (bk0 : bucket) (ts : list Z) : list bool :=
  match ts with [] => [] | t :: r => let '(bk', ok) := allow bk0 t in ok :: run bk' r end.
Fixpoint final (bk0 : bucket) (ts : list Z) : bucket :=
  match ts with [] => bk0 | t :: r => final (fst (allow bk0 t)) r end.

Definition count (l : list bool) : Z := Z.of_nat (List.length (filter (fun x : bool => x) l)).

Fixpoint sorted_from (t0 : Z) (ts : list Z) : Prop :=
  match ts with [] => True | t :: r => t0 <= t /\ sorted_from t r end.
Fixpoint lastt (t0 : Z) (ts : list Z) : Z := match ts with [] => t0 | t :: r => lastt t r end.

Fixpoint ev_sorted_from (t0 : Z) (evs : list (ident * Z)) : Prop :=
  match evs with [] => True | (_, t) :: r => t0 <= t /\ ev_sorted_from t r end.

(* the middleware: handler runs iff admitted, else 429 *)
Definition middleware (admitted : bool) : Z * bool := if admitted then (0, true) else (429, false).
End Store.
