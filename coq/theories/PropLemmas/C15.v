(* Proofs of the short corollaries stated in Props/C15.v (kept out of the statement file). *)
From Coq Require Import List Arith Bool.
From Echo Require Import Mw.Gzip Mw.GzipProofs.
Import ListNotations.

Lemma C15_bodyless_empty_l : forall minlen pooled cl ops, payload ops = [] ->
  decode (fst (request minlen pooled cl ops)) = Some [].
Proof. intros minlen pooled cl ops H. pose proof (roundtrip minlen pooled cl ops) as R.
  destruct (request minlen pooled cl ops) as [w ns]. destruct R as [R _]. rewrite H in R. exact R. Qed.

