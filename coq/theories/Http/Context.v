(* Model of the recycled request context (context.go Reset / NewContext, response.go reset,
   Echo.ServeHTTP's pool use) and of what a handler can observe through it.  (C05) *)
From Coq Require Import List Arith Bool Ascii String.
From Echo Require Import Base.Sx.
Import ListNotations.

Record rstate := { rs_status : nat; rs_size : nat; rs_committed : bool; rs_before : list nat; rs_after : list nat }.
Definition rstate0 : rstate := {| rs_status := 200; rs_size := 0; rs_committed := false; rs_before := []; rs_after := [] |}.

Record ctx := {
  c_req : nat;                          (* identity of the *http.Request *)
  c_resp : rstate;
  c_query : option nat;                 (* request whose query string is cached *)
  c_store : list (str * str);
  c_path : str;
  c_pnames : list str;
  c_pvalues : list str;                 (* the parameter value array *)
  c_logger : option nat;                (* None = the Echo instance's logger *)
  c_handler : nat }.                    (* 0 = NotFoundHandler *)

Definition blank (l : list str) : list str := map (fun _ => []) l.

(* context.Reset, incl. growing the array when maxParam has grown since the context was created *)
Definition reset (c : ctx) (r maxp : nat) : ctx :=
  {| c_req := r; c_resp := rstate0; c_query := None; c_store := []; c_path := []; c_pnames := [];
     c_pvalues := if Nat.ltb (List.length (c_pvalues c)) maxp then repeat [] maxp else blank (c_pvalues c);
     c_logger := None; c_handler := 0 |}.

(* Echo.NewContext followed by the Reset ServeHTTP always performs *)
Definition new_context (r maxp : nat) : ctx :=
  {| c_req := r; c_resp := rstate0; c_query := None; c_store := []; c_path := []; c_pnames := [];
     c_pvalues := repeat [] maxp; c_logger := None; c_handler := 0 |}.

(* Router.Find's writes for a matched route: handler, path, names, values at indices 0.. *)
Fixpoint write_values (arr vals : list str) : list str :=
  match arr, vals with
  | _ :: a, v :: vs => v :: write_values a vs
  | _, _ => arr
  end.
Record matched := { m_handler : nat; m_path : str; m_names : list str; m_values : list str }.
Definition find (c : ctx) (m : option matched) : ctx :=
  match m with
  | None => c
  | Some x => {| c_req := c_req c; c_resp := c_resp c; c_query := c_query c; c_store := c_store c;
                 c_path := m_path x; c_pnames := m_names x; c_pvalues := write_values (c_pvalues c) (m_values x);
                 c_logger := c_logger c; c_handler := m_handler x |}
  end.

(* everything a handler can observe *)
Record observation := {
  o_req : nat; o_resp : rstate; o_query : option nat; o_store : list (str * str); o_path : str;
  o_names : list str; o_values : list str;            (* ParamValues() = pvalues[:len(pnames)] *)
  o_rest_blank : bool;                                 (* no residue in the rest of the array *)
  o_logger : option nat; o_handler : nat }.

Definition is_blank (l : list str) : bool := forallb (fun s => match s with [] => true | _ => false end) l.

Definition observe (c : ctx) : observation :=
  {| o_req := c_req c; o_resp := c_resp c; o_query := c_query c; o_store := c_store c; o_path := c_path c;
     o_names := c_pnames c; o_values := firstn (List.length (c_pnames c)) (c_pvalues c);
     o_rest_blank := is_blank (skipn (List.length (c_pnames c)) (c_pvalues c));
     o_logger := c_logger c; o_handler := c_handler c |}.

(* handler programs: what user code may do to its context *)
Inductive cop :=
| CSet (k v : str) | CSetLogger (l : nat) | CSetPath (p : str)
| CSetParamNames (ns : list str) | CSetParamValues (vs : list str)
| CQuery                                               (* QueryParams(): fills the cache *)
| CBefore (h : nat) | CAfter (h : nat) | CWriteHeader (code : nat) | CWrite (n : nat).

Definition upd_resp (c : ctx) (r : rstate) : ctx :=
  {| c_req := c_req c; c_resp := r; c_query := c_query c; c_store := c_store c; c_path := c_path c;
     c_pnames := c_pnames c; c_pvalues := c_pvalues c; c_logger := c_logger c; c_handler := c_handler c |}.

Definition exec (c : ctx) (o : cop) : ctx :=
  let r := c_resp c in
  match o with
  | CSet k v => {| c_req := c_req c; c_resp := r; c_query := c_query c; c_store := (k, v) :: c_store c; c_path := c_path c;
                   c_pnames := c_pnames c; c_pvalues := c_pvalues c; c_logger := c_logger c; c_handler := c_handler c |}
  | CSetLogger l => {| c_req := c_req c; c_resp := r; c_query := c_query c; c_store := c_store c; c_path := c_path c;
                       c_pnames := c_pnames c; c_pvalues := c_pvalues c; c_logger := Some l; c_handler := c_handler c |}
  | CSetPath p => {| c_req := c_req c; c_resp := r; c_query := c_query c; c_store := c_store c; c_path := p;
                     c_pnames := c_pnames c; c_pvalues := c_pvalues c; c_logger := c_logger c; c_handler := c_handler c |}
  | CSetParamNames ns =>
      {| c_req := c_req c; c_resp := r; c_query := c_query c; c_store := c_store c; c_path := c_path c; c_pnames := ns;
         c_pvalues := if Nat.ltb (List.length (c_pvalues c)) (List.length ns)
                      then c_pvalues c ++ repeat [] (List.length ns - List.length (c_pvalues c)) else c_pvalues c;
         c_logger := c_logger c; c_handler := c_handler c |}
  | CSetParamValues vs =>
      {| c_req := c_req c; c_resp := r; c_query := c_query c; c_store := c_store c; c_path := c_path c; c_pnames := c_pnames c;
         c_pvalues := if Nat.ltb (List.length (c_pvalues c)) (List.length vs) then vs else write_values (c_pvalues c) vs;
         c_logger := c_logger c; c_handler := c_handler c |}
  | CQuery => {| c_req := c_req c; c_resp := r; c_query := Some (c_req c); c_store := c_store c; c_path := c_path c;
                 c_pnames := c_pnames c; c_pvalues := c_pvalues c; c_logger := c_logger c; c_handler := c_handler c |}
  | CBefore h => upd_resp c {| rs_status := rs_status r; rs_size := rs_size r; rs_committed := rs_committed r;
                               rs_before := rs_before r ++ [h]; rs_after := rs_after r |}
  | CAfter h => upd_resp c {| rs_status := rs_status r; rs_size := rs_size r; rs_committed := rs_committed r;
                              rs_before := rs_before r; rs_after := rs_after r ++ [h] |}
  | CWriteHeader code => if rs_committed r then c
                         else upd_resp c {| rs_status := code; rs_size := rs_size r; rs_committed := true;
                                            rs_before := rs_before r; rs_after := rs_after r |}
  | CWrite n => upd_resp c {| rs_status := rs_status r; rs_size := rs_size r + n; rs_committed := true;
                              rs_before := rs_before r; rs_after := rs_after r |}
  end.

(* one request through ServeHTTP with a recycled context [c]: what the handler sees at its start,
   and the context that goes back to the pool *)
Definition serve (c : ctx) (r maxp : nat) (m : option matched) (prog : list cop) : observation * ctx :=
  let c1 := find (reset c r maxp) m in (observe c1, fold_left exec prog c1).

(* a history on ONE pooled context (the serial case: sync.Pool hands the same object back) *)
Fixpoint history (c : ctx) (evs : list (nat * nat * option matched * list cop)) : list observation :=
  match evs with
  | [] => []
  | (r, maxp, m, prog) :: t => let '(o, c') := serve c r maxp m prog in o :: history c' t
  end.
