package main

import (
	"bytes"
	"fmt"
	"io"
	"math/rand"
	"net/http"
	"net/http/httptest"
	"net/url"
	"strings"
	"time"

	"github.com/labstack/echo/v4"
	"github.com/labstack/echo/v4/middleware"
)

func init() {
	props["C12"] = &propRunner{gen: genC12, rule: "histories of 3-6 requests through ONE CSRF instance: methods (standard, lower/mixed case, custom) x cookie absent/present/empty x tokens in header/form/query per TokenLookup (several sources and values; exact, prefix, extended, case-changed, padded, empty) x token lengths; plus randomString driven by known byte streams through the verif hook; non-trivial = unsafe-method request that carries a cookie and at least one client token, or a random-string case; distinct by request content"}
}

func genC12(rng *rand.Rand, n int, emit func(Case), dist map[string]int) {
	lookups := []string{"header:X-CSRF-Token", "form:csrf", "query:csrf", "header:X-CSRF-Token,form:csrf", "form:csrf,query:csrf", "header:X-Xsrf:Bearer ", "query:csrf,header:X-CSRF-Token"}
	methods := []string{"GET", "HEAD", "OPTIONS", "TRACE", "POST", "PUT", "DELETE", "PATCH", "POST", "POST", "get", "Post", "head", "options", "tRACE", "CUSTOM", "CONNECT"}
	lens := []uint8{8, 16, 32, 1, 255, 0}
	e := echo.New()
	isLetters := func(s string) bool {
		for i := 0; i < len(s); i++ {
			if !(s[i] >= 'A' && s[i] <= 'Z' || s[i] >= 'a' && s[i] <= 'z') {
				return false
			}
		}
		return true
	}
	for it := 0; it < n; {
		if rng.Intn(12) == 0 {
			// ---- randomString on a known byte stream
			it++
			stream := make([]byte, 2048)
			switch rng.Intn(4) {
			case 0:
				for i := range stream {
					stream[i] = byte(208 + rng.Intn(48)) // many rejected bytes
					if rng.Intn(2) == 0 {
						stream[i] = byte(rng.Intn(256))
					}
				}
			case 1:
				for i := range stream {
					stream[i] = byte(200 + rng.Intn(16)) // around the acceptance boundary
				}
			default:
				rng.Read(stream)
			}
			ln := uint8(rng.Intn(256))
			if ln == 0 {
				ln = 1
			}
			if rng.Intn(10) == 0 {
				ln = []uint8{204, 205, 206, 255, 1, 4}[rng.Intn(6)]
			}
			restore := middleware.VerifSetRandomSource(bytes.NewReader(stream))
			done := make(chan string, 1)
			go func() {
				defer func() {
					if r := recover(); r != nil {
						done <- fmt.Sprintf("<panic: %v>", r)
					}
				}()
				done <- middleware.VerifRandomString(ln)
			}()
			got, timedOut := "", false
			select {
			case got = <-done:
			case <-time.After(3 * time.Second):
				timedOut = true
			}
			restore()
			ok, why := true, ""
			if timedOut {
				ok, why, got = false, fmt.Sprintf("randomString(%d) does not terminate (no result within 3 s on a 2048-byte stream)", ln), "<no result>"
			} else if len(got) != int(ln) || !isLetters(got) {
				ok, why = false, fmt.Sprintf("randomString(%d) = %q: wrong length or not ASCII letters only", ln, got)
			}
			bs := make([]Sx, len(stream))
			for i, b := range stream {
				bs[i] = I(int(b))
			}
			in := L(I(1), I(int(ln)), L(bs...))
			emit(Case{In: in, Out: S(got), Ok: ok, Why: why, Key: fmt.Sprintf("rnd|%d|%x", ln, stream[:64]),
				Human: fmt.Sprintf("randomString(%d) over a known byte stream (first bytes %v) = %q", ln, stream[:12], got)})
			dist["random_string_cases"]++
			continue
		}
		lk := lookups[rng.Intn(len(lookups))]
		tl := lens[rng.Intn(len(lens))]
		ran := false
		ctxTok := ""
		csrfCfg := middleware.CSRFConfig{TokenLookup: lk, TokenLength: tl}
		deniedBy := 0
		if rng.Intn(3) == 0 {
			// an error handler that answers by itself and returns nil (the documented way to customise the rejection)
			csrfCfg.ErrorHandler = func(err error, c echo.Context) error {
				deniedBy = 500
				if he, isHE := err.(*echo.HTTPError); isHE {
					deniedBy = he.Code
				}
				return c.NoContent(deniedBy)
			}
			dist["instances_with_custom_error_handler"]++
		}
		ownCookie := rng.Intn(2) == 0
		mw := middleware.CSRFWithConfig(csrfCfg)(func(c echo.Context) error {
			if ownCookie {
				c.SetCookie(&http.Cookie{Name: "session", Value: "s1", Path: "/"}) // the application's own cookie must not displace the token cookie
			}
			ran = true
			ctxTok, _ = c.Get("csrf").(string)
			return nil
		})
		if rng.Intn(4) == 0 {
			// the same configuration as the middleware of a GROUP whose routes are registered through Match and Add for every
			// method the history uses: no registration helper may lose the group's middleware
			em := echo.New()
			em.Logger.SetOutput(io.Discard)
			var served error
			em.HTTPErrorHandler = func(err error, c echo.Context) { served = err }
			g := em.Group("/api", middleware.CSRFWithConfig(csrfCfg))
			hnd := func(c echo.Context) error {
				if ownCookie {
					c.SetCookie(&http.Cookie{Name: "session", Value: "s1", Path: "/"})
				}
				ran = true
				ctxTok, _ = c.Get("csrf").(string)
				return nil
			}
			g.Match(methods, "/match", hnd)
			for _, m := range methods {
				g.Add(m, "/add", hnd)
			}
			mw = func(c echo.Context) error {
				served = nil
				r := c.Request()
				r.URL.Path = []string{"/api/match", "/api/add"}[rng.Intn(2)]
				em.ServeHTTP(c.Response().Writer, r)
				return served
			}
			dist["instances_as_group_middleware"]++
		}
		effLen := int(tl)
		if tl == 0 {
			effLen = 32
		}
		for q := 3 + rng.Intn(4); q > 0 && it < n; q-- {
			it++
			method := methods[rng.Intn(len(methods))]
			cookieMode := rng.Intn(5) // 0 absent, 1 empty, else present
			cookieVal := []string{"TokenAbCdEfGh", "tok", "ZZZZZZZZ", "a b"}[rng.Intn(3)]
			if rng.Intn(10) == 0 {
				// a token far longer than any TokenLength can generate (a cookie is the client's: it can hold anything)
				cookieVal = strings.Repeat("LongTokenAbCdEfGh", 25)[:250+rng.Intn(150)]
				dist["long_cookie_token"]++
			}
			if cookieMode == 1 {
				cookieVal = ""
			}
			hasCookie := cookieMode != 0
			variant := func() string {
				t := cookieVal
				switch rng.Intn(11) {
				case 0:
					if len(t) > 1 {
						return t[:len(t)-1]
					}
				case 1:
					return t + "x"
				case 2:
					return strings.ToLower(t)
				case 3:
					return " " + t
				case 4:
					return ""
				case 5:
					return "unrelated"
				case 6:
					if len(t) > 0 { // same length, the LAST byte differs
						return t[:len(t)-1] + string(t[len(t)-1]^1)
					}
				case 7:
					if len(t) > 2 { // same length, a byte in the second half differs
						i := len(t)/2 + rng.Intn(len(t)-len(t)/2)
						return t[:i] + string(t[i]^1) + t[i+1:]
					}
				}
				return t
			}
			qv, form, hdr := url.Values{}, url.Values{}, http.Header{}
			for _, src := range append(strings.Split(lk, ","), "query:other", "header:X-Other") {
				parts := strings.SplitN(src, ":", 3)
				if rng.Intn(3) == 0 {
					continue
				}
				for k := 1 + rng.Intn(2); k > 0; k-- {
					v := variant()
					switch parts[0] {
					case "query":
						qv.Add(parts[1], v)
					case "form":
						form.Add(parts[1], v)
					case "header":
						pfx := ""
						if len(parts) > 2 {
							pfx = parts[2]
							if rng.Intn(4) == 0 {
								pfx = "bearer "
							}
						}
						hdr.Add(parts[1], pfx+v)
					}
				}
			}
			build := func() *http.Request {
				target := "/"
				if len(qv) > 0 {
					target += "?" + qv.Encode()
				}
				var r *http.Request
				if len(form) > 0 {
					r = httptest.NewRequest(http.MethodPost, target, strings.NewReader(form.Encode()))
					r.Header.Set("Content-Type", "application/x-www-form-urlencoded")
				} else {
					r = httptest.NewRequest(http.MethodPost, target, nil)
				}
				r.Method = method
				for k, vs := range hdr {
					for _, v := range vs {
						r.Header.Add(k, v)
					}
				}
				if hasCookie {
					r.Header.Add("Cookie", "_csrf="+cookieVal)
				}
				if rng.Intn(4) == 0 {
					r.Header.Add("Cookie", "other=1")
				}
				return r
			}
			state := rng.Int63()
			rngSave := rand.New(rand.NewSource(state))
			_ = rngSave
			req := build()
			probe := req.Clone(req.Context())
			if len(form) > 0 {
				probe.Body = httptest.NewRequest(http.MethodPost, "/", strings.NewReader(form.Encode())).Body
			}
			probe.ParseMultipartForm(32 << 20)
			rec := httptest.NewRecorder()
			c := recycledContext(e, req, rec)
			ran, ctxTok, deniedBy = false, "", 0
			code := 0
			panicked := false
			func() {
				defer func() {
					if r := recover(); r != nil {
						panicked = true
					}
				}()
				if err := mw(c); err != nil {
					if he, isHE := err.(*echo.HTTPError); isHE {
						code = he.Code
					} else {
						code = 500
					}
				} else if deniedBy != 0 {
					code = deniedBy // rejected through the custom error handler
				}
			}()
			setCookie := ""
			hasSet := false
			for _, ck := range rec.Result().Cookies() {
				if ck.Name == "_csrf" {
					setCookie, hasSet = ck.Value, true
				}
			}
			// cookie as net/http parses it
			ck, cerr := probe.Cookie("_csrf")
			cookiePresent := cerr == nil
			parsedCookie := ""
			if cookiePresent {
				parsedCookie = ck.Value
			}
			// what is literally present per configured lookup
			var lks []Sx
			var present []string
			for _, src := range strings.Split(lk, ",") {
				parts := strings.SplitN(src, ":", 3)
				switch parts[0] {
				case "query":
					vs := probe.URL.Query()[parts[1]]
					lks = append(lks, L(I(1), LS(vs)))
					present = append(present, vs...)
				case "form":
					vs := probe.Form[parts[1]]
					lks = append(lks, L(I(1), LS(vs)))
					present = append(present, vs...)
				case "header":
					pfx := ""
					if len(parts) > 2 {
						pfx = parts[2]
					}
					vs := probe.Header.Values(parts[1])
					lks = append(lks, L(I(0), S(pfx), LS(vs)))
					for _, v := range vs {
						if pfx == "" {
							present = append(present, v)
						} else if len(v) > len(pfx) && strings.EqualFold(v[:len(pfx)], pfx) {
							present = append(present, v[len(pfx):])
						}
					}
				}
			}
			safe := method == "GET" || method == "HEAD" || method == "OPTIONS" || method == "TRACE"
			ok, why := true, ""
			if panicked {
				ok, why = false, "CSRF middleware panicked"
			}
			match := false
			for _, p := range present {
				if cookiePresent && p == parsedCookie {
					match = true
				}
			}
			if !safe && ran && !match {
				luck := false
				for _, p := range present {
					luck = luck || (!cookiePresent && p == ctxTok)
				}
				if !luck {
					ok, why = false, fmt.Sprintf("unsafe %s request reached the handler without a lookup value equal to the cookie's token (cookie present=%v value=%q, client tokens=%q)", method, cookiePresent, parsedCookie, present)
				}
			}
			if !safe && !ran && (code < 400 || code > 499) {
				ok, why = false, fmt.Sprintf("rejected request answered with %d, not a 4xx", code)
			}
			if !safe && !ran && match {
				ok, why = false, fmt.Sprintf("request carrying the cookie's token in a configured location was rejected (%d)", code)
			}
			if safe && !ran {
				ok, why = false, fmt.Sprintf("safe-method %s request did not pass (code %d)", method, code)
			}
			if ran {
				if !hasSet || setCookie != ctxTok {
					ok, why = false, fmt.Sprintf("passed request: Set-Cookie token %q (present=%v) differs from the context token %q", setCookie, hasSet, ctxTok)
				}
				if cookiePresent && ctxTok != parsedCookie {
					ok, why = false, fmt.Sprintf("token %q was not reused from the request cookie %q", ctxTok, parsedCookie)
				}
				if !cookiePresent && (len(ctxTok) != effLen || !isLetters(ctxTok)) {
					ok, why = false, fmt.Sprintf("fresh token %q does not have the configured length %d / ASCII letters only", ctxTok, effLen)
				}
			}
			fresh := "<fresh-token-not-observed>"
			if ran && !cookiePresent {
				fresh = ctxTok
			}
			out := L(I(0), I(code))
			if ran {
				out = L(I(1), S(ctxTok))
			}
			in := L(I(0), S(method), B(cookiePresent), S(parsedCookie), S(fresh), L(lks...))
			cs := Case{In: in, Out: out, Ok: ok, Why: why,
				Human: fmt.Sprintf("CSRF lookup=%q length=%d %s cookie(present=%v,%q) query=%q form=%q headers=%q -> ran=%v code=%d ctx-token=%q set-cookie=%q", lk, tl, method, cookiePresent, parsedCookie, qv, form, hdr, ran, code, ctxTok, setCookie)}
			if !safe && cookiePresent && len(present) > 0 {
				cs.Key = Show(in)
			}
			dist["method_"+method]++
			if ran {
				dist["passed"]++
			}
			emit(cs)
		}
	}
}
