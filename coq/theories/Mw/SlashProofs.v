From Coq Require Import List Bool Ascii String ZArith Lia.
From Echo Require Import Base.Sx Gen.Src_slash Mw.Slash.
Import ListNotations.
Open Scope char_scope.

(* ---------- facts about the generated predicates, re-proved against the current source *)
Lemma ascii_cases (P : ascii -> Prop) :
  (forall b0 b1 b2 b3 b4 b5 b6 b7, P (Ascii b0 b1 b2 b3 b4 b5 b6 b7)) -> forall c, P c.
Proof. intros H [b0 b1 b2 b3 b4 b5 b6 b7]. apply H. Qed.

Ltac all_bytes := let c := fresh "c" in intro c; destruct c as [[] [] [] [] [] [] [] []]; vm_compute; intros; try reflexivity; try discriminate.

Lemma mw_slash_spec : forall c, mw_is_slash c = is_sl c.
Proof. all_bytes. Qed.
Lemma fs_slash_spec : forall c, fs_is_slash c = is_sl c.
Proof. all_bytes. Qed.
Lemma mw_break_spec : forall c, mw_is_break c = negb (is_tnl c).
Proof. all_bytes. Qed.
Lemma fs_break_spec : forall c, fs_is_break c = negb (is_tnl c).
Proof. all_bytes. Qed.
Lemma mw_collapse_spec : forall k, mw_collapse k = (1 <? k)%Z.
Proof. intro k. reflexivity. Qed.
Lemma fs_collapse_spec : forall k, fs_collapse k = (1 <? k)%Z.
Proof. intro k. reflexivity. Qed.
Lemma sl_not_tnl : forall c, is_sl c = true -> is_tnl c = false.
Proof. all_bytes. Qed.
Lemma sl_not_c0 : forall c, is_sl c = true -> is_c0_space c = false.
Proof. all_bytes. Qed.

(* ---------- the reference sanitizer (slash / tab-newline classes) *)
Definition sanitize := sanitize_gen is_sl (fun c => negb (is_tnl c)) (fun k => (1 <? k)%Z).
Definition lead0 := lead is_sl (fun c => negb (is_tnl c)).

Lemma lead_ext f g f' g' : (forall c, f c = f' c) -> (forall c, g c = g' c) ->
  forall s k, lead f g s k = lead f' g' s k.
Proof. intros Hf Hg. induction s as [|c r IH]; intros k; simpl; [reflexivity|].
  rewrite Hf, Hg. destruct (f' c); [apply IH|]. destruct (g' c); [reflexivity|apply IH]. Qed.

Lemma sanitize_mw_eq s : sanitize_mw s = sanitize s.
Proof. unfold sanitize_mw, sanitize, sanitize_gen.
  rewrite (lead_ext _ _ _ _ mw_slash_spec mw_break_spec). destruct (lead _ _ s 0%Z). reflexivity. Qed.
Lemma sanitize_fs_eq s : sanitize_fs s = sanitize s.
Proof. unfold sanitize_fs, sanitize, sanitize_gen.
  rewrite (lead_ext _ _ _ _ fs_slash_spec fs_break_spec). destruct (lead _ _ s 0%Z). reflexivity. Qed.

Definition strip_tnl (s : str) : str := filter (fun c => negb (is_tnl c)) s.

Lemma lead_spec : forall s k k' rest, lead0 s k = (k', rest) ->
  (k <= k')%Z /\
  (match rest with c :: _ => is_sl c = false /\ is_tnl c = false | [] => True end) /\
  exists skipped, s = skipped ++ rest /\
     Forall (fun c => is_sl c = true \/ is_tnl c = true) skipped /\
     Z.of_nat (List.length (filter is_sl skipped)) = (k' - k)%Z.
Proof.
  unfold lead0. induction s as [|c r IH]; intros k k' rest H; simpl in H.
  - inversion H; subst. split; [lia|]. split; [exact I|]. exists []. repeat split; auto; simpl; lia.
  - destruct (is_sl c) eqn:Es.
    + destruct (IH _ _ _ H) as [Hk [Hr [sk [E [HF HL]]]]]. split; [lia|]. split; [exact Hr|].
      exists (c :: sk). subst r. repeat split; auto.
      cbn [filter]. rewrite Es. cbn [List.length]. lia.
    + destruct (is_tnl c) eqn:Et; cbn [negb] in H.
      * destruct (IH _ _ _ H) as [Hk [Hr [sk [E [HF HL]]]]]. split; [lia|]. split; [exact Hr|].
        exists (c :: sk). subst r. repeat split; auto.
        cbn [filter]. rewrite Es. exact HL.
      * inversion H; subst. split; [lia|]. split; [auto|]. exists []. repeat split; auto; simpl; lia.
Qed.

Lemma strip_skipped sk : Forall (fun c => is_sl c = true \/ is_tnl c = true) sk ->
  strip_tnl sk = filter is_sl sk.
Proof. induction 1 as [|c sk Hc _ IH]; [reflexivity|]. unfold strip_tnl in *. cbn [filter].
  destruct (is_sl c) eqn:Es.
  - rewrite (sl_not_tnl c Es). cbn [negb]. rewrite IH. reflexivity.
  - destruct Hc as [Hc|Hc]; [congruence|]. rewrite Hc. cbn [negb]. exact IH. Qed.

Lemma strip_app a b : strip_tnl (a ++ b) = strip_tnl a ++ strip_tnl b.
Proof. apply filter_app. Qed.

Lemma browser_view_slash s : browser_view ("/" :: s) = "/" :: strip_tnl s.
Proof. reflexivity. Qed.

(* main lemma: any URI that starts with '/' is sanitized into a same-host reference *)
Lemma safe_sanitize : forall u, safe (sanitize ("/" :: u)) = true.
Proof.
  intros u. unfold sanitize, sanitize_gen. fold lead0.
  destruct (lead0 ("/" :: u) 0%Z) as [k rest] eqn:E.
  destruct (lead_spec _ _ _ _ E) as [_ [Hr [sk [Es [HF HL]]]]].
  destruct (1 <? k)%Z eqn:Ek.
  - unfold safe. rewrite browser_view_slash. destruct rest as [|c r]; [reflexivity|].
    destruct Hr as [H1 H2]. unfold strip_tnl. cbn [filter]. rewrite H2. cbn [negb].
    unfold safe_view. rewrite H1. reflexivity.
  - apply Z.ltb_ge in Ek. rewrite Z.sub_0_r in HL.
    destruct sk as [|c0 sk0].
    + simpl in Es. subst rest. simpl in Hr. destruct Hr as [Hr _]. discriminate.
    + simpl in Es. injection Es as Hc Hu. subst c0.
      unfold safe. rewrite browser_view_slash. rewrite Hu.
      rewrite strip_app. inversion HF as [|? ? _ HF0]; subst.
      rewrite (strip_skipped sk0 HF0).
      cbn [filter] in Ek. change (is_sl "/") with true in Ek. cbn [List.length] in Ek.
      assert (Hnil : filter is_sl sk0 = []).
      { destruct (filter is_sl sk0); [reflexivity|]. cbn [List.length] in Ek. lia. }
      rewrite Hnil. cbn [app]. destruct rest as [|c r]; [reflexivity|].
      destruct Hr as [H1 H2]. unfold strip_tnl. cbn [filter]. rewrite H2. cbn [negb].
      unfold safe_view. rewrite H1. reflexivity.
Qed.

(* ---------- the four components *)
Lemma with_qs_head p qs : with_qs ("/" :: p) qs = "/" :: with_qs p qs \/ exists r, with_qs ("/" :: p) qs = "/" :: r.
Proof. right. unfold with_qs. destruct qs; simpl; eauto. Qed.

Lemma add_slash_safe p qs loc : add_slash ("/" :: p) qs = Some loc -> safe loc = true.
Proof. unfold add_slash. destruct (ends_with_slash _); [discriminate|]. intros H; inversion H; subst.
  rewrite sanitize_mw_eq. unfold with_qs. destruct qs; cbn [app]; apply safe_sanitize. Qed.

Lemma removelast_head (p : str) c : p <> [] -> removelast (c :: p) = c :: removelast p.
Proof. destruct p; [congruence|reflexivity]. Qed.

Lemma remove_slash_safe p qs loc : remove_slash ("/" :: p) qs = Some loc -> safe loc = true.
Proof.
  destruct p as [|c r].
  - unfold remove_slash. simpl. discriminate.
  - unfold remove_slash. destruct (Nat.ltb _ _ && _); [|discriminate].
    change (removelast ("/" :: c :: r)) with ("/" :: removelast (c :: r)).
    intros H; injection H as H; subst loc.
    rewrite sanitize_mw_eq. unfold with_qs. destruct qs; cbn [app]; apply safe_sanitize.
Qed.

Lemma static_dir_safe p d loc : static_dir ("/" :: p) d = Some loc -> safe loc = true.
Proof. unfold static_dir. destruct (_ && _ && _); [|discriminate]. intros H; inversion H; subst.
  rewrite sanitize_fs_eq. cbn [app]. apply safe_sanitize. Qed.

(* ---------- ordinary paths: target = path with the slash added / removed, query preserved *)
Lemma sanitize_ordinary u : ordinary u = true -> sanitize u = u.
Proof.
  unfold ordinary, sanitize, sanitize_gen. destruct u as [|c [|d r]]; intro H.
  - discriminate.
  - apply Ascii.eqb_eq in H; subst. reflexivity.
  - apply andb_true_iff in H as [H H3]. apply andb_true_iff in H as [H1 H2].
    apply Ascii.eqb_eq in H1; subst c. apply negb_true_iff in H2, H3.
    cbn [lead]. change (is_sl "/") with true. cbn iota. rewrite H2, H3. reflexivity.
Qed.

Lemma ordinary_prefix c d r x : ordinary (c :: d :: r) = true -> ordinary ((c :: d :: r) ++ x) = true.
Proof. intro H. exact H. Qed.

Lemma add_slash_ordinary p qs : ordinary p = true -> ends_with_slash p = false ->
  add_slash p qs = Some (with_qs (p ++ ["/"]) qs).
Proof.
  intros Ho He. unfold add_slash. rewrite He, sanitize_mw_eq. f_equal. apply sanitize_ordinary.
  destruct p as [|c [|d r]]; [discriminate| |].
  - simpl in Ho, He. congruence.
  - unfold with_qs. destruct qs; [apply ordinary_prefix; exact Ho|].
    rewrite <- app_assoc. apply ordinary_prefix. exact Ho.
Qed.

Lemma remove_slash_ordinary p qs : ordinary p = true -> ends_with_slash p = true ->
  (1 < List.length p)%nat -> remove_slash p qs = Some (with_qs (removelast p) qs).
Proof.
  intros Ho He Hl. unfold remove_slash. apply PeanoNat.Nat.ltb_lt in Hl. rewrite Hl, He. cbn [andb].
  rewrite sanitize_mw_eq. f_equal. apply sanitize_ordinary.
  destruct p as [|c [|d r]]; [discriminate|simpl in Hl; discriminate|].
  destruct r as [|e r].
  - (* "/" :: d :: [] ending with slash means d = "/", excluded by ordinary *)
    simpl in He. apply Ascii.eqb_eq in He. subst d. simpl in Ho.
    apply andb_true_iff in Ho as [Ho _]. apply andb_true_iff in Ho as [_ Ho]. discriminate.
  - assert (E : removelast (c :: d :: e :: r) = c :: d :: removelast (e :: r)) by reflexivity.
    rewrite E. unfold with_qs. destruct qs; [exact Ho|]. exact Ho.
Qed.

(* ---------- forwarding mode (no redirect code): what the router and the handler see *)
Lemma ends_with_slash_snoc : forall p, ends_with_slash (p ++ ["/"]) = true.
Proof. induction p as [|c r IH]; [reflexivity|]. cbn [app ends_with_slash].
  destruct (r ++ ["/"]) eqn:E; [destruct r; discriminate|]. exact IH. Qed.

Lemma add_forward_spec p qs :
  fst (add_slash_forward p qs) = (if ends_with_slash p then p else p ++ ["/"]) /\
  ends_with_slash (fst (add_slash_forward p qs)) = true /\
  (snd (add_slash_forward p qs) = None <-> ends_with_slash p = true).
Proof.
  unfold add_slash_forward. destruct (ends_with_slash p) eqn:E; simpl.
  - repeat split; auto.
  - split; [reflexivity|]. split; [apply ends_with_slash_snoc|]. split; intro H; discriminate.
Qed.

Lemma remove_forward_spec p qs :
  fst (remove_slash_forward p qs) = (if Nat.ltb 1 (List.length p) && ends_with_slash p then removelast p else p) /\
  (snd (remove_slash_forward p qs) = None <-> (Nat.ltb 1 (List.length p) && ends_with_slash p) = false).
Proof.
  unfold remove_slash_forward. destruct (Nat.ltb 1 (List.length p) && ends_with_slash p) eqn:E; simpl.
  - split; [reflexivity|]. split; intro H; discriminate.
  - repeat split; auto.
Qed.
