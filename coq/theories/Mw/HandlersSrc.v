(* The request handlers of RateLimiterWithConfig and BodyLimitWithConfig as translated from the source on every run
   (Gen/Src_mw_handlers.v): when the next handler is called, and in which order.  (C18, C14) *)
From Coq Require Import List ZArith Bool String.
From Echo Require Import Base.GoLite Gen.Src_mw_handlers.
Import ListNotations.
Open Scope Z_scope.

Section Src.
Variable sym : string -> Z.

Ltac golite := repeat (cbn [exec exec_s eval get put assign locals fields events inputs String.eqb Ascii.eqb Bool.eqb
                            map tl app negb andb orb fst snd]; rewrite ?truthy_b2z).

Definition names (st : state) : list string := map fst (events st).
Definition called_next (st : state) : bool := existsb (String.eqb "next") (names st).

(* ---- rate limiter.  Inputs: the skipper's answer, (identifier, error) of the extractor, (allow, error) of the store *)
Definition rl_state (skip id eerr allow aerr : Z) : state :=
  {| locals := [("c", 0)]; fields := []; events := []; inputs := [[skip]; [id; eerr]; [allow; aerr]] |}.

(* not skipped, identifier extracted: the handler runs exactly for admitted requests; a refused request goes to c.Error
   with what the deny handler returned - and the middleware returns nil WITHOUT calling next, whatever that was *)
Theorem src_rate_limiter_handler_admits id allow aerr :
  let '(st', ret) := run sym src_rate_limiter_handler_results src_rate_limiter_handler (rl_state 0 id (sym "nil") allow aerr) in
  called_next st' = negb (allow =? 0) /\
  (allow = 0 -> ret = [sym "nil"] /\
                last (events st') ("", []) = ("c.Error", [sym "config.DenyHandler(c,identifier,err)"])) /\
  (allow <> 0 -> ret = [sym "result of next"] /\ last (names st') "" = "next").
Proof.
  unfold run, src_rate_limiter_handler, src_rate_limiter_handler_results, rl_state, called_next, names.
  golite. unfold truthy at 1. cbn [Z.eqb negb]. golite.
  destruct (sym "config.BeforeFunc" =? sym "nil"); golite; rewrite Z.eqb_refl; golite; unfold truthy;
    destruct (allow =? 0) eqn:Ea; golite.
  all: split; [reflexivity|]; split; intro H.
  all: try (apply Z.eqb_eq in Ea; congruence).
  all: try (apply Z.eqb_neq in Ea; congruence).
  all: split; reflexivity.
Qed.

(* a failing identifier extractor: the error handler's answer goes to c.Error, the store is not consulted, next is not called *)
Theorem src_rate_limiter_handler_extractor_error id eerr allow aerr : eerr <> sym "nil" ->
  let '(st', ret) := run sym src_rate_limiter_handler_results src_rate_limiter_handler (rl_state 0 id eerr allow aerr) in
  called_next st' = false /\ ret = [sym "nil"] /\ existsb (String.eqb "config.Store.Allow") (names st') = false.
Proof.
  intro He. apply Z.eqb_neq in He.
  unfold run, src_rate_limiter_handler, src_rate_limiter_handler_results, rl_state, called_next, names.
  golite. unfold truthy at 1. cbn [Z.eqb negb]. golite.
  destruct (sym "config.BeforeFunc" =? sym "nil"); golite; rewrite He; golite; repeat split; reflexivity.
Qed.

(* ---- body limit.  Not skipped: a declared length above the limit is refused before anything else happens; otherwise
   the pooled reader is Reset FIRST, handed back on return, installed as the request body, and then next runs *)
Theorem src_body_limit_handler_order :
  let st := {| locals := [("c", 0)]; fields := []; events := []; inputs := [[0]] |} in
  let '(st', ret) := run sym src_body_limit_handler_results src_body_limit_handler st in
  if sym "config.limit" <? sym "req.ContentLength"
  then ret = [sym "echo.ErrStatusRequestEntityTooLarge"] /\ names st' = ["config.Skipper"]%string
  else ret = [sym "result of next"] /\
       names st' = ["config.Skipper"; "r.Reset"; "defer pool.Put(r)"; "next"]%string /\
       get (fields st') "req.Body" = sym "pool.Get().(*limitedReader)".
Proof.
  unfold run, src_body_limit_handler, src_body_limit_handler_results, names.
  golite. unfold truthy at 1. cbn [Z.eqb negb]. golite.
  destruct (sym "config.limit" <? sym "req.ContentLength"); golite; repeat split; reflexivity.
Qed.
End Src.
