package main

import (
	"fmt"
	"math/rand"
	"net/http"
	"net/http/httptest"
	"net/url"
	"os"
	"path/filepath"
	"strings"

	"github.com/labstack/echo/v4"
	"github.com/labstack/echo/v4/middleware"
)

func init() {
	props["C17"] = &propRunner{gen: genC17, rule: "request targets = hostile prefix (mix of / \\ %2f %5c TAB CR LF other controls) + host-like segment (+ /.. to reach a directory for static) +- trailing slash +- query, through AddTrailingSlash / RemoveTrailingSlash (redirect mode, and forwarding mode with the default constructors) / Echo.Static / Group.Static; non-trivial = a redirect was produced and the decoded path has a slash, backslash or TAB/CR/LF within its first 3 bytes after the leading '/'; distinct by (component, decoded path, query)"}
}

// how a browser reads a Location value (WHATWG URL parsing): strip leading/trailing C0 control or
// space, remove all TAB/LF/CR; safe = path-absolute and not starting with // or /\ .
func c17BrowserView(loc string) string {
	s := strings.TrimLeftFunc(loc, func(r rune) bool { return r <= 0x20 })
	s = strings.NewReplacer("\t", "", "\n", "", "\r", "").Replace(s)
	return s
}
func c17Safe(loc string) bool {
	v := c17BrowserView(loc)
	if len(v) == 0 || v[0] != '/' {
		return false
	}
	if len(v) > 1 && (v[1] == '/' || v[1] == '\\') {
		return false
	}
	return true
}

func genC17(rng *rand.Rand, n int, emit func(Case), dist map[string]int) {
	root, err := os.MkdirTemp("", "c17root")
	if err != nil {
		panic(err)
	}
	defer os.RemoveAll(root)
	os.MkdirAll(filepath.Join(root, "sub", "deep"), 0o755)
	os.MkdirAll(filepath.Join(root, "example.com"), 0o755)
	os.WriteFile(filepath.Join(root, "index.html"), []byte("root index"), 0o644)
	os.WriteFile(filepath.Join(root, "sub", "f.txt"), []byte("file"), 0o644)

	var seenPath, seenURI string
	ok200 := func(c echo.Context) error {
		seenPath, seenURI = c.Request().URL.Path, c.Request().RequestURI
		return c.String(200, "ok")
	}
	mk := func(comp int, code int) *echo.Echo {
		e := echo.New()
		switch comp {
		case 0:
			cfg := middleware.TrailingSlashConfig{RedirectCode: code}
			if code == 302 || code == 308 {
				// a skipper that looks at a query parameter first (and never skips): the query string must still be preserved as sent
				cfg.Skipper = func(c echo.Context) bool { return c.QueryParam("no-redirect") == "never-sent" }
			}
			e.Pre(middleware.AddTrailingSlashWithConfig(cfg))
			e.Any("/*", ok200)
		case 1:
			cfg := middleware.TrailingSlashConfig{RedirectCode: code}
			if code == 302 || code == 308 {
				cfg.Skipper = func(c echo.Context) bool { return c.QueryParam("no-redirect") == "never-sent" }
			}
			e.Pre(middleware.RemoveTrailingSlashWithConfig(cfg))
			e.Any("/*", ok200)
		case 4: // forwarding (no redirect code), default constructors
			e.Pre(middleware.AddTrailingSlash())
			e.Any("/*", ok200)
		case 5:
			e.Pre(middleware.RemoveTrailingSlash())
			e.Any("/*", ok200)
		case 2:
			e.Static("/", root)
		case 3:
			g := e.Group("")
			g.Static("/", root)
		}
		return e
	}
	codes := []int{301, 302, 307, 308}
	engines := map[[2]int]*echo.Echo{}
	pieces := []string{"/", "/", "\\", "\t", "\n", "\r", "\x01", "\x0b", " ", "\x7f", "%2f", "%5c", "%09", "%0a", "%0d", "%2F", "%5C", "%00", "%20", ".", "a"}
	hosts := []string{"example.com", "evil.org", "sub", "sub/deep", "x", "example.com/..", "a.b", "@evil.com", "example.com%2f.."}
	queries := []string{"", "", "a=b", "next=//evil.com", "x=%09", "?", "a=b&c=d", "\\", "sort=name&page=2", "q=a%20b&b=1", "z=1&a=2"}
	for it := 0; it < n; it++ {
		comp := rng.Intn(4)
		if rng.Intn(6) == 0 {
			comp = 4 + rng.Intn(2)
		}
		code := codes[rng.Intn(len(codes))]
		if comp >= 2 {
			code = 301
		}
		e := engines[[2]int{comp, code}]
		if e == nil {
			e = mk(comp, code)
			engines[[2]int{comp, code}] = e
		}
		// build target (encoded form) : "/" + hostile pieces + host + optional dotdots + optional slash
		var sb strings.Builder
		sb.WriteString("/")
		np := rng.Intn(5)
		if rng.Intn(6) == 0 {
			np = 0
		}
		for i := 0; i < np; i++ {
			sb.WriteString(pieces[rng.Intn(len(pieces))])
		}
		h := hosts[rng.Intn(len(hosts))]
		sb.WriteString(h)
		if comp == 2 || comp == 3 || rng.Intn(4) == 0 {
			// climb back so that the cleaned name is a directory
			for k := rng.Intn(5); k > 0; k-- {
				sb.WriteString("/..")
			}
		}
		switch rng.Intn(4) {
		case 0:
			sb.WriteString("/")
		case 1:
			if rng.Intn(3) == 0 {
				sb.WriteString("//")
			}
		}
		target := sb.String()
		qs := queries[rng.Intn(len(queries))]
		// request: mode A parse the encoded target, mode B set the decoded path directly
		var req *http.Request
		modeB := rng.Intn(3) == 0
		func() {
			defer func() {
				if r := recover(); r != nil {
					req = nil
				}
			}()
			if !modeB {
				t := target
				if qs != "" {
					t += "?" + qs
				}
				if strings.ContainsAny(t, " \t\n\r\x01\x0b\x7f") {
					req = nil
					return
				}
				req = httptest.NewRequest(http.MethodGet, t, nil)
			}
		}()
		if req == nil {
			dec, err := url.PathUnescape(target)
			if err != nil {
				dec = target
			}
			req = httptest.NewRequest(http.MethodGet, "/", nil)
			req.URL.Path = dec
			req.URL.RawPath = ""
			req.URL.RawQuery = qs
			req.RequestURI = ""
			modeB = true
		}
		path := req.URL.Path
		rq := req.URL.RawQuery
		rec := httptest.NewRecorder()
		origURI := req.RequestURI
		seenPath, seenURI = "<handler did not run>", ""
		func() {
			defer func() {
				if r := recover(); r != nil {
					rec.Code = 599
				}
			}()
			e.ServeHTTP(rec, req)
		}()
		if comp >= 4 {
			// forwarding: the handler (and the router before it) sees the path with the slash added / removed, the query untouched
			want := path
			if comp == 4 && !strings.HasSuffix(path, "/") {
				want = path + "/"
			}
			if comp == 5 && len(path) > 1 && strings.HasSuffix(path, "/") {
				want = path[:len(path)-1]
			}
			ok, why := true, ""
			if rec.Code != 200 || seenPath != want {
				ok, why = false, fmt.Sprintf("forwarding: request path %q reached the handler as %q (status %d), expected %q", path, seenPath, rec.Code, want)
			} else if req.URL.RawQuery != rq {
				ok, why = false, fmt.Sprintf("forwarding changed the query from %q to %q", rq, req.URL.RawQuery)
			}
			modified := seenPath != path
			uri := ""
			if modified || seenURI != origURI {
				uri = seenURI
			}
			emit(Case{In: L(I(comp), S(path), S(rq), B(false)), Out: L(I(2), S(seenPath), B(modified), S(uri)), Ok: ok, Why: why,
				Key:   fmt.Sprintf("fwd|%d|%s|%s", comp, path, rq),
				Human: fmt.Sprintf("component=%d (forwarding) path=%q query=%q -> handler saw path=%q RequestURI=%q status=%d", comp, path, rq, seenPath, seenURI, rec.Code)})
			dist[fmt.Sprintf("component_%d", comp)]++
			continue
		}
		loc := rec.Header().Get("Location")
		redirected := rec.Code >= 300 && rec.Code <= 308 && len(rec.Header()["Location"]) > 0
		ok, why := true, ""
		if redirected {
			if !c17Safe(loc) {
				ok, why = false, fmt.Sprintf("Location %q is read by a browser as %q: not a same-host path-absolute reference", loc, c17BrowserView(loc))
			}
			// ordinary paths: exact target
			ordinary := len(path) > 1 && path[0] == '/' && !strings.ContainsAny(path[1:2], "/\\\t\n\r")
			if ordinary && comp <= 1 && ok {
				want := path + "/"
				if comp == 1 {
					want = strings.TrimSuffix(path, "/")
					if strings.HasSuffix(path, "/") {
						want = path[:len(path)-1]
					}
				}
				if rq != "" {
					want += "?" + rq
				}
				if loc != want {
					ok, why = false, fmt.Sprintf("ordinary path %q query %q redirected to %q, expected %q", path, rq, loc, want)
				}
			}
		}
		isdir := redirected && (comp == 2 || comp == 3)
		out := L(I(0), S(""))
		if redirected {
			out = L(I(1), S(loc))
		}
		cs := Case{In: L(I(comp), S(path), S(rq), B(isdir)), Out: out, Ok: ok, Why: why,
			Human: fmt.Sprintf("component=%d path=%q query=%q -> status=%d Location=%q", comp, path, rq, rec.Code, loc)}
		head := path
		if len(head) > 4 {
			head = head[:4]
		}
		if redirected && len(head) > 1 && strings.ContainsAny(head[1:], "/\\\t\n\r") {
			cs.Key = fmt.Sprintf("%d|%s|%s", comp, path, rq)
		}
		dist[fmt.Sprintf("component_%d", comp)]++
		if redirected {
			dist[fmt.Sprintf("redirected_component_%d", comp)]++
		}
		if modeB {
			dist["decoded_path_set_directly"]++
		}
		if rq != "" {
			dist["with_query"]++
		}
		emit(cs)
	}
}
