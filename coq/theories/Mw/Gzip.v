(* Model of middleware/compress.go: gzipResponseWriter behind echo.Response, the deferred finaliser
   and the pooled buffer, over an abstract gzip codec (a stream decodes to the bytes fed to it iff it
   was closed).  (C15) *)
From Coq Require Import List Arith Bool.
Import ListNotations.

Definition bytes := list nat.

(* what reaches the underlying net/http writer *)
Record wire := {
  w_status : option nat;        (* status line sent (explicit, or implicit 200 on first write/flush) *)
  w_ce : bool;                  (* Content-Encoding: gzip present when the headers went out *)
  w_cl : bool;                  (* a Content-Length header present when the headers went out *)
  w_plain : bytes;              (* bytes written uncompressed *)
  w_gz : bytes;                 (* bytes fed to the gzip stream that writes to the wire *)
  w_gz_open : bool;             (* the gzip stream has written its header to the wire *)
  w_gz_closed : bool }.         (* ... and its footer *)
Definition wire0 : wire := {| w_status := None; w_ce := false; w_cl := false; w_plain := []; w_gz := [];
                              w_gz_open := false; w_gz_closed := false |}.

Record grw := {
  wrote_header : bool; wrote_body : bool; exceeded : bool; code : nat; buffer : bytes;
  h_ce : bool; h_cl : bool;     (* current header map: Content-Encoding gzip / Content-Length set *)
  committed : bool;             (* echo.Response.Committed *)
  out : wire }.

Definition grw0 (pooled_buffer : bytes) (cl : bool) : grw :=
  (* bpool.Get(); buf.Reset() *)
  {| wrote_header := false; wrote_body := false; exceeded := false; code := 0; buffer := [];
     h_ce := false; h_cl := cl; committed := false; out := wire0 |}.

(* rw.WriteHeader(code): first one wins; headers are captured then *)
Definition send_header (g : grw) (c : nat) : wire :=
  let w := out g in
  match w_status w with
  | Some _ => w
  | None => {| w_status := Some c; w_ce := h_ce g; w_cl := h_cl g; w_plain := w_plain w; w_gz := w_gz w;
               w_gz_open := w_gz_open w; w_gz_closed := w_gz_closed w |}
  end.
Definition upd_out (g : grw) (w : wire) : grw :=
  {| wrote_header := wrote_header g; wrote_body := wrote_body g; exceeded := exceeded g; code := code g;
     buffer := buffer g; h_ce := h_ce g; h_cl := h_cl g; committed := committed g; out := w |}.
(* any write/flush on rw sends an implicit 200 if no status line went out yet *)
Definition implicit (g : grw) : grw := upd_out g (send_header g 200).

(* gzip.Writer.Write(b): the first write puts the gzip header on the wire *)
Definition gz_write (g : grw) (b : bytes) : grw :=
  let g1 := implicit g in
  let w := out g1 in
  upd_out g1 {| w_status := w_status w; w_ce := w_ce w; w_cl := w_cl w; w_plain := w_plain w; w_gz := w_gz w ++ b;
                w_gz_open := true; w_gz_closed := w_gz_closed w |}.

(* gzipResponseWriter.WriteHeader: deletes Content-Length, records the code *)
Definition g_write_header (g : grw) (c : nat) : grw :=
  {| wrote_header := true; wrote_body := wrote_body g; exceeded := exceeded g; code := c; buffer := buffer g;
     h_ce := h_ce g; h_cl := false; committed := committed g; out := out g |}.

(* the threshold is crossed (by a write) or a flush forces the stream: set Content-Encoding, send the
   status line, feed the buffered bytes to the compressor *)
Definition start_gzip (g : grw) : grw :=
  let g1 := {| wrote_header := wrote_header g; wrote_body := wrote_body g; exceeded := true; code := code g;
               buffer := buffer g; h_ce := true; h_cl := h_cl g; committed := committed g; out := out g |} in
  let g2 := if wrote_header g1 then upd_out g1 (send_header g1 (code g1)) else g1 in
  gz_write g2 (buffer g2).

Definition g_write (minlen : nat) (g : grw) (b : bytes) : grw * nat :=
  let g0 := {| wrote_header := wrote_header g; wrote_body := true; exceeded := exceeded g; code := code g;
               buffer := buffer g; h_ce := h_ce g; h_cl := h_cl g; committed := committed g; out := out g |} in
  if exceeded g0 then (gz_write g0 b, List.length b)
  else
    let g1 := {| wrote_header := wrote_header g0; wrote_body := true; exceeded := false; code := code g0;
                 buffer := buffer g0 ++ b; h_ce := h_ce g0; h_cl := h_cl g0; committed := committed g0; out := out g0 |} in
    if Nat.leb minlen (List.length (buffer g1)) then (start_gzip g1, List.length b) else (g1, List.length b).

Definition g_flush (g : grw) : grw :=
  let g1 := if exceeded g then g else start_gzip g in
  implicit g1.                                  (* gzip Flush + rw.Flush *)

(* echo.Response in front: the first status-setting operation commits through grw.WriteHeader *)
Inductive op := WriteHeader (c : nat) | Write (b : bytes) | Flush.

Definition commit (g : grw) (c : nat) : grw :=
  if committed g then g
  else let g1 := g_write_header g c in
       {| wrote_header := wrote_header g1; wrote_body := wrote_body g1; exceeded := exceeded g1; code := code g1;
          buffer := buffer g1; h_ce := h_ce g1; h_cl := h_cl g1; committed := true; out := out g1 |}.

Definition step (minlen : nat) (g : grw) (o : op) : grw * nat :=
  match o with
  | WriteHeader c => (commit g c, 0)
  | Write b => g_write minlen (commit g 200) b
  | Flush => (g_flush (commit g 200), 0)
  end.

Fixpoint run (minlen : nat) (g : grw) (ops : list op) : grw * list nat :=
  match ops with
  | [] => (g, [])
  | o :: r => let '(g1, n) := step minlen g o in let '(g2, ns) := run minlen g1 r in (g2, n :: ns)
  end.

(* the deferred finaliser *)
Definition finish (g : grw) : wire :=
  if negb (wrote_body g) && negb (exceeded g) then
    (* nothing to compress: drop Content-Encoding, send the status line if one was set *)
    let g1 := {| wrote_header := wrote_header g; wrote_body := wrote_body g; exceeded := exceeded g; code := code g;
                 buffer := buffer g; h_ce := false; h_cl := h_cl g; committed := committed g; out := out g |} in
    if wrote_header g1 then send_header g1 (code g1) else out g1
  else if negb (exceeded g) then
    (* short body: written uncompressed *)
    let g1 := if wrote_header g then upd_out g (send_header g (code g)) else g in
    let g2 := implicit g1 in
    let w := out g2 in
    {| w_status := w_status w; w_ce := w_ce w; w_cl := w_cl w; w_plain := w_plain w ++ buffer g2; w_gz := w_gz w;
       w_gz_open := w_gz_open w; w_gz_closed := w_gz_closed w |}
  else
    (* the gzip stream is on the wire: Close writes header (if still missing) and footer *)
    let g2 := implicit g in
    let w := out g2 in
    {| w_status := w_status w; w_ce := w_ce w; w_cl := w_cl w; w_plain := w_plain w; w_gz := w_gz w;
       w_gz_open := true; w_gz_closed := true |}.

Definition request (minlen : nat) (pooled : bytes) (cl : bool) (ops : list op) : wire * list nat :=
  let '(g, ns) := run minlen (grw0 pooled cl) ops in (finish g, ns).

(* what a client recovers by undoing the advertised Content-Encoding *)
Definition decode (w : wire) : option bytes :=
  if w_ce w then
    match w_plain w with
    | [] => if w_gz_open w && w_gz_closed w then Some (w_gz w) else None
    | _ => None
    end
  else if w_gz_open w then None else Some (w_plain w).

Fixpoint payload (ops : list op) : bytes :=
  match ops with [] => [] | Write b :: r => b ++ payload r | _ :: r => payload r end.
Fixpoint chosen_status (ops : list op) : option nat :=
  match ops with
  | [] => None
  | WriteHeader c :: _ => Some c
  | _ :: _ => Some 200
  end.

(* ---- Decompress (middleware/decompress.go): a request body labelled "Content-Encoding: gzip" reaches the handler
   gunzipped (an empty body stays empty); every other body is untouched.  [gunzip] is compress/gzip's reader (oracle). *)
Definition decompress (is_gzip : bool) (sent : bytes) (gunzip : bytes -> option bytes) : option bytes :=
  if is_gzip then match sent with [] => Some [] | _ => gunzip sent end else Some sent.
