(* The statement-level translation of commonBalancer.AddTarget (Gen/Src_addtarget.v, regenerated from middleware/proxy.go on
   every run, language Base/GoLoop.v): for EVERY target list and every new target, the target is refused exactly when one of
   that NAME is already there - whatever its URL - and otherwise appended at the end, nothing else changing: the model's [add]
   (Mw/Proxy.v), on which membership, uniqueness of names and the rotation theorems rest.  (C19) *)
From Coq Require Import List ZArith Bool String Ascii Lia.
From Echo Require Import Base.Sx Base.GoLoop Gen.Src_addtarget.
Import ListNotations.
Open Scope Z_scope.

(* a target: its name and (an identifier of) its URL *)
Definition tv (t : str * Z) : val := VL [VS (fst t); VZ (snd t)].
Definition tpred (f : string) (args : list val) : val :=
  if String.eqb f ".Name" then match args with [VL [n; _]] => n | _ => VZ 0 end
  else if String.eqb f ".URL" then match args with [VL [_; u]] => u | _ => VZ 0 end
  else if String.eqb f "append" then match args with [VL l; v] => VL (l ++ [v]) | _ => VZ 0 end
  else if String.eqb f "append..." then match args with [VL a; VL b] => VL (a ++ b) | _ => VZ 0 end
  else if String.eqb f "index" then match args with [VL l; VZ i] => nth (Z.to_nat i) l (VZ 0) | _ => VZ 0 end
  else if String.eqb f "slice_to" then match args with [VL l; VZ i] => VL (firstn (Z.to_nat i) l) | _ => VZ 0 end
  else if String.eqb f "slice_from" then match args with [VL l; VZ i] => VL (skipn (Z.to_nat i) l) | _ => VZ 0 end
  else if String.eqb f "len" then match args with [VL l] => VZ (Z.of_nat (List.length l)) | _ => VZ 0 end
  else VZ 0.
Definition tsym (s : string) : val := VZ 0.

Section Src.
Variables (l : list (str * Z)) (t : str * Z).
Definition same_name (x : str * Z) : bool := str_eqb (fst x) (fst t).

Local Notation mk vt :=
  {| locals := [("target"%string, tv t); ("t"%string, vt)]; fields := [("b.targets"%string, VL (map tv l))];
     lists := [("b.targets"%string, map tv l)]; events := []; inputs := [] |}.

Ltac at_eval :=
  repeat (rewrite ?truthy_b2v;
          cbn [exec exec_s eval get put getl assign set_local locals fields lists events inputs String.eqb Ascii.eqb Bool.eqb
               map tl app negb andb orb fst snd as_z as_l val_eqb tsym tpred tv];
          try unfold set_local).

Lemma name_loop (F : state -> state * ctl) :
  (forall x, F (mk (tv x)) = if same_name x then (mk (tv x), Ret [VZ 0]) else (mk (tv x), Next)) ->
  forall xs vt, exists vt',
  range_loop F "t" (map tv xs) (mk vt) = if existsb same_name xs then (mk vt', Ret [VZ 0]) else (mk vt', Next).
Proof.
  intros HF xs. induction xs as [|x r IH]; intros vt.
  - exists vt. reflexivity.
  - cbn [map range_loop existsb].
    change (set_local (mk vt) "t" (tv x)) with (mk (tv x)). rewrite HF.
    destruct (same_name x); cbn [orb]; [exists (tv x); reflexivity|apply IH].
Qed.

Theorem src_add_target_spec :
  let '(st', ret) := run tsym tpred src_add_target_results src_add_target (mk (VZ 0)) in
  if existsb same_name l
  then ret = [VZ 0] /\ get (fields st') "b.targets" = VL (map tv l)
  else ret = [VZ 1] /\ get (fields st') "b.targets" = VL (map tv (l ++ [t])).
Proof.
  unfold run, src_add_target, src_add_target_results. cbn [exec]. at_eval.
  match goal with |- context [range_loop ?F "t" _ ?s] => destruct (name_loop F) with (xs := l) (vt := VZ 0) as (vt' & Hr) end.
  - intros x. at_eval. unfold same_name. destruct (str_eqb (fst x) (fst t)); reflexivity.
  - match type of Hr with ?L = _ => match goal with |- context [range_loop ?F "t" ?xs ?s] => change (range_loop F "t" xs s) with L end end.
    rewrite Hr. destruct (existsb same_name l); at_eval; [split; reflexivity|].
    split; [reflexivity|]. rewrite map_app. reflexivity.
Qed.
End Src.

Theorem C19_source_add_target : forall (l : list (str * Z)) (t : str * Z),
  let st := {| locals := [("target"%string, tv t); ("t"%string, VZ 0)]; fields := [("b.targets"%string, VL (map tv l))];
               lists := [("b.targets"%string, map tv l)]; events := []; inputs := [] |} in
  let '(st', ret) := run tsym tpred src_add_target_results src_add_target st in
  if existsb (same_name t) l
  then ret = [VZ 0] /\ get (fields st') "b.targets" = VL (map tv l)
  else ret = [VZ 1] /\ get (fields st') "b.targets" = VL (map tv (l ++ [t])).
Proof. exact src_add_target_spec. Qed.
Print Assumptions C19_source_add_target.

Example add_target_src_example :
  let l := [(lit "a", 1); (lit "b", 2)] in
  snd (run tsym tpred src_add_target_results src_add_target
         {| locals := [("target"%string, tv (lit "c", 1)); ("t"%string, VZ 0)]; fields := [("b.targets"%string, VL (map tv l))];
            lists := [("b.targets"%string, map tv l)]; events := []; inputs := [] |}) = [VZ 1]     (* another name, the URL of a: added *)
  /\ snd (run tsym tpred src_add_target_results src_add_target
         {| locals := [("target"%string, tv (lit "b", 9)); ("t"%string, VZ 0)]; fields := [("b.targets"%string, VL (map tv l))];
            lists := [("b.targets"%string, map tv l)]; events := []; inputs := [] |}) = [VZ 0].    (* the name of b: refused *)
Proof. split; vm_compute; reflexivity. Qed.

(* ---- RemoveTarget: the FIRST target of that name is cut out, the others keep their order; false when there is none *)
Lemma skipn_nth {A} (d : A) (l : list A) k : (k < List.length l)%nat -> skipn k l = nth k l d :: skipn (S k) l.
Proof. revert k. induction l as [|x r IH]; intros k H; [cbn in H; lia|]. destruct k; [reflexivity|]. cbn. apply IH. cbn in H. lia. Qed.
Lemma firstn_S_nth {A} (d : A) (l : list A) k : (k < List.length l)%nat -> firstn (S k) l = (firstn k l ++ [nth k l d])%list.
Proof. revert k. induction l as [|x r IH]; intros k H; [cbn in H; lia|]. destruct k; [reflexivity|]. cbn. f_equal. apply IH. cbn in H. lia. Qed.

Lemma map_skipn' {A B} (f : A -> B) k (l : list A) : skipn k (map f l) = map f (skipn k l).
Proof. revert k. induction l as [|x r IH]; intros k; destruct k; try reflexivity. cbn. apply IH. Qed.
Lemma map_firstn' {A B} (f : A -> B) k (l : list A) : firstn k (map f l) = map f (firstn k l).
Proof. revert k. induction l as [|x r IH]; intros k; destruct k; try reflexivity. cbn. f_equal. apply IH. Qed.

Section Remove.
Variables (l : list (str * Z)) (n : str).
Definition named (x : str * Z) : bool := str_eqb (fst x) n.
Fixpoint rm (xs : list (str * Z)) : option (list (str * Z)) :=
  match xs with
  | [] => None
  | x :: r => if named x then Some r else match rm r with Some r' => Some (x :: r') | None => None end
  end.
Definition rm_from (k : nat) : option (list (str * Z)) :=
  match rm (skipn k l) with Some r => Some (firstn k l ++ r)%list | None => None end.
Definition d0 : str * Z := ([], 0).
Lemma rm_from_0 : rm_from 0 = rm l.
Proof. unfold rm_from. cbn. destruct (rm l); reflexivity. Qed.
Lemma rm_from_hit k : (k < List.length l)%nat -> named (nth k l d0) = true -> rm_from k = Some (firstn k l ++ skipn (S k) l)%list.
Proof. intros H E. unfold rm_from. rewrite (skipn_nth d0 l k H). cbn [rm]. rewrite E. reflexivity. Qed.
Lemma rm_from_other k : (k < List.length l)%nat -> named (nth k l d0) = false -> rm_from k = rm_from (S k).
Proof. intros H E. unfold rm_from. rewrite (skipn_nth d0 l k H). cbn [rm]. rewrite E.
  rewrite (firstn_S_nth d0 l k H). destruct (rm (skipn (S k) l)); [|reflexivity]. rewrite <- app_assoc. reflexivity. Qed.
Lemma rm_from_end k : (List.length l <= k)%nat -> rm_from k = None.
Proof. intro H. unfold rm_from. rewrite skipn_all2 by exact H. reflexivity. Qed.

Local Notation mkr vi vt vf :=
  {| locals := [("name"%string, VS n); ("i"%string, vi); ("t"%string, vt)]; fields := [("b.targets"%string, vf)];
     lists := []; events := []; inputs := [] |}.

Ltac rt_eval :=
  repeat (rewrite ?truthy_b2v;
          cbn [exec exec_s eval get put getl assign set_local locals fields lists events inputs String.eqb Ascii.eqb Bool.eqb
               map tl app negb andb orb fst snd as_z as_l val_eqb tsym tpred tv];
          try unfold set_local).

Lemma index_loop (F : state -> state * ctl) :
  (forall k vt, (k < List.length l)%nat ->
     F (mkr (VZ (Z.of_nat k)) vt (VL (map tv l))) =
     if named (nth k l d0)
     then (mkr (VZ (Z.of_nat k)) (tv (nth k l d0)) (VL (map tv (firstn k l ++ skipn (S k) l))), Ret [VZ 1])
     else (mkr (VZ (Z.of_nat k)) (tv (nth k l d0)) (VL (map tv l)), Next)) ->
  forall m k vi vt, (k + m = List.length l)%nat -> exists vi' vt',
  range_loop F "i" (map (fun j => VZ (Z.of_nat j)) (seq k m)) (mkr vi vt (VL (map tv l))) =
    match rm_from k with
    | Some r => (mkr vi' vt' (VL (map tv r)), Ret [VZ 1])
    | None => (mkr vi' vt' (VL (map tv l)), Next)
    end.
Proof.
  intros HF m. induction m as [|m IH]; intros k vi vt Hk.
  - exists vi, vt. cbn. rewrite rm_from_end by lia. reflexivity.
  - cbn [seq map range_loop].
    change (set_local (mkr vi vt (VL (map tv l))) "i" (VZ (Z.of_nat k))) with (mkr (VZ (Z.of_nat k)) vt (VL (map tv l))).
    rewrite HF by lia. destruct (named (nth k l d0)) eqn:En.
    + rewrite (rm_from_hit k) by (lia || exact En). do 2 eexists. reflexivity.
    + rewrite (rm_from_other k) by (lia || exact En). apply IH. lia.
Qed.

Theorem src_remove_target_spec :
  let '(st', ret) := run tsym tpred src_remove_target_results src_remove_target (mkr (VZ 0) (VZ 0) (VL (map tv l))) in
  match rm l with
  | Some r => ret = [VZ 1] /\ get (fields st') "b.targets" = VL (map tv r)
  | None => ret = [VZ 0] /\ get (fields st') "b.targets" = VL (map tv l)
  end.
Proof.
  unfold run, src_remove_target, src_remove_target_results. cbn [exec]. rt_eval. rewrite map_length, Nat2Z.id.
  match goal with |- context [range_loop ?F "i" _ ?s] =>
    destruct (index_loop F) with (m := List.length l) (k := 0%nat) (vi := VZ 0) (vt := VZ 0) as (vi' & vt' & Hr)
  end.
  - intros k vt Hk. rt_eval. rewrite Nat2Z.id.
    rewrite (nth_indep _ (VZ 0) (tv d0)) by (rewrite map_length; exact Hk). rewrite (map_nth tv).
    unfold named. destruct (nth k l d0) as [xn xu] eqn:Ex. rt_eval. destruct (str_eqb xn n); rt_eval; [|reflexivity].
    replace (Z.to_nat (Z.of_nat k + 1)) with (S k) by lia. rewrite map_skipn', map_firstn', <- map_app, ?Nat2Z.id. reflexivity.
  - reflexivity.
  - match type of Hr with ?L = _ => match goal with |- context [range_loop ?F "i" ?xs ?s] => change (range_loop F "i" xs s) with L end end.
    rewrite Hr, rm_from_0. destruct (rm l); rt_eval; split; reflexivity.
Qed.
End Remove.

Theorem C19_source_remove_target : forall (l : list (str * Z)) (n : str),
  let st := {| locals := [("name"%string, VS n); ("i"%string, VZ 0); ("t"%string, VZ 0)]; fields := [("b.targets"%string, VL (map tv l))];
               lists := []; events := []; inputs := [] |} in
  let '(st', ret) := run tsym tpred src_remove_target_results src_remove_target st in
  match rm n l with
  | Some r => ret = [VZ 1] /\ get (fields st') "b.targets" = VL (map tv r)
  | None => ret = [VZ 0] /\ get (fields st') "b.targets" = VL (map tv l)
  end.
Proof. exact src_remove_target_spec. Qed.
Print Assumptions C19_source_remove_target.
