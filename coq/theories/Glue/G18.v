From Coq Require Import List ZArith Bool.
From Echo Require Import Base.Sx Mw.RateLimit.
Import ListNotations.
Open Scope Z_scope.
(* input: (a burst expires_ticks start_tick ((id tick) ...) b): rate = a tokens per b ticks, 512 ticks per second
   output: ((ran status) ...) *)
Definition run_sx (x : sx) : sx :=
  let a := as_Z (nth_sx 0 x) in
  let B := as_Z (nth_sx 1 x) in
  let E := as_Z (nth_sx 2 x) in
  let t0 := as_Z (nth_sx 3 x) in
  let evs := map (fun e => (as_str (nth_sx 0 e), as_Z (nth_sx 1 e))) (as_list (nth_sx 4 x)) in
  SL (map (fun ok => let '(st, ran) := middleware ok in SL [of_bool ran; SZ st])
          (store_run a (as_Z (nth_sx 5 x)) B E str str_eqb (store0 str t0) evs)).
