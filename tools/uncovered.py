#!/usr/bin/env python3
"""Lists the source blocks of labstack/echo that no harness executed (from a Go cover profile).
usage: uncovered.py cover.txt file-substring [...]"""
import re, sys, collections
prof = sys.argv[1]
subs = sys.argv[2:]
blocks = collections.defaultdict(dict)
for l in open(prof):
    m = re.match(r"github.com/labstack/echo/v4/(.*):(\d+)\.(\d+),(\d+)\.(\d+) (\d+) (\d+)", l)
    if not m:
        continue
    f, sl, sc, el, ec, n, cnt = m.group(1), int(m.group(2)), int(m.group(3)), int(m.group(4)), int(m.group(5)), int(m.group(6)), int(m.group(7))
    k = (sl, sc, el, ec)
    blocks[f][k] = max(blocks[f].get(k, 0), cnt)
for f in sorted(blocks):
    if subs and not any(s in f for s in subs):
        continue
    src = open("/repo/" + f).read().split("\n")
    unc = sorted(k for k, c in blocks[f].items() if c == 0)
    if not unc:
        continue
    print("==== %s: %d uncovered blocks" % (f, len(unc)))
    for (sl, sc, el, ec) in unc:
        txt = " | ".join(x.strip() for x in src[sl - 1:min(el, sl + 3)])
        print("  %d-%d: %s" % (sl, el, txt[:170]))
