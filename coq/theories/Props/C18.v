(* C18 — the rate limiter never admits more than burst + rate x time per identifier.
   Statements only; proofs in Mw/RateLimitProofs.v.  Units: time in ticks; rate = a tokens per b
   ticks; burst = B tokens; ExpiresIn = E ticks; the hypothesis B*b <= a*E is the property's
   "ExpiresIn*rate >= burst".  Every store operation is one atomic step (see DESIGN: partial). *)
From Coq Require Import List ZArith Bool.
From Echo Require Import Mw.RateLimit Mw.RateLimitProofs.
Import ListNotations.
Open Scope Z_scope.
From Echo Require Import PropLemmas.C18.

(* refinement: for every timed history over any identifiers (non-decreasing clock), the in-memory
   store with expiry/cleanup answers exactly like the specification "one bucket per identifier,
   never evicted" - so expiry never grants more than the idle refill would have *)
Theorem C18_store_refines_spec : forall a b B E, 0 <= a -> 0 < b -> 0 <= B -> 0 <= E -> B * b <= a * E ->
  forall (ident : Type) (id_eqb : ident -> ident -> bool), (forall x y, id_eqb x y = true <-> x = y) ->
  forall evs now0, ev_sorted_from ident now0 evs ->
  store_run a b B E ident id_eqb (store0 ident now0) evs = spec_run a b B ident id_eqb (fun _ => None) evs.
Proof. exact C18_store_refines_spec_l. Qed.
Print Assumptions C18_store_refines_spec.

(* isolation: the answers given to identifier x are a function of x's own sub-history only: those
   of a single bucket, full at x's first request *)
Theorem C18_isolation : forall a b B E, 0 <= a -> 0 < b -> 0 <= B -> 0 <= E -> B * b <= a * E ->
  forall (ident : Type) (id_eqb : ident -> ident -> bool), (forall x y, id_eqb x y = true <-> x = y) ->
  forall x evs now0, ev_sorted_from ident now0 evs ->
  sub_answers ident id_eqb x evs (store_run a b B E ident id_eqb (store0 ident now0) evs) =
  match sub_history ident id_eqb x evs with
  | [] => []
  | t0 :: _ => run a b B (fresh b B t0) (sub_history ident id_eqb x evs)
  end.
Proof. exact C18_isolation_l. Qed.
Print Assumptions C18_isolation.

(* the bound, for every window of that single-bucket history: the requests admitted after t1
   (win), whatever happened before (pre): admitted <= burst + rate * (t2 - t1), scaled by b *)
Theorem C18_window : forall a b B, 0 <= a -> 0 < b -> 0 <= B ->
  forall pre win now0 t1, sorted_from now0 pre -> lastt now0 pre <= t1 -> sorted_from t1 win ->
  count (run a b B (final a b B (fresh b B now0) pre) win) * b <= B * b + a * (lastt t1 win - t1).
Proof. exact C18_window_l. Qed.
Print Assumptions C18_window.

(* a request is refused only when the identifier's own allowance is used up *)
Theorem C18_refuse_only_if_empty : forall a b B bk0 now,
  snd (allow a b B bk0 now) = false -> avail a b B bk0 now < b.
Proof. exact refuse_only_if_empty. Qed.
Print Assumptions C18_refuse_only_if_empty.

(* the middleware runs the handler exactly for admitted requests and answers 429 otherwise *)
Theorem C18_middleware : forall admitted, middleware admitted = if admitted then (0, true) else (429, false).
Proof. exact C18_middleware_l. Qed.
Print Assumptions C18_middleware.

(* non-vacuity: rate 1 token / 4 ticks, burst 2: two at once, refusal, refill after 4 ticks *)
Example C18_example :
  run 1 4 2 (fresh 4 2 0) [0; 0; 0; 3; 4; 4] = [true; true; false; false; true; false] /\ sorted_from 0 [0; 0; 0; 3; 4; 4].
Proof. vm_compute. repeat split; discriminate. Qed.

From Coq Require Import String ZArith.
From Echo Require Import Base.GoLite Gen.Src_mw_handlers Mw.HandlersSrc.
Open Scope Z_scope.

(* ---- the tie to the source by proof: the request handler (innermost closure) of RateLimiterWithConfig, translated
   statement by statement from middleware/rate_limiter.go on every run (Gen/Src_mw_handlers.v; language Base/GoLite.v).
   Not skipped and with an identifier: next is called exactly for admitted requests; a refused one goes to c.Error with
   the deny handler's answer and the middleware returns nil WITHOUT calling next - whatever the deny handler returned *)
Theorem C18_source_handler_admits : forall (sym : string -> Z) id allow aerr,
  let '(st', ret) := GoLite.run sym src_rate_limiter_handler_results src_rate_limiter_handler (rl_state 0 id (sym "nil") allow aerr) in
  called_next st' = negb (allow =? 0) /\
  (allow = 0 -> ret = [sym "nil"] /\
                List.last (events st') (""%string, []) = ("c.Error"%string, [sym "config.DenyHandler(c,identifier,err)"])) /\
  (allow <> 0 -> ret = [sym "result of next"] /\ List.last (names st') ""%string = "next"%string).
Proof. exact src_rate_limiter_handler_admits. Qed.
Print Assumptions C18_source_handler_admits.

(* a failing identifier extractor never reaches the store nor the handler *)
Theorem C18_source_handler_extractor_error : forall (sym : string -> Z) id eerr allow aerr, eerr <> sym "nil" ->
  let '(st', ret) := GoLite.run sym src_rate_limiter_handler_results src_rate_limiter_handler (rl_state 0 id eerr allow aerr) in
  called_next st' = false /\ ret = [sym "nil"] /\ existsb (String.eqb "config.Store.Allow") (names st') = false.
Proof. exact src_rate_limiter_handler_extractor_error. Qed.
Print Assumptions C18_source_handler_extractor_error.


(* ---- RateLimiterMemoryStore.Allow itself, from its statement-level translation (Gen/Src_ratestore.v, re-translated from
   middleware/rate_limiter.go on every run): a new visitor is stored in the map at once; lastSeen is set to this call's clock
   reading BEFORE the sweep test is reached (so the sweep a call triggers never takes the caller's own visitor); the sweep runs
   exactly when that reading is more than ExpiresIn after the last sweep; the bucket is asked once, for one token, and its
   answer is returned *)
From Coq Require Import ZArith String.
From Echo Require Import Base.GoLite Gen.Src_ratestore Mw.RateStoreSrc.
Theorem C18_source_store_allow : forall sym lim ex now now2 allowed since expires,
  let '(st', ret) := GoLite.run sym src_store_allow_results src_store_allow (RateStoreSrc.start lim ex now now2 allowed since expires) in
  ret = [allowed; sym "nil"%string] /\
  GoLite.get (GoLite.fields st') "limiter.lastSeen" = now /\
  GoLite.events st' = ([ev_lookup] ++ (if (ex =? 0)%Z then [ev_store sym] else []) ++ [ev_clock] ++
                (if (expires <? since)%Z then [ev_sweep] else []) ++ [ev_clock; ev_bucket now2])%list.
Proof. exact RateStoreSrc.C18_source_store_allow. Qed.
Print Assumptions C18_source_store_allow.
Theorem C18_source_last_seen_before_sweep : forall sym lim ex now now2 allowed since expires,
  let '(st', ret) := GoLite.exec sym src_store_allow_results (before_sweep src_store_allow) (RateStoreSrc.start lim ex now now2 allowed since expires) in
  ret = None /\ GoLite.get (GoLite.fields st') "limiter.lastSeen" = now /\ GoLite.get (GoLite.locals st') "limiter" = visitor sym lim ex /\
  (List.length (before_sweep src_store_allow) < List.length src_store_allow)%nat.
Proof. exact RateStoreSrc.C18_source_last_seen_before_sweep. Qed.
Print Assumptions C18_source_last_seen_before_sweep.
