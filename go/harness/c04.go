package main

import (
	"fmt"
	"io"
	iofs "io/fs"
	"math/rand"
	"net/http"
	"net/http/httptest"
	"strings"
	"testing/fstest"

	"github.com/labstack/echo/v4"
)

func init() {
	props["C04"] = &propRunner{gen: genC04, rule: "configurations of 6-22 registration operations (Pre incl. path-rewriting, Use, nested groups, host groups and sub-groups of host groups with 0-3 middlewares, Group.Use interleaved after routes, routes with 0-2 own middlewares, a few layers that fail without calling next) on one Echo instance x 6 requests each (inside / outside prefixes, prefix itself, misses inside groups, other hosts, failing handlers); instrumented layers append Enter/Exit/Handler events; non-trivial = trace with >= 3 layers of which >= 1 belongs to a group; distinct by (configuration, request)"}
}

type c04Group struct {
	g      *echo.Group
	id     int
	host   string
	prefix string
	mws    []int // current middleware ids (inherited first)
	own    []int // ids declared on this group itself
	parent int
	useSeq int // when this group last registered its catch-all routes (creation with middleware, or Use)
}

func genC04(rng *rand.Rand, n int, emit func(Case), dist map[string]int) {
	oldNF, oldMNA := echo.NotFoundHandler, echo.MethodNotAllowedHandler
	defer func() { echo.NotFoundHandler, echo.MethodNotAllowedHandler = oldNF, oldMNA }()
	var trace []Sx
	var handlerSeen bool
	codeOf := func(err error) int {
		if err == nil {
			return 0
		}
		if he, ok := err.(*echo.HTTPError); ok {
			return he.Code
		}
		return 500
	}
	echo.NotFoundHandler = func(c echo.Context) error {
		trace = append(trace, L(I(2), I(1000), I(404)))
		handlerSeen = true
		return echo.ErrNotFound
	}
	echo.MethodNotAllowedHandler = func(c echo.Context) error {
		trace = append(trace, L(I(2), I(1002), I(405)))
		handlerSeen = true
		return echo.ErrMethodNotAllowed
	}
	for it := 0; it < n; {
		e := echo.New()
		e.Logger.SetOutput(io.Discard)
		e.Filesystem = c04FS(func(h int) {
			if handlerSeen {
				return // the directory handler stats the file before it opens it
			}
			trace = append(trace, L(I(2), I(h), I(0)))
			handlerSeen = true
		})
		mwID := 0
		type mwDesc struct {
			id, kind int
			arg      string
			code     int
		}
		mwKinds := map[int]int{}
		useSeq := 0
		mkMW := func(allowRewrite bool) (echo.MiddlewareFunc, Sx, mwDesc) {
			mwID++
			d := mwDesc{id: mwID}
			defer func() { mwKinds[d.id] = d.kind }()
			switch r := rng.Intn(40); {
			case r == 0:
				d.kind, d.code = 2, []int{401, 403, 500}[rng.Intn(3)]
			case r < 6 && allowRewrite:
				d.kind, d.arg = 1, []string{"/api/a", "/g/x", "/a", "/api/v1/a", "/missing", "/admin"}[rng.Intn(6)]
			case r < 9 && allowRewrite:
				// a Pre middleware that canonicalises the Host: the router of the REWRITTEN host serves the request
				d.kind, d.arg = 3, []string{"api.example.com", "admin.example.com", "other.example.com", ""}[rng.Intn(4)]
			}
			id := d.id
			f := func(next echo.HandlerFunc) echo.HandlerFunc {
				return func(c echo.Context) error {
					trace = append(trace, L(I(0), I(id)))
					if d.kind == 2 {
						trace = append(trace, L(I(1), I(id), I(d.code)))
						return echo.NewHTTPError(d.code)
					}
					if d.kind == 1 {
						c.Request().URL.Path = d.arg
						c.Request().URL.RawPath = ""
					}
					if d.kind == 3 {
						c.Request().Host = d.arg
					}
					err := next(c)
					trace = append(trace, L(I(1), I(id), I(codeOf(err))))
					return err
				}
			}
			if d.kind == 0 && rng.Intn(8) == 0 {
				// the same pass-through layer written as a net/http middleware and adapted with echo.WrapMiddleware
				std := echo.WrapMiddleware(func(next http.Handler) http.Handler {
					return http.HandlerFunc(func(w http.ResponseWriter, r *http.Request) {
						trace = append(trace, L(I(0), I(id)))
						next.ServeHTTP(w, r)
					})
				})
				f = func(next echo.HandlerFunc) echo.HandlerFunc {
					inner := std(next)
					return func(c echo.Context) error {
						err := inner(c)
						trace = append(trace, L(I(1), I(id), I(codeOf(err))))
						return err
					}
				}
			}
			sx := L(I(id), I(d.kind), S(d.arg))
			if d.kind == 2 {
				sx = L(I(id), I(2), I(d.code))
			}
			return f, sx, d
		}
		mkMWs := func(k int) ([]echo.MiddlewareFunc, []Sx, []int) {
			var fs []echo.MiddlewareFunc
			var sxs []Sx
			var ids []int
			for i := 0; i < k; i++ {
				f, sx, d := mkMW(false)
				fs, sxs, ids = append(fs, f), append(sxs, sx), append(ids, d.id)
			}
			return fs, sxs, ids
		}
		var ops []Sx
		var groups []*c04Group
		var preIDs, useIDs []int
		hostUsed := map[string]bool{}
		type routeInfo struct {
			owner int
			chain []int
			full  string
			host  string
		}
		routes := map[int]routeInfo{}
		hID := 0
		var fullPaths []string
		addRoute := func(owner int) {
			hID++
			h := hID
			herr := 0
			if rng.Intn(6) == 0 {
				herr = []int{404, 418, 500}[rng.Intn(3)]
			}
			handler := func(c echo.Context) error {
				trace = append(trace, L(I(2), I(h), I(herr)))
				handlerSeen = true
				if herr != 0 {
					return echo.NewHTTPError(herr)
				}
				return nil
			}
			method := []string{"GET", "GET", "POST"}[rng.Intn(3)]
			path := []string{"/a", "/b/:id", "", "/", "/x/*", "/a/b", "/users"}[rng.Intn(7)]
			fs, sxs, ids := mkMWs([]int{0, 0, 1, 2}[rng.Intn(4)])
			if rng.Intn(7) == 0 {
				// one handler for several methods, with route-level middleware: Echo.Match / Group.Match
				if owner < 0 {
					e.Match([]string{"GET", "POST"}, path, handler, fs...)
					routes[h] = routeInfo{owner: -1, chain: ids, full: path}
					fullPaths = append(fullPaths, path)
				} else {
					g := groups[owner]
					g.g.Match([]string{"GET", "POST"}, path, handler, fs...)
					routes[h] = routeInfo{owner: owner, chain: append(append([]int(nil), g.mws...), ids...), full: g.prefix + path, host: g.host}
					fullPaths = append(fullPaths, g.prefix+path)
				}
				ops = append(ops, L(I(5), I(owner), S("GET"), S(path), I(h), I(herr), L(sxs...)), L(I(5), I(owner), S("POST"), S(path), I(h), I(herr), L(sxs...)))
				dist["match_registrations"]++
				return
			}
			if rng.Intn(8) == 0 {
				// the file-serving registration helpers: the handler is echo's own, seen through the file system it opens
				herr = 0
				root := fmt.Sprintf("h%d", h)
				sub := echo.MustSubFS(e.Filesystem, root)
				variant := rng.Intn(4)
				if variant < 2 || variant == 2 && owner >= 0 {
					fs, sxs, ids = nil, nil, nil // these helpers take no route-level middleware
				}
				if variant < 2 {
					path = []string{"/s", "/files/", "/"}[rng.Intn(3)]
				}
				switch {
				case owner < 0 && variant == 0:
					e.Static(path, root)
				case owner < 0 && variant == 1:
					e.StaticFS(path, sub)
				case owner < 0 && variant == 2:
					e.File(path, root+"/f.txt", fs...)
				case owner < 0:
					e.FileFS(path, "f.txt", sub, fs...)
				case variant == 0:
					groups[owner].g.Static(path, root)
				case variant == 1:
					groups[owner].g.StaticFS(path, sub)
				case variant == 2:
					groups[owner].g.File(path, root+"/f.txt")
				default:
					groups[owner].g.FileFS(path, "f.txt", sub, fs...)
				}
				if variant < 2 {
					path += "*"
				}
				if owner < 0 {
					routes[h] = routeInfo{owner: -1, chain: ids, full: path}
					fullPaths = append(fullPaths, path)
				} else {
					g := groups[owner]
					routes[h] = routeInfo{owner: owner, chain: append(append([]int(nil), g.mws...), ids...), full: g.prefix + path, host: g.host}
					fullPaths = append(fullPaths, g.prefix+path)
				}
				ops = append(ops, L(I(5), I(owner), S("GET"), S(path), I(h), I(0), L(sxs...)))
				dist[fmt.Sprintf("file_helper_variant_%d", variant)]++
				return
			}
			if owner < 0 {
				if method == "GET" && h%2 == 0 {
					e.GET(path, handler, fs...)
				} else {
					e.Add(method, path, handler, fs...)
				}
				routes[h] = routeInfo{owner: -1, chain: ids, full: path}
				fullPaths = append(fullPaths, path)
			} else {
				g := groups[owner]
				switch {
				case method == "GET" && h%2 == 0:
					g.g.GET(path, handler, fs...)
				case method == "POST" && h%2 == 0:
					g.g.POST(path, handler, fs...)
				default:
					g.g.Add(method, path, handler, fs...)
				}
				routes[h] = routeInfo{owner: owner, chain: append(append([]int(nil), g.mws...), ids...), full: g.prefix + path, host: g.host}
				fullPaths = append(fullPaths, g.prefix+path)
			}
			ops = append(ops, L(I(5), I(owner), S(method), S(path), I(h), I(herr), L(sxs...)))
		}
		mkSub := func(p *c04Group, nmw int) *c04Group {
			prefix := []string{"/v1", "/x", "/sub", ""}[rng.Intn(4)]
			fs, sxs, ids := mkMWs(nmw)
			g := &c04Group{id: len(groups), host: p.host, prefix: p.prefix + prefix, mws: append(append([]int(nil), p.mws...), ids...), own: ids, parent: p.id}
			g.g = p.g.Group(prefix, fs...)
			useSeq++
			g.useSeq = useSeq
			groups = append(groups, g)
			ops = append(ops, L(I(2), I(g.id), I(p.id), S(prefix), L(sxs...)))
			return g
		}
		nops := 6 + rng.Intn(17)
		for k := 0; k < nops; k++ {
			switch r := rng.Intn(20); {
			case r == 0:
				f, sx, d := mkMW(true)
				e.Pre(f)
				preIDs = append(preIDs, d.id)
				ops = append(ops, L(I(0), sx))
			case r <= 2:
				f, sx, d := mkMW(false)
				e.Use(f)
				useIDs = append(useIDs, d.id)
				ops = append(ops, L(I(1), sx))
			case r <= 5:
				prefix := []string{"", "/api", "/admin", "/g", "/api/v1"}[rng.Intn(5)]
				fs, sxs, ids := mkMWs(rng.Intn(4))
				g := &c04Group{id: len(groups), prefix: prefix, mws: ids, own: ids, parent: -1}
				g.g = e.Group(prefix, fs...)
				useSeq++
				g.useSeq = useSeq
				groups = append(groups, g)
				ops = append(ops, L(I(2), I(g.id), I(-1), S(prefix), L(sxs...)))
			case r <= 7 && len(groups) > 0:
				mkSub(groups[rng.Intn(len(groups))], rng.Intn(3))
			case r == 12 && len(groups) > 0:
				// several separate Use calls on a group (its middleware slice gets spare capacity), then TWO sibling
				// sub-groups with middleware of their own, routes registered only afterwards
				g := groups[rng.Intn(len(groups))]
				for u := 1 + rng.Intn(5); u > 0; u-- {
					fs, sxs, ids := mkMWs(1)
					g.g.Use(fs...)
					useSeq++
					g.useSeq = useSeq
					g.mws = append(g.mws, ids...)
					g.own = append(g.own, ids...)
					ops = append(ops, L(I(4), I(g.id), L(sxs...)))
				}
				s1 := mkSub(g, 1)
				s2 := mkSub(g, 1)
				addRoute(s1.id)
				addRoute(s2.id)
				addRoute(s1.id)
				dist["sibling_subgroups_after_use_burst"]++
			case r == 8:
				host := []string{"api.example.com", "admin.example.com"}[rng.Intn(2)]
				if hostUsed[host] {
					continue
				}
				hostUsed[host] = true
				fs, sxs, ids := mkMWs(rng.Intn(3))
				g := &c04Group{id: len(groups), host: host, mws: ids, own: ids, parent: -1}
				g.g = e.Host(host, fs...)
				useSeq++
				g.useSeq = useSeq
				groups = append(groups, g)
				ops = append(ops, L(I(3), I(g.id), S(host), L(sxs...)))
				addRoute(g.id) // every host router gets at least one route
			case r <= 10 && len(groups) > 0:
				g := groups[rng.Intn(len(groups))]
				fs, sxs, ids := mkMWs(1 + rng.Intn(2))
				g.g.Use(fs...)
				useSeq++
				g.useSeq = useSeq
				g.mws = append(g.mws, ids...)
				g.own = append(g.own, ids...)
				ops = append(ops, L(I(4), I(g.id), L(sxs...)))
			case r == 11 && len(groups) > 0:
				// burst: several separate Use calls (slice capacity slack), then sibling routes with own middleware
				g := groups[rng.Intn(len(groups))]
				for u := 1 + rng.Intn(3); u > 0; u-- {
					fs, sxs, ids := mkMWs(1)
					g.g.Use(fs...)
					useSeq++
					g.useSeq = useSeq
					g.mws = append(g.mws, ids...)
					g.own = append(g.own, ids...)
					ops = append(ops, L(I(4), I(g.id), L(sxs...)))
				}
				for u := 2 + rng.Intn(2); u > 0; u-- {
					addRoute(g.id)
				}
			default:
				owner := -1
				if len(groups) > 0 && rng.Intn(4) != 0 {
					owner = rng.Intn(len(groups))
				}
				addRoute(owner)
			}
		}
		for q := 0; q < 6 && it < n; q++ {
			it++
			host := ""
			if rng.Intn(3) == 0 {
				host = []string{"api.example.com", "admin.example.com", "other.example.com"}[rng.Intn(3)]
			}
			method := []string{"GET", "GET", "POST", "OPTIONS"}[rng.Intn(4)]
			var path string
			switch {
			case len(fullPaths) > 0 && rng.Intn(2) == 0:
				path = fullPaths[rng.Intn(len(fullPaths))]
				path = strings.NewReplacer(":id", "7", "*", "deep/er").Replace(path)
			case len(groups) > 0 && rng.Intn(2) == 0:
				g := groups[rng.Intn(len(groups))]
				path = g.prefix + []string{"", "/", "/missing", "/a/missing", "x"}[rng.Intn(5)]
			default:
				path = []string{"/", "/a", "/nothing", "/api", "/apix", "/admin/a"}[rng.Intn(6)]
			}
			if path == "" || path[0] != '/' {
				path = "/" + path
			}
			req := httptest.NewRequest(method, path, nil)
			if host != "" {
				req.Host = host
			}
			rec := httptest.NewRecorder()
			trace, handlerSeen = nil, false
			panicked := false
			func() {
				defer func() {
					if r := recover(); r != nil {
						panicked = true
					}
				}()
				e.ServeHTTP(rec, req)
			}()
			if !handlerSeen && rec.Code == http.StatusNoContent {
				// optionsMethodHandler is not exported: synthesise its event at the innermost position
				pos := 0
				for i, ev := range trace {
					if strings.HasPrefix(Show(ev), "(0 ") {
						pos = i + 1
					}
				}
				trace = append(trace[:pos:pos], append([]Sx{L(I(2), I(1003), I(0))}, trace[pos:]...)...)
			}
			finalErr := 0
			if len(trace) > 0 {
				last := Show(trace[len(trace)-1])
				var a, b, c int
				if n, _ := fmt.Sscanf(last, "(1 %d %d)", &a, &b); n == 2 {
					finalErr = b
				} else if n, _ := fmt.Sscanf(last, "(2 %d %d)", &a, &c); n == 2 {
					finalErr = c
				}
			}
			// ---- predicate on the implementation's trace alone
			ok, why := true, ""
			knownKey := ""
			if panicked {
				ok, why = false, "ServeHTTP panicked"
			}
			var stack []int
			seenEnter := map[int]int{}
			var order []int
			handlerID, handlerCnt := -1, 0
			lastCode := -1
			for _, ev := range trace {
				s := Show(ev)
				var a, b int
				switch {
				case strings.HasPrefix(s, "(0 "):
					fmt.Sscanf(s, "(0 %d)", &a)
					seenEnter[a]++
					stack = append(stack, a)
					order = append(order, a)
					if handlerCnt > 0 {
						ok, why = false, "a middleware ran after the handler"
					}
				case strings.HasPrefix(s, "(1 "):
					fmt.Sscanf(s, "(1 %d %d)", &a, &b)
					if len(stack) == 0 || stack[len(stack)-1] != a {
						ok, why = false, fmt.Sprintf("layers do not unwind in reverse order: exit of %d", a)
					} else {
						stack = stack[:len(stack)-1]
					}
					if lastCode >= 0 && b != lastCode {
						ok, why = false, fmt.Sprintf("layer %d saw error %d but %d was returned below", a, b, lastCode)
					}
					lastCode = b
				case strings.HasPrefix(s, "(2 "):
					fmt.Sscanf(s, "(2 %d %d)", &a, &b)
					handlerID = a
					handlerCnt++
					lastCode = b
				}
			}
			if len(stack) != 0 {
				ok, why = false, "a layer was entered but never left"
			}
			for id, c := range seenEnter {
				if c != 1 {
					ok, why = false, fmt.Sprintf("layer %d ran %d times", id, c)
				}
			}
			if handlerCnt > 1 {
				ok, why = false, "more than one handler ran"
			}
			// order: Pre ids, then Use ids (both in registration order), then the rest
			if ok {
				want := append(append([]int(nil), preIDs...), useIDs...)
				for i := 0; i < len(order) && i < len(want); i++ {
					if order[i] != want[i] {
						ok, why = false, fmt.Sprintf("layers entered in order %v, Pre then Use are %v", order, want)
						break
					}
				}
			}
			// chain of a real route = snapshot at registration
			if ok && handlerCnt == 1 {
				if ri, isRoute := routes[handlerID]; isRoute {
					got := order
					if len(got) >= len(preIDs)+len(useIDs) {
						got = got[len(preIDs)+len(useIDs):]
					}
					if fmt.Sprint(got) != fmt.Sprint(ri.chain) {
						ok, why = false, fmt.Sprintf("route handler %d ran behind layers %v, its chain at registration was %v", handlerID, got, ri.chain)
					}
				}
			}
			// a group's own middleware never runs outside its prefix / host
			effPath := req.URL.Path
			origHost := host
			host = req.Host // (what the Pre middlewares left behind)
			if ok {
				for _, g := range groups {
					under := (effPath == g.prefix || strings.HasPrefix(effPath, g.prefix+"/") || g.prefix == "") && (g.host == "" || g.host == host)
					for _, id := range g.own {
						if seenEnter[id] > 0 && !under {
							ok, why = false, fmt.Sprintf("middleware %d of group %d (host %q prefix %q) ran for Host %q path %q", id, g.id, g.host, g.prefix, host, effPath)
						}
					}
				}
			}
			// group middleware runs for every request under the prefix that no route outside the group claims.
			// Judged for the innermost group with middleware (own or inherited) that covers the request (its catch-all
			// routes were registered last among groups with the same prefix); skipped when a layer above
			// answered by itself.
			if ok {
				shortCircuit := false
				for id := range seenEnter {
					shortCircuit = shortCircuit || mwKinds[id] == 2
				}
				routerHost := ""
				if hostUsed[host] {
					routerHost = host
				}
				var best *c04Group
				for _, g := range groups {
					under := g.prefix == "" || effPath == g.prefix || strings.HasPrefix(effPath, g.prefix+"/")
					if len(g.mws) == 0 || !under || g.host != routerHost {
						continue
					}
					if best == nil || len(g.prefix) > len(best.prefix) || len(g.prefix) == len(best.prefix) && g.useSeq > best.useSeq {
						best = g
					}
				}
				// a route handler that ran is judged by the chain check above (its chain is the snapshot taken
				// when it was registered); this clause is about requests that no route handler served
				_, claimed := routes[handlerID]
				if best != nil && !shortCircuit && !claimed {
					dist["group_coverage_judged"]++
					for _, id := range best.mws {
						if seenEnter[id] == 0 {
							ok, why = false, fmt.Sprintf("Host %q %s %s lies under group %d (host %q prefix %q) and is not claimed by a route outside it, but the group's middleware %d did not run (status %d)", host, method, effPath, best.id, best.host, best.prefix, id, rec.Code)
							// known finding D11 seen through groups: the path is registered (for other methods) on a node that
							// carries this group's not-found route, and the catch-all WILDCARD of an enclosing group ends the search first
							exists, outer := false, false
							for _, ri := range routes {
								if ri.host == routerHost && c04PatMatches(ri.full, effPath) {
									exists = true
								}
							}
							for _, g2 := range groups {
								if g2.host == routerHost && len(g2.mws) > 0 && len(g2.prefix) < len(best.prefix) && (g2.prefix == "" || strings.HasPrefix(effPath, g2.prefix+"/")) {
									outer = true
								}
							}
							if exists && outer && handlerID == 1000 {
								knownKey = "known:router.nf_wildcard_preempts"
							}
							break
						}
					}
				}
			}
			in := L(L(ops...), L(S(origHost), S(method), S(path)))
			cs := Case{In: in, Out: L(L(trace...), I(finalErr)), Ok: ok, Why: why,
				Human: fmt.Sprintf("%d registration ops, %d groups; Host=%q %s %s (routed as Host %q path %q) -> trace %s status %d", len(ops), len(groups), origHost, method, path, host, effPath, Show(L(trace...)), rec.Code)}
			grp := false
			for _, g := range groups {
				for _, id := range g.own {
					grp = grp || seenEnter[id] > 0
				}
			}
			if len(order) >= 3 && grp {
				cs.Key = Show(in)
			}
			if knownKey != "" {
				cs.Key = knownKey
			}
			dist[fmt.Sprintf("layers_%02d", len(order))]++
			if handlerID >= 1000 {
				dist[fmt.Sprintf("builtin_handler_%d", handlerID)]++
			}
			emit(cs)
		}
	}
}

// c04PatMatches: does the route pattern (":id" segments, trailing "*") match the path exactly
func c04PatMatches(pat, p string) bool {
	if pat == "" {
		pat = "/"
	}
	ps, xs := strings.Split(pat, "/"), strings.Split(p, "/")
	for i, seg := range ps {
		if seg == "*" {
			return len(xs) >= i+1
		}
		if i >= len(xs) {
			return false
		}
		if strings.HasPrefix(seg, ":") {
			if xs[i] == "" {
				return false
			}
			if i == len(ps)-1 {
				return true // a trailing parameter takes the rest
			}
			continue
		}
		if seg != xs[i] {
			return false
		}
	}
	return len(ps) == len(xs)
}

// c04FS: a file system in which every name "h<id>/..." is a small regular file; opening it reports the id
// (the handlers of Static, StaticFS, File and FileFS are echo's own and are observed through this)
type c04FS func(h int)

var c04Files = fstest.MapFS{"f": &fstest.MapFile{Data: []byte("static")}}

func (f c04FS) Open(name string) (iofs.File, error) {
	var h int
	if n, _ := fmt.Sscanf(name, "h%d", &h); n == 1 {
		f(h)
	}
	return c04Files.Open("f")
}
