From Coq Require Import List Bool Ascii String ZArith Lia.
From Echo Require Import Base.Sx Bind.ParseNum Bind.ValueBinder Gen.Src_binder.
Import ListNotations.
Open Scope Z_scope.

(* ---------- decimal notation *)
Definition is_digit (c : ascii) : bool := match digit c with Some _ => true | None => false end.
Definition dval (c : ascii) : Z := match digit c with Some d => d | None => 0 end.
(* the value a digit string denotes *)
Definition value (ds : str) : Z := fold_left (fun acc c => acc * 10 + dval c) ds 0.

Lemma digits_val_spec : forall s acc, digits_val s acc =
  if forallb is_digit s then Some (fold_left (fun a c => a * 10 + dval c) s acc) else None.
Proof.
  induction s as [|c r IH]; intro acc; cbn [digits_val forallb fold_left]; [reflexivity|].
  destruct (digit c) as [d|] eqn:E.
  - assert (H1 : is_digit c = true) by (unfold is_digit; rewrite E; reflexivity).
    assert (H2 : dval c = d) by (unfold dval; rewrite E; reflexivity).
    rewrite H1, H2. cbn [andb]. apply IH.
  - assert (H1 : is_digit c = false) by (unfold is_digit; rewrite E; reflexivity).
    rewrite H1. reflexivity.
Qed.

Lemma digit_range c d : digit c = Some d -> 0 <= d <= 9.
Proof. unfold digit. destruct (_ && _) eqn:E; [|discriminate]. intro H; inversion H; subst.
  apply andb_true_iff in E as [E1 E2]. apply Z.leb_le in E1, E2. lia. Qed.

Lemma fold_nonneg : forall s acc, 0 <= acc -> 0 <= fold_left (fun a c => a * 10 + dval c) s acc.
Proof. induction s as [|c r IH]; intros acc H; simpl; [exact H|]. apply IH.
  unfold dval. destruct (digit c) as [d|] eqn:E; [pose proof (digit_range _ _ E)|]; lia. Qed.

Lemma value_nonneg ds : 0 <= value ds.
Proof. unfold value. apply fold_nonneg. lia. Qed.

(* what text denotes an integer: optional sign, at least one ASCII digit, nothing else *)
Inductive denotes : str -> Z -> Prop :=
| den_plain ds : ds <> [] -> forallb is_digit ds = true -> denotes ds (value ds)
| den_plus ds : ds <> [] -> forallb is_digit ds = true -> denotes ("+"%char :: ds) (value ds)
| den_minus ds : ds <> [] -> forallb is_digit ds = true -> denotes ("-"%char :: ds) (- value ds).
Inductive denotes_u : str -> Z -> Prop :=
| denu ds : ds <> [] -> forallb is_digit ds = true -> denotes_u ds (value ds).

Lemma not_digit_sign : is_digit "+"%char = false /\ is_digit "-"%char = false.
Proof. split; reflexivity. Qed.

Theorem parse_uint_exact bits s z :
  parse_uint bits s = Some z <-> (denotes_u s z /\ 0 <= z < 2 ^ eff bits).
Proof.
  unfold parse_uint. split.
  - destruct s as [|c r]; [discriminate|]. rewrite digits_val_spec.
    destruct (forallb is_digit (c :: r)) eqn:Ed; [|discriminate].
    destruct (_ <? _) eqn:El; [|discriminate]. intro H; inversion H; subst. apply Z.ltb_lt in El.
    split; [constructor; [discriminate|exact Ed]|]. split; [exact (value_nonneg (c :: r))|exact El].
  - intros [Hd [H0 H1]]. destruct Hd as [ds Hne Hd]. destruct ds as [|c r]; [congruence|].
    rewrite digits_val_spec, Hd. fold (value (c :: r)). apply Z.ltb_lt in H1. rewrite H1. reflexivity.
Qed.

Lemma parse_mag_exact bits neg body z : parse_mag bits neg body = Some z <->
  (body <> [] /\ forallb is_digit body = true /\ z = (if neg then - value body else value body) /\
   - 2 ^ (eff bits - 1) <= z < 2 ^ (eff bits - 1)).
Proof.
  unfold parse_mag. split.
  - destruct body as [|c r]; [discriminate|]. rewrite digits_val_spec.
    destruct (forallb is_digit (c :: r)); [|discriminate]. cbv zeta. fold (value (c :: r)).
    destruct (_ && _) eqn:Er; [|discriminate]. intro H; inversion H; subst.
    apply andb_true_iff in Er as [E1 E2]. apply Z.leb_le in E1. apply Z.ltb_lt in E2.
    split; [discriminate|]. auto.
  - intros [Hne [Hd [-> [H0 H1]]]]. destruct body as [|c r]; [congruence|].
    rewrite digits_val_spec, Hd. cbv zeta. fold (value (c :: r)).
    replace ((- 2 ^ (eff bits - 1) <=? _) && _) with true; [reflexivity|].
    symmetry. apply andb_true_iff. split; [apply Z.leb_le|apply Z.ltb_lt]; lia.
Qed.

Theorem parse_int_exact bits s z :
  parse_int bits s = Some z <-> (denotes s z /\ - 2 ^ (eff bits - 1) <= z < 2 ^ (eff bits - 1)).
Proof.
  unfold parse_int, split_sign. split.
  - destruct s as [|c r]; [intro H; apply parse_mag_exact in H as [H _]; congruence|].
    destruct (Ascii.eqb c "+"%char) eqn:Ep; [|destruct (Ascii.eqb c "-"%char) eqn:Em];
      intro H; apply parse_mag_exact in H as [Hne [Hd [-> Hr]]].
    + apply Ascii.eqb_eq in Ep. subst c. split; [constructor; assumption|exact Hr].
    + apply Ascii.eqb_eq in Em. subst c. split; [constructor; assumption|exact Hr].
    + split; [constructor; assumption|exact Hr].
  - intros [Hd Hr]. destruct Hd as [ds Hne Hd|ds Hne Hd|ds Hne Hd].
    + destruct ds as [|c r]; [congruence|].
      assert (Hc : is_digit c = true) by (simpl in Hd; apply andb_true_iff in Hd; tauto).
      destruct (Ascii.eqb c "+"%char) eqn:Ep; [apply Ascii.eqb_eq in Ep; subst c; discriminate|].
      destruct (Ascii.eqb c "-"%char) eqn:Em; [apply Ascii.eqb_eq in Em; subst c; discriminate|].
      apply parse_mag_exact. split; [discriminate|]. auto.
    + cbn [Ascii.eqb Bool.eqb]. apply parse_mag_exact. auto.
    + cbn [Ascii.eqb Bool.eqb]. apply parse_mag_exact. auto.
Qed.

(* ---------- conversions are the identity inside the range *)
Lemma wrap_u_id w z : 0 <= z < 2 ^ w -> wrap_u w z = z.
Proof. intro H. unfold wrap_u. apply Z.mod_small. exact H. Qed.

Lemma wrap_s_id w z : 0 < w -> - 2 ^ (w - 1) <= z < 2 ^ (w - 1) -> wrap_s w z = z.
Proof.
  intros Hw H. unfold wrap_s. assert (E : 2 ^ w = 2 * 2 ^ (w - 1)).
  { replace w with (1 + (w - 1)) at 1 by lia. rewrite Z.pow_add_r by lia. reflexivity. }
  rewrite Z.mod_small by lia. lia.
Qed.

(* ---------- the generated tables: parser width = conversion width = destination width *)
Definition entry_ok (e : entry) : bool :=
  (eff (bits e) =? cw e) && (cw e =? dw e) && (0 <? cw e) && (0 <=? bits e).
Definition int_fam (e : entry) : bool := (fam e =? 0) || (fam e =? 1).

Lemma scalars_ok : forallb (fun t => entry_ok (snd (dec_entry t))) binder_scalars = true.
Proof. vm_compute. reflexivity. Qed.
Lemma slices_ok : forallb (fun t => entry_ok (snd (dec_entry t))) binder_slices = true.
Proof. vm_compute. reflexivity. Qed.
Lemma kinds_ok : forallb (fun t => let '(_, _, b, w) := t in (eff b =? w) && (0 <? w)) bind_kinds = true.
Proof. vm_compute. reflexivity. Qed.

Lemma find_entry_ok tbl name e : forallb (fun t => entry_ok (snd (dec_entry t))) tbl = true ->
  find_entry tbl name = Some e -> entry_ok e = true.
Proof.
  induction tbl as [|t r IH]; intros H F; [discriminate|]. simpl in H. apply andb_true_iff in H as [Ht Hr].
  simpl in F. destruct (dec_entry t) as [n e0] eqn:Ed. destruct (String.eqb n name).
  - inversion F; subst. exact Ht.
  - apply IH; assumption.
Qed.

Section WithOracle.
Variable orc : Z -> Z -> str -> option Z.

(* ---------- exact or error, never wrapped *)
Theorem convert_exact e s dest x : entry_ok e = true -> int_fam e = true ->
  convert orc e s dest = (x, false) -> parse orc (fam e) (bits e) s = Some x.
Proof.
  unfold entry_ok, int_fam, convert. intros Hok Hf H.
  apply andb_true_iff in Hok as [Hok H4]. apply andb_true_iff in Hok as [Hok H3]. apply andb_true_iff in Hok as [H1 H2].
  apply Z.eqb_eq in H1, H2. apply Z.ltb_lt in H3.
  destruct (parse orc (fam e) (bits e) s) as [n|] eqn:Ep; [|inversion H].
  apply Z.ltb_lt in H3. rewrite H3 in H. inversion H; subst. f_equal. apply Z.ltb_lt in H3.
  unfold parse in Ep. unfold wrap. destruct (fam e =? 0) eqn:Ef.
  - apply parse_int_exact in Ep as [_ Hr]. rewrite H1 in Hr. symmetry. apply wrap_s_id; assumption.
  - destruct (fam e =? 1) eqn:E1; [|rewrite ?Ef in Hf; simpl in Hf; discriminate].
    apply parse_uint_exact in Ep as [_ Hr]. rewrite H1 in Hr. symmetry. apply wrap_u_id; assumption.
Qed.

Theorem convert_error_unchanged e s dest x : convert orc e s dest = (x, true) -> x = dest.
Proof. unfold convert. destruct (parse _ _ _ s); intro H; inversion H; reflexivity. Qed.

Theorem scalar_error_unchanged e v dest x : scalar_call orc e v dest = (x, true) -> x = dest.
Proof. unfold scalar_call. destruct v; [intro H; inversion H; reflexivity|apply convert_error_unchanged]. Qed.

Theorem scalar_exact e v dest x : entry_ok e = true -> int_fam e = true -> v <> [] ->
  scalar_call orc e v dest = (x, false) -> parse orc (fam e) (bits e) v = Some x.
Proof. intros Hok Hf Hne. unfold scalar_call. destruct v; [congruence|]. apply convert_exact; assumption. Qed.

Theorem scalar_absent e dest : scalar_call orc e [] dest = (dest, must e).
Proof. reflexivity. Qed.

Theorem slice_error_unchanged e ff had vs dest x : slice_call orc e ff had vs dest = (x, true) -> x = dest.
Proof. unfold slice_call. destruct vs as [|v0 vr]; [intro H; inversion H; reflexivity|].
  destruct (fill orc e ff (v0 :: vr)) as [tmp err]. destruct (had || err); intro H; inversion H; reflexivity. Qed.

Lemma fill_exact e : entry_ok e = true -> int_fam e = true -> forall vs xs,
  fill orc e false vs = (xs, false) -> map (parse orc (fam e) (bits e)) vs = map Some xs.
Proof.
  intros Hok Hf. induction vs as [|v r IH]; intros xs H; simpl in H; [inversion H; reflexivity|].
  destruct (convert orc e v 0) as [x err] eqn:Ec. rewrite andb_false_r in H.
  destruct (fill orc e false r) as [xs' errs] eqn:Ef. inversion H; subst.
  apply orb_false_iff in H2 as [-> ->]. simpl. rewrite (convert_exact e v 0 x Hok Hf Ec). f_equal. apply IH. reflexivity.
Qed.

(* ---------- fail-fast: after the first error nothing is written *)
Definition initial (c : call) : dest_val :=
  match c with CScalar _ _ d => DScalar d | CSlice _ _ d => DSlice d end.

Theorem failfast_nothing_after_error : forall cs, chain orc true true cs = (map initial cs, true).
Proof. induction cs as [|c r IH]; [reflexivity|]. cbn [chain]. cbn [andb].
  destruct c; cbn [orb initial map]; rewrite IH; reflexivity. Qed.

(* ---------- struct binding *)
Theorem bind_kind_exact k v dest x f b w : find_kind bind_kinds k = Some (f, b, w) -> (f = 0 \/ f = 1) ->
  bind_kind orc k v dest = Some (x, false) ->
  parse orc f b (match v with [] => zero_text f | _ => v end) = Some x.
Proof.
  intros Hk Hf H. unfold bind_kind in H. rewrite Hk in H.
  assert (Hok : eff b = w /\ 0 < w).
  { pose proof kinds_ok as K. rewrite forallb_forall in K.
    assert (Hin : In (k, f, b, w) bind_kinds \/ exists k', In (k', f, b, w) bind_kinds).
    { right. clear - Hk. induction bind_kinds as [|[[[n f0] b0] w0] r IH]; [discriminate|]. simpl in Hk.
      destruct (String.eqb n k); [inversion Hk; subst; exists n; left; reflexivity|].
      destruct (IH Hk) as [k' Hin]. exists k'. right. exact Hin. }
    destruct Hin as [Hin|[k' Hin]]; specialize (K _ Hin); cbv beta iota in K;
      apply andb_true_iff in K as [K1 K2]; apply Z.eqb_eq in K1; apply Z.ltb_lt in K2; auto. }
  destruct Hok as [He Hw].
  destruct (parse orc f b _) as [n|] eqn:Ep; [|inversion H]. inversion H; subst x. f_equal.
  unfold parse in Ep. unfold wrap. destruct Hf as [-> | ->]; cbn [Z.eqb Pos.eqb] in *.
  - apply parse_int_exact in Ep as [_ Hr]. rewrite He in Hr. symmetry. apply wrap_s_id; assumption.
  - apply parse_uint_exact in Ep as [_ Hr]. rewrite He in Hr. symmetry. apply wrap_u_id; assumption.
Qed.

(* ---------- oracle families (float, bool, duration): exactly what the library parser returned, or an error *)
Lemma parse_oracle f b s : 2 <= f -> parse orc f b s = orc f b s.
Proof. intro H. unfold parse. destruct (f =? 0) eqn:E0; [apply Z.eqb_eq in E0; lia|].
  destruct (f =? 1) eqn:E1; [apply Z.eqb_eq in E1; lia|]. reflexivity. Qed.
Lemma wrap_oracle f w z : 2 <= f -> wrap f w z = z.
Proof. intro H. unfold wrap. destruct (f =? 0) eqn:E0; [apply Z.eqb_eq in E0; lia|].
  destruct (f =? 1) eqn:E1; [apply Z.eqb_eq in E1; lia|]. reflexivity. Qed.

Theorem convert_oracle e s dest x : 0 < cw e -> 2 <= fam e ->
  convert orc e s dest = (x, false) -> orc (fam e) (bits e) s = Some x.
Proof.
  intros Hc Hf. unfold convert. rewrite parse_oracle by exact Hf.
  destruct (orc (fam e) (bits e) s) as [n|]; [|discriminate].
  apply Z.ltb_lt in Hc. rewrite Hc, wrap_oracle by exact Hf. intro H; inversion H; reflexivity.
Qed.

Theorem scalar_oracle e v dest x : 0 < cw e -> 2 <= fam e -> v <> [] ->
  scalar_call orc e v dest = (x, false) -> orc (fam e) (bits e) v = Some x.
Proof. intros Hc Hf Hne. unfold scalar_call. destruct v; [congruence|]. apply convert_oracle; assumption. Qed.

Lemma fill_oracle e : 0 < cw e -> 2 <= fam e -> forall vs xs,
  fill orc e false vs = (xs, false) -> map (orc (fam e) (bits e)) vs = map Some xs.
Proof.
  intros Hc Hf. induction vs as [|v r IH]; intros xs H; simpl in H; [inversion H; reflexivity|].
  destruct (convert orc e v 0) as [x err] eqn:Ec. rewrite andb_false_r in H.
  destruct (fill orc e false r) as [xs' errs] eqn:Ef. inversion H; subst.
  apply orb_false_iff in H2 as [-> ->]. simpl. rewrite (convert_oracle e v 0 x Hc Hf Ec). f_equal. apply IH. reflexivity.
Qed.

Theorem bind_kind_oracle k v dest x f b w : find_kind bind_kinds k = Some (f, b, w) -> 2 <= f ->
  bind_kind orc k v dest = Some (x, false) ->
  orc f b (match v with [] => zero_text f | _ => v end) = Some x.
Proof.
  intros Hk Hf H. unfold bind_kind in H. rewrite Hk in H. rewrite parse_oracle in H by exact Hf.
  destruct (orc f b _) as [n|]; [|inversion H]. rewrite wrap_oracle in H by exact Hf. inversion H; reflexivity.
Qed.
End WithOracle.
